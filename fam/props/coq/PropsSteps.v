(* PropsSteps.v -- every function of storage.c is a local step on the object it is applied to. *)
From Coq Require Import NArith ZArith List Bool Arith Lia.
From Props Require Import Heap HeapFacts PropsModel PropsString PropsInv.
Import ListNotations.

Lemma fld_eq_dec : forall f g : fld, {f = g} + {f <> g}.
Proof. decide equality. Qed.

Lemma getf_setf_same : forall f s p, getf f (setf f s p) = s.
Proof. destruct f; reflexivity. Qed.

Lemma getf_setf_other : forall f g s p, g <> f -> getf g (setf f s p) = getf g p.
Proof. destruct f, g; simpl; intros; congruence. Qed.

Lemma dims_setf : forall f s p, dims (setf f s p) = dims p.
Proof. destruct f; reflexivity. Qed.

Lemma getf_set_dims : forall f d p, getf f (set_dims d p) = getf f p.
Proof. destruct f; reflexivity. Qed.

Lemma odims_setf : forall h f s p, odims h (setf f s p) = odims h p.
Proof. intros. unfold odims. now rewrite dims_setf. Qed.

(* the source of a copy_string is caller memory, or a string of some other object *)
Definition src_ext (h : heap) (p : props) (src : srcv) : Prop :=
  match src with
  | SrcC c => wf_cstr c = true
  | SrcS s => str_ok h s /\ forall y, str s = Some y -> ~ owned h p y
  end.

Lemma str_ok_dst_pre : forall h s, str_ok h s -> dst_pre h s.
Proof.
  intros h s O. unfold str_ok, dst_pre in *. destruct (str s); auto.
  destruct O as (R & d & C & _ & L & _). split; auto. exists d. auto.
Qed.

Lemma src_ext_pre : forall h p src s0, src_ext h p src -> (forall y, str s0 = Some y -> owned h p y) -> src_pre h s0 src.
Proof.
  intros h p [c|s] s0 E Ow; simpl in *; auto.
  destruct E as (O & No). unfold str_ok in O. destruct (str s) as [y|] eqn:Sy; auto.
  destruct O as (_ & d & C & _ & L & _). split.
  - intros S0. apply (No y eq_refl). now apply Ow.
  - exists d. auto.
Qed.

(* the string copy_string leaves in dst is well-formed *)
Lemma copied_str_ok : forall h' x n data l,
  cells h' x = Some (PBytes data) -> n <= length data -> 1 <= n ->
  firstn n data = term l -> length l = n ->
  str_ok h' (mkS (Some x) n false).
Proof.
  intros h' x n data l C L N T Ll. unfold str_ok. simpl. split; auto.
  exists data. repeat split; auto.
  assert (E : nth (n - 1) data 1%N = nth (n - 1) (firstn n data) 1%N).
  { rewrite <- (firstn_skipn n data) at 1. rewrite app_nth1; auto. rewrite firstn_length. lia. }
  rewrite E, T. rewrite <- (term_length l) in * by lia.
  replace n with (length (term l)) by (rewrite term_length; lia). apply term_last.
Qed.

(* ---------------------------------------------------------------- copy_string into one of the four string fields *)
Lemma field_step : forall f h p src h' s' ok,
  bad h = false -> heap_ok h -> obj_ok h p ->
  copy_string h (getf f p) src = (h', s', ok) -> src_ext h p src ->
  ok = true /\
  (local_step h p h' (setf f s' p) /\ forall q', q' <> QStr f -> q' <> QArr -> stable h p h' (setf f s' p) q') /\
  exists x data,
    s' = mkS (Some x) (eff_n src) false /\ cells h' x = Some (PBytes data) /\ eff_n src <= length data /\
    firstn (eff_n src) data = term (eff_bytes h src) /\ length (eff_bytes h src) = eff_n src /\
    (forall y, y <> x -> str (getf f p) <> Some y -> cells h' y = cells h y).
Proof.
  intros f h p src h' s' ok B H O E X.
  assert (A0 : ostring_at h p (QStr f) = Some (getf f p)) by reflexivity.
  assert (S0 : str_ok h (getf f p)) by (eapply ok_str; eauto).
  assert (OW : forall y, str (getf f p) = Some y -> owned h p y) by (intros y Sy; exists (QStr f); exact Sy).
  destruct (copy_string_spec _ _ _ _ _ _ E B H (str_ok_dst_pre _ _ S0) (src_ext_pre _ _ _ _ X OW))
    as (Ok & B' & H' & Nx & x & data & -> & C & L & N1 & T & Ll & Alt & F1 & F2).
  split; auto.
  assert (So : str_ok h' (mkS (Some x) (eff_n src) false)) by (eapply copied_str_ok; eauto).
  (* the dimension array is neither the old nor the new allocation *)
  assert (AF : forall a, ddata (dims p) = Some a -> cells h' a = cells h a).
  { intros a Da. apply F1.
    - intros ->. destruct Alt as [Sx|Ge].
      + assert (QArr = QStr f) by (apply (ok_inj _ _ O QArr (QStr f) x); auto). discriminate.
      + assert (x < next h) by (apply H; eapply owned_live; eauto; exists QArr; exact Da). lia.
    - intros Sa. assert (QArr = QStr f) by (apply (ok_inj _ _ O QArr (QStr f) a); auto). discriminate. }
  assert (OD : odims h' (setf f (mkS (Some x) (eff_n src) false) p) = odims h p).
  { rewrite odims_setf. now apply odims_frame. }
  split.
  - apply slot_step with (q := QStr f) (s0 := getf f p) (s' := mkS (Some x) (eff_n src) false); auto.
    + simpl. now rewrite getf_setf_same.
    + intros q' Nq. destruct q' as [g| |k]; simpl.
      * rewrite getf_setf_other by congruence. auto.
      * now rewrite dims_setf.
      * now rewrite OD.
    + simpl. intros y Ey. inversion Ey; subst. exact Alt.
    + simpl. intros y Ny N0 _. apply F1; congruence.
    + simpl. intros y S0y Ny. apply F2; congruence.
    + pose proof (ok_arr _ _ O) as R. unfold arr_ok in *. rewrite dims_setf.
      destruct (ddata (dims p)) as [a|] eqn:Da; auto. now rewrite AF.
  - exists x, data. repeat split; auto.
Qed.

(* ---------------------------------------------------------------- destroy of one string field *)
Lemma destroy_field_step : forall f h p h' p',
  bad h = false -> heap_ok h -> obj_ok h p ->
  destroy_field f h p = (h', p') ->
  (local_step h p h' p' /\ forall q', q' <> QStr f -> q' <> QArr -> stable h p h' p' q') /\
  str (getf f p') = None /\ dims p' = dims p /\
  (forall g, g <> f -> getf g p' = getf g p).
Proof.
  intros f h p h' p' B H O E. unfold destroy_field in E.
  assert (S0 : str_ok h (getf f p)) by (apply (ok_str _ _ O (QStr f)); reflexivity).
  destruct (str (getf f p)) as [x|] eqn:Sx.
  - unfold str_ok in S0. rewrite Sx in S0. destruct S0 as (R & d & C & _).
    rewrite R in E. rewrite (free_ok _ _ _ C) in E. inversion E; subst; clear E.
    assert (AF : forall a, ddata (dims p) = Some a -> cells (rm h x) a = cells h a).
    { intros a Da. apply rm_cells_other. intros ->.
      assert (QArr = QStr f) by (apply (ok_inj _ _ O QArr (QStr f) x); auto). discriminate. }
    split; [|split; [now rewrite getf_setf_same | split; [apply dims_setf | intros; now apply getf_setf_other]]].
    apply slot_step with (q := QStr f) (s0 := getf f p) (s' := zero_string); auto.
    + now apply rm_heap_ok.
    + simpl. now rewrite getf_setf_same.
    + exact I.
    + intros q' Nq. destruct q' as [g| |k]; simpl.
      * rewrite getf_setf_other by congruence. auto.
      * now rewrite dims_setf.
      * rewrite odims_setf, (odims_frame h (rm h x)); auto.
    + simpl. discriminate.
    + intros y _ Ny _. apply rm_cells_other. congruence.
    + intros y Sy _. assert (y = x) by congruence. subst. apply rm_cells_same.
    + pose proof (ok_arr _ _ O) as A. unfold arr_ok in *. rewrite dims_setf.
      destruct (ddata (dims p)) as [a|] eqn:Da; auto. now rewrite AF.
  - assert (h' = h /\ p' = p) as (-> & ->) by (destruct (is_ref (getf f p)); inversion E; auto).
    split; [|auto]. split; [apply local_step_same_pointers; auto | intros; apply stable_refl].
Qed.

(* ---------------------------------------------------------------- storage_dimension_destroy on slot k *)
Lemma odims_arr : forall h p a l, ddata (dims p) = Some a -> cells h a = Some (PDims l) -> odims h p = l.
Proof. intros h p a l D C. unfold odims, get_dims. now rewrite D, C. Qed.

Lemma dim_destroy_step : forall h p a k l,
  bad h = false -> heap_ok h -> obj_ok h p ->
  ddata (dims p) = Some a -> cells h a = Some (PDims l) -> k < length l ->
  let h' := dim_destroy h a k in
  (local_step h p h' p /\ forall q', q' <> QName k -> q' <> QArr -> stable h p h' p q') /\
  cells h' a = Some (PDims (set_nth k zero_dim l)) /\
  (forall y, y <> a -> str (name (nth k l zero_dim)) <> Some y -> cells h' y = cells h y).
Proof.
  intros h p a k l B H O D C Lk.
  assert (OD : odims h p = l) by (eapply odims_arr; eauto).
  set (d := nth k l zero_dim).
  assert (Nd : nth_error l k = Some d) by (apply nth_error_nth'; auto).
  assert (A0 : ostring_at h p (QName k) = Some (name d)) by (simpl; rewrite OD, Nd; reflexivity).
  assert (S0 : str_ok h (name d)) by (eapply ok_str; eauto).
  (* the heap after the conditional free *)
  assert (exists h1, dim_destroy h a k = wr h1 a (PDims (set_nth k zero_dim l)) /\ bad h1 = false /\ heap_ok h1 /\
            next h1 = next h /\ cells h1 a = Some (PDims l) /\
            (forall y, str (name d) <> Some y -> cells h1 y = cells h y) /\
            (forall y, str (name d) = Some y -> cells h1 y = None)) as (h1 & E & B1 & H1 & N1 & C1 & F1 & F2).
  { unfold dim_destroy. rewrite (touch_ok _ _ _ C). unfold get_dims. rewrite C. fold d.
    destruct (str (name d)) as [x|] eqn:Sx.
    - unfold str_ok in S0. rewrite Sx in S0. destruct S0 as (R & dd & Cx & _). rewrite R.
      rewrite (free_ok _ _ _ Cx).
      assert (Nxa : x <> a) by (intros ->; congruence).
      exists (rm h x). split.
      + apply put_dim_ok; auto. rewrite rm_cells_other by congruence. exact C.
      + repeat split; auto.
        * now apply rm_heap_ok.
        * rewrite rm_cells_other by congruence. exact C.
        * intros y Ny. apply rm_cells_other. congruence.
        * intros y Sy. inversion Sy; subst. apply rm_cells_same.
    - exists h. split.
      + destruct (is_ref (name d)); now apply put_dim_ok.
      + repeat split; auto. discriminate. }
  intros h'. subst h'. rewrite E.
  assert (La : live h1 a) by (unfold live; congruence).
  assert (OD' : odims (wr h1 a (PDims (set_nth k zero_dim l))) p = set_nth k zero_dim l).
  { eapply odims_arr; eauto. apply wr_cells_same. }
  split; [|split].
  - apply slot_step with (q := QName k) (s0 := name d) (s' := zero_string); auto.
    + now apply wr_heap_ok.
    + rewrite wr_next. lia.
    + simpl. rewrite OD', set_nth_same by auto. reflexivity.
    + exact I.
    + intros q' Nq. destruct q' as [g| |j]; simpl; auto.
      rewrite OD', OD. rewrite set_nth_other by congruence. auto.
    + simpl. discriminate.
    + intros y _ Ny Na. rewrite wr_cells_other by congruence. now apply F1.
    + intros y Sy _. rewrite wr_cells_other; [now apply F2|].
      intros ->. rewrite (F2 a Sy) in C1. discriminate.
    + unfold arr_ok. rewrite D. exists (set_nth k zero_dim l). rewrite wr_cells_same, set_nth_length.
      pose proof (ok_arr _ _ O) as R. unfold arr_ok in R. rewrite D, C in R. destruct R as (l0 & El & Ll & Ls).
      inversion El; subst. auto.
  - apply wr_cells_same.
  - intros y Ny Ns. rewrite wr_cells_other by auto. now apply F1.
Qed.

(* ---------------------------------------------------------------- copy_string into data[k].name, then the element store *)
Lemma name_set_step : forall h p a k l src h1 s' ok d',
  bad h = false -> heap_ok h -> obj_ok h p ->
  ddata (dims p) = Some a -> cells h a = Some (PDims l) -> k < length l ->
  copy_string h (name (nth k l zero_dim)) src = (h1, s', ok) -> src_ext h p src ->
  name d' = s' ->
  let h' := put_dim h1 a k d' in
  ok = true /\ (local_step h p h' p /\ forall q', q' <> QName k -> q' <> QArr -> stable h p h' p q') /\
  cells h' a = Some (PDims (set_nth k d' l)) /\
  exists x data,
    s' = mkS (Some x) (eff_n src) false /\ cells h' x = Some (PBytes data) /\ eff_n src <= length data /\
    firstn (eff_n src) data = term (eff_bytes h src) /\ length (eff_bytes h src) = eff_n src /\ x <> a /\
    (forall y, y <> x -> y <> a -> str (name (nth k l zero_dim)) <> Some y -> cells h' y = cells h y).
Proof.
  intros h p a k l src h1 s' ok d' B H O D C Lk E X Nd'.
  assert (OD : odims h p = l) by (eapply odims_arr; eauto).
  set (d := nth k l zero_dim) in *.
  assert (Nd : nth_error l k = Some d) by (apply nth_error_nth'; auto).
  assert (A0 : ostring_at h p (QName k) = Some (name d)) by (simpl; rewrite OD, Nd; reflexivity).
  assert (S0 : str_ok h (name d)) by (eapply ok_str; eauto).
  assert (OW : forall y, str (name d) = Some y -> owned h p y).
  { intros y Sy. exists (QName k). rewrite (opoints_str _ _ _ _ A0). exact Sy. }
  destruct (copy_string_spec _ _ _ _ _ _ E B H (str_ok_dst_pre _ _ S0) (src_ext_pre _ _ _ _ X OW))
    as (Ok & B1 & H1 & Nx & x & data & Es & Cx & L & N1 & T & Ll & Alt & F1 & F2).
  rewrite Es in *. clear Es s'.
  assert (La : a < next h) by (apply H; unfold live; congruence).
  assert (Nxa : x <> a).
  { intros ->. destruct Alt as [Sx|Ge]; [|lia].
    assert (QName k = QArr) by (apply (ok_inj _ _ O (QName k) QArr a); auto; rewrite (opoints_str _ _ _ _ A0); exact Sx).
    discriminate. }
  assert (Noa : str (name d) <> Some a).
  { intros Sa. assert (QName k = QArr) by (apply (ok_inj _ _ O (QName k) QArr a); auto; rewrite (opoints_str _ _ _ _ A0); exact Sa).
    discriminate. }
  assert (C1 : cells h1 a = Some (PDims l)) by (rewrite F1; auto).
  intros h'. subst h'. rewrite (put_dim_ok _ _ _ _ _ C1 Lk).
  set (h' := wr h1 a (PDims (set_nth k d' l))).
  assert (OD' : odims h' p = set_nth k d' l) by (eapply odims_arr; eauto; apply wr_cells_same).
  assert (Cx' : cells h' x = Some (PBytes data)) by (unfold h'; rewrite wr_cells_other; auto).
  split; auto. split; [|split; [apply wr_cells_same|]].
  - apply slot_step with (q := QName k) (s0 := name d) (s' := mkS (Some x) (eff_n src) false); auto.
    + apply wr_heap_ok; auto. unfold live. congruence.
    + simpl. rewrite OD', set_nth_same by auto. simpl. now rewrite Nd'.
    + apply str_ok_frame with h1.
      * eapply copied_str_ok; eauto.
      * intros y Ey. simpl in Ey. inversion Ey; subst y. rewrite Cx', Cx. reflexivity.
    + intros q' Nq. destruct q' as [g| |j]; simpl; auto.
      rewrite OD', OD. rewrite set_nth_other by congruence. auto.
    + simpl. intros y Ey. inversion Ey; subst. exact Alt.
    + intros y Ny N0 Na. simpl in Ny. unfold h'. rewrite wr_cells_other by congruence. apply F1; congruence.
    + intros y Sy Ny. simpl in Ny. unfold h'. rewrite wr_cells_other by congruence. apply F2; congruence.
    + unfold arr_ok. rewrite D. exists (set_nth k d' l). unfold h'. rewrite wr_cells_same, set_nth_length.
      pose proof (ok_arr _ _ O) as R. unfold arr_ok in R. rewrite D, C in R. destruct R as (l0 & El & Ll0 & Ls).
      inversion El; subst. auto.
  - exists x, data. repeat split; auto.
    intros y Ny Na Ns. unfold h'. rewrite wr_cells_other by auto. now apply F1.
Qed.

(* ---------------------------------------------------------------- storage_properties_dimensions_init *)
Lemma dims_init_step : forall h p n h' p' ok,
  bad h = false -> heap_ok h -> obj_ok h p ->
  ddata (dims p) = None -> 0 < n ->
  dims_init h p n = (h', p', ok) ->
  ok = true /\ local_step h p h' p' /\
  (forall f, getf f p' = getf f p) /\ dims p' = mkD (Some (next h)) n /\
  cells h' (next h) = Some (PDims (repeat zero_dim n)) /\
  (forall y, y <> next h -> cells h' y = cells h y) /\
  (forall f, stable h p h' p' (QStr f)).
Proof.
  intros h p n h' p' ok B H O D Ln E. unfold dims_init in E.
  destruct (Nat.eqb_spec n 0); [lia|]. rewrite D in E.
  unfold malloc_dims in E. destruct (alloc _ _ _) as [a h1] eqn:A.
  inversion E; subst; clear E.
  pose proof (alloc_heap_ok _ _ _ _ _ A H) as H1.
  apply alloc_spec in A as (-> & N & B1 & _ & C).
  assert (Ca : cells h' (next h) = Some (PDims (repeat zero_dim n))) by (rewrite C; apply upd_same).
  assert (F : forall y, y <> next h -> cells h' y = cells h y) by (intros y Ny; rewrite C; now apply upd_other).
  set (p' := set_dims (mkD (Some (next h)) n) p).
  assert (OD0 : odims h p = []) by (unfold odims; now rewrite D).
  assert (OD' : odims h' p' = repeat zero_dim n).
  { unfold odims, p'. simpl. unfold get_dims. now rewrite Ca. }
  assert (Below : forall y, owned h p y -> y < next h) by (intros y Oy; apply H; eapply owned_live; eauto).
  assert (NQ : forall k, opoints h' p' (QName k) = None).
  { intros k. simpl. rewrite OD'. destruct (nth_error (repeat zero_dim n) k) eqn:E; auto.
    apply nth_error_In, repeat_spec in E. subst. reflexivity. }
  assert (NQ0 : forall k, opoints h p (QName k) = None).
  { intros k. simpl. rewrite OD0. now destruct k. }
  assert (PS : forall f, opoints h' p' (QStr f) = opoints h p (QStr f)).
  { intros f. simpl. unfold p'. now rewrite getf_set_dims. }
  split; auto. split; [|split; [intros; apply getf_set_dims|]; split; [reflexivity|]; split; [exact Ca|]; split; [exact F|]].
  2:{ intros f. split; [apply PS|]. split; [simpl; unfold p'; now rewrite getf_set_dims|].
      intros y Ey. apply F. assert (y < next h) by (apply Below; now exists (QStr f)). lia. }
  constructor; auto.
  - congruence.
  - lia.
  - intros x _ Lx. apply F. lia.
  - intros x Ge Li. destruct (Nat.eq_dec x (next h)) as [->|Nx].
    + exists QArr. reflexivity.
    + exfalso. apply Li. rewrite F by auto. apply heap_ok_dead; auto.
  - intros x (q & Ex). destruct q as [f| |k].
    + left. exists (QStr f). now rewrite <- PS.
    + right. simpl in Ex. inversion Ex. lia.
    + rewrite NQ in Ex. discriminate.
  - intros x (q & Ex) _. destruct q as [f| |k].
    + exists (QStr f). now rewrite PS.
    + simpl in Ex. congruence.
    + rewrite NQ0 in Ex. discriminate.
  - constructor.
    + intros q1 q2 x E1 E2.
      destruct q1 as [f1| |k1]; destruct q2 as [f2| |k2]; auto;
        try (rewrite NQ in *; discriminate).
      * rewrite PS in E1, E2. apply (ok_inj _ _ O (QStr f1) (QStr f2) x); auto.
      * rewrite PS in E1. simpl in E2. inversion E2; subst.
        assert (next h < next h) by (apply Below; now exists (QStr f1)). lia.
      * rewrite PS in E2. simpl in E1. inversion E1; subst.
        assert (next h < next h) by (apply Below; now exists (QStr f2)). lia.
    + intros q s As. destruct q as [f| |k]; simpl in As.
      * inversion As; subst. unfold p'. rewrite getf_set_dims.
        apply str_ok_frame with h; [apply (ok_str _ _ O (QStr f)); reflexivity|].
        intros y Sy. apply F. assert (y < next h) by (apply Below; exists (QStr f); exact Sy). lia.
      * discriminate.
      * rewrite OD' in As. destruct (nth_error (repeat zero_dim n) k) eqn:E; [|discriminate].
        apply nth_error_In, repeat_spec in E. subst. inversion As. exact I.
    + unfold arr_ok, p'. simpl. exists (repeat zero_dim n). rewrite repeat_length. auto.
Qed.

(* ---------------------------------------------------------------- free of the dimension array once every name is released *)
Lemma array_free_step : forall h p a,
  bad h = false -> heap_ok h -> obj_ok h p ->
  ddata (dims p) = Some a ->
  (forall j d, nth_error (odims h p) j = Some d -> str (name d) = None) ->
  local_step h p (free h a) (set_dims zero_dims p) /\
  (forall f, stable h p (free h a) (set_dims zero_dims p) (QStr f)).
Proof.
  intros h p a B H O D Nn.
  pose proof (ok_arr _ _ O) as R. unfold arr_ok in R. rewrite D in R. destruct R as (l & C & Ll & Ls).
  rewrite (free_ok _ _ _ C).
  set (p' := set_dims zero_dims p). set (h' := rm h a).
  assert (Below : forall y, owned h p y -> y < next h) by (intros y Oy; apply H; eapply owned_live; eauto).
  assert (NQ0 : forall k, opoints h p (QName k) = None).
  { intros k. simpl. destruct (nth_error (odims h p) k) as [d|] eqn:E; auto. simpl. eapply Nn; eauto. }
  assert (NQ : forall k, opoints h' p' (QName k) = None) by (intros k; simpl; now destruct k).
  assert (PS : forall f, opoints h' p' (QStr f) = opoints h p (QStr f)).
  { intros f. simpl. unfold p'. now rewrite getf_set_dims. }
  assert (Nfa : forall f, opoints h p (QStr f) <> Some a).
  { intros f Ef. assert (QStr f = QArr) by (apply (ok_inj _ _ O (QStr f) QArr a); auto). discriminate. }
  split.
  2:{ intros f. split; [apply PS|]. split; [simpl; unfold p'; now rewrite getf_set_dims|].
      intros y Ey. apply rm_cells_other. intros ->. now apply (Nfa f). }
  constructor; auto.
  - now apply rm_heap_ok.
  - intros x No _. apply rm_cells_other. intros ->. apply No. exists QArr. exact D.
  - intros x Ge Li. exfalso. apply Li. unfold h'.
    assert (a < next h) by (apply Below; exists QArr; exact D).
    rewrite rm_cells_other by lia. now apply heap_ok_dead.
  - intros x (q & Ex). left. destruct q as [f| |k].
    + exists (QStr f). now rewrite <- PS.
    + discriminate.
    + rewrite NQ in Ex. discriminate.
  - intros x (q & Ex) Li. destruct q as [f| |k].
    + exists (QStr f). now rewrite PS.
    + simpl in Ex. assert (x = a) by congruence. subst. exfalso. apply Li. apply rm_cells_same.
    + rewrite NQ0 in Ex. discriminate.
  - constructor.
    + intros q1 q2 x E1 E2.
      destruct q1 as [f1| |k1]; destruct q2 as [f2| |k2]; auto;
        try (rewrite NQ in *; discriminate); try discriminate.
      rewrite PS in E1, E2. apply (ok_inj _ _ O (QStr f1) (QStr f2) x); auto.
    + intros q s As. destruct q as [f| |k]; simpl in As.
      * inversion As; subst. unfold p'. rewrite getf_set_dims.
        apply str_ok_frame with h; [apply (ok_str _ _ O (QStr f)); reflexivity|].
        intros y Sy. apply rm_cells_other. intros ->. now apply (Nfa f).
      * discriminate.
      * destruct k; discriminate.
    + reflexivity.
Qed.

(* ---------------------------------------------------------------- steps that move no pointer *)
Lemma local_step_same_owned : forall h p p',
  bad h = false -> heap_ok h -> obj_ok h p' ->
  (forall q, opoints h p' q = opoints h p q) ->
  local_step h p h p'.
Proof.
  intros h p p' B H O' PO.
  assert (OW : forall x, owned h p' x <-> owned h p x).
  { intros x. split; intros (q & E); exists q; [now rewrite <- PO | now rewrite PO]. }
  constructor; auto.
  - intros x Lx Li. specialize (H x Li). lia.
  - intros x Ow. left. now apply OW.
  - intros x Ow _. now apply OW.
Qed.

Lemma local_step_refl : forall h p, bad h = false -> heap_ok h -> obj_ok h p -> local_step h p h p.
Proof. intros. apply local_step_same_owned; auto. Qed.

Definition good (h : heap) (p : props) : Prop := bad h = false /\ heap_ok h /\ obj_ok h p.

Lemma local_step_good : forall h p h' p', local_step h p h' p' -> good h' p'.
Proof.
  intros h p h' p' S. split; [apply (ls_bad _ _ _ _ S)|]. split; [apply (ls_heap _ _ _ _ S) | apply (ls_ok _ _ _ _ S)].
Qed.

Lemma step_then : forall h p h1 p1 h2 p2,
  good h p -> local_step h p h1 p1 -> (good h1 p1 -> local_step h1 p1 h2 p2) -> local_step h p h2 p2.
Proof.
  intros h p h1 p1 h2 p2 (B & H & O) S1 S2.
  eapply local_step_trans; eauto. apply S2. eapply local_step_good; eauto.
Qed.

(* ---------------------------------------------------------------- setters *)
Lemma set_string_step : forall f h p c h' p' ok,
  good h p -> wf_cstr c = true -> set_string f h p c = (h', p', ok) ->
  ok = true /\ local_step h p h' p'.
Proof.
  intros f h p c h' p' ok (B & H & O) W E. unfold set_string in E.
  destruct (copy_string h (getf f p) (SrcC c)) as [[h1 s1] ok1] eqn:E1.
  inversion E; subst; clear E.
  destruct (field_step _ _ _ _ _ _ _ B H O E1 W) as (Ok & (S & _) & _). auto.
Qed.

Lemma set_keys_step : forall h p k s h' p' ok,
  good h p -> wf_cstr k = true -> wf_cstr s = true ->
  set_access_key_and_secret h p k s = (h', p', ok) ->
  ok = true /\ local_step h p h' p'.
Proof.
  intros h p k s h' p' ok G Wk Ws E. unfold set_access_key_and_secret in E.
  destruct (set_string FAKey h p k) as [[h1 p1] ok1] eqn:E1.
  destruct (set_string_step _ _ _ _ _ _ _ G Wk E1) as (-> & S1).
  simpl in E.
  pose proof (local_step_good _ _ _ _ S1) as G1.
  destruct (set_string_step _ _ _ _ _ _ _ G1 Ws E) as (-> & S2).
  split; auto. destruct G as (B & H & O). eapply local_step_trans; eauto.
Qed.

Lemma arr_ok_index : forall h p k, arr_ok h p -> k < dsize (dims p) ->
  exists a l, ddata (dims p) = Some a /\ cells h a = Some (PDims l) /\ length l = dsize (dims p).
Proof.
  intros h p k R L. unfold arr_ok in R. destruct (ddata (dims p)) as [a|]; [|lia].
  destruct R as (l & C & Ll & _). eauto.
Qed.

Lemma set_dimension_step : forall h p index nm knd ar ch sh h' p' ok,
  good h p -> wf_cstr nm = true ->
  set_dimension h p index nm knd ar ch sh = (h', p', ok) ->
  local_step h p h' p'.
Proof.
  intros h p index nm knd ar ch sh h' p' ok (B & H & O) W E. unfold set_dimension in E.
  assert (Rf : local_step h p h p) by (now apply local_step_refl).
  destruct (negb _) eqn:Ei; [inversion E; subst; auto|].
  apply negb_false_iff, andb_true_iff in Ei as (I0 & I1). apply Z.leb_le in I0. apply Z.ltb_lt in I1.
  destruct (cbuf nm) as [lb|] eqn:Cb; [|inversion E; subst; auto].
  destruct (cn nm =? 0); [inversion E; subst; auto|].
  destruct (hd 0%N lb =? 0)%N; [inversion E; subst; auto|].
  destruct (negb (knd <? 4)%N); [inversion E; subst; auto|].
  assert (Lk : Z.to_nat index < dsize (dims p)) by lia.
  destruct (arr_ok_index _ _ _ (ok_arr _ _ O) Lk) as (a & l & D & C & Ll).
  rewrite D in E. set (k := Z.to_nat index) in *.
  assert (Lkl : k < length l) by lia.
  destruct (dim_destroy_step h p a k l B H O D C Lkl) as ((S1 & _) & C1 & _).
  set (h1 := dim_destroy h a k) in *.
  destruct (local_step_good _ _ _ _ S1) as (B1 & H1 & O1).
  rewrite (touch_ok _ _ _ C1) in E. unfold get_dims in E. rewrite C1 in E.
  destruct (copy_string h1 _ (SrcC nm)) as [[h2 s2] ok2] eqn:E2.
  assert (Lk1 : k < length (set_nth k zero_dim l)) by (now rewrite set_nth_length).
  destruct (name_set_step h1 p a k _ (SrcC nm) h2 s2 ok2 (mkDim s2 knd ar ch sh) B1 H1 O1 D C1 Lk1 E2 W eq_refl)
    as (-> & (S2 & _) & _).
  simpl in E. inversion E; subst; clear E.
  eapply local_step_trans; eauto.
Qed.

Lemma set_multiscale_step : forall h p e, good h p -> local_step h p h (set_multiscale e p).
Proof.
  intros h p e (B & H & O). apply local_step_same_pointers; auto.
Qed.

(* ---------------------------------------------------------------- init *)
Lemma obj_ok_zero : forall h, obj_ok h zero_props.
Proof.
  intros h. constructor.
  - intros q1 q2 x E. destruct q1 as [[]| |[]]; discriminate.
  - intros q s E. destruct q as [[]| |[]]; simpl in E; inversion E; exact I.
  - reflexivity.
Qed.

Lemma blank_points : forall h p q, blank p = true -> opoints h p q = None.
Proof.
  intros h p q Bl. unfold blank, is_null in Bl.
  repeat (apply andb_true_iff in Bl as (Bl & ?)).
  destruct (str (uri p)) eqn:E1; try discriminate.
  destruct (str (meta p)) eqn:E2; try discriminate.
  destruct (str (akey p)) eqn:E3; try discriminate.
  destruct (str (skey p)) eqn:E4; try discriminate.
  destruct (ddata (dims p)) eqn:E5; try discriminate.
  destruct q as [[]| |k]; simpl; auto.
  unfold odims. rewrite E5. now destruct k.
Qed.

Lemma props_init_step : forall h p ff u m px py nd h' p' ok,
  good h p -> blank p = true -> wf_cstr u = true -> wf_cstr m = true ->
  props_init h ff u m px py nd = (h', p', ok) ->
  ok = true /\ local_step h p h' p'.
Proof.
  intros h p ff u m px py nd h' p' ok (B & H & O) Bl Wu Wm E. unfold props_init in E.
  assert (S0 : local_step h p h zero_props).
  { apply local_step_same_owned; auto; [apply obj_ok_zero|].
    intros q. rewrite (blank_points h p q Bl). now apply blank_points. }
  pose proof (local_step_good _ _ _ _ S0) as G0.
  destruct (set_string FUri h zero_props u) as [[h1 p1] ok1] eqn:E1.
  destruct (set_string_step _ _ _ _ _ _ _ G0 Wu E1) as (-> & S1). simpl in E.
  pose proof (local_step_good _ _ _ _ S1) as G1.
  destruct (set_string FMeta h1 p1 m) as [[h2 p2] ok2] eqn:E2.
  destruct (set_string_step _ _ _ _ _ _ _ G1 Wm E2) as (-> & S2). simpl in E.
  pose proof (local_step_good _ _ _ _ S2) as (B2 & H2 & O2).
  assert (D2 : ddata (dims p2) = None).
  { unfold set_string in E1, E2.
    destruct (copy_string h _ (SrcC u)) as [[? ?] ?]. inversion E1; subst.
    destruct (copy_string _ _ (SrcC m)) as [[? ?] ?]. inversion E2; subst.
    reflexivity. }
  assert (S3 : local_step h2 p2 h2 (set_scalars ff px py p2)).
  { apply local_step_same_pointers; auto. }
  pose proof (local_step_good _ _ _ _ S3) as (B3 & H3 & O3).
  assert (S012 : local_step h p h2 (set_scalars ff px py p2)).
  { eapply local_step_trans; eauto. eapply local_step_trans; [apply H | apply obj_ok_zero | eauto | ].
    eapply local_step_trans; [ | | eauto | eauto]; destruct G1 as (? & ? & ?); auto. }
  destruct (Nat.ltb_spec 0 nd).
  - destruct (dims_init_step _ _ _ _ _ _ B3 H3 O3 D2 H0 E) as (-> & S4 & _).
    split; auto. eapply local_step_trans; eauto.
  - inversion E; subst. auto.
Qed.

(* ---------------------------------------------------------------- destroy *)
Lemma dims_destroy_loop_step : forall n i h p a,
  good h p -> ddata (dims p) = Some a -> i + n = dsize (dims p) ->
  (forall j d, j < i -> nth_error (odims h p) j = Some d -> str (name d) = None) ->
  local_step h p (dims_destroy_loop h a i n) p /\
  (forall j d, nth_error (odims (dims_destroy_loop h a i n) p) j = Some d -> str (name d) = None) /\
  (forall f, stable h p (dims_destroy_loop h a i n) p (QStr f)).
Proof.
  induction n as [|n IH]; intros i h p a (B & H & O) D Ei Nn; simpl.
  - split; [now apply local_step_refl|]. split; [|intros; apply stable_refl].
    intros j d Ej. apply (Nn j d); auto.
    assert (j < length (odims h p)) by (apply nth_error_Some; congruence).
    pose proof (ok_arr _ _ O) as R. unfold arr_ok in R. rewrite D in R. destruct R as (l & C & Ll & _).
    rewrite (odims_arr _ _ _ _ D C) in *. lia.
  - pose proof (ok_arr _ _ O) as R. unfold arr_ok in R. rewrite D in R. destruct R as (l & C & Ll & _).
    assert (Li : i < length l) by lia.
    destruct (dim_destroy_step h p a i l B H O D C Li) as ((S1 & St1) & C1 & _).
    set (h1 := dim_destroy h a i) in *.
    pose proof (local_step_good _ _ _ _ S1) as G1.
    destruct (IH (S i) h1 p a G1 D) as (S2 & N2 & St2).
    + lia.
    + intros j d Lj Ej. rewrite (odims_arr _ _ _ _ D C1) in Ej.
      destruct (Nat.eq_dec j i) as [->|Nj].
      * rewrite set_nth_same in Ej by auto. inversion Ej. reflexivity.
      * rewrite set_nth_other in Ej by auto. apply (Nn j d); [lia|].
        now rewrite (odims_arr _ _ _ _ D C).
    + split; [eapply local_step_trans; eauto|]. split; auto.
      intros f. eapply stable_trans; [apply St1; discriminate | apply St2].
Qed.

Lemma dims_destroy_step : forall h p h' p',
  good h p -> dims_destroy h p = (h', p') ->
  local_step h p h' p' /\ dims p' = zero_dims /\ (forall f, getf f p' = getf f p) /\
  (forall f, stable h p h' p' (QStr f)).
Proof.
  intros h p h' p' G E. pose proof G as (B & H & O). unfold dims_destroy in E.
  destruct (ddata (dims p)) as [a|] eqn:D.
  - inversion E; subst; clear E.
    destruct (dims_destroy_loop_step (dsize (dims p)) 0 h p a G D eq_refl) as (S1 & N1 & St1); [intros; lia|].
    set (h1 := dims_destroy_loop h a 0 (dsize (dims p))) in *.
    destruct (local_step_good _ _ _ _ S1) as (B1 & H1 & O1).
    destruct (array_free_step h1 p a B1 H1 O1 D N1) as (S2 & St2).
    split; [|split; [reflexivity | split; [intros; apply getf_set_dims|]]].
    + eapply local_step_trans; eauto.
    + intros f. eapply stable_trans; [apply St1 | apply St2].
  - inversion E; subst; clear E. split; [now apply local_step_refl|]. split; [|split; [auto | intros; apply stable_refl]].
    pose proof (ok_arr _ _ O) as R. unfold arr_ok in R. rewrite D in R.
    destruct (dims p') as [dd ds]; simpl in *. subst. reflexivity.
Qed.

Lemma props_destroy_step : forall h p h' p',
  good h p -> props_destroy h p = (h', p') ->
  local_step h p h' p' /\ blank p' = true.
Proof.
  intros h p h' p' G E. unfold props_destroy in E.
  destruct (destroy_field FUri h p) as [h1 p1] eqn:E1.
  destruct (destroy_field FMeta h1 p1) as [h2 p2] eqn:E2.
  destruct (destroy_field FAKey h2 p2) as [h3 p3] eqn:E3.
  destruct (destroy_field FSKey h3 p3) as [h4 p4] eqn:E4.
  destruct G as (B & H & O).
  destruct (destroy_field_step _ _ _ _ _ B H O E1) as ((S1 & _) & Z1 & _ & K1).
  destruct (local_step_good _ _ _ _ S1) as (B1 & H1 & O1).
  destruct (destroy_field_step _ _ _ _ _ B1 H1 O1 E2) as ((S2 & _) & Z2 & _ & K2).
  destruct (local_step_good _ _ _ _ S2) as (B2 & H2 & O2).
  destruct (destroy_field_step _ _ _ _ _ B2 H2 O2 E3) as ((S3 & _) & Z3 & _ & K3).
  destruct (local_step_good _ _ _ _ S3) as (B3 & H3 & O3).
  destruct (destroy_field_step _ _ _ _ _ B3 H3 O3 E4) as ((S4 & _) & Z4 & _ & K4).
  pose proof (local_step_good _ _ _ _ S4) as G4.
  destruct (dims_destroy_step _ _ _ _ G4 E) as (S5 & D5 & K5 & _).
  split.
  - eapply local_step_trans; eauto. eapply local_step_trans; eauto.
    eapply local_step_trans; eauto. eapply local_step_trans; eauto.
  - unfold blank, is_null.
    change (uri p') with (getf FUri p'). change (meta p') with (getf FMeta p').
    change (akey p') with (getf FAKey p'). change (skey p') with (getf FSKey p').
    rewrite !K5, D5.
    rewrite (K4 FUri), (K3 FUri), (K2 FUri) by discriminate.
    rewrite (K4 FMeta), (K3 FMeta) by discriminate.
    rewrite (K4 FAKey) by discriminate.
    rewrite Z1, Z2, Z3, Z4. reflexivity.
Qed.
