(* PropsModel.v -- executable model of acquire-device-properties/device/props/storage.c, function by function,
   statement by statement (one `if` per `if`/CHECK of the C, in the same order), over the allocation-id heap of
   Heap.v.  The model describes the code WITH the repairs fixes/01..03 applied:
     01  storage_properties_copy keeps dst's own dimension array across the shallow memcpy (it used to take
         over src's pointer, free src's array and names, and read them afterwards);
     02  storage_properties_copy releases dst's dimensions also when src has none;
     03  storage_properties_set_dimension releases the previous name of the slot instead of dropping it.
   malloc is assumed to succeed (the CHECKs on its result are not modelled as failing).
   A StorageProperties object lives outside the heap (a C variable); object i is the i-th element of [objs].
   No proofs in this file. *)
From Coq Require Import NArith ZArith List Bool Arith.
From Props Require Import Heap.
Import ListNotations.

(* ------------------------------------------------------------------------------------------------ structs *)
Record dims_s := mkD { ddata : option nat; dsize : nat }.       (* struct storage_properties_dimensions_s *)

Record props := mkP {                                            (* struct StorageProperties *)
  uri : String;
  meta : String;
  akey : String;
  skey : String;
  ffid : N;
  psx : N;                                                       (* bit pattern of pixel_scale_um.x *)
  psy : N;
  dims : dims_s;
  multiscale : N
}.

Definition zero_dims : dims_s := mkD None 0.
Definition zero_props : props := mkP zero_string zero_string zero_string zero_string 0 0 0 zero_dims 0.

Inductive fld := FUri | FMeta | FAKey | FSKey.

Definition getf (f : fld) (p : props) : String :=
  match f with FUri => uri p | FMeta => meta p | FAKey => akey p | FSKey => skey p end.

Definition setf (f : fld) (s : String) (p : props) : props :=
  match f with
  | FUri => mkP s (meta p) (akey p) (skey p) (ffid p) (psx p) (psy p) (dims p) (multiscale p)
  | FMeta => mkP (uri p) s (akey p) (skey p) (ffid p) (psx p) (psy p) (dims p) (multiscale p)
  | FAKey => mkP (uri p) (meta p) s (skey p) (ffid p) (psx p) (psy p) (dims p) (multiscale p)
  | FSKey => mkP (uri p) (meta p) (akey p) s (ffid p) (psx p) (psy p) (dims p) (multiscale p)
  end.

Definition set_dims (d : dims_s) (p : props) : props :=
  mkP (uri p) (meta p) (akey p) (skey p) (ffid p) (psx p) (psy p) d (multiscale p).

Definition set_scalars (ff px py : N) (p : props) : props :=
  mkP (uri p) (meta p) (akey p) (skey p) ff px py (dims p) (multiscale p).

Definition set_multiscale (e : N) (p : props) : props :=
  mkP (uri p) (meta p) (akey p) (skey p) (ffid p) (psx p) (psy p) (dims p) e.

Definition set_name (s : String) (d : dim) : dim :=
  mkDim s (kind d) (array_size_px d) (chunk_size_px d) (shard_size_chunks d).

(* ------------------------------------------------------------------------------------------------ sources *)
(* (const char*, size_t) as the caller passes it: cbuf = None is NULL; the buffer holds exactly the bytes cbuf *)
Record cstr := mkC { cbuf : option (list byte); cn : nat }.

(* what `const struct String* src` of copy_string points to *)
Inductive srcv :=
| SrcC (c : cstr)          (* a temporary { .is_ref = 1, .str = (char* )p, .nbytes = n } built from caller arguments *)
| SrcS (s : String).       (* a String stored in another struct; its characters are in the heap *)

Definition src_null (s : srcv) : bool :=
  match s with
  | SrcC c => match cbuf c with None => true | Some _ => false end
  | SrcS s => match str s with None => true | Some _ => false end
  end.

Definition src_n (s : srcv) : nat :=
  match s with SrcC c => cn c | SrcS s => nbytes s end.

(* the read access memcpy(dst->str, src->str, src->nbytes) makes on the source *)
Definition src_touch (h : heap) (s : srcv) : heap :=
  match s with
  | SrcC _ => h
  | SrcS s => match str s with Some id => touch_bytes h id (nbytes s) | None => h end
  end.

Definition src_bytes (h : heap) (s : srcv) : list byte :=
  match s with
  | SrcC c => match cbuf c with Some l => l | None => [] end
  | SrcS s => match str s with Some id => get_bytes h id | None => [] end
  end.

Definition empty_src : srcv := SrcC (mkC (Some [0%N]) 1).

(* ------------------------------------------------------------------------------------------------ copy_string *)
(* if (!dst->str || dst->is_ref) { dst->str = malloc(src->nbytes); dst->nbytes = src->nbytes; dst->is_ref = 0; } *)
Definition cs_own (h : heap) (dst : String) (sn : nat) : heap * String :=
  match str dst with
  | Some _ =>
      if is_ref dst
      then let '(id, h) := malloc_bytes h sn in (h, mkS (Some id) sn false)
      else (h, dst)
  | None => let '(id, h) := malloc_bytes h sn in (h, mkS (Some id) sn false)
  end.

(* if (src->nbytes > dst->nbytes) { str = realloc(dst->str, src->nbytes); dst->str = str; } *)
Definition cs_grow (h : heap) (id : nat) (dst : String) (sn : nat) : nat * heap :=
  if nbytes dst <? sn then realloc_bytes h id sn else (id, h).

(* memset(dst->str, 0, dst->nbytes); memcpy(dst->str, src->str, src->nbytes);
   if (dst->nbytes > 0) dst->str[dst->nbytes - 1] = 0;                         (dst->nbytes = src->nbytes = sn here) *)
Definition cs_fill (h : heap) (id : nat) (src : srcv) (sn : nat) : heap :=
  let h := write_prefix h id (repeat 0%N sn) in
  let h := src_touch h src in
  let h := write_prefix h id (firstn sn (src_bytes h src)) in
  if 0 <? sn then write_at h id (sn - 1) 0%N else h.

(* the body of copy_string once `src` points to a non-empty source *)
Definition copy_string_from (h : heap) (dst : String) (src : srcv) : heap * String * bool :=
  let sn := src_n src in
  let '(h, dst) := cs_own h dst sn in
  (* CHECK(dst->is_ref == 0); *)
  if is_ref dst then (h, dst, false) else
  match str dst with
  | None => (crash h, dst, false)
  | Some id =>
      let '(id, h) := cs_grow h id dst sn in
      (* dst->nbytes = src->nbytes; *)
      let dst := mkS (Some id) sn (is_ref dst) in
      (cs_fill h id src sn, dst, true)
  end.

Definition copy_string (h : heap) (dst : String) (src : srcv) : heap * String * bool :=
  (* if (!(src && src->str && src->nbytes)) src = &empty;      (src itself is never NULL in this file) *)
  let src := if src_null src || (src_n src =? 0) then empty_src else src in
  copy_string_from h dst src.

(* ------------------------------------------------------------------------------------------------ dimensions *)
(* storage_properties_dimensions_init (with storage_dimension_array_init inlined) *)
Definition dims_init (h : heap) (self : props) (size : nat) : heap * props * bool :=
  (* CHECK(size > 0); *)
  if size =? 0 then (h, self, false) else
  (* CHECK(self->acquisition_dimensions.data == 0); *)
  match ddata (dims self) with
  | Some _ => (h, self, false)
  | None =>
      (* *data = malloc(size * sizeof(struct StorageDimension)); memset( *data, 0, ...); *)
      let '(a, h) := malloc_dims h size in
      (* self->acquisition_dimensions.size = size; *)
      (h, set_dims (mkD (Some a) size) self, true)
  end.

(* storage_dimension_destroy(&data[i]) *)
Definition dim_destroy (h : heap) (a i : nat) : heap :=
  let h := touch h a in
  let d := nth i (get_dims h a) zero_dim in
  (* if (self->name.is_ref == 0 && self->name.str) free(self->name.str); *)
  let h := if is_ref (name d) then h else
           match str (name d) with Some id => free h id | None => h end in
  (* memset(self, 0, sizeof( *self)); *)
  put_dim h a i zero_dim.

(* for (int i = 0; i < size; ++i) storage_dimension_destroy(&data[i]);   n = iterations left *)
Fixpoint dims_destroy_loop (h : heap) (a i n : nat) : heap :=
  match n with
  | 0 => h
  | S n' => dims_destroy_loop (dim_destroy h a i) a (S i) n'
  end.

(* storage_properties_dimensions_destroy *)
Definition dims_destroy (h : heap) (self : props) : heap * props :=
  (* CHECK(self->acquisition_dimensions.data); *)
  match ddata (dims self) with
  | None => (h, self)
  | Some a =>
      let h := dims_destroy_loop h a 0 (dsize (dims self)) in
      (* free(self->acquisition_dimensions.data); memset(&self->acquisition_dimensions, 0, ...); *)
      (free h a, set_dims zero_dims self)
  end.

(* storage_dimension_copy(&dst.data[i], &src.data[i]) *)
Definition dim_copy (h : heap) (da sa i : nat) : heap * bool :=
  let h := touch h sa in
  let sd := nth i (get_dims h sa) zero_dim in
  let h := touch h da in
  let dd := nth i (get_dims h da) zero_dim in
  (* CHECK(copy_string(&dst->name, &src->name)); *)
  let '(h, s, ok) := copy_string h (name dd) (SrcS (name sd)) in
  if negb ok then (put_dim h da i (set_name s dd), false) else
  (* dst->kind = src->kind; ... *)
  (put_dim h da i (mkDim s (kind sd) (array_size_px sd) (chunk_size_px sd) (shard_size_chunks sd)), true).

Fixpoint dims_copy_loop (h : heap) (da sa i n : nat) : heap * bool :=
  match n with
  | 0 => (h, true)
  | S n' =>
      let '(h, ok) := dim_copy h da sa i in
      if negb ok then (h, false) else dims_copy_loop h da sa (S i) n'
  end.

(* ------------------------------------------------------------------------------------------------ the API *)
(* storage_properties_set_uri / set_external_metadata (f = FUri / FMeta) *)
Definition set_string (f : fld) (h : heap) (out : props) (c : cstr) : heap * props * bool :=
  let '(h, s, ok) := copy_string h (getf f out) (SrcC c) in
  (h, setf f s out, ok).

Definition set_access_key_and_secret (h : heap) (out : props) (k s : cstr) : heap * props * bool :=
  (* CHECK(copy_string(&out->access_key_id, &s)); *)
  let '(h, out, ok) := set_string FAKey h out k in
  if negb ok then (h, out, false) else
  (* return copy_string(&out->secret_access_key, &t); *)
  set_string FSKey h out s.

Definition set_dimension (h : heap) (out : props) (index : Z) (nm : cstr) (knd ar ch sh : N)
  : heap * props * bool :=
  (* EXPECT(index < out->acquisition_dimensions.size)   -- int converted to size_t: a negative index is huge *)
  if negb ((0 <=? index)%Z && (index <? Z.of_nat (dsize (dims out)))%Z) then (h, out, false) else
  (* EXPECT(name) *)
  match cbuf nm with
  | None => (h, out, false)
  | Some l =>
      (* EXPECT(bytes_of_name > 0) *)
      if cn nm =? 0 then (h, out, false) else
      (* EXPECT(strlen(name) > 0)   -- i.e. name[0] != 0 *)
      if (hd 0%N l =? 0)%N then (h, out, false) else
      (* EXPECT(kind < DimensionTypeCount) *)
      if negb (knd <? 4)%N then (h, out, false) else
      (* struct StorageDimension* dim = &out->acquisition_dimensions.data[index]; *)
      match ddata (dims out) with
      | None => (crash h, out, false)
      | Some a =>
          let k := Z.to_nat index in
          (* storage_dimension_destroy(dim);      [fix 03; was memset(dim, 0, sizeof( *dim))] *)
          let h := dim_destroy h a k in
          (* CHECK(copy_string(&dim->name, &s)); *)
          let h := touch h a in
          let d := nth k (get_dims h a) zero_dim in
          let '(h, s, ok) := copy_string h (name d) (SrcC nm) in
          if negb ok then (put_dim h a k (set_name s d), out, false) else
          (* dim->kind = kind; ... *)
          (put_dim h a k (mkDim s knd ar ch sh), out, true)
      end
  end.

Definition set_enable_multiscale (h : heap) (out : props) (e : N) : heap * props * bool :=
  (h, set_multiscale e out, true).

Definition props_init (h : heap) (ff : N) (u m : cstr) (px py : N) (nd : nat) : heap * props * bool :=
  (* memset(out, 0, sizeof( *out)); *)
  let out := zero_props in
  (* CHECK(storage_properties_set_uri(out, uri, bytes_of_uri)); *)
  let '(h, out, ok) := set_string FUri h out u in
  if negb ok then (h, out, false) else
  (* CHECK(storage_properties_set_external_metadata(out, metadata, bytes_of_metadata)); *)
  let '(h, out, ok) := set_string FMeta h out m in
  if negb ok then (h, out, false) else
  (* out->first_frame_id = first_frame_id; out->pixel_scale_um = pixel_scale_um; *)
  let out := set_scalars ff px py out in
  (* if (dimension_count > 0) CHECK(storage_properties_dimensions_init(out, dimension_count)); *)
  if 0 <? nd then dims_init h out nd else (h, out, true).

(* copy_string(&dst->f, &src->f) *)
Definition copy_field (f : fld) (h : heap) (dst src : props) : heap * props * bool :=
  let '(h, s, ok) := copy_string h (getf f dst) (SrcS (getf f src)) in
  (h, setf f s dst, ok).

Definition props_copy (h : heap) (dst src : props) : heap * props * bool :=
  (* 1. copy everything except the strings [and, fix 01, except the dimension array] *)
  let tmp_uri := uri dst in
  let tmp_meta := meta dst in
  let tmp_access_key := akey dst in
  let tmp_secret_key := skey dst in
  let tmp_dims := dims dst in
  let dst := src in                                             (* memcpy(dst, src, sizeof( *dst)); *)
  let dst := setf FUri tmp_uri dst in
  let dst := setf FMeta tmp_meta dst in
  let dst := setf FAKey tmp_access_key dst in
  let dst := setf FSKey tmp_secret_key dst in
  let dst := set_dims tmp_dims dst in
  (* 2. reallocate and copy the Strings *)
  let '(h, dst, ok) := copy_field FUri h dst src in
  if negb ok then (h, dst, false) else
  let '(h, dst, ok) := copy_field FMeta h dst src in
  if negb ok then (h, dst, false) else
  let '(h, dst, ok) := copy_field FAKey h dst src in
  if negb ok then (h, dst, false) else
  let '(h, dst, ok) := copy_field FSKey h dst src in
  if negb ok then (h, dst, false) else
  (* 3. copy the dimensions: if (dst->acquisition_dimensions.data) storage_properties_dimensions_destroy(dst);  [fix 02] *)
  let '(h, dst) :=
    match ddata (dims dst) with
    | Some _ => dims_destroy h dst
    | None => (h, dst)
    end in
  (* if (src->acquisition_dimensions.data) { *)
  match ddata (dims src) with
  | None => (h, dst, true)
  | Some sa =>
      (* CHECK(storage_properties_dimensions_init(dst, src->acquisition_dimensions.size)); *)
      let '(h, dst, ok) := dims_init h dst (dsize (dims src)) in
      if negb ok then (h, dst, false) else
      match ddata (dims dst) with
      | None => (crash h, dst, false)
      | Some da =>
          (* for (i = 0; i < src->acquisition_dimensions.size; ++i) CHECK(storage_dimension_copy(...)); *)
          let '(h, ok) := dims_copy_loop h da sa 0 (dsize (dims src)) in
          (h, dst, ok)
      end
  end.

(* if (strings[i]->is_ref == 0 && strings[i]->str) { free(strings[i]->str); memset(strings[i], 0, ...); } *)
Definition destroy_field (f : fld) (h : heap) (self : props) : heap * props :=
  if is_ref (getf f self) then (h, self) else
  match str (getf f self) with
  | Some id => (free h id, setf f zero_string self)
  | None => (h, self)
  end.

Definition props_destroy (h : heap) (self : props) : heap * props :=
  let '(h, self) := destroy_field FUri h self in
  let '(h, self) := destroy_field FMeta h self in
  let '(h, self) := destroy_field FAKey h self in
  let '(h, self) := destroy_field FSKey h self in
  dims_destroy h self.

(* ------------------------------------------------------------------------------------------------ histories *)
Record state := mkSt { hp : heap; objs : list props }.

Definition init_state (n : nat) : state := mkSt empty_heap (repeat zero_props n).

Inductive op :=
| OMoves (l : list bool)
| OInit (i : nat) (ff : N) (u m : cstr) (px py : N) (nd : nat)
| OSetUri (i : nat) (c : cstr)
| OSetMeta (i : nat) (c : cstr)
| OSetKeys (i : nat) (k s : cstr)
| OSetDim (i : nat) (index : Z) (nm : cstr) (knd ar ch sh : N)
| OSetMulti (i : nat) (e : N)
| OCopy (d s : nat)
| ODestroy (i : nat).

Definition set_obj (i : nat) (p : props) (l : list props) : list props := set_nth i p l.

(* apply a function of the API to object i *)
Definition on_obj (st : state) (i : nat) (f : heap -> props -> heap * props * bool) : state * bool :=
  match nth_error (objs st) i with
  | None => (st, false)
  | Some p =>
      let '(h, p', r) := f (clear_log (hp st)) p in
      (mkSt h (set_obj i p' (objs st)), r)
  end.

Definition step (st : state) (o : op) : state * bool :=
  match o with
  | OMoves l => (mkSt (set_script (clear_log (hp st)) l) (objs st), true)
  | OInit i ff u m px py nd => on_obj st i (fun h _ => props_init h ff u m px py nd)
  | OSetUri i c => on_obj st i (fun h p => set_string FUri h p c)
  | OSetMeta i c => on_obj st i (fun h p => set_string FMeta h p c)
  | OSetKeys i k s => on_obj st i (fun h p => set_access_key_and_secret h p k s)
  | OSetDim i index nm knd ar ch sh => on_obj st i (fun h p => set_dimension h p index nm knd ar ch sh)
  | OSetMulti i e => on_obj st i (fun h p => set_enable_multiscale h p e)
  | OCopy d s =>
      match nth_error (objs st) s with
      | None => (st, false)
      | Some src => on_obj st d (fun h p => props_copy h p src)
      end
  | ODestroy i => on_obj st i (fun h p => let '(h, p) := props_destroy h p in (h, p, true))
  end.

Fixpoint run (st : state) (ops : list op) : state :=
  match ops with
  | [] => st
  | o :: ops' => run (fst (step st o)) ops'
  end.

(* ------------------------------------------------------------------------------------------------ well-formed calls *)
(* the byte count never exceeds the caller's buffer *)
Definition wf_cstr (c : cstr) : bool :=
  match cbuf c with Some l => cn c <=? length l | None => true end.

Definition is_null (s : String) : bool := match str s with None => true | Some _ => false end.

(* the object owns nothing: zero-initialised, or destroyed *)
Definition blank (p : props) : bool :=
  is_null (uri p) && is_null (meta p) && is_null (akey p) && is_null (skey p) &&
  match ddata (dims p) with None => true | Some _ => false end.

Definition wf_opb (st : state) (o : op) : bool :=
  let n := length (objs st) in
  match o with
  | OMoves _ => true
  | OInit i _ u m _ _ nd =>
      (i <? n) && wf_cstr u && wf_cstr m && (nd <? 256) &&
      match nth_error (objs st) i with Some p => blank p | None => false end
  | OSetUri i c => (i <? n) && wf_cstr c
  | OSetMeta i c => (i <? n) && wf_cstr c
  | OSetKeys i k s => (i <? n) && wf_cstr k && wf_cstr s
  | OSetDim i _ nm _ _ _ _ => (i <? n) && wf_cstr nm
  | OSetMulti i _ => i <? n
  | OCopy d s => (d <? n) && (s <? n) && negb (d =? s)
  | ODestroy i => i <? n
  end.

Fixpoint wf_hist (st : state) (ops : list op) : bool :=
  match ops with
  | [] => true
  | o :: ops' => wf_opb st o && wf_hist (fst (step st o)) ops'
  end.

Definition destroy_all (n : nat) : list op := map ODestroy (seq 0 n).
