(* PropsInv.v -- ownership: which allocation each pointer of an object holds, the per-object well-formedness,
   the "local step" relation every function of storage.c satisfies on the object it works on, and the global
   invariant of a history. *)
From Coq Require Import NArith List Bool Arith Lia.
From Props Require Import Heap HeapFacts PropsModel PropsString.
Import ListNotations.

(* ---------------------------------------------------------------- pointers held by one object *)
Inductive opath :=
| QStr (f : fld)          (* p.uri / external_metadata_json / access_key_id / secret_access_key  .str *)
| QArr                    (* p.acquisition_dimensions.data *)
| QName (k : nat).        (* p.acquisition_dimensions.data[k].name.str *)

Definition odims (h : heap) (p : props) : list dim :=
  match ddata (dims p) with Some a => get_dims h a | None => [] end.

Definition ostring_at (h : heap) (p : props) (q : opath) : option String :=
  match q with
  | QStr f => Some (getf f p)
  | QArr => None
  | QName k => option_map name (nth_error (odims h p) k)
  end.

Definition opoints (h : heap) (p : props) (q : opath) : option nat :=
  match q with
  | QArr => ddata (dims p)
  | _ => match ostring_at h p q with Some s => str s | None => None end
  end.

Definition owned (h : heap) (p : props) (x : nat) : Prop := exists q, opoints h p q = Some x.

(* a stored string: NULL, or owned, NUL-terminated at its recorded length, inside its allocation *)
Definition str_ok (h : heap) (s : String) : Prop :=
  match str s with
  | None => True
  | Some x => is_ref s = false /\
              exists data, cells h x = Some (PBytes data) /\ 1 <= nbytes s /\ nbytes s <= length data /\
                           nth (nbytes s - 1) data 1%N = 0%N
  end.

Definition arr_ok (h : heap) (p : props) : Prop :=
  match ddata (dims p) with
  | Some a => exists l, cells h a = Some (PDims l) /\ length l = dsize (dims p) /\ 0 < dsize (dims p)
  | None => dsize (dims p) = 0
  end.

Record obj_ok (h : heap) (p : props) : Prop := {
  ok_inj : forall q1 q2 x, opoints h p q1 = Some x -> opoints h p q2 = Some x -> q1 = q2;
  ok_str : forall q s, ostring_at h p q = Some s -> str_ok h s;
  ok_arr : arr_ok h p
}.

Lemma opath_eq_dec : forall q1 q2 : opath, {q1 = q2} + {q1 <> q2}.
Proof. decide equality; [decide equality | apply Nat.eq_dec]. Qed.

Lemma opoints_str : forall h p q s, ostring_at h p q = Some s -> opoints h p q = str s.
Proof.
  intros h p q s E. destruct q; simpl in *; try discriminate.
  - inversion E. reflexivity.
  - now rewrite E.
Qed.

Lemma opoints_inv : forall h p q x, opoints h p q = Some x ->
  (q = QArr /\ ddata (dims p) = Some x) \/ (exists s, ostring_at h p q = Some s /\ str s = Some x).
Proof.
  intros h p q x E. destruct q; simpl in *.
  - right. eauto.
  - left. auto.
  - right. destruct (option_map name (nth_error (odims h p) k)); [eauto|discriminate].
Qed.

Lemma str_ok_live : forall h s x, str_ok h s -> str s = Some x -> live h x.
Proof.
  intros h s x O S. unfold str_ok in O. rewrite S in O. destruct O as (_ & d & C & _).
  unfold live. congruence.
Qed.

Lemma owned_live : forall h p x, obj_ok h p -> owned h p x -> live h x.
Proof.
  intros h p x O (q & E). apply opoints_inv in E as [(-> & D)|(s & A & S)].
  - pose proof (ok_arr _ _ O) as R. unfold arr_ok in R. rewrite D in R. destruct R as (l & C & _).
    unfold live. congruence.
  - eapply str_ok_live; eauto. eapply ok_str; eauto.
Qed.

(* what an object points to depends on the heap only through its dimension array *)
Lemma odims_frame : forall h h' p, (forall a, ddata (dims p) = Some a -> cells h' a = cells h a) -> odims h' p = odims h p.
Proof. intros h h' p F. unfold odims. destruct (ddata (dims p)) as [a|]; auto. unfold get_dims. now rewrite F. Qed.

Lemma ostring_at_frame : forall h h' p q, odims h' p = odims h p -> ostring_at h' p q = ostring_at h p q.
Proof. intros h h' p q E. destruct q; simpl; auto. now rewrite E. Qed.

Lemma opoints_frame : forall h h' p q, odims h' p = odims h p -> opoints h' p q = opoints h p q.
Proof. intros h h' p q E. destruct q; simpl; auto. now rewrite E. Qed.

Lemma str_ok_frame : forall h h' s, str_ok h s -> (forall x, str s = Some x -> cells h' x = cells h x) -> str_ok h' s.
Proof. intros h h' s O F. unfold str_ok in *. destruct (str s) as [x|]; auto. now rewrite F. Qed.

Lemma obj_ok_frame : forall h h' p, obj_ok h p -> (forall x, owned h p x -> cells h' x = cells h x) -> obj_ok h' p.
Proof.
  intros h h' p O F.
  assert (D : odims h' p = odims h p).
  { apply odims_frame. intros a Ea. apply F. exists QArr. exact Ea. }
  constructor.
  - intros q1 q2 x. rewrite !(opoints_frame h h') by auto. apply (ok_inj _ _ O).
  - intros q s. rewrite (ostring_at_frame h h') by auto. intros A.
    apply str_ok_frame with h; [eapply ok_str; eauto|].
    intros x S. apply F. exists q. rewrite (opoints_str _ _ _ _ A). exact S.
  - pose proof (ok_arr _ _ O) as R. unfold arr_ok in *. destruct (ddata (dims p)) as [a|] eqn:Ea; auto.
    rewrite F; auto. exists QArr. exact Ea.
Qed.

(* ---------------------------------------------------------------- the local step relation *)
Record local_step (h : heap) (p : props) (h' : heap) (p' : props) : Prop := {
  ls_bad : bad h' = false;
  ls_heap : heap_ok h';
  ls_next : next h <= next h';
  ls_frame : forall x, ~ owned h p x -> x < next h -> cells h' x = cells h x;   (* what p does not own stays as it is *)
  ls_fresh : forall x, next h <= x -> live h' x -> owned h' p' x;              (* every new allocation belongs to p' *)
  ls_own : forall x, owned h' p' x -> owned h p x \/ next h <= x;              (* p' owns only p's or new ones *)
  ls_keep : forall x, owned h p x -> live h' x -> owned h' p' x;               (* what p owned is released or kept: no leak *)
  ls_ok : obj_ok h' p'
}.

Lemma local_step_trans : forall h p h1 p1 h2 p2,
  heap_ok h -> obj_ok h p ->
  local_step h p h1 p1 -> local_step h1 p1 h2 p2 -> local_step h p h2 p2.
Proof.
  intros h p h1 p1 h2 p2 H O S1 S2.
  pose proof (ls_next _ _ _ _ S1) as N1. pose proof (ls_next _ _ _ _ S2) as N2.
  constructor.
  - apply (ls_bad _ _ _ _ S2).
  - apply (ls_heap _ _ _ _ S2).
  - lia.
  - intros x No Lx. rewrite (ls_frame _ _ _ _ S2); [now apply (ls_frame _ _ _ _ S1)| |lia].
    intros Ow. apply (ls_own _ _ _ _ S1) in Ow as [Ow|Ow]; [auto|lia].
  - intros x Lx Li. destruct (le_lt_dec (next h1) x) as [G|G].
    + now apply (ls_fresh _ _ _ _ S2).
    + assert (Ow : owned h1 p1 x).
      { apply (ls_fresh _ _ _ _ S1); auto. unfold live in *.
        destruct (cells h1 x) eqn:C1; [congruence|]. exfalso. apply Li.
        (* x is dead in h1 and below next h1: it is not owned by p1, so it stays dead *)
        rewrite (ls_frame _ _ _ _ S2); auto.
        intros Ow. apply (owned_live _ _ _ (ls_ok _ _ _ _ S1)) in Ow. unfold live in Ow. congruence. }
      now apply (ls_keep _ _ _ _ S2).
  - intros x Ow. apply (ls_own _ _ _ _ S2) in Ow as [Ow|Ow]; [|right; lia].
    apply (ls_own _ _ _ _ S1) in Ow as [Ow|Ow]; auto.
  - intros x Ow Li.
    assert (Lx : x < next h) by (apply H; eapply owned_live; eauto).
    assert (L1 : live h1 x).
    { unfold live in *. destruct (cells h1 x) eqn:C1; [congruence|]. exfalso. apply Li.
      rewrite (ls_frame _ _ _ _ S2); auto; [|lia].
      intros Ow1. apply (owned_live _ _ _ (ls_ok _ _ _ _ S1)) in Ow1. unfold live in Ow1. congruence. }
    apply (ls_keep _ _ _ _ S2); auto. now apply (ls_keep _ _ _ _ S1).
  - apply (ls_ok _ _ _ _ S2).
Qed.

(* a step that changes neither the heap nor any pointer of the object (scalars; the shallow memcpy of copy) *)
Lemma local_step_same_pointers : forall h p p',
  bad h = false -> heap_ok h -> obj_ok h p ->
  (forall f, getf f p' = getf f p) -> dims p' = dims p ->
  local_step h p h p'.
Proof.
  intros h p p' B H O G D.
  assert (OD : odims h p' = odims h p) by (unfold odims; now rewrite D).
  assert (SA : forall q, ostring_at h p' q = ostring_at h p q).
  { intros [f| |k]; simpl; auto; [now rewrite G | now rewrite OD]. }
  assert (PO : forall q, opoints h p' q = opoints h p q).
  { intros [f| |k]; simpl; auto; [now rewrite G | now rewrite D | now rewrite OD]. }
  assert (OW : forall x, owned h p' x <-> owned h p x).
  { intros x. split; intros (q & E); exists q; [now rewrite <- PO | now rewrite PO]. }
  constructor; auto.
  - intros x Lx Li. specialize (H x Li). lia.
  - intros x Ow. left. now apply OW.
  - intros x Ow _. now apply OW.
  - constructor.
    + intros q1 q2 x. rewrite !PO. apply (ok_inj _ _ O).
    + intros q s. rewrite SA. apply (ok_str _ _ O).
    + pose proof (ok_arr _ _ O) as R. unfold arr_ok in *. now rewrite D.
Qed.

Lemma option_eq_dec_nat : forall (o : option nat) x, {o = Some x} + {o <> Some x}.
Proof.
  intros [y|] x; [|right; discriminate].
  destruct (Nat.eq_dec y x); [left|right]; congruence.
Qed.

(* slot q is untouched by a step: same String record, same allocation, same content *)
Definition stable (h : heap) (p : props) (h' : heap) (p' : props) (q : opath) : Prop :=
  opoints h' p' q = opoints h p q /\ ostring_at h' p' q = ostring_at h p q /\
  forall y, opoints h p q = Some y -> cells h' y = cells h y.

Lemma stable_trans : forall h p h1 p1 h2 p2 q,
  stable h p h1 p1 q -> stable h1 p1 h2 p2 q -> stable h p h2 p2 q.
Proof.
  intros h p h1 p1 h2 p2 q (P1 & A1 & C1) (P2 & A2 & C2). repeat split; try congruence.
  intros y Ey. rewrite C2 by congruence. now apply C1.
Qed.

Lemma stable_refl : forall h p q, stable h p h p q.
Proof. intros. repeat split; auto. Qed.

(* ---------------------------------------------------------------- replacing the string in one slot *)
(* q is a string slot of p holding s0; afterwards it holds s' (NULL, the same allocation, or a new one), the old
   allocation is released unless kept, and nothing else of the object moved. *)
Lemma slot_step : forall h p h' p' q s0 s',
  bad h = false -> heap_ok h -> obj_ok h p ->
  ostring_at h p q = Some s0 ->
  bad h' = false -> heap_ok h' -> next h <= next h' ->
  ostring_at h' p' q = Some s' -> str_ok h' s' ->
  (forall q', q' <> q -> ostring_at h' p' q' = ostring_at h p q' /\ opoints h' p' q' = opoints h p q') ->
  (forall x, str s' = Some x -> str s0 = Some x \/ next h <= x) ->
  (forall y, str s' <> Some y -> str s0 <> Some y -> ddata (dims p) <> Some y -> cells h' y = cells h y) ->
  (forall y, str s0 = Some y -> str s' <> Some y -> cells h' y = None) ->
  arr_ok h' p' ->
  local_step h p h' p' /\ (forall q', q' <> q -> q' <> QArr -> stable h p h' p' q').
Proof.
  intros h p h' p' q s0 s' B H O A0 B' H' N A' So C D E F R.
  assert (P0 : opoints h p q = str s0) by (now apply opoints_str).
  assert (P' : opoints h' p' q = str s') by (now apply opoints_str).
  assert (Below : forall y, owned h p y -> y < next h) by (intros y Oy; apply H; eapply owned_live; eauto).
  (* a pointer p holds elsewhere is neither the old nor the new allocation of the slot *)
  assert (Other : forall q' y, q' <> q -> opoints h p q' = Some y -> str s' <> Some y /\ str s0 <> Some y).
  { intros q' y Nq Ey. split; intros Sy.
    - destruct (D y Sy) as [Sy0|Ge].
      + apply Nq. apply (ok_inj _ _ O q' q y); congruence.
      + assert (y < next h) by (apply Below; now exists q'). lia.
    - apply Nq. apply (ok_inj _ _ O q' q y); congruence. }
  split.
  { constructor; auto.
    - intros x No Lx. apply E.
      + intros Sx. destruct (D x Sx) as [S0|Ge]; [|lia]. apply No. exists q. congruence.
      + intros S0. apply No. exists q. congruence.
      + intros Dx. apply No. exists QArr. exact Dx.
    - intros x Ge Li. destruct (option_eq_dec_nat (str s') x) as [Sx|Sx].
      + exists q. congruence.
      + exfalso. apply Li.
        assert (S0 : str s0 <> Some x).
        { intros S0. assert (x < next h) by (apply Below; exists q; congruence). lia. }
        assert (Dx : ddata (dims p) <> Some x).
        { intros Dx. assert (x < next h) by (apply Below; exists QArr; exact Dx). lia. }
        rewrite (E x Sx S0 Dx). apply heap_ok_dead; auto.
    - intros x (q' & Ex). destruct (opath_eq_dec q' q) as [->|Nq].
      + rewrite P' in Ex. destruct (D x Ex) as [S0|Ge]; [left; exists q; congruence | now right].
      + left. exists q'. destruct (C q' Nq) as (_ & <-). exact Ex.
    - intros x (q' & Ex) Li. destruct (opath_eq_dec q' q) as [->|Nq].
      + rewrite P0 in Ex. destruct (option_eq_dec_nat (str s') x) as [Sx|Sx].
        * exists q. congruence.
        * exfalso. apply Li. now apply F.
      + exists q'. destruct (C q' Nq) as (_ & ->). exact Ex.
    - constructor.
      + intros q1 q2 x E1 E2.
        destruct (opath_eq_dec q1 q) as [->|N1]; destruct (opath_eq_dec q2 q) as [->|N2]; auto.
        * exfalso. destruct (C q2 N2) as (_ & Eq). rewrite Eq in E2.
          destruct (Other q2 x N2 E2) as (Ns & _). apply Ns. congruence.
        * exfalso. destruct (C q1 N1) as (_ & Eq). rewrite Eq in E1.
          destruct (Other q1 x N1 E1) as (Ns & _). apply Ns. congruence.
        * destruct (C q1 N1) as (_ & Eq1). destruct (C q2 N2) as (_ & Eq2).
          rewrite Eq1 in E1. rewrite Eq2 in E2. apply (ok_inj _ _ O q1 q2 x); auto.
      + intros q' s As. destruct (opath_eq_dec q' q) as [->|Nq].
        * rewrite A' in As. inversion As; subst. exact So.
        * destruct (C q' Nq) as (Eq & _). rewrite Eq in As.
          apply str_ok_frame with h; [eapply ok_str; eauto|].
          intros y Sy.
          assert (Ey : opoints h p q' = Some y) by (rewrite (opoints_str _ _ _ _ As); exact Sy).
          destruct (Other q' y Nq Ey) as (N1 & N2).
          apply E; auto.
          intros Dy. assert (q' = QArr) by (apply (ok_inj _ _ O q' QArr y); auto).
          subst q'. discriminate As.
      + exact R. }
  intros q' Nq Na. destruct (C q' Nq) as (Es & Ep). split; [exact Ep|]. split; [exact Es|].
  intros y Ey. destruct (Other q' y Nq Ey) as (N1 & N2). apply E; auto.
  intros Dy. apply Na. apply (ok_inj _ _ O q' QArr y); auto.
Qed.
