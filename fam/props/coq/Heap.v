(* Heap.v -- an allocation-id heap (DESIGN 6.13) for the model of props/storage.c.

   An allocation is identified by the order in which the allocator handed it out (id 0, 1, 2, ...); ids are
   never reused.  [cells h id = None] means "not live" (never allocated, or released).  Every misuse the C
   library leaves undefined is an *error event* that sets the sticky flag [bad]:
     - free / realloc of an id that is not live            (double free, invalid free)
     - a read or write through an id that is not live      (use after free)
     - a write beyond the size of the allocation           (overflow)
     - a NULL dereference                                  ([crash])
   realloc may move: whether it does is taken from a script of booleans stored in the heap (the harness
   feeds the same script to its logging realloc); an exhausted script means "moves".
   Allocations are typed by what the code stores in them: bytes of a string, or an array of StorageDimension.
   No proofs in this file. *)
From Coq Require Import NArith List Bool Arith.
Import ListNotations.

Notation byte := N (only parsing).

(* components.h: struct String { char* str; size_t nbytes; uint8_t is_ref; } ; str = None is NULL *)
Record String := mkS { str : option nat; nbytes : nat; is_ref : bool }.

(* storage.h: struct StorageDimension *)
Record dim := mkDim {
  name : String;
  kind : N;
  array_size_px : N;
  chunk_size_px : N;
  shard_size_chunks : N
}.

Definition zero_string : String := mkS None 0 false.
Definition zero_dim : dim := mkDim zero_string 0 0 0 0.

Inductive payload :=
| PBytes (l : list byte)
| PDims (l : list dim).

Inductive event :=
| EMalloc (id n : nat) (isdims : bool)   (* n: bytes, or the number of StorageDimension elements when isdims *)
| ERealloc (old new n : nat)
| EFree (id : nat)
| EBadFree (id : nat)
| EBadAccess (id : nat)
| ECrash.

Record heap := mkH {
  cells : nat -> option payload;
  next : nat;                 (* the id the next allocation gets; every id >= next is not live *)
  bad : bool;                 (* an error event happened *)
  script : list bool;         (* does the k-th realloc from now on move the block? *)
  log : list event            (* allocator events, most recent first *)
}.

Definition empty_heap : heap := mkH (fun _ => None) 0 false [] [].

Definition upd (f : nat -> option payload) (id : nat) (v : option payload) : nat -> option payload :=
  fun x => if Nat.eqb x id then v else f x.

Definition set_cells (h : heap) (c : nat -> option payload) : heap :=
  mkH c (next h) (bad h) (script h) (log h).

Definition add_log (h : heap) (e : event) : heap :=
  mkH (cells h) (next h) (bad h) (script h) (e :: log h).

Definition clear_log (h : heap) : heap :=
  mkH (cells h) (next h) (bad h) (script h) [].

Definition set_script (h : heap) (s : list bool) : heap :=
  mkH (cells h) (next h) (bad h) s (log h).

Definition fault (h : heap) (id : nat) : heap :=
  mkH (cells h) (next h) true (script h) (EBadAccess id :: log h).

Definition crash (h : heap) : heap :=
  mkH (cells h) (next h) true (script h) (ECrash :: log h).

Definition alloc (h : heap) (p : payload) (e : nat -> event) : nat * heap :=
  let id := next h in
  (id, mkH (upd (cells h) id (Some p)) (S id) (bad h) (script h) (e id :: log h)).

(* malloc(n) for a string; the content of fresh memory is unspecified (the code overwrites it before reading) *)
Definition malloc_bytes (h : heap) (n : nat) : nat * heap :=
  alloc h (PBytes (repeat 0%N n)) (fun id => EMalloc id n false).

(* malloc(n * sizeof(struct StorageDimension)) followed by memset(.., 0, ..) *)
Definition malloc_dims (h : heap) (n : nat) : nat * heap :=
  alloc h (PDims (repeat zero_dim n)) (fun id => EMalloc id n true).

Definition free (h : heap) (id : nat) : heap :=
  match cells h id with
  | Some _ => mkH (upd (cells h) id None) (next h) (bad h) (script h) (EFree id :: log h)
  | None => mkH (cells h) (next h) true (script h) (EBadFree id :: log h)
  end.

Definition resize (n : nat) (l : list byte) : list byte :=
  firstn n l ++ repeat 0%N (n - length l).

Definition realloc_bytes (h : heap) (id n : nat) : nat * heap :=
  match cells h id with
  | Some (PBytes l) =>
      let mv := match script h with b :: _ => b | [] => true end in
      let sc := tl (script h) in
      if mv then
        let nid := next h in
        (nid, mkH (upd (upd (cells h) id None) nid (Some (PBytes (resize n l)))) (S nid) (bad h) sc
                  (ERealloc id nid n :: log h))
      else
        (id, mkH (upd (cells h) id (Some (PBytes (resize n l)))) (next h) (bad h) sc
                 (ERealloc id id n :: log h))
  | _ => (id, fault h id)
  end.

Definition get_bytes (h : heap) (id : nat) : list byte :=
  match cells h id with Some (PBytes l) => l | _ => [] end.

Definition get_dims (h : heap) (id : nat) : list dim :=
  match cells h id with Some (PDims l) => l | _ => [] end.

(* an access (read) through a pointer to allocation id *)
Definition touch (h : heap) (id : nat) : heap :=
  match cells h id with Some _ => h | None => fault h id end.

(* reading n bytes of a string allocation *)
Definition touch_bytes (h : heap) (id n : nat) : heap :=
  match cells h id with
  | Some (PBytes l) => if n <=? length l then h else fault h id
  | _ => fault h id
  end.

(* memset / memcpy into the first bytes of a string allocation *)
Definition write_prefix (h : heap) (id : nat) (l : list byte) : heap :=
  match cells h id with
  | Some (PBytes old) =>
      if length l <=? length old
      then set_cells h (upd (cells h) id (Some (PBytes (l ++ skipn (length l) old))))
      else fault h id
  | _ => fault h id
  end.

(* str[k] = v *)
Definition write_at (h : heap) (id k : nat) (v : byte) : heap :=
  match cells h id with
  | Some (PBytes old) =>
      if k <? length old
      then set_cells h (upd (cells h) id (Some (PBytes (firstn k old ++ v :: skipn (S k) old))))
      else fault h id
  | _ => fault h id
  end.

Fixpoint set_nth {A} (k : nat) (v : A) (l : list A) : list A :=
  match l, k with
  | [], _ => []
  | _ :: t, 0 => v :: t
  | x :: t, S k' => x :: set_nth k' v t
  end.

(* data[k] = d  (whole-element store into a dimension array) *)
Definition put_dim (h : heap) (a k : nat) (d : dim) : heap :=
  match cells h a with
  | Some (PDims l) =>
      if k <? length l
      then set_cells h (upd (cells h) a (Some (PDims (set_nth k d l))))
      else fault h a
  | _ => fault h a
  end.
