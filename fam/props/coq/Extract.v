From Coq Require Import NArith ZArith List Bool.
From Coq Require Import ExtrOcamlBasic.
From Props Require Import Heap PropsModel.
Extraction Language OCaml.
Extraction "propsmodel.ml" init_state step wf_opb.
