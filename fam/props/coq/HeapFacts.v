(* HeapFacts.v -- what each heap primitive of Heap.v does when its precondition holds. *)
From Coq Require Import NArith List Bool Arith Lia.
From Props Require Import Heap.
Import ListNotations.

Definition live (h : heap) (x : nat) : Prop := cells h x <> None.

(* every live id was handed out *)
Definition heap_ok (h : heap) : Prop := forall x, live h x -> x < next h.

Lemma upd_same : forall f x v, upd f x v x = v.
Proof. intros. unfold upd. now rewrite Nat.eqb_refl. Qed.

Lemma upd_other : forall f x v y, y <> x -> upd f x v y = f y.
Proof. intros. unfold upd. destruct (Nat.eqb_spec y x); congruence. Qed.

Lemma heap_ok_dead : forall h x, heap_ok h -> next h <= x -> cells h x = None.
Proof.
  intros h x H L. destruct (cells h x) eqn:E; auto.
  assert (x < next h) by (apply H; unfold live; congruence). lia.
Qed.

(* ---------------------------------------------------------------- a store of bytes / dims into a live cell *)
Definition wr (h : heap) (x : nat) (p : payload) : heap := set_cells h (upd (cells h) x (Some p)).

Lemma wr_cells_same : forall h x p, cells (wr h x p) x = Some p.
Proof. intros. simpl. apply upd_same. Qed.

Lemma wr_cells_other : forall h x p y, y <> x -> cells (wr h x p) y = cells h y.
Proof. intros. simpl. now apply upd_other. Qed.

Lemma wr_next : forall h x p, next (wr h x p) = next h.
Proof. reflexivity. Qed.

Lemma wr_bad : forall h x p, bad (wr h x p) = bad h.
Proof. reflexivity. Qed.

Lemma wr_script : forall h x p, script (wr h x p) = script h.
Proof. reflexivity. Qed.

Lemma wr_heap_ok : forall h x p, heap_ok h -> live h x -> heap_ok (wr h x p).
Proof.
  intros h x p H L y Ly. rewrite wr_next. unfold live in Ly.
  destruct (Nat.eq_dec y x) as [->|N]; [now apply H|].
  rewrite wr_cells_other in Ly by auto. now apply H.
Qed.

Lemma write_prefix_ok : forall h x l old,
  cells h x = Some (PBytes old) -> length l <= length old ->
  write_prefix h x l = wr h x (PBytes (l ++ skipn (length l) old)).
Proof.
  intros h x l old E L. unfold write_prefix. rewrite E.
  destruct (Nat.leb_spec (length l) (length old)); [reflexivity|lia].
Qed.

Lemma write_at_ok : forall h x k v old,
  cells h x = Some (PBytes old) -> k < length old ->
  write_at h x k v = wr h x (PBytes (firstn k old ++ v :: skipn (S k) old)).
Proof.
  intros h x k v old E L. unfold write_at. rewrite E.
  destruct (Nat.ltb_spec k (length old)); [reflexivity|lia].
Qed.

Lemma put_dim_ok : forall h a k d l,
  cells h a = Some (PDims l) -> k < length l ->
  put_dim h a k d = wr h a (PDims (set_nth k d l)).
Proof.
  intros h a k d l E L. unfold put_dim. rewrite E.
  destruct (Nat.ltb_spec k (length l)); [reflexivity|lia].
Qed.

Lemma touch_ok : forall h x p, cells h x = Some p -> touch h x = h.
Proof. intros h x p E. unfold touch. now rewrite E. Qed.

Lemma touch_bytes_ok : forall h x n l, cells h x = Some (PBytes l) -> n <= length l -> touch_bytes h x n = h.
Proof.
  intros h x n l E L. unfold touch_bytes. rewrite E.
  destruct (Nat.leb_spec n (length l)); [reflexivity|lia].
Qed.

(* ---------------------------------------------------------------- free *)
Definition rm (h : heap) (x : nat) : heap :=
  mkH (upd (cells h) x None) (next h) (bad h) (script h) (EFree x :: log h).

Lemma free_ok : forall h x p, cells h x = Some p -> free h x = rm h x.
Proof. intros h x p E. unfold free. now rewrite E. Qed.

Lemma rm_cells_same : forall h x, cells (rm h x) x = None.
Proof. intros. simpl. apply upd_same. Qed.

Lemma rm_cells_other : forall h x y, y <> x -> cells (rm h x) y = cells h y.
Proof. intros. simpl. now apply upd_other. Qed.

Lemma rm_heap_ok : forall h x, heap_ok h -> heap_ok (rm h x).
Proof.
  intros h x H y Ly. unfold live in Ly. simpl in *.
  destruct (Nat.eq_dec y x) as [->|N]; [rewrite upd_same in Ly; congruence|].
  rewrite upd_other in Ly by auto. now apply H.
Qed.

(* ---------------------------------------------------------------- malloc *)
Lemma alloc_spec : forall h p e x h',
  alloc h p e = (x, h') ->
  x = next h /\ next h' = S (next h) /\ bad h' = bad h /\ script h' = script h /\
  cells h' = upd (cells h) (next h) (Some p).
Proof. unfold alloc. intros. inversion H; subst. simpl. auto. Qed.

Lemma alloc_heap_ok : forall h p e x h', alloc h p e = (x, h') -> heap_ok h -> heap_ok h'.
Proof.
  intros h p e x h' A H. apply alloc_spec in A as (-> & N & _ & _ & C).
  intros y Ly. unfold live in Ly. rewrite N. rewrite C in Ly.
  destruct (Nat.eq_dec y (next h)) as [->|Ne]; [lia|].
  rewrite upd_other in Ly by auto. specialize (H y Ly). lia.
Qed.

(* ---------------------------------------------------------------- realloc *)
Lemma resize_length : forall n l, length (resize n l) = n.
Proof.
  intros. unfold resize. rewrite app_length, firstn_length, repeat_length. lia.
Qed.

Lemma realloc_spec : forall h x n l y h',
  realloc_bytes h x n = (y, h') -> cells h x = Some (PBytes l) -> heap_ok h ->
  bad h' = bad h /\ heap_ok h' /\ next h <= next h' /\
  cells h' y = Some (PBytes (resize n l)) /\
  (y = x \/ (y = next h /\ next h' = S (next h) /\ cells h' x = None)) /\
  (forall z, z <> y -> z <> x -> cells h' z = cells h z).
Proof.
  intros h x n l y h' R E H. unfold realloc_bytes in R. rewrite E in R.
  assert (Lx : x < next h) by (apply H; unfold live; congruence).
  destruct (match script h with [] => true | b :: _ => b end).
  - inversion R; subst; clear R. simpl. repeat split; auto.
    + intros z Lz. unfold live in Lz. simpl in *.
      destruct (Nat.eq_dec z (next h)) as [->|Nz]; [lia|].
      rewrite upd_other in Lz by auto.
      destruct (Nat.eq_dec z x) as [->|Nx]; [lia|].
      rewrite upd_other in Lz by auto. specialize (H z Lz). lia.
    + apply upd_same.
    + right. repeat split; auto. rewrite upd_other by lia. apply upd_same.
    + intros z Nz Nx. rewrite upd_other by auto. now rewrite upd_other by auto.
  - inversion R; subst; clear R. simpl. repeat split; auto.
    + intros z Lz. unfold live in Lz. simpl in *.
      destruct (Nat.eq_dec z y) as [->|Nz]; [lia|].
      rewrite upd_other in Lz by auto. now apply H.
    + apply upd_same.
    + intros z Nz _. now rewrite upd_other by auto.
Qed.

(* ---------------------------------------------------------------- lists *)
Lemma set_nth_length : forall A k (v : A) l, length (set_nth k v l) = length l.
Proof. induction k; destruct l; simpl; auto. Qed.

Lemma set_nth_same : forall A k (v : A) l, k < length l -> nth_error (set_nth k v l) k = Some v.
Proof. induction k; destruct l; simpl; intros; try lia; auto. apply IHk. lia. Qed.

Lemma set_nth_other : forall A k (v : A) l j, j <> k -> nth_error (set_nth k v l) j = nth_error l j.
Proof.
  induction k; destruct l; simpl; intros; auto.
  - destruct j; [congruence|reflexivity].
  - destruct j; [reflexivity|]. simpl. apply IHk. congruence.
Qed.

Lemma nth_nth_error : forall A (l : list A) k d x, nth_error l k = Some x -> nth k l d = x.
Proof. induction l; destruct k; simpl; intros; try discriminate; [congruence|eauto]. Qed.

Lemma nth_error_nth' : forall A (l : list A) k d, k < length l -> nth_error l k = Some (nth k l d).
Proof. induction l; destruct k; simpl; intros; try lia; auto. apply IHl. lia. Qed.

Lemma nth_error_repeat : forall A (x : A) n k, k < n -> nth_error (repeat x n) k = Some x.
Proof. induction n; destruct k; simpl; intros; try lia; auto. apply IHn. lia. Qed.
