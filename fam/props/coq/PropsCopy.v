(* PropsCopy.v -- what storage_properties_copy computes: the value of an object ("view"), the contract of copy. *)
From Coq Require Import NArith ZArith List Bool Arith Lia.
From Props Require Import Heap HeapFacts PropsModel PropsString PropsInv PropsSteps.
Import ListNotations.

(* ---------------------------------------------------------------- the value of a stored string / dimension / object *)
(* NULL and zero-length strings count as the empty string, as copy_string itself treats them *)
Definition sview (h : heap) (s : String) : list N :=
  match str s with
  | None => [0%N]
  | Some x => if nbytes s =? 0 then [0%N] else firstn (nbytes s) (get_bytes h x)
  end.

Definition dview (h : heap) (d : dim) : list N * N * N * N * N :=
  (sview h (name d), kind d, array_size_px d, chunk_size_px d, shard_size_chunks d).

Record view := mkV {
  v_uri : list N; v_meta : list N; v_akey : list N; v_skey : list N;
  v_ffid : N; v_psx : N; v_psy : N; v_multiscale : N;
  v_ndims : nat;
  v_dims : list (list N * N * N * N * N)
}.

Definition oview (h : heap) (p : props) : view :=
  mkV (sview h (uri p)) (sview h (meta p)) (sview h (akey p)) (sview h (skey p))
      (ffid p) (psx p) (psy p) (multiscale p)
      (dsize (dims p)) (map (dview h) (odims h p)).

Lemma sview_frame : forall h h' s, (forall x, str s = Some x -> cells h' x = cells h x) -> sview h' s = sview h s.
Proof.
  intros h h' s F. unfold sview. destruct (str s) as [x|]; auto.
  unfold get_bytes. now rewrite F.
Qed.

Lemma nth_firstn_lt : forall (l : list N) n k d, k < n -> nth k (firstn n l) d = nth k l d.
Proof.
  induction l; intros n k d L; destruct n; simpl; try lia; auto.
  destruct k; auto. apply IHl. lia.
Qed.

(* copying a well-formed stored string reproduces its value *)
Lemma sview_src : forall h s, str_ok h s -> term (eff_bytes h (SrcS s)) = sview h s.
Proof.
  intros h s O. unfold eff_bytes, eff_null, sview, str_ok in *. simpl.
  destruct (str s) as [y|]; simpl; [|reflexivity].
  destruct O as (_ & data & C & N1 & L & Z).
  destruct (Nat.eqb_spec (nbytes s) 0); [lia|].
  unfold get_bytes. rewrite C.
  apply term_idem.
  - rewrite firstn_length. lia.
  - rewrite firstn_length. replace (Init.Nat.min (nbytes s) (length data)) with (nbytes s) by lia.
    rewrite nth_firstn_lt by lia. exact Z.
Qed.

Lemma sview_copied : forall h x n data, cells h x = Some (PBytes data) -> 1 <= n ->
  sview h (mkS (Some x) n false) = firstn n data.
Proof.
  intros h x n data C N1. unfold sview. simpl. destruct (Nat.eqb_spec n 0); [lia|].
  unfold get_bytes. now rewrite C.
Qed.

Lemma stable_sview : forall h p h' p' q s, stable h p h' p' q -> ostring_at h p q = Some s ->
  ostring_at h' p' q = Some s /\ sview h' s = sview h s.
Proof.
  intros h p h' p' q s (P & A & C) As. split; [congruence|].
  apply sview_frame. intros x Sx. apply C. rewrite (opoints_str _ _ _ _ As). exact Sx.
Qed.

(* ---------------------------------------------------------------- the source object while the destination is worked on *)
Definition disjoint (h : heap) (p ps : props) : Prop := forall x, owned h p x -> owned h ps x -> False.

Record ctx (h0 h : heap) (p ps : props) : Prop := {
  cx_ok0 : obj_ok h0 ps;
  cx_ok : obj_ok h ps;
  cx_dis : disjoint h p ps;
  cx_same : forall x, owned h0 ps x -> cells h x = cells h0 x
}.

Lemma ctx_odims : forall h0 h p ps, ctx h0 h p ps -> odims h ps = odims h0 ps.
Proof.
  intros h0 h p ps X. apply odims_frame. intros a Da. apply (cx_same _ _ _ _ X). exists QArr. exact Da.
Qed.

Lemma ctx_owned : forall h0 h p ps x, ctx h0 h p ps -> (owned h ps x <-> owned h0 ps x).
Proof.
  intros h0 h p ps x X. pose proof (ctx_odims _ _ _ _ X) as E.
  split; intros (q & Eq); exists q; [rewrite <- (opoints_frame h0 h) | rewrite (opoints_frame h0 h)]; auto.
Qed.

Lemma ctx_init : forall h p ps, obj_ok h ps -> disjoint h p ps -> ctx h h p ps.
Proof. intros. constructor; auto. Qed.

Lemma ctx_step : forall h0 h p ps h' p',
  heap_ok h -> ctx h0 h p ps -> local_step h p h' p' -> ctx h0 h' p' ps.
Proof.
  intros h0 h p ps h' p' H X S.
  assert (F : forall x, owned h ps x -> cells h' x = cells h x).
  { intros x Ox. apply (ls_frame _ _ _ _ S).
    - intros Op. apply (cx_dis _ _ _ _ X x); auto.
    - apply H. eapply owned_live; eauto. apply (cx_ok _ _ _ _ X). }
  assert (OD : odims h' ps = odims h ps).
  { apply odims_frame. intros a Da. apply F. exists QArr. exact Da. }
  constructor.
  - apply (cx_ok0 _ _ _ _ X).
  - eapply obj_ok_frame; eauto. apply (cx_ok _ _ _ _ X).
  - intros x Op (q & Eq). rewrite (opoints_frame h h') in Eq by auto.
    assert (Ox : owned h ps x) by (now exists q).
    apply (ls_own _ _ _ _ S) in Op as [Op|Ge].
    + apply (cx_dis _ _ _ _ X x); auto.
    + assert (x < next h) by (apply H; eapply owned_live; eauto; apply (cx_ok _ _ _ _ X)). lia.
  - intros x Ox. rewrite F; [apply (cx_same _ _ _ _ X); auto|]. now apply (ctx_owned _ _ _ _ _ X).
Qed.

Lemma ctx_sview : forall h0 h p ps q s, ctx h0 h p ps -> ostring_at h0 ps q = Some s -> sview h s = sview h0 s.
Proof.
  intros h0 h p ps q s X As. apply sview_frame. intros x Sx. apply (cx_same _ _ _ _ X).
  exists q. rewrite (opoints_str _ _ _ _ As). exact Sx.
Qed.

(* a string of the source is a legal source for a copy_string into the destination *)
Lemma ctx_src_ext : forall h0 h p ps q s, ctx h0 h p ps -> ostring_at h ps q = Some s -> src_ext h p (SrcS s).
Proof.
  intros h0 h p ps q s X As. simpl. split.
  - eapply ok_str; eauto. apply (cx_ok _ _ _ _ X).
  - intros y Sy Op. apply (cx_dis _ _ _ _ X y); auto. exists q. rewrite (opoints_str _ _ _ _ As). exact Sy.
Qed.

(* ---------------------------------------------------------------- one string field of copy *)
Lemma copy_field_spec : forall f h0 h p ps h' p' ok,
  good h p -> ctx h0 h p ps ->
  copy_field f h p ps = (h', p', ok) ->
  ok = true /\ local_step h p h' p' /\
  sview h' (getf f p') = sview h0 (getf f ps) /\
  (forall g, g <> f -> stable h p h' p' (QStr g)) /\
  exists s', p' = setf f s' p.
Proof.
  intros f h0 h p ps h' p' ok (B & H & O) X E. unfold copy_field in E.
  destruct (copy_string h (getf f p) (SrcS (getf f ps))) as [[h1 s1] ok1] eqn:E1.
  inversion E; subst; clear E.
  assert (As : ostring_at h ps (QStr f) = Some (getf f ps)) by reflexivity.
  destruct (field_step _ _ _ _ _ _ _ B H O E1 (ctx_src_ext _ _ _ _ _ _ X As))
    as (Ok & (S & St) & x & data & Es & C & L & T & Ll & _).
  split; auto. split; auto. split; [|split; [|eauto]].
  - rewrite getf_setf_same. subst s1.
    assert (N1 : 1 <= eff_n (SrcS (getf f ps))).
    { unfold eff_n. destruct (eff_null _) eqn:En; auto. unfold eff_null in En. simpl in *.
      apply orb_false_iff in En as (_ & En). apply Nat.eqb_neq in En. lia. }
    rewrite (sview_copied _ _ _ _ C N1), T.
    rewrite sview_src by (apply (ok_str _ _ (cx_ok _ _ _ _ X) (QStr f)); reflexivity).
    apply (ctx_sview h0 h p ps (QStr f)); auto.
  - intros g Ng. apply St; congruence.
Qed.

(* ---------------------------------------------------------------- one dimension of copy *)
Lemma ctx_src_array : forall h0 h p ps sa, ctx h0 h p ps -> ddata (dims ps) = Some sa ->
  cells h sa = Some (PDims (odims h0 ps)) /\ length (odims h0 ps) = dsize (dims ps).
Proof.
  intros h0 h p ps sa X D.
  pose proof (ok_arr _ _ (cx_ok _ _ _ _ X)) as R. unfold arr_ok in R. rewrite D in R.
  destruct R as (l & C & Ll & _).
  rewrite <- (ctx_odims _ _ _ _ X). rewrite (odims_arr _ _ _ _ D C). auto.
Qed.

Lemma dim_copy_spec : forall h0 h p ps da sa i ld h' ok,
  good h p -> ctx h0 h p ps ->
  ddata (dims p) = Some da -> ddata (dims ps) = Some sa ->
  cells h da = Some (PDims ld) -> i < length ld -> i < length (odims h0 ps) ->
  dim_copy h da sa i = (h', ok) ->
  ok = true /\ local_step h p h' p /\
  (exists d', cells h' da = Some (PDims (set_nth i d' ld)) /\ dview h' d' = dview h0 (nth i (odims h0 ps) zero_dim)) /\
  (forall q', q' <> QName i -> q' <> QArr -> stable h p h' p q').
Proof.
  intros h0 h p ps da sa i ld h' ok (B & H & O) X D Ds C Li Ls E. unfold dim_copy in E.
  destruct (ctx_src_array _ _ _ _ _ X Ds) as (Cs & _).
  set (ls := odims h0 ps) in *.
  rewrite (touch_ok _ _ _ Cs) in E. unfold get_dims in E. rewrite Cs in E.
  rewrite (touch_ok _ _ _ C) in E. rewrite C in E.
  set (sd := nth i ls zero_dim) in *. set (dd := nth i ld zero_dim) in *.
  destruct (copy_string h (name dd) (SrcS (name sd))) as [[h1 s1] ok1] eqn:E1.
  assert (As : ostring_at h ps (QName i) = Some (name sd)).
  { simpl. rewrite (ctx_odims _ _ _ _ X). fold ls. rewrite (nth_error_nth' _ ls i zero_dim Ls). reflexivity. }
  assert (As0 : ostring_at h0 ps (QName i) = Some (name sd)).
  { simpl. fold ls. rewrite (nth_error_nth' _ ls i zero_dim Ls). reflexivity. }
  set (d' := mkDim s1 (kind sd) (array_size_px sd) (chunk_size_px sd) (shard_size_chunks sd)).
  destruct (name_set_step h p da i ld (SrcS (name sd)) h1 s1 ok1 d' B H O D C Li E1 (ctx_src_ext _ _ _ _ _ _ X As) eq_refl)
    as (-> & (S & St) & Cd & x & data & Es & Cx & L & T & Ll & _).
  simpl in E. inversion E; subst h' ok; clear E.
  set (hh := put_dim h1 da i d') in *.
  assert (V : sview hh s1 = sview h0 (name sd)).
  { clearbody hh d'. subst s1.
    assert (N1 : 1 <= eff_n (SrcS (name sd))).
    { unfold eff_n. destruct (eff_null _) eqn:En; auto. unfold eff_null in En. simpl in *.
      apply orb_false_iff in En as (_ & En). apply Nat.eqb_neq in En. lia. }
    rewrite (sview_copied _ _ _ _ Cx N1), T.
    rewrite sview_src by (apply (ok_str _ _ (cx_ok _ _ _ _ X) (QName i)); exact As).
    apply (ctx_sview h0 h p ps (QName i)); auto. }
  split; auto. split; auto. split; auto.
  exists d'. split; auto.
  unfold dview. replace (name d') with s1 by reflexivity.
  replace (kind d') with (kind sd) by reflexivity.
  replace (array_size_px d') with (array_size_px sd) by reflexivity.
  replace (chunk_size_px d') with (chunk_size_px sd) by reflexivity.
  replace (shard_size_chunks d') with (shard_size_chunks sd) by reflexivity.
  f_equal. f_equal. f_equal. f_equal. exact V.
Qed.

Lemma dview_stable : forall h p h' j d, stable h p h' p (QName j) -> nth_error (odims h p) j = Some d ->
  dview h' d = dview h d.
Proof.
  intros h p h' j d St E. unfold dview. f_equal. f_equal. f_equal. f_equal.
  assert (As : ostring_at h p (QName j) = Some (name d)) by (simpl; now rewrite E).
  now destruct (stable_sview _ _ _ _ _ _ St As).
Qed.

Lemma dims_copy_loop_spec : forall n i h0 h p ps da sa h' ok,
  good h p -> ctx h0 h p ps ->
  ddata (dims p) = Some da -> ddata (dims ps) = Some sa ->
  i + n = length (odims h0 ps) -> dsize (dims p) = length (odims h0 ps) ->
  dims_copy_loop h da sa i n = (h', ok) ->
  (forall j, j < i -> option_map (dview h) (nth_error (odims h p) j) = option_map (dview h0) (nth_error (odims h0 ps) j)) ->
  ok = true /\ local_step h p h' p /\
  (forall j, j < length (odims h0 ps) ->
     option_map (dview h') (nth_error (odims h' p) j) = option_map (dview h0) (nth_error (odims h0 ps) j)) /\
  (forall f, stable h p h' p (QStr f)).
Proof.
  induction n as [|n IH]; intros i h0 h p ps da sa h' ok G X D Ds Ei Sz E Done; simpl in E.
  - inversion E; subst. destruct G as (B & H & O).
    split; auto. split; [now apply local_step_refl|]. split; [|intros; apply stable_refl].
    intros j Lj. apply Done. lia.
  - pose proof G as (B & H & O).
    pose proof (ok_arr _ _ O) as R. unfold arr_ok in R. rewrite D in R. destruct R as (ld & C & Lld & _).
    destruct (dim_copy h da sa i) as [h1 ok1] eqn:E1.
    assert (Li : i < length ld) by lia. assert (Ls : i < length (odims h0 ps)) by lia.
    destruct (dim_copy_spec _ _ _ _ _ _ _ _ _ _ G X D Ds C Li Ls E1) as (-> & S1 & (d' & C1 & V1) & St1).
    simpl in E.
    pose proof (local_step_good _ _ _ _ S1) as G1.
    pose proof (ctx_step _ _ _ _ _ _ H X S1) as X1.
    assert (OD : odims h p = ld) by (eapply odims_arr; eauto).
    assert (OD1 : odims h1 p = set_nth i d' ld) by (eapply odims_arr; eauto).
    destruct (IH (S i) h0 h1 p ps da sa h' ok G1 X1 D Ds) as (Ok & S2 & V2 & St2); auto; try lia.
    + intros j Lj. rewrite OD1. destruct (Nat.eq_dec j i) as [->|Nj].
      * rewrite set_nth_same by auto. simpl. rewrite V1.
        rewrite (nth_error_nth' _ (odims h0 ps) i zero_dim Ls). reflexivity.
      * rewrite set_nth_other by auto. rewrite <- Done by lia. rewrite OD.
        destruct (nth_error ld j) as [d|] eqn:Ej; simpl; auto. f_equal.
        apply (dview_stable h p h1 j d); [apply St1; congruence | now rewrite OD].
    + split; auto. split; [eapply local_step_trans; eauto|]. split; auto.
      intros f. eapply stable_trans; [apply St1; discriminate | apply St2].
Qed.

Lemma map_nth_error_ext : forall A B C (f : A -> C) (g : B -> C) l1 l2,
  length l1 = length l2 ->
  (forall j, j < length l2 -> option_map f (nth_error l1 j) = option_map g (nth_error l2 j)) ->
  map f l1 = map g l2.
Proof.
  induction l1 as [|a l1 IH]; destruct l2 as [|b l2]; simpl; intros L E; try discriminate; auto.
  f_equal.
  - specialize (E 0 (Nat.lt_0_succ _)). simpl in E. now inversion E.
  - apply IH; [lia|]. intros j Lj. apply (E (S j)). lia.
Qed.

(* ---------------------------------------------------------------- storage_properties_copy *)
Lemma stable_fview : forall h p h' p' f, stable h p h' p' (QStr f) ->
  sview h' (getf f p') = sview h (getf f p).
Proof.
  intros h p h' p' f St.
  destruct (stable_sview _ _ _ _ _ (getf f p) St eq_refl) as (A & V).
  simpl in A. inversion A as [A']. rewrite A'. exact V.
Qed.

Lemma scalars_setf : forall f s p,
  ffid (setf f s p) = ffid p /\ psx (setf f s p) = psx p /\ psy (setf f s p) = psy p /\
  multiscale (setf f s p) = multiscale p.
Proof. destruct f; simpl; auto. Qed.

Definition scalars (p : props) : N * N * N * N := (ffid p, psx p, psy p, multiscale p).

Lemma scalars_setf' : forall f s p, scalars (setf f s p) = scalars p.
Proof. destruct f; reflexivity. Qed.

Lemma scalars_set_dims : forall d p, scalars (set_dims d p) = scalars p.
Proof. reflexivity. Qed.

Lemma dims_init_eq : forall h p n h' p' ok,
  dims_init h p n = (h', p', ok) -> ddata (dims p) = None -> 0 < n ->
  p' = set_dims (mkD (Some (next h)) n) p.
Proof.
  intros h p n h' p' ok E D L. unfold dims_init in E.
  destruct (Nat.eqb_spec n 0); [lia|]. rewrite D in E. simpl in E. now inversion E.
Qed.

Lemma dims_destroy_eq : forall h p h' p', dims_destroy h p = (h', p') -> scalars p' = scalars p.
Proof.
  intros h p h' p' E. unfold dims_destroy in E. destruct (ddata (dims p)); inversion E; reflexivity.
Qed.

Lemma oview_eq : forall h1 p1 h2 p2,
  (forall f, sview h1 (getf f p1) = sview h2 (getf f p2)) ->
  scalars p1 = scalars p2 -> dsize (dims p1) = dsize (dims p2) ->
  map (dview h1) (odims h1 p1) = map (dview h2) (odims h2 p2) ->
  oview h1 p1 = oview h2 p2.
Proof.
  intros h1 p1 h2 p2 F S D M. unfold oview. unfold scalars in S. inversion S.
  pose proof (F FUri) as F1. pose proof (F FMeta) as F2. pose proof (F FAKey) as F3. pose proof (F FSKey) as F4.
  simpl in *. congruence.
Qed.

Lemma props_copy_spec : forall h p ps h' p' ok,
  good h p -> obj_ok h ps -> disjoint h p ps ->
  props_copy h p ps = (h', p', ok) ->
  ok = true /\ local_step h p h' p' /\ oview h' p' = oview h ps /\
  (forall x, owned h ps x -> cells h' x = cells h x).
Proof.
  intros h p ps h' p' ok G Os Dj E. pose proof G as (B & H & O). unfold props_copy in E.
  set (p0 := set_dims (dims p) (setf FSKey (skey p) (setf FAKey (akey p) (setf FMeta (meta p) (setf FUri (uri p) ps))))) in *.
  assert (G0f : forall f, getf f p0 = getf f p) by (intros []; reflexivity).
  assert (D0 : dims p0 = dims p) by reflexivity.
  assert (Sc0 : scalars p0 = scalars ps) by reflexivity.
  assert (S0 : local_step h p h p0) by (apply local_step_same_pointers; auto).
  pose proof (ctx_step _ _ _ _ _ _ H (ctx_init _ _ _ Os Dj) S0) as X0.
  pose proof (local_step_good _ _ _ _ S0) as G0.
  (* 2. the four strings *)
  destruct (copy_field FUri h p0 ps) as [[h1 p1] ok1] eqn:E1.
  destruct (copy_field_spec _ _ _ _ _ _ _ _ G0 X0 E1) as (-> & S1 & V1 & St1 & s1 & P1). simpl in E.
  pose proof (local_step_good _ _ _ _ S1) as G1.
  pose proof (ctx_step _ _ _ _ _ _ (proj1 (proj2 G0)) X0 S1) as X1.
  destruct (copy_field FMeta h1 p1 ps) as [[h2 p2] ok2] eqn:E2.
  destruct (copy_field_spec _ _ _ _ _ _ _ _ G1 X1 E2) as (-> & S2 & V2 & St2 & s2 & P2). simpl in E.
  pose proof (local_step_good _ _ _ _ S2) as G2.
  pose proof (ctx_step _ _ _ _ _ _ (proj1 (proj2 G1)) X1 S2) as X2.
  destruct (copy_field FAKey h2 p2 ps) as [[h3 p3] ok3] eqn:E3.
  destruct (copy_field_spec _ _ _ _ _ _ _ _ G2 X2 E3) as (-> & S3 & V3 & St3 & s3 & P3). simpl in E.
  pose proof (local_step_good _ _ _ _ S3) as G3.
  pose proof (ctx_step _ _ _ _ _ _ (proj1 (proj2 G2)) X2 S3) as X3.
  destruct (copy_field FSKey h3 p3 ps) as [[h4 p4] ok4] eqn:E4.
  destruct (copy_field_spec _ _ _ _ _ _ _ _ G3 X3 E4) as (-> & S4 & V4 & St4 & s4 & P4). simpl in E.
  pose proof (local_step_good _ _ _ _ S4) as G4.
  pose proof (ctx_step _ _ _ _ _ _ (proj1 (proj2 G3)) X3 S4) as X4.
  pose proof (local_step_trans _ _ _ _ _ _ H O S0 S1) as T1.
  pose proof (local_step_trans _ _ _ _ _ _ H O T1 S2) as T2.
  pose proof (local_step_trans _ _ _ _ _ _ H O T2 S3) as T3.
  pose proof (local_step_trans _ _ _ _ _ _ H O T3 S4) as T4.
  assert (V : forall f, sview h4 (getf f p4) = sview h (getf f ps)).
  { intros [].
    - rewrite (stable_fview _ _ _ _ FUri (St4 FUri ltac:(discriminate))).
      rewrite (stable_fview _ _ _ _ FUri (St3 FUri ltac:(discriminate))).
      rewrite (stable_fview _ _ _ _ FUri (St2 FUri ltac:(discriminate))). exact V1.
    - rewrite (stable_fview _ _ _ _ FMeta (St4 FMeta ltac:(discriminate))).
      rewrite (stable_fview _ _ _ _ FMeta (St3 FMeta ltac:(discriminate))). exact V2.
    - rewrite (stable_fview _ _ _ _ FAKey (St4 FAKey ltac:(discriminate))). exact V3.
    - exact V4. }
  assert (Sc4 : scalars p4 = scalars ps).
  { rewrite P4, scalars_setf', P3, scalars_setf', P2, scalars_setf', P1, scalars_setf'. exact Sc0. }
  assert (D4 : dims p4 = dims p).
  { rewrite P4, dims_setf, P3, dims_setf, P2, dims_setf, P1, dims_setf. exact D0. }
  clear E1 E2 E3 E4 S1 S2 S3 S4 St1 St2 St3 St4 V1 V2 V3 V4 X0 X1 X2 X3 G0 G1 G2 G3.
  (* 3. release dst's dimensions *)
  assert (exists h5 p5,
            (match ddata (dims p4) with Some _ => dims_destroy h4 p4 | None => (h4, p4) end) = (h5, p5) /\
            local_step h4 p4 h5 p5 /\ dims p5 = zero_dims /\ scalars p5 = scalars p4 /\
            (forall f, stable h4 p4 h5 p5 (QStr f))) as (h5 & p5 & E5 & S5 & D5 & Sc5 & St5).
  { destruct (ddata (dims p4)) as [a4|] eqn:Da4.
    - destruct (dims_destroy h4 p4) as [h5 p5] eqn:E5. exists h5, p5.
      destruct (dims_destroy_step _ _ _ _ G4 E5) as (S5 & D5 & _ & St5).
      split; [reflexivity|]. split; [exact S5|]. split; [exact D5|].
      split; [exact (dims_destroy_eq _ _ _ _ E5) | exact St5].
    - exists h4, p4. destruct G4 as (B4 & H4 & O4).
      split; [reflexivity|]. split; [now apply local_step_refl|]. split; [|split; [reflexivity | intros; apply stable_refl]].
      + pose proof (ok_arr _ _ O4) as R. unfold arr_ok in R. rewrite Da4 in R.
        destruct (dims p4) as [dd ds]; simpl in *. subst. reflexivity. }
  rewrite E5 in E. clear E5.
  pose proof (local_step_good _ _ _ _ S5) as G5.
  pose proof (ctx_step _ _ _ _ _ _ (proj1 (proj2 G4)) X4 S5) as X5.
  pose proof (local_step_trans _ _ _ _ _ _ H O T4 S5) as T5.
  assert (V5 : forall f, sview h5 (getf f p5) = sview h (getf f ps)).
  { intros f. rewrite (stable_fview _ _ _ _ f (St5 f)). apply V. }
  assert (Dd5 : ddata (dims p5) = None) by (now rewrite D5).
  destruct (ddata (dims ps)) as [sa|] eqn:Ds.
  - (* the source has dimensions *)
    pose proof (ok_arr _ _ Os) as Rs. unfold arr_ok in Rs. rewrite Ds in Rs. destruct Rs as (ls & Cs & Lls & Pos).
    assert (ODs : odims h ps = ls) by (eapply odims_arr; eauto).
    destruct (dims_init h5 p5 (dsize (dims ps))) as [[h6 p6] ok6] eqn:E6.
    destruct G5 as (B5 & H5 & O5).
    destruct (dims_init_step _ _ _ _ _ _ B5 H5 O5 Dd5 Pos E6) as (-> & S6 & G6f & D6 & C6 & _ & St6).
    pose proof (dims_init_eq _ _ _ _ _ _ E6 Dd5 Pos) as P6.
    simpl in E. rewrite D6 in E. simpl in E.
    pose proof (local_step_good _ _ _ _ S6) as G6.
    pose proof (ctx_step _ _ _ _ _ _ H5 X5 S6) as X6.
    destruct (dims_copy_loop h6 (next h5) sa 0 (dsize (dims ps))) as [h7 ok7] eqn:E7.
    assert (Len : 0 + dsize (dims ps) = length (odims h ps)) by (rewrite ODs; lia).
    assert (Sz : dsize (dims p6) = length (odims h ps)) by (rewrite D6, ODs; simpl; lia).
    assert (Done : forall j, j < 0 -> option_map (dview h6) (nth_error (odims h6 p6) j) =
                                      option_map (dview h) (nth_error (odims h ps) j)) by (intros; lia).
    destruct (dims_copy_loop_spec _ _ _ _ _ _ _ _ _ _ G6 X6 (f_equal ddata D6) Ds Len Sz E7 Done)
      as (-> & S7 & V7 & St7).
    inversion E; subst h' p' ok; clear E.
    { pose proof (ctx_step _ _ _ _ _ _ (proj1 (proj2 G6)) X6 S7) as X7.
      split; auto. split; [exact (local_step_trans _ _ _ _ _ _ H O (local_step_trans _ _ _ _ _ _ H O T5 S6) S7)|].
      split; [|apply (cx_same _ _ _ _ X7)].
      apply oview_eq.
      * intros f. rewrite (stable_fview _ _ _ _ f (St7 f)), (stable_fview _ _ _ _ f (St6 f)). apply V5.
      * rewrite P6, scalars_set_dims. congruence.
      * rewrite D6. reflexivity.
      * apply map_nth_error_ext; [|exact V7].
        pose proof (ok_arr _ _ (ls_ok _ _ _ _ S7)) as R7. unfold arr_ok in R7. rewrite D6 in R7. simpl in R7.
        destruct R7 as (l7 & C7 & Ll7 & _).
        rewrite (odims_arr h7 p6 (next h5) l7) by (auto; now rewrite D6). rewrite ODs. lia. }
  - (* the source has no dimensions *)
    inversion E; subst h' p' ok; clear E.
    split; auto. split; auto. split; [|apply (cx_same _ _ _ _ X5)].
    pose proof (ok_arr _ _ Os) as Rs. unfold arr_ok in Rs. rewrite Ds in Rs.
    apply oview_eq; auto.
    + congruence.
    + rewrite D5. simpl. lia.
    + unfold odims. rewrite Dd5, Ds. reflexivity.
Qed.
