From Props Require Import Heap PropsModel.
