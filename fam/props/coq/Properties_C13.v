(* Properties_C13.v -- C13: StorageProperties copies are deep, complete and independent.

   The model (PropsModel.v over Heap.v) follows props/storage.c with the repairs fixes/01..03 applied.  A history is any
   list of calls (init, set_uri, set_external_metadata, set_access_key_and_secret, set_dimension,
   set_enable_multiscale, copy, destroy, and realloc move/stay scripts) applied to n zero-initialised objects; it is
   well-formed (wf_hist) when object indices exist, byte counts do not exceed the caller's buffers, init is applied
   only to an object that owns nothing, and copy is applied to two different objects.  Every theorem quantifies over
   all n, all well-formed histories of any length, all strings (NULL, empty, long, not terminated, shorter counts),
   all dimension counts, all realloc scripts.

   This file contains statements only; each is closed by `exact` of a lemma of PropsProofs.v. *)
From Coq Require Import NArith ZArith List Bool.
From Props Require Import Heap HeapFacts PropsModel PropsString PropsInv PropsSteps PropsCopy PropsProofs.
Import ListNotations.

(* After copy(dst, src) the call has returned 1 and dst equals src in every field: the four strings by content
   (sview: NULL and "" are the same value), first_frame_id, pixel scale, multiscale flag, the number of dimensions
   and every dimension (name by content, kind, array size, chunk size, shard size). *)
Theorem C13_copy_equal : forall n ops d s,
  wf_hist (init_state n) (ops ++ [OCopy d s]) = true ->
  let st := run (init_state n) ops in
  let st' := fst (step st (OCopy d s)) in
  snd (step st (OCopy d s)) = true /\
  exists pd ps,
    nth_error (objs st') d = Some pd /\ nth_error (objs st') s = Some ps /\
    oview (hp st') pd = oview (hp st') ps.
Proof. exact copy_equal. Qed.
Print Assumptions C13_copy_equal.

(* copy leaves the source untouched: the struct is bit-identical, every allocation it owns keeps its content. *)
Theorem C13_src_untouched : forall n ops d s,
  wf_hist (init_state n) (ops ++ [OCopy d s]) = true ->
  let st := run (init_state n) ops in
  let st' := fst (step st (OCopy d s)) in
  nth_error (objs st') s = nth_error (objs st) s /\
  forall ps, nth_error (objs st) s = Some ps ->
    (forall x, owned (hp st) ps x -> cells (hp st') x = cells (hp st) x) /\
    oview (hp st') ps = oview (hp st) ps.
Proof. exact src_untouched. Qed.
Print Assumptions C13_src_untouched.

(* No allocation is reachable through two different pointers: neither from two objects nor twice within one object
   (qi, qj range over the four strings, the dimension array and every dimension name). *)
Theorem C13_separation : forall n ops,
  wf_hist (init_state n) ops = true ->
  let st := run (init_state n) ops in
  forall i j p q qi qj x,
    nth_error (objs st) i = Some p -> nth_error (objs st) j = Some q ->
    opoints (hp st) p qi = Some x -> opoints (hp st) q qj = Some x ->
    i = j /\ qi = qj.
Proof. exact separation. Qed.
Print Assumptions C13_separation.

(* [bad] is raised by a free/realloc of an allocation that is not live, by any access through a released
   allocation, by a write beyond an allocation and by a NULL dereference: none happens.  After destroying every
   object no allocation is live: together with "never freed while not live", each allocation is released exactly once. *)
Theorem C13_free_once : forall n ops,
  wf_hist (init_state n) ops = true ->
  bad (hp (run (init_state n) ops)) = false /\
  wf_hist (init_state n) (ops ++ destroy_all n) = true /\
  let st' := run (init_state n) (ops ++ destroy_all n) in
  bad (hp st') = false /\ forall x, cells (hp st') x = None.
Proof. exact free_once. Qed.
Print Assumptions C13_free_once.

(* Every stored string (the four strings, every dimension name) is NULL or owned (is_ref = 0), lies inside a live
   allocation, has nbytes >= 1 and content[nbytes-1] = 0. *)
Theorem C13_terminated : forall n ops,
  wf_hist (init_state n) ops = true ->
  let st := run (init_state n) ops in
  forall i p q s, nth_error (objs st) i = Some p -> ostring_at (hp st) p q = Some s ->
    match str s with
    | None => True
    | Some x => is_ref s = false /\
                exists data, cells (hp st) x = Some (PBytes data) /\ 1 <= nbytes s /\ nbytes s <= length data /\
                             nth (nbytes s - 1) data 1%N = 0%N
    end.
Proof. exact terminated. Qed.
Print Assumptions C13_terminated.

(* ------------------------------------------------------------------------------------------------ non-vacuity *)
Definition c (l : list N) : cstr := mkC (Some l) (length l).

(* object 0: uri "abc", NULL metadata, two dimensions, slot 0 set twice (the old name must be released), slot 1 with a
   name that is not terminated; object 1: three dimensions, credentials, a uri that grows (realloc, in place then moved) *)
Definition ex_hist : list op :=
  [ OInit 0 7 (c [97; 98; 99; 0]%N) (mkC None 0) 1 2 2;
    OSetDim 0 0 (c [120; 0]%N) 0 10 5 1;
    OSetDim 0 1 (c [121; 122]%N) 1 11 6 2;
    OSetDim 0 0 (c [119; 118; 0]%N) 2 12 7 3;
    OInit 1 9 (c [100; 0]%N) (c [97; 98; 99; 0]%N) 3 4 3;
    OSetDim 1 2 (c [116; 0]%N) 2 1 1 1;
    OSetKeys 1 (c [107; 0]%N) (c [115; 115; 0]%N);
    OMoves [false; true];
    OSetUri 1 (c [1; 2; 3; 0]%N);
    OSetUri 1 (c [1; 2; 3; 4; 5; 6; 7; 8; 9; 0]%N);
    OSetMulti 0 1 ].

(* the hypotheses of C13_copy_equal / C13_src_untouched hold for a copy over a destination that has dimensions from a
   source that has (other) dimensions; also for the reverse direction, a third object, and a repeated copy *)
Example ex_wf : wf_hist (init_state 3) (ex_hist ++ [OCopy 1 0]) = true.
Proof. vm_compute. reflexivity. Qed.

Example ex_wf_more : wf_hist (init_state 3) ((ex_hist ++ [OCopy 1 0; OCopy 2 1; OCopy 0 2; OCopy 0 2; ODestroy 2; OCopy 1 2]) ++ [OCopy 2 0]) = true.
Proof. vm_compute. reflexivity. Qed.

(* the state the copy starts from is not trivial: 13 allocations were made, 11 are live, both objects have dimensions *)
Example ex_before :
  let st := run (init_state 3) ex_hist in
  next (hp st) = 13 /\
  length (filter (fun x => match cells (hp st) x with Some _ => true | None => false end) (seq 0 13)) = 11 /\
  map (fun p => dsize (dims p)) (objs st) = [2; 3; 0].
Proof. vm_compute. auto. Qed.

(* and the copy produces the source's value (name "yz" was stored as "y\0") *)
Example ex_after :
  let st := fst (step (run (init_state 3) ex_hist) (OCopy 1 0)) in
  option_map (oview (hp st)) (nth_error (objs st) 1) =
  Some (mkV [97; 98; 99; 0]%N [0]%N [0]%N [0]%N 7 1 2 1 2
            [([119; 118; 0]%N, 2, 12, 7, 3)%N; ([121; 0]%N, 1, 11, 6, 2)%N]).
Proof. vm_compute. reflexivity. Qed.

(* C13_separation / C13_terminated talk about something: after the copy both objects hold a pointer in every string
   field, an array and named dimensions, pairwise different allocations; the copied name "wv" is stored terminated *)
Example ex_points :
  let st := run (init_state 3) (ex_hist ++ [OCopy 1 0]) in
  map (fun p => map (opoints (hp st) p) [QStr FUri; QStr FMeta; QStr FAKey; QStr FSKey; QArr; QName 0; QName 1]) (objs st) =
  [ [Some 0; Some 1; None; None; Some 2; Some 5; Some 4];
    [Some 12; Some 7; Some 10; Some 11; Some 13; Some 14; Some 15];
    [None; None; None; None; None; None; None] ] /\
  option_map (fun p => ostring_at (hp st) p (QName 0)) (nth_error (objs st) 1) = Some (Some (mkS (Some 14) 3 false)) /\
  cells (hp st) 14 = Some (PBytes [119; 118; 0]%N).
Proof. vm_compute. auto. Qed.

(* C13_free_once on this history: 19 allocations are live before, none after destroying every object *)
Example ex_live_before :
  let st := run (init_state 3) (ex_hist ++ [OCopy 1 0; OCopy 2 1]) in
  bad (hp st) = false /\ next (hp st) = 23 /\
  length (filter (fun x => match cells (hp st) x with Some _ => true | None => false end) (seq 0 23)) = 19.
Proof. vm_compute. auto. Qed.

Example ex_released :
  let st' := run (init_state 3) ((ex_hist ++ [OCopy 1 0; OCopy 2 1]) ++ destroy_all 3) in
  bad (hp st') = false /\ next (hp st') = 23 /\
  filter (fun x => match cells (hp st') x with Some _ => true | None => false end) (seq 0 23) = [].
Proof. vm_compute. auto. Qed.
