(* PropsProofs.v -- the invariant of every well-formed history, and the C13 lemmas. *)
From Coq Require Import NArith ZArith List Bool Arith Lia.
From Props Require Import Heap HeapFacts PropsModel PropsString PropsInv PropsSteps PropsCopy.
Import ListNotations.

Record Inv (st : state) : Prop := {
  inv_bad : bad (hp st) = false;
  inv_heap : heap_ok (hp st);
  inv_obj : forall i p, nth_error (objs st) i = Some p -> obj_ok (hp st) p;
  inv_sep : forall i j p q x, nth_error (objs st) i = Some p -> nth_error (objs st) j = Some q ->
                              owned (hp st) p x -> owned (hp st) q x -> i = j;
  inv_noleak : forall x, live (hp st) x -> exists i p, nth_error (objs st) i = Some p /\ owned (hp st) p x
}.

Lemma Inv_init : forall n, Inv (init_state n).
Proof.
  intros n. constructor; simpl.
  - reflexivity.
  - intros x L. exfalso. apply L. reflexivity.
  - intros i p E. apply nth_error_In, repeat_spec in E. subst. apply obj_ok_zero.
  - intros i j p q x Ei _ (q0 & Ex). apply nth_error_In, repeat_spec in Ei. subst.
    destruct q0 as [[]| |[]]; discriminate.
  - intros x L. exfalso. apply L. reflexivity.
Qed.

(* the invariant does not look at the event log or the realloc script *)
Lemma Inv_same_cells : forall h h' o,
  (forall x, cells h' x = cells h x) -> next h' = next h -> bad h' = bad h ->
  Inv (mkSt h o) -> Inv (mkSt h' o).
Proof.
  intros h h' o C N Bd [B H Ob Sep Nl]. simpl in *.
  assert (OD : forall p, odims h' p = odims h p) by (intros p; apply odims_frame; auto).
  assert (OW : forall p x, owned h' p x <-> owned h p x).
  { intros p x. split; intros (q & E); exists q; [rewrite <- (opoints_frame h h') | rewrite (opoints_frame h h')]; auto. }
  constructor; simpl.
  - congruence.
  - intros x L. rewrite N. apply H. unfold live in *. now rewrite <- C.
  - intros i p E. eapply obj_ok_frame; eauto.
  - intros i j p q x Ei Ej Op Oq. apply OW in Op. apply OW in Oq. eapply Sep; eauto.
  - intros x L. destruct (Nl x) as (i & p & E & Ow); [unfold live in *; now rewrite <- C|].
    exists i, p. split; auto. now apply OW.
Qed.

Lemma Inv_clear_log : forall h o, Inv (mkSt h o) -> Inv (mkSt (clear_log h) o).
Proof. intros h o. apply Inv_same_cells; reflexivity. Qed.

Lemma Inv_set_script : forall h o l, Inv (mkSt h o) -> Inv (mkSt (set_script h l) o).
Proof. intros h o l. apply Inv_same_cells; reflexivity. Qed.

Lemma Inv_local : forall h o i p h' p',
  Inv (mkSt h o) -> nth_error o i = Some p -> local_step h p h' p' -> Inv (mkSt h' (set_nth i p' o)).
Proof.
  intros h o i p h' p' I Ei S. destruct I as [B H Ob Sep Nl]. simpl in *.
  assert (Li : i < length o) by (apply nth_error_Some; congruence).
  (* the other objects keep their pointers, cells and well-formedness *)
  assert (Oth : forall j q, j <> i -> nth_error o j = Some q ->
                  (forall x, owned h q x -> cells h' x = cells h x) /\ odims h' q = odims h q).
  { intros j q Nj Ej.
    assert (F : forall x, owned h q x -> cells h' x = cells h x).
    { intros x Ox. apply (ls_frame _ _ _ _ S).
      - intros Op. apply Nj. apply (Sep j i q p x); auto.
      - apply H. eapply owned_live; eauto. }
    split; auto. apply odims_frame. intros a Da. apply F. exists QArr. exact Da. }
  assert (OwO : forall j q x, j <> i -> nth_error o j = Some q -> (owned h' q x <-> owned h q x)).
  { intros j q x Nj Ej. destruct (Oth j q Nj Ej) as (_ & OD).
    split; intros (q0 & E0); exists q0; [rewrite <- (opoints_frame h h') | rewrite (opoints_frame h h')]; auto. }
  assert (Get : forall j q, nth_error (set_nth i p' o) j = Some q -> (j = i /\ q = p') \/ (j <> i /\ nth_error o j = Some q)).
  { intros j q E. destruct (Nat.eq_dec j i) as [->|Nj].
    - rewrite set_nth_same in E by auto. inversion E. auto.
    - rewrite set_nth_other in E by auto. auto. }
  constructor; simpl.
  - apply (ls_bad _ _ _ _ S).
  - apply (ls_heap _ _ _ _ S).
  - intros j q E. destruct (Get j q E) as [(-> & ->)|(Nj & Ej)].
    + apply (ls_ok _ _ _ _ S).
    + eapply obj_ok_frame; eauto. apply (Oth j q Nj Ej).
  - intros j k q r x Ej Ek Oq Or.
    destruct (Get j q Ej) as [(-> & ->)|(Nj & Ej')]; destruct (Get k r Ek) as [(-> & ->)|(Nk & Ek')]; auto.
    + (* p' against another object r *)
      exfalso. apply (OwO k r x Nk Ek') in Or.
      apply (ls_own _ _ _ _ S) in Oq as [Oq|Ge].
      * apply Nk. apply (Sep k i r p x); auto.
      * assert (x < next h) by (apply H; eapply owned_live; eauto). lia.
    + exfalso. apply (OwO j q x Nj Ej') in Oq.
      apply (ls_own _ _ _ _ S) in Or as [Or|Ge].
      * apply Nj. apply (Sep j i q p x); auto.
      * assert (x < next h) by (apply H; eapply owned_live; eauto). lia.
    + apply (OwO j q x Nj Ej') in Oq. apply (OwO k r x Nk Ek') in Or. apply (Sep j k q r x); auto.
  - intros x Lx. destruct (le_lt_dec (next h) x) as [Ge|Lt].
    + exists i, p'. split; [now apply set_nth_same|]. now apply (ls_fresh _ _ _ _ S).
    + destruct (cells h x) eqn:Cx.
      * destruct (Nl x) as (j & q & Ej & Oq); [unfold live; congruence|].
        destruct (Nat.eq_dec j i) as [->|Nj].
        -- exists i, p'. split; [now apply set_nth_same|].
           apply (ls_keep _ _ _ _ S); auto. congruence.
        -- exists j, q. split; [now rewrite set_nth_other|]. now apply (OwO j q x Nj Ej).
      * exfalso. apply Lx. rewrite (ls_frame _ _ _ _ S); auto.
        intros Op. apply (owned_live _ _ _ (Ob i p Ei)) in Op. unfold live in Op. congruence.
Qed.

(* ---------------------------------------------------------------- one well-formed call preserves the invariant *)
Lemma wf_index : forall (o : list props) i, (i <? length o) = true -> exists p, nth_error o i = Some p.
Proof.
  intros o i L. apply Nat.ltb_lt in L. destruct (nth_error o i) eqn:E; eauto.
  apply nth_error_None in E. lia.
Qed.

Lemma Inv_good : forall h o i p, Inv (mkSt h o) -> nth_error o i = Some p -> good (clear_log h) p.
Proof.
  intros h o i p I E. apply Inv_clear_log in I. destruct I as [B H Ob _ _]. simpl in *.
  split; [exact B|]. split; [exact H|]. eapply Ob; eauto.
Qed.

Lemma on_obj_Inv : forall st i p f,
  Inv st -> nth_error (objs st) i = Some p ->
  (forall h' p' r, f (clear_log (hp st)) p = (h', p', r) -> local_step (clear_log (hp st)) p h' p') ->
  Inv (fst (on_obj st i f)).
Proof.
  intros [h o] i p f I E F. unfold on_obj. simpl in *. rewrite E.
  destruct (f (clear_log h) p) as [[h' p'] r] eqn:Ef. simpl.
  apply (Inv_local (clear_log h) o i p h' p' (Inv_clear_log _ _ I) E). eapply F; eauto.
Qed.

Lemma Inv_step : forall st o, Inv st -> wf_opb st o = true -> Inv (fst (step st o)).
Proof.
  intros st o I W. destruct o; simpl in *.
  - destruct st as [h ob]. simpl. apply Inv_set_script. now apply Inv_clear_log.
  - apply andb_true_iff in W as (W & Wb). apply andb_true_iff in W as (W & Wn).
    apply andb_true_iff in W as (W & Wm). apply andb_true_iff in W as (W & Wu).
    destruct (wf_index _ _ W) as (p & E). rewrite E in Wb.
    eapply on_obj_Inv; eauto. intros h' p' r Ef.
    destruct st as [h ob]. simpl in *.
    exact (proj2 (props_init_step _ p _ _ _ _ _ _ _ _ _ (Inv_good _ _ _ _ I E) Wb Wu Wm Ef)).
  - apply andb_true_iff in W as (W & Wc). destruct (wf_index _ _ W) as (p & E).
    eapply on_obj_Inv; eauto. intros h' p' r Ef. destruct st as [h ob]. simpl in *.
    exact (proj2 (set_string_step _ _ _ _ _ _ _ (Inv_good _ _ _ _ I E) Wc Ef)).
  - apply andb_true_iff in W as (W & Wc). destruct (wf_index _ _ W) as (p & E).
    eapply on_obj_Inv; eauto. intros h' p' r Ef. destruct st as [h ob]. simpl in *.
    exact (proj2 (set_string_step _ _ _ _ _ _ _ (Inv_good _ _ _ _ I E) Wc Ef)).
  - apply andb_true_iff in W as (W & Ws). apply andb_true_iff in W as (W & Wk).
    destruct (wf_index _ _ W) as (p & E).
    eapply on_obj_Inv; eauto. intros h' p' r Ef. destruct st as [h ob]. simpl in *.
    exact (proj2 (set_keys_step _ _ _ _ _ _ _ (Inv_good _ _ _ _ I E) Wk Ws Ef)).
  - apply andb_true_iff in W as (W & Wc). destruct (wf_index _ _ W) as (p & E).
    eapply on_obj_Inv; eauto. intros h' p' r Ef. destruct st as [h ob]. simpl in *.
    exact (set_dimension_step _ _ _ _ _ _ _ _ _ _ _ (Inv_good _ _ _ _ I E) Wc Ef).
  - destruct (wf_index _ _ W) as (p & E).
    eapply on_obj_Inv; eauto. intros h' p' r Ef. destruct st as [h ob]. simpl in *.
    unfold set_enable_multiscale in Ef. inversion Ef; subst.
    apply set_multiscale_step. eapply Inv_good; eauto.
  - apply andb_true_iff in W as (W & Nds). apply andb_true_iff in W as (Wd & Ws).
    destruct (wf_index _ _ Wd) as (p & E). destruct (wf_index _ _ Ws) as (ps & Es). rewrite Es.
    apply negb_true_iff, Nat.eqb_neq in Nds.
    eapply on_obj_Inv; eauto. intros h' p' r Ef. destruct st as [h ob]. simpl in *.
    pose proof (Inv_clear_log _ _ I) as I'.
    eapply props_copy_spec; eauto.
    + eapply Inv_good; eauto.
    + apply (inv_obj _ I' s ps Es).
    + intros x Op Os. apply Nds. apply (inv_sep _ I' d s p ps x); auto.
  - destruct (wf_index _ _ W) as (p & E).
    eapply on_obj_Inv; eauto. intros h' p' r Ef. destruct st as [h ob]. simpl in *.
    destruct (props_destroy (clear_log h) p) as [h1 p1] eqn:Ed. inversion Ef; subst.
    eapply props_destroy_step; eauto. eapply Inv_good; eauto.
Qed.

Lemma Inv_run : forall ops st, Inv st -> wf_hist st ops = true -> Inv (run st ops).
Proof.
  induction ops as [|o ops IH]; intros st I W; simpl in *; auto.
  apply andb_true_iff in W as (Wo & Wr). apply IH; auto. now apply Inv_step.
Qed.

Lemma wf_hist_app : forall a b st, wf_hist st (a ++ b) = wf_hist st a && wf_hist (run st a) b.
Proof.
  induction a as [|o a IH]; intros b st; simpl; auto.
  rewrite IH. now rewrite andb_assoc.
Qed.

Lemma run_app : forall a b st, run st (a ++ b) = run (run st a) b.
Proof. induction a; intros; simpl; auto. Qed.

Lemma Inv_history : forall n ops, wf_hist (init_state n) ops = true -> Inv (run (init_state n) ops).
Proof. intros. apply Inv_run; auto. apply Inv_init. Qed.

(* ---------------------------------------------------------------- separation *)
Lemma separation : forall n ops,
  wf_hist (init_state n) ops = true ->
  let st := run (init_state n) ops in
  forall i j p q qi qj x,
    nth_error (objs st) i = Some p -> nth_error (objs st) j = Some q ->
    opoints (hp st) p qi = Some x -> opoints (hp st) q qj = Some x ->
    i = j /\ qi = qj.
Proof.
  intros n ops W st i j p q qi qj x Ei Ej Pi Pj.
  pose proof (Inv_history n ops W) as I. fold st in I.
  assert (i = j) by (apply (inv_sep _ I i j p q x); auto; [now exists qi | now exists qj]).
  subst j. split; auto. assert (p = q) by congruence. subst q.
  apply (ok_inj _ _ (inv_obj _ I i p Ei) qi qj x); auto.
Qed.

(* ---------------------------------------------------------------- NUL termination *)
Lemma terminated : forall n ops,
  wf_hist (init_state n) ops = true ->
  let st := run (init_state n) ops in
  forall i p q s, nth_error (objs st) i = Some p -> ostring_at (hp st) p q = Some s -> str_ok (hp st) s.
Proof.
  intros n ops W st i p q s Ei As.
  pose proof (Inv_history n ops W) as I. fold st in I.
  apply (ok_str _ _ (inv_obj _ I i p Ei) q s As).
Qed.

(* ---------------------------------------------------------------- every allocation is released exactly once *)
Lemma step_length : forall st o, length (objs (fst (step st o))) = length (objs st).
Proof.
  intros [h ob] o.
  assert (On : forall i f, length (objs (fst (on_obj (mkSt h ob) i f))) = length ob).
  { intros i f. unfold on_obj. simpl. destruct (nth_error ob i); auto.
    destruct (f (clear_log h) p) as [[h' p'] r]. simpl. apply set_nth_length. }
  destruct o; simpl; auto. destruct (nth_error ob s); auto.
Qed.

Lemma destroy_blank : forall st i p,
  Inv st -> nth_error (objs st) i = Some p ->
  let st' := fst (step st (ODestroy i)) in
  (exists p', nth_error (objs st') i = Some p' /\ blank p' = true) /\
  (forall j, j <> i -> nth_error (objs st') j = nth_error (objs st) j).
Proof.
  intros [h ob] i p I E. simpl in *. unfold on_obj. simpl. rewrite E.
  destruct (props_destroy (clear_log h) p) as [h1 p1] eqn:Ed. simpl.
  assert (Li : i < length ob) by (apply nth_error_Some; congruence).
  split.
  - exists p1. split; [now apply set_nth_same|].
    eapply props_destroy_step; eauto. eapply Inv_good; eauto.
  - intros j Nj. now apply set_nth_other.
Qed.

Lemma destroy_range : forall m k st,
  Inv st -> k + m <= length (objs st) ->
  (forall i p, i < k -> nth_error (objs st) i = Some p -> blank p = true) ->
  let st' := run st (map ODestroy (seq k m)) in
  Inv st' /\ length (objs st') = length (objs st) /\
  (forall i p, i < k + m -> nth_error (objs st') i = Some p -> blank p = true).
Proof.
  induction m as [|m IH]; intros k st I L Bl; cbv zeta.
  - simpl. split; auto. split; auto. intros i p Li. apply Bl. lia.
  - change (run st (map ODestroy (seq k (S m))))
      with (run (fst (step st (ODestroy k))) (map ODestroy (seq (S k) m))).
    assert (W : wf_opb st (ODestroy k) = true) by (simpl; apply Nat.ltb_lt; lia).
    destruct (wf_index _ _ W) as (p & E).
    destruct (destroy_blank st k p I E) as ((p' & E' & B') & Oth).
    pose proof (Inv_step _ _ I W) as I1.
    pose proof (step_length st (ODestroy k)) as L1.
    set (st1 := fst (step st (ODestroy k))) in *.
    destruct (IH (S k) st1 I1) as (I2 & L2 & B2).
    + lia.
    + intros i q Li Ei. destruct (Nat.eq_dec i k) as [->|Ni].
      * congruence.
      * rewrite Oth in Ei by auto. apply (Bl i q); auto. lia.
    + split; auto. split; [congruence|]. intros i q Li. apply B2. lia.
Qed.

Lemma wf_destroy_all : forall m k st, k + m <= length (objs st) -> wf_hist st (map ODestroy (seq k m)) = true.
Proof.
  induction m as [|m IH]; intros k st L; [reflexivity|].
  change (wf_hist st (map ODestroy (seq k (S m))))
    with (wf_opb st (ODestroy k) && wf_hist (fst (step st (ODestroy k))) (map ODestroy (seq (S k) m))).
  apply andb_true_iff. split; [simpl; apply Nat.ltb_lt; lia|].
  apply IH. rewrite step_length. lia.
Qed.

Lemma init_length : forall n, length (objs (init_state n)) = n.
Proof. intros. simpl. apply repeat_length. Qed.

Lemma run_length : forall ops st, length (objs (run st ops)) = length (objs st).
Proof. induction ops; intros; simpl; auto. rewrite IHops. apply step_length. Qed.

Lemma free_once : forall n ops,
  wf_hist (init_state n) ops = true ->
  bad (hp (run (init_state n) ops)) = false /\
  wf_hist (init_state n) (ops ++ destroy_all n) = true /\
  let st' := run (init_state n) (ops ++ destroy_all n) in
  bad (hp st') = false /\ forall x, cells (hp st') x = None.
Proof.
  intros n ops W. pose proof (Inv_history n ops W) as I.
  set (st := run (init_state n) ops) in *.
  assert (Ln : length (objs st) = n) by (unfold st; rewrite run_length; apply init_length).
  split; [apply (inv_bad _ I)|].
  split.
  { rewrite wf_hist_app, W. simpl. apply wf_destroy_all. fold st. lia. }
  intros st'. unfold st'. rewrite run_app. fold st. unfold destroy_all.
  destruct (destroy_range n 0 st I) as (I' & L' & Bl); [lia | intros; lia |].
  simpl in Bl. set (st2 := run st (map ODestroy (seq 0 n))) in *.
  split; [apply (inv_bad _ I')|].
  intros x. destruct (cells (hp st2) x) eqn:C; auto. exfalso.
  destruct (inv_noleak _ I' x) as (i & pp & E & (q & Eq)); [unfold live; congruence|].
  assert (Li : i < n).
  { rewrite <- Ln, <- L'. apply nth_error_Some. congruence. }
  rewrite (blank_points _ _ q (Bl i pp Li E)) in Eq. discriminate.
Qed.

(* ---------------------------------------------------------------- copy: equal, source untouched *)
Lemma copy_correct : forall n ops d s,
  wf_hist (init_state n) (ops ++ [OCopy d s]) = true ->
  let st := run (init_state n) ops in
  let st' := fst (step st (OCopy d s)) in
  snd (step st (OCopy d s)) = true /\
  exists pd ps,
    nth_error (objs st') d = Some pd /\ nth_error (objs st') s = Some ps /\
    nth_error (objs st) s = Some ps /\
    oview (hp st') pd = oview (hp st) ps /\
    (forall x, owned (hp st) ps x -> cells (hp st') x = cells (hp st) x).
Proof.
  intros n ops d s W st st'. rewrite wf_hist_app in W. apply andb_true_iff in W as (W & Wc).
  pose proof (Inv_history n ops W) as I. fold st in I, Wc.
  simpl in Wc. rewrite andb_true_r in Wc.
  apply andb_true_iff in Wc as (Wc & Nds). apply andb_true_iff in Wc as (Wd & Ws).
  destruct (wf_index _ _ Wd) as (p & E). destruct (wf_index _ _ Ws) as (ps & Es).
  apply negb_true_iff, Nat.eqb_neq in Nds.
  unfold st'. destruct st as [h ob] eqn:Est. simpl in *. rewrite Es. unfold on_obj. simpl. rewrite E.
  destruct (props_copy (clear_log h) p ps) as [[h1 p1] r] eqn:Ec. simpl.
  pose proof (Inv_clear_log _ _ I) as I'.
  assert (Dj : disjoint (clear_log h) p ps).
  { intros x Op Os. apply Nds. apply (inv_sep _ I' d s p ps x); auto. }
  destruct (props_copy_spec _ _ _ _ _ _ (Inv_good _ _ _ _ I E) (inv_obj _ I' s ps Es) Dj Ec)
    as (-> & S & V & F).
  assert (Ld : d < length ob) by (apply nth_error_Some; congruence).
  split; auto. exists p1, ps.
  split; [now apply set_nth_same|]. split; [rewrite set_nth_other; auto|]. split; auto.
Qed.

Lemma oview_frame : forall h h' p, (forall x, owned h p x -> cells h' x = cells h x) -> oview h' p = oview h p.
Proof.
  intros h h' p F.
  assert (OD : odims h' p = odims h p).
  { apply odims_frame. intros a Da. apply F. exists QArr. exact Da. }
  apply oview_eq; auto.
  - intros f. apply sview_frame. intros x Sx. apply F. exists (QStr f). exact Sx.
  - rewrite OD. apply map_ext_in. intros d Hd. unfold dview. f_equal. f_equal. f_equal. f_equal.
    apply sview_frame. intros x Sx. apply F.
    apply In_nth_error in Hd as (k & Ek). exists (QName k). simpl. now rewrite Ek.
Qed.

Lemma copy_equal : forall n ops d s,
  wf_hist (init_state n) (ops ++ [OCopy d s]) = true ->
  let st := run (init_state n) ops in
  let st' := fst (step st (OCopy d s)) in
  snd (step st (OCopy d s)) = true /\
  exists pd ps,
    nth_error (objs st') d = Some pd /\ nth_error (objs st') s = Some ps /\
    oview (hp st') pd = oview (hp st') ps.
Proof.
  intros n ops d s W st st'.
  destruct (copy_correct n ops d s W) as (R & pd & ps & Ed & Es' & Es & V & F).
  fold st in R, Es, V, F. fold st' in Ed, Es', V, F.
  split; auto. exists pd, ps. split; auto. split; auto.
  rewrite V. symmetry. now apply oview_frame.
Qed.

Lemma src_untouched : forall n ops d s,
  wf_hist (init_state n) (ops ++ [OCopy d s]) = true ->
  let st := run (init_state n) ops in
  let st' := fst (step st (OCopy d s)) in
  nth_error (objs st') s = nth_error (objs st) s /\
  forall ps, nth_error (objs st) s = Some ps ->
    (forall x, owned (hp st) ps x -> cells (hp st') x = cells (hp st) x) /\
    oview (hp st') ps = oview (hp st) ps.
Proof.
  intros n ops d s W st st'.
  destruct (copy_correct n ops d s W) as (R & pd & ps & Ed & Es' & Es & V & F).
  fold st in R, Es, V, F. fold st' in Ed, Es', V, F.
  split; [unfold st', st; rewrite Es'; symmetry; exact Es|]. intros ps' Eps. assert (ps' = ps) by congruence. subst ps'.
  split; auto. now apply oview_frame.
Qed.
