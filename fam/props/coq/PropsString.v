(* PropsString.v -- the contract of copy_string over the allocation-id heap. *)
From Coq Require Import NArith List Bool Arith Lia.
From Props Require Import Heap HeapFacts PropsModel.
Import ListNotations.

(* the bytes with the last one forced to 0 (what copy_string stores) *)
Definition term (l : list byte) : list byte := firstn (length l - 1) l ++ [0%N].

Definition eff_null (src : srcv) : bool := src_null src || (src_n src =? 0).
Definition eff_n (src : srcv) : nat := if eff_null src then 1 else src_n src.
Definition eff_bytes (h : heap) (src : srcv) : list byte :=
  if eff_null src then [0%N] else firstn (src_n src) (src_bytes h src).

(* dst is NULL, or owns a live string allocation at least nbytes long *)
Definition dst_pre (h : heap) (dst : String) : Prop :=
  match str dst with
  | None => True
  | Some x => is_ref dst = false /\ exists data, cells h x = Some (PBytes data) /\ nbytes dst <= length data
  end.

(* the source is readable for its byte count, and is not the destination's allocation *)
Definition src_pre (h : heap) (dst : String) (src : srcv) : Prop :=
  match src with
  | SrcC c => wf_cstr c = true
  | SrcS s =>
      match str s with
      | None => True
      | Some y => str dst <> Some y /\ exists data, cells h y = Some (PBytes data) /\ nbytes s <= length data
      end
  end.

Lemma term_length : forall l, 1 <= length l -> length (term l) = length l.
Proof. intros. unfold term. rewrite app_length, firstn_length. simpl. lia. Qed.

Lemma term_last : forall l, nth (length (term l) - 1) (term l) 1%N = 0%N.
Proof.
  intros. unfold term. rewrite app_length. simpl.
  rewrite app_nth2 by lia. replace (_ - _) with 0 by lia. reflexivity.
Qed.

Lemma term_idem : forall l, 1 <= length l -> nth (length l - 1) l 1%N = 0%N -> term l = l.
Proof.
  intros l L Z. unfold term.
  rewrite <- (firstn_skipn (length l - 1) l) at 3. f_equal.
  assert (Hs : length (skipn (length l - 1) l) = 1) by (rewrite skipn_length; lia).
  destruct (skipn (length l - 1) l) as [|b [|c t]] eqn:E; simpl in Hs; try lia.
  f_equal. rewrite <- Z.
  rewrite <- (firstn_skipn (length l - 1) l) at 2. rewrite E.
  rewrite app_nth2; rewrite firstn_length; [|lia].
  replace (_ - _) with 0 by lia. reflexivity.
Qed.

(* ---------------------------------------------------------------- block 1: make dst own an allocation *)
Lemma cs_own_spec : forall h dst sn h1 dst1,
  cs_own h dst sn = (h1, dst1) -> heap_ok h -> dst_pre h dst ->
  bad h1 = bad h /\ heap_ok h1 /\ next h <= next h1 /\ script h1 = script h /\
  exists x d, str dst1 = Some x /\ is_ref dst1 = false /\ cells h1 x = Some (PBytes d) /\ nbytes dst1 <= length d /\
    ((str dst = Some x /\ dst1 = dst /\ h1 = h) \/ (str dst = None /\ x = next h /\ next h1 = S (next h) /\ nbytes dst1 = sn)) /\
    (forall y, y <> x -> cells h1 y = cells h y).
Proof.
  intros h dst sn h1 dst1 E H P. unfold cs_own, dst_pre in *.
  destruct (str dst) as [x|] eqn:S.
  - destruct P as (R & d & C & L). rewrite R in E. inversion E; subst; clear E.
    repeat split; auto. exists x, d. repeat split; auto.
  - unfold malloc_bytes in E. destruct (alloc _ _ _) as [id h'] eqn:A.
    inversion E; subst; clear E.
    pose proof (alloc_heap_ok _ _ _ _ _ A H) as H1.
    apply alloc_spec in A as (-> & N & B & Sc & C).
    repeat split; auto; try lia.
    exists (next h), (repeat 0%N sn). simpl. repeat split; auto.
    + rewrite C. apply upd_same.
    + rewrite repeat_length. lia.
    + intros y Ny. rewrite C. now apply upd_other.
Qed.

(* ---------------------------------------------------------------- block 2: grow *)
Lemma cs_grow_spec : forall h x dst sn d y h2,
  cs_grow h x dst sn = (y, h2) -> heap_ok h -> cells h x = Some (PBytes d) -> nbytes dst <= length d ->
  bad h2 = bad h /\ heap_ok h2 /\ next h <= next h2 /\
  (exists d2, cells h2 y = Some (PBytes d2) /\ sn <= length d2) /\
  (y = x \/ (y = next h /\ next h2 = S (next h) /\ cells h2 x = None)) /\
  (forall z, z <> y -> z <> x -> cells h2 z = cells h z).
Proof.
  intros h x dst sn d y h2 E H C L. unfold cs_grow in E.
  destruct (Nat.ltb_spec (nbytes dst) sn).
  - destruct (realloc_spec _ _ _ _ _ _ E C H) as (B & H2 & N & C2 & M & F).
    repeat split; auto. exists (resize sn d). split; auto. rewrite resize_length. lia.
  - inversion E; subst; clear E. repeat split; auto. exists d. split; auto. lia.
Qed.

(* ---------------------------------------------------------------- block 3: fill *)
Lemma firstn_app_exact : forall A (l r : list A) n, n = length l -> firstn n (l ++ r) = l.
Proof. intros. subst. rewrite firstn_app, Nat.sub_diag, firstn_all. simpl. apply app_nil_r. Qed.

Lemma cs_fill_spec : forall h x src sn d h',
  cs_fill h x src sn = h' ->
  cells h x = Some (PBytes d) -> sn <= length d -> 1 <= sn -> sn = src_n src ->
  sn <= length (src_bytes h src) ->
  (forall s y, src = SrcS s -> str s = Some y -> y <> x /\ exists ds, cells h y = Some (PBytes ds) /\ nbytes s <= length ds) ->
  next h' = next h /\ bad h' = bad h /\ (forall y, y <> x -> cells h' y = cells h y) /\
  exists d3, cells h' x = Some (PBytes d3) /\ sn <= length d3 /\
             firstn sn d3 = term (firstn sn (src_bytes h src)).
Proof.
  intros h x src sn d h' E C L P1 Esn Ls Hs. unfold cs_fill in E.
  rewrite (write_prefix_ok h x (repeat 0%N sn) d C) in E by (rewrite repeat_length; exact L).
  rewrite repeat_length in E.
  set (d1 := repeat 0%N sn ++ skipn sn d) in *.
  set (h1 := wr h x (PBytes d1)) in *.
  assert (L1 : length d1 = length d).
  { unfold d1. rewrite app_length, repeat_length, skipn_length. lia. }
  assert (T : src_touch h1 src = h1).
  { destruct src as [c|s]; simpl; auto. destruct (str s) as [y|] eqn:Sy; auto.
    destruct (Hs s y eq_refl Sy) as (Ny & ds & Cy & Ly).
    apply (touch_bytes_ok _ _ _ ds); auto. unfold h1. rewrite wr_cells_other; auto. }
  rewrite T in E.
  assert (SB : src_bytes h1 src = src_bytes h src).
  { destruct src as [c|s]; simpl; auto. destruct (str s) as [y|] eqn:Sy; auto.
    destruct (Hs s y eq_refl Sy) as (Ny & _). unfold get_bytes, h1. rewrite wr_cells_other; auto. }
  rewrite SB in E.
  set (sb := firstn sn (src_bytes h src)) in *.
  assert (Lsb : length sb = sn) by (unfold sb; rewrite firstn_length; lia).
  rewrite (write_prefix_ok h1 x sb d1) in E by (unfold h1; first [apply wr_cells_same | lia]).
  set (d2 := sb ++ skipn (length sb) d1) in *.
  assert (L2 : length d2 = length d).
  { unfold d2. rewrite app_length, skipn_length. lia. }
  destruct (Nat.ltb_spec 0 sn); [|lia].
  rewrite (write_at_ok _ x (sn - 1) 0%N d2) in E by (first [apply wr_cells_same | lia]).
  subst h'. split; [reflexivity|]. split; [reflexivity|]. split.
  - intros y Ny. unfold h1. rewrite !wr_cells_other by exact Ny. reflexivity.
  - eexists. split; [apply wr_cells_same|]. split.
    + rewrite app_length, firstn_length. cbn [length]. rewrite skipn_length. lia.
    + unfold d2. rewrite Lsb.
      replace (firstn (sn - 1) (sb ++ skipn sn d1)) with (firstn (sn - 1) sb)
        by (rewrite firstn_app; replace (sn - 1 - length sb) with 0 by lia; simpl; now rewrite app_nil_r).
      unfold term. rewrite Lsb.
      change (firstn (sn - 1) sb ++ 0%N :: skipn (S (sn - 1)) (sb ++ skipn sn d1))
        with (firstn (sn - 1) sb ++ [0%N] ++ skipn (S (sn - 1)) (sb ++ skipn sn d1)).
      rewrite app_assoc. apply firstn_app_exact.
      rewrite app_length, firstn_length. simpl. lia.
Qed.

(* ---------------------------------------------------------------- copy_string with a non-empty source *)
Definition src_ok (h : heap) (dst : String) (src : srcv) : Prop :=
  forall s y, src = SrcS s -> str s = Some y ->
    str dst <> Some y /\ exists ds, cells h y = Some (PBytes ds) /\ nbytes s <= length ds.

Lemma copy_string_from_spec : forall h dst src h' dst' ok,
  copy_string_from h dst src = (h', dst', ok) ->
  bad h = false -> heap_ok h -> dst_pre h dst ->
  1 <= src_n src -> src_n src <= length (src_bytes h src) -> src_ok h dst src ->
  ok = true /\ bad h' = false /\ heap_ok h' /\ next h <= next h' /\
  exists x data,
    dst' = mkS (Some x) (src_n src) false /\
    cells h' x = Some (PBytes data) /\ src_n src <= length data /\
    firstn (src_n src) data = term (firstn (src_n src) (src_bytes h src)) /\
    (str dst = Some x \/ next h <= x) /\
    (forall y, y <> x -> str dst <> Some y -> cells h' y = cells h y) /\
    (forall y, str dst = Some y -> y <> x -> cells h' y = None).
Proof.
  intros h dst src h' dst' ok E B H P N1 Ls So. unfold copy_string_from in E.
  destruct (cs_own h dst (src_n src)) as [h1 dst1] eqn:E1.
  destruct (cs_own_spec _ _ _ _ _ E1 H P) as (B1 & H1 & Nx1 & _ & x1 & d1 & S1 & R1 & C1 & L1 & Alt1 & F1).
  rewrite R1, S1 in E.
  destruct (cs_grow h1 x1 dst1 (src_n src)) as [x2 h2] eqn:E2.
  destruct (cs_grow_spec _ _ _ _ _ _ _ E2 H1 C1 L1) as (B2 & H2 & Nx2 & (d2 & C2 & L2) & Alt2 & F2).
  inversion E; subst h' dst' ok; clear E.
  (* the source allocation is below next h, different from x1 and x2, and unchanged so far *)
  assert (SY : forall s y, src = SrcS s -> str s = Some y ->
                 y <> x1 /\ y <> x2 /\ y < next h /\ cells h2 y = cells h y).
  { intros s y Es Sy. destruct (So s y Es Sy) as (Nd & ds & Cy & _).
    assert (Ly : y < next h) by (apply H; unfold live; congruence).
    assert (Ny1 : y <> x1).
    { destruct Alt1 as [(Sd & _)|(_ & -> & _)]; [congruence|lia]. }
    assert (Ny2 : y <> x2).
    { destruct Alt2 as [->|(-> & _)]; [auto|lia]. }
    repeat split; auto. rewrite F2 by auto. now apply F1. }
  assert (SB : src_bytes h2 src = src_bytes h src).
  { destruct src as [c|s]; simpl; auto. destruct (str s) as [y|] eqn:Sy; auto.
    destruct (SY s y eq_refl Sy) as (_ & _ & _ & Cy). unfold get_bytes. now rewrite Cy. }
  destruct (cs_fill_spec h2 x2 src (src_n src) d2 _ eq_refl C2 L2 N1 eq_refl) as (Nx3 & B3 & F3 & d3 & C3 & L3 & T3).
  { now rewrite SB. }
  { intros s y Es Sy. destruct (SY s y Es Sy) as (_ & Ny2 & _ & Cy). split; auto.
    destruct (So s y Es Sy) as (_ & ds & Cd & Ld). exists ds. split; auto. congruence. }
  split; [reflexivity|]. split; [congruence|]. split.
  { intros z Lz. rewrite Nx3. apply H2. unfold live in *.
    destruct (Nat.eq_dec z x2) as [->|Nz]; [congruence|]. now rewrite <- F3. }
  split; [lia|].
  exists x2, d3. rewrite SB in T3.
  split; [reflexivity|]. split; [exact C3|]. split; [exact L3|]. split; [exact T3|].
  split.
  { destruct Alt2 as [->|(-> & _)]; [|right; lia].
    destruct Alt1 as [(Sd & _)|(_ & -> & _)]; [now left|right; lia]. }
  split.
  - intros y Ny Nd. rewrite F3 by auto.
    destruct (Nat.eq_dec y x1) as [->|Ny1].
    + (* y = x1 <> x2: the block moved, so x1 is the freed cell; and x1 is not dst's => x1 was fresh *)
      destruct Alt2 as [->|(_ & _ & Cx)]; [congruence|].
      destruct Alt1 as [(Sd & _)|(_ & -> & _)]; [congruence|].
      rewrite Cx. symmetry. apply heap_ok_dead; auto.
    + rewrite F2 by auto. now apply F1.
  - intros y Sd Ny.
    destruct Alt1 as [(Sd1 & _ & ->)|(Sn & _)]; [|congruence].
    assert (y = x1) by congruence. subst y.
    rewrite F3 by auto.
    destruct Alt2 as [->|(_ & _ & Cx)]; [congruence|exact Cx].
Qed.

(* ---------------------------------------------------------------- copy_string *)
Lemma eff_bytes_length : forall h src,
  (eff_null src = false -> src_n src <= length (src_bytes h src)) ->
  length (eff_bytes h src) = eff_n src.
Proof.
  intros h src Hl. unfold eff_bytes, eff_n. destruct (eff_null src); [reflexivity|].
  rewrite firstn_length. specialize (Hl eq_refl). lia.
Qed.

Lemma copy_string_spec : forall h dst src h' dst' ok,
  copy_string h dst src = (h', dst', ok) ->
  bad h = false -> heap_ok h -> dst_pre h dst -> src_pre h dst src ->
  ok = true /\ bad h' = false /\ heap_ok h' /\ next h <= next h' /\
  exists x data,
    dst' = mkS (Some x) (eff_n src) false /\
    cells h' x = Some (PBytes data) /\ eff_n src <= length data /\ 1 <= eff_n src /\
    firstn (eff_n src) data = term (eff_bytes h src) /\
    length (eff_bytes h src) = eff_n src /\
    (str dst = Some x \/ next h <= x) /\
    (forall y, y <> x -> str dst <> Some y -> cells h' y = cells h y) /\
    (forall y, str dst = Some y -> y <> x -> cells h' y = None).
Proof.
  intros h dst src h' dst' ok E B H P Sp. unfold copy_string in E.
  fold (eff_null src) in E. unfold eff_n, eff_bytes.
  destruct (eff_null src) eqn:En.
  - destruct (copy_string_from_spec _ _ _ _ _ _ E B H P) as (Ok & B' & H' & Nx & x & data & D & C & L & T & A & F1 & F2);
      try (simpl; lia).
    { intros s y Es. discriminate Es. }
    simpl in *. split; auto. split; auto. split; auto. split; auto.
    exists x, data. repeat split; auto.
  - unfold eff_null in En. apply orb_false_iff in En as (Nn & Nz).
    apply Nat.eqb_neq in Nz.
    assert (Ls : src_n src <= length (src_bytes h src)).
    { destruct src as [c|s]; simpl in *.
      - unfold wf_cstr in Sp. destruct (cbuf c); [now apply Nat.leb_le|discriminate].
      - destruct (str s) as [y|]; [|discriminate].
        destruct Sp as (_ & ds & Cy & Ly). unfold get_bytes. now rewrite Cy. }
    destruct (copy_string_from_spec _ _ _ _ _ _ E B H P) as (Ok & B' & H' & Nx & x & data & D & C & L & T & A & F1 & F2);
      try lia; auto.
    { intros s y Es Sy. subst src. simpl in Sp. rewrite Sy in Sp. exact Sp. }
    split; auto. split; auto. split; auto. split; auto.
    exists x, data. repeat split; auto; try lia.
    rewrite firstn_length. lia.
Qed.
