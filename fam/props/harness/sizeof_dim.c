/* prints sizeof(struct StorageDimension) as this compiler lays it out (the model counts dimension arrays in elements) */
#include <stdio.h>
#include "device/props/storage.h"
int main(void) { printf("%zu\n", sizeof(struct StorageDimension)); return 0; }
