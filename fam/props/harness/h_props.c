/* h_props.c -- operation-sequence driver for the REAL props/storage.c (DESIGN 3(a), 6.13; property C13).

   storage.c is compiled from the repository working tree with
       -DNO_UNIT_TESTS -Dmalloc=vh_malloc -Drealloc=vh_realloc -Dfree=vh_free
   so every allocator call of the unit under test goes through the logging wrappers below; this file
   #undef's the renames first, so its own malloc/free are the (ASan) allocator.

   stdin: histories, one op per line
       new <nobj>                                 start a history: <nobj> zero-initialised struct StorageProperties
       moves <bits>                               script for the following realloc calls (1: the block moves, 0: it stays)
       init <i> <ffid> <S> <S> <psx> <psy> <nd>   storage_properties_init(uri, metadata); psx/psy = bit pattern of the doubles
       uri <i> <S> | meta <i> <S> | keys <i> <S> <S>
       dim <i> <index> <S> <kind> <array> <chunk> <shard>
       multi <i> <e> | copy <d> <s> | destroy <i>
       end                                        report the allocations that are still live
     <S> = N:<n>        a NULL pointer with byte count n
         | X<hex>:<n>   a caller buffer holding exactly the bytes <hex> (allocated with exactly that size, freed
                        right after the call) passed with byte count n
   stdout: one canonical line per op (see obs_all), identical in format to oracle/main.ml.

   Each history runs in a forked child: a sanitizer abort or a crash is attributed to the history and reported by the
   parent as an `ABORT ...` line; the remaining ops of that history are skipped. */
#define _GNU_SOURCE
/* the check passes the allocator renames to every translation unit; this one keeps the real allocator */
#undef malloc
#undef realloc
#undef free
#include <stdarg.h>
#include <stdint.h>
#include <stdio.h>
#include <stdlib.h>
#include <string.h>
#include <sys/types.h>
#include <sys/wait.h>
#include <unistd.h>

#include "device/props/storage.h"

/* ------------------------------------------------------------------ logger stub */
static int g_errlogs = 0;
void aq_logger(int is_error, const char* file, int line, const char* function, const char* fmt, ...)
{
    (void)file; (void)line; (void)function; (void)fmt;
    if (is_error) ++g_errlogs;
}

/* ------------------------------------------------------------------ logging allocator */
struct rec { void* addr; size_t size; int live; };
#define MAXREC 65536
static struct rec g_rec[MAXREC];
static int g_nrec = 0;
static char g_ev[1 << 16];
static size_t g_evn = 0;
static char g_moves[4096];
static size_t g_movepos = 0, g_moven = 0;

static void ev(const char* fmt, ...)
{
    va_list ap;
    va_start(ap, fmt);
    if (g_evn < sizeof g_ev - 64) {
        if (g_evn) g_ev[g_evn++] = ' ';
        g_evn += (size_t)vsnprintf(g_ev + g_evn, sizeof g_ev - g_evn, fmt, ap);
    }
    va_end(ap);
}

static int find_live(const void* p)
{
    for (int i = g_nrec - 1; i >= 0; --i) if (g_rec[i].live && g_rec[i].addr == p) return i;
    return -1;
}
static int find_dead(const void* p)
{
    for (int i = g_nrec - 1; i >= 0; --i) if (!g_rec[i].live && g_rec[i].addr == p) return i;
    return -1;
}
static int new_rec(void* p, size_t n)
{
    if (g_nrec >= MAXREC) { printf("FATAL too many allocations\n"); fflush(stdout); _exit(3); }
    g_rec[g_nrec].addr = p; g_rec[g_nrec].size = n; g_rec[g_nrec].live = 1;
    return g_nrec++;
}

void* vh_malloc(size_t n)
{
    void* p = malloc(n);
    int id = new_rec(p, n);
    ev("M%d:%zu", id, n);
    return p;
}

void vh_free(void* p)
{
    if (!p) return; /* free(NULL) is a no-op of the C library; not an event */
    int id = find_live(p);
    if (id >= 0) {
        g_rec[id].live = 0;
        ev("F%d", id);
        free(p);
        return;
    }
    id = find_dead(p);
    if (id >= 0) ev("F!%d", id);   /* second release of the same allocation; not forwarded to the real free */
    else ev("F?");                 /* release of something this allocator never handed out */
}

void* vh_realloc(void* p, size_t n)
{
    if (!p) {
        void* q = malloc(n);
        int id = new_rec(q, n);
        ev("M%d:%zu", id, n);
        return q;
    }
    int id = find_live(p);
    if (id < 0) {
        int d = find_dead(p);
        if (d >= 0) ev("R!%d", d); else ev("R?");
        return 0;
    }
    int move = 1;
    if (g_movepos < g_moven) move = g_moves[g_movepos++] != '0';
    if (move) {
        void* q = malloc(n);
        size_t k = g_rec[id].size < n ? g_rec[id].size : n;
        memcpy(q, p, k);
        g_rec[id].live = 0;
        free(p);
        int nid = new_rec(q, n);
        ev("R%d>%d:%zu", id, nid, n);
        return q;
    } else {
        void* q = realloc(p, n); /* the address may change; the allocation keeps its identity */
        g_rec[id].addr = q; g_rec[id].size = n;
        ev("R%d>%d:%zu", id, id, n);
        return q;
    }
}

/* ------------------------------------------------------------------ canonical observation */
static void put_cls(const void* p, int* live_id)
{
    *live_id = -1;
    if (!p) { printf("-"); return; }
    int id = find_live(p);
    if (id >= 0) { printf("#%d", id); *live_id = id; return; }
    id = find_dead(p);
    if (id >= 0) printf("!%d", id); else printf("?");
}

static void put_string(const struct String* s)
{
    int id;
    put_cls(s->str, &id);
    printf(":%zu:%d:", s->nbytes, (int)s->is_ref);
    if (!s->str) return;
    if (id < 0) { printf("~"); return; }
    if (s->nbytes > g_rec[id].size) { printf("OVER"); return; }
    for (size_t i = 0; i < s->nbytes; ++i) printf("%02x", (unsigned char)s->str[i]);
}

static void put_obj(int i, const struct StorageProperties* p)
{
    uint64_t x, y;
    memcpy(&x, &p->pixel_scale_um.x, 8);
    memcpy(&y, &p->pixel_scale_um.y, 8);
    printf(" | o%d uri=", i); put_string(&p->uri);
    printf(" meta="); put_string(&p->external_metadata_json);
    printf(" akey="); put_string(&p->access_key_id);
    printf(" skey="); put_string(&p->secret_access_key);
    printf(" ffid=%u ps=%llu,%llu multi=%u dims=", (unsigned)p->first_frame_id, (unsigned long long)x, (unsigned long long)y,
           (unsigned)p->enable_multiscale);
    int id;
    put_cls(p->acquisition_dimensions.data, &id);
    printf(":%zu[", p->acquisition_dimensions.size);
    if (p->acquisition_dimensions.data) {
        if (id < 0 || p->acquisition_dimensions.size * sizeof(struct StorageDimension) > g_rec[id].size) printf("~");
        else
            for (size_t k = 0; k < p->acquisition_dimensions.size; ++k) {
                const struct StorageDimension* d = &p->acquisition_dimensions.data[k];
                if (k) printf(";");
                put_string(&d->name);
                printf(",%u,%u,%u,%u", (unsigned)d->kind, (unsigned)d->array_size_px, (unsigned)d->chunk_size_px,
                       (unsigned)d->shard_size_chunks);
            }
    }
    printf("]");
}

#define MAXOBJ 8
static struct StorageProperties g_obj[MAXOBJ];
static int g_nobj = 0;

static void obs_all(const char* name, int ret)
{
    printf("%s ret=%d | ev=%s", name, ret, g_evn ? g_ev : "-");
    for (int i = 0; i < g_nobj; ++i) put_obj(i, &g_obj[i]);
    printf("\n");
    fflush(stdout);
}

/* ------------------------------------------------------------------ caller strings */
struct carg { char* p; size_t n; };

static int hexv(int c) { return c <= '9' ? c - '0' : (c | 32) - 'a' + 10; }

static int parse_carg(const char* tok, struct carg* out)
{
    out->p = 0; out->n = 0;
    const char* colon = strchr(tok, ':');
    if (!colon) return 0;
    out->n = (size_t)strtoull(colon + 1, 0, 10);
    if (tok[0] == 'N') return 1;
    if (tok[0] != 'X') return 0;
    size_t len = (size_t)(colon - (tok + 1)) / 2;
    out->p = malloc(len ? len : 1); /* exactly the bytes given: any read beyond them is caught by ASan */
    if (!len) { free(out->p); out->p = malloc(1); }
    for (size_t i = 0; i < len; ++i) out->p[i] = (char)(hexv(tok[1 + 2 * i]) * 16 + hexv(tok[2 + 2 * i]));
    return 1;
}
static void drop_carg(struct carg* a) { free(a->p); a->p = 0; }

/* ------------------------------------------------------------------ one history (runs in the child) */
static int okidx(long i) { return i >= 0 && i < g_nobj; }

static void run_history(char** lines, int n)
{
    char t1[70000], t2[70000];
    for (int k = 0; k < n; ++k) {
        const char* line = lines[k];
        long i = 0, j = 0;
        unsigned long long a = 0, b = 0, c = 0, d = 0, e = 0;
        g_evn = 0; g_ev[0] = 0;
        if (sscanf(line, "new %ld", &i) == 1) {
            g_nobj = i < 1 ? 1 : i > MAXOBJ ? MAXOBJ : (int)i;
            memset(g_obj, 0, sizeof g_obj);
            printf("NEW %d\n", g_nobj);
            fflush(stdout);
        } else if (sscanf(line, "moves %4000s", t1) == 1) {
            g_moven = strlen(t1); memcpy(g_moves, t1, g_moven); g_movepos = 0;
            if (t1[0] == '-') g_moven = 0;
            obs_all("moves", 1);
        } else if (sscanf(line, "init %ld %llu %69000s %69000s %llu %llu %llu", &i, &a, t1, t2, &b, &c, &d) == 7 && okidx(i)) {
            struct carg u, m;
            struct PixelScale ps;
            uint64_t bx = b, by = c;
            if (!parse_carg(t1, &u) || !parse_carg(t2, &m)) { printf("BADOP %s\n", line); continue; }
            memcpy(&ps.x, &bx, 8); memcpy(&ps.y, &by, 8);
            int r = storage_properties_init(&g_obj[i], (uint32_t)a, u.p, u.n, m.p, m.n, ps, (uint8_t)d);
            drop_carg(&u); drop_carg(&m);
            obs_all("init", r);
        } else if (sscanf(line, "uri %ld %69000s", &i, t1) == 2 && okidx(i)) {
            struct carg u;
            if (!parse_carg(t1, &u)) { printf("BADOP %s\n", line); continue; }
            int r = storage_properties_set_uri(&g_obj[i], u.p, u.n);
            drop_carg(&u);
            obs_all("uri", r);
        } else if (sscanf(line, "meta %ld %69000s", &i, t1) == 2 && okidx(i)) {
            struct carg u;
            if (!parse_carg(t1, &u)) { printf("BADOP %s\n", line); continue; }
            int r = storage_properties_set_external_metadata(&g_obj[i], u.p, u.n);
            drop_carg(&u);
            obs_all("meta", r);
        } else if (sscanf(line, "keys %ld %69000s %69000s", &i, t1, t2) == 3 && okidx(i)) {
            struct carg u, m;
            if (!parse_carg(t1, &u) || !parse_carg(t2, &m)) { printf("BADOP %s\n", line); continue; }
            int r = storage_properties_set_access_key_and_secret(&g_obj[i], u.p, u.n, m.p, m.n);
            drop_carg(&u); drop_carg(&m);
            obs_all("keys", r);
        } else if (sscanf(line, "dim %ld %ld %69000s %llu %llu %llu %llu", &i, &j, t1, &a, &b, &c, &d) == 7 && okidx(i)) {
            struct carg u;
            if (!parse_carg(t1, &u)) { printf("BADOP %s\n", line); continue; }
            int r = storage_properties_set_dimension(&g_obj[i], (int)j, u.p, u.n, (enum DimensionType)a, (uint32_t)b, (uint32_t)c,
                                                     (uint32_t)d);
            drop_carg(&u);
            obs_all("dim", r);
        } else if (sscanf(line, "multi %ld %llu", &i, &a) == 2 && okidx(i)) {
            int r = storage_properties_set_enable_multiscale(&g_obj[i], (uint8_t)a);
            obs_all("multi", r);
        } else if (sscanf(line, "copy %ld %ld", &i, &j) == 2 && okidx(i) && okidx(j)) {
            int r = storage_properties_copy(&g_obj[i], &g_obj[j]);
            obs_all("copy", r);
        } else if (sscanf(line, "destroy %ld", &i) == 1 && okidx(i)) {
            storage_properties_destroy(&g_obj[i]);
            obs_all("destroy", 1);
        } else if (!strncmp(line, "end", 3)) {
            int first = 1;
            printf("END live=");
            for (int r = 0; r < g_nrec; ++r) if (g_rec[r].live) { printf("%s%d", first ? "" : ",", r); first = 0; }
            if (first) printf("-");
            printf("\n");
            fflush(stdout);
        } else if (line[0] == '\n' || line[0] == '#' || line[0] == 0) {
        } else {
            printf("BADOP %s", line);
            if (line[strlen(line) - 1] != '\n') printf("\n");
            fflush(stdout);
        }
        (void)e;
    }
}

/* ------------------------------------------------------------------ parent: one child per history */
static void summarise(FILE* f)
{
    char buf[2048], kind[256] = "", where[512] = "";
    rewind(f);
    while (fgets(buf, sizeof buf, f)) {
        char* p;
        if (!kind[0] && (p = strstr(buf, "ERROR: AddressSanitizer: "))) {
            sscanf(p + 25, "%200s", kind);
        } else if (!kind[0] && (p = strstr(buf, "runtime error: "))) {
            snprintf(kind, sizeof kind, "ubsan");
        } else if (!kind[0] && strstr(buf, "AddressSanitizer:DEADLYSIGNAL")) {
            snprintf(kind, sizeof kind, "deadly-signal");
        }
        if (!where[0] && (p = strstr(buf, " in ")) && strstr(buf, "storage.c") && buf[0] == ' ') {
            char fn[200] = "";
            sscanf(p + 4, "%199s", fn);
            char* q = strstr(buf, "storage.c");
            char loc[64] = "";
            sscanf(q, "%63[^ \n]", loc);
            snprintf(where, sizeof where, "%s@%s", fn, loc);
        }
    }
    printf(" kind=%s where=%s", kind[0] ? kind : "?", where[0] ? where : "?");
}

int main(void)
{
    static char* lines[1 << 16];
    int n = 0;
    char* buf = malloc(300000);
    int eof = 0;
    char* pending = 0;
    setvbuf(stdout, 0, _IOFBF, 1 << 16);
    while (!eof || pending) {
        /* collect one history */
        n = 0;
        if (pending) { lines[n++] = pending; pending = 0; }
        for (;;) {
            if (!fgets(buf, 300000, stdin)) { eof = 1; break; }
            if (!strncmp(buf, "new ", 4) && n > 0) { pending = strdup(buf); break; }
            if (n < (1 << 16)) lines[n++] = strdup(buf);
        }
        if (n == 0) continue;
        fflush(stdout);
        FILE* errf = tmpfile();
        pid_t pid = fork();
        if (pid == 0) {
            if (errf) dup2(fileno(errf), 2);
            run_history(lines, n);
            fflush(stdout);
            _exit(0);
        }
        int st = 0;
        waitpid(pid, &st, 0);
        if (!(WIFEXITED(st) && WEXITSTATUS(st) == 0)) {
            if (WIFSIGNALED(st)) printf("ABORT signal=%d", WTERMSIG(st));
            else printf("ABORT exit=%d", WEXITSTATUS(st));
            if (errf) summarise(errf);
            printf("\n");
        }
        if (errf) fclose(errf);
        for (int k = 0; k < n; ++k) free(lines[k]);
    }
    fflush(stdout);
    return 0;
}
