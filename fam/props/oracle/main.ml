(* Line-protocol driver around the extracted model of props/storage.c (same protocol and the same canonical
   output as harness/h_props.c).  An extra first line `cfg sd <n>` gives sizeof(struct StorageDimension) as the
   harness' compiler sees it, so that allocation sizes of dimension arrays print in bytes.
   Ops the model flags as not well-formed get the suffix " NOTWF". *)
module M = Propsmodel

let rec pos_of_int n = if n = 1 then M.XH else if n land 1 = 0 then M.XO (pos_of_int (n lsr 1)) else M.XI (pos_of_int (n lsr 1))
let n_of_int n = if n = 0 then M.N0 else M.Npos (pos_of_int n)
let z_of_int n = if n = 0 then M.Z0 else if n > 0 then M.Zpos (pos_of_int n) else M.Zneg (pos_of_int (-n))
let rec int_of_pos = function M.XH -> 1 | M.XO p -> 2 * int_of_pos p | M.XI p -> 2 * int_of_pos p + 1
let int_of_n = function M.N0 -> 0 | M.Npos p -> int_of_pos p
let rec nat_of_int n = if n <= 0 then M.O else M.S (nat_of_int (n - 1))
let int_of_nat n = let rec go acc = function M.O -> acc | M.S n -> go (acc + 1) n in go 0 n

(* 64-bit unsigned decimal strings <-> N (OCaml's int has 63 bits) *)
let n_of_dec (s : string) : M.n =
  let v = Int64.of_string ("0u" ^ s) in
  let rec go (v : int64) : M.positive =
    (* v <> 0, treated as unsigned *)
    let lsb = Int64.logand v 1L and rest = Int64.shift_right_logical v 1 in
    if rest = 0L then M.XH else if lsb = 0L then M.XO (go rest) else M.XI (go rest) in
  if v = 0L then M.N0 else M.Npos (go v)

let dec_of_n (x : M.n) : string =
  let rec go = function M.XH -> 1L | M.XO p -> Int64.shift_left (go p) 1 | M.XI p -> Int64.logor (Int64.shift_left (go p) 1) 1L in
  match x with M.N0 -> "0" | M.Npos p -> Printf.sprintf "%Lu" (go p)

let sd = ref 40

let hexv c = if c <= '9' then Char.code c - 48 else (Char.code c lor 32) - 87

let parse_cstr (tok : string) : M.cstr =
  let k = String.rindex tok ':' in
  let n = int_of_string (String.sub tok (k + 1) (String.length tok - k - 1)) in
  if tok.[0] = 'N' then { M.cbuf = None; M.cn = nat_of_int n }
  else begin
    let len = (k - 1) / 2 in
    let l = List.init len (fun i -> n_of_int (hexv tok.[1 + 2 * i] * 16 + hexv tok.[2 + 2 * i])) in
    { M.cbuf = Some l; M.cn = nat_of_int n }
  end

let b = Buffer.create 4096

let put_string (h : M.heap) (s : M.string) =
  let nb = int_of_nat s.M.nbytes in
  (match s.M.str with
   | None -> Buffer.add_string b (Printf.sprintf "-:%d:%d:" nb (if s.M.is_ref then 1 else 0))
   | Some id ->
     (match h.M.cells id with
      | Some (M.PBytes l) ->
        Buffer.add_string b (Printf.sprintf "#%d:%d:%d:" (int_of_nat id) nb (if s.M.is_ref then 1 else 0));
        if nb > List.length l then Buffer.add_string b "OVER"
        else List.iteri (fun i x -> if i < nb then Buffer.add_string b (Printf.sprintf "%02x" (int_of_n x))) l
      | Some (M.PDims _) ->
        Buffer.add_string b (Printf.sprintf "#%d:%d:%d:DIMS" (int_of_nat id) nb (if s.M.is_ref then 1 else 0))
      | None -> Buffer.add_string b (Printf.sprintf "!%d:%d:%d:~" (int_of_nat id) nb (if s.M.is_ref then 1 else 0))))

let put_obj (h : M.heap) i (p : M.props) =
  Buffer.add_string b (Printf.sprintf " | o%d uri=" i); put_string h p.M.uri;
  Buffer.add_string b " meta="; put_string h p.M.meta;
  Buffer.add_string b " akey="; put_string h p.M.akey;
  Buffer.add_string b " skey="; put_string h p.M.skey;
  Buffer.add_string b (Printf.sprintf " ffid=%s ps=%s,%s multi=%s dims=" (dec_of_n p.M.ffid) (dec_of_n p.M.psx) (dec_of_n p.M.psy)
                         (dec_of_n p.M.multiscale));
  let d = p.M.dims in
  let sz = int_of_nat d.M.dsize in
  (match d.M.ddata with
   | None -> Buffer.add_string b (Printf.sprintf "-:%d[" sz)
   | Some a ->
     (match h.M.cells a with
      | Some (M.PDims l) ->
        Buffer.add_string b (Printf.sprintf "#%d:%d[" (int_of_nat a) sz);
        if sz > List.length l then Buffer.add_string b "~"
        else List.iteri (fun k (e : M.dim) ->
            if k < sz then begin
              if k > 0 then Buffer.add_char b ';';
              put_string h e.M.name;
              Buffer.add_string b (Printf.sprintf ",%s,%s,%s,%s" (dec_of_n e.M.kind) (dec_of_n e.M.array_size_px)
                                     (dec_of_n e.M.chunk_size_px) (dec_of_n e.M.shard_size_chunks))
            end) l
      | Some (M.PBytes _) -> Buffer.add_string b (Printf.sprintf "#%d:%d[~" (int_of_nat a) sz)
      | None -> Buffer.add_string b (Printf.sprintf "!%d:%d[~" (int_of_nat a) sz)));
  Buffer.add_char b ']'

let put_event (e : M.event) =
  match e with
  | M.EMalloc (id, n, isd) -> Printf.sprintf "M%d:%d" (int_of_nat id) (int_of_nat n * (if isd then !sd else 1))
  | M.ERealloc (o, nw, n) -> Printf.sprintf "R%d>%d:%d" (int_of_nat o) (int_of_nat nw) (int_of_nat n)
  | M.EFree id -> Printf.sprintf "F%d" (int_of_nat id)
  | M.EBadFree id -> Printf.sprintf "F!%d" (int_of_nat id)
  | M.EBadAccess id -> Printf.sprintf "BAD%d" (int_of_nat id)
  | M.ECrash -> "CRASH"

let obs name (ret : bool) (st : M.state) (wf : bool) =
  Buffer.clear b;
  let evs = List.rev_map put_event st.M.hp.M.log in
  Buffer.add_string b (Printf.sprintf "%s ret=%d | ev=%s" name (if ret then 1 else 0) (if evs = [] then "-" else String.concat " " evs));
  List.iteri (fun i p -> put_obj st.M.hp i p) st.M.objs;
  if st.M.hp.M.bad then Buffer.add_string b " MODELBAD";
  if not wf then Buffer.add_string b " NOTWF";
  print_string (Buffer.contents b);
  print_newline ()

let () =
  let st = ref (M.init_state (nat_of_int 1)) in
  let nat s = nat_of_int (int_of_string s) in
  (try
     while true do
       let line = String.trim (input_line stdin) in
       let w = List.filter (fun s -> s <> "") (String.split_on_char ' ' line) in
       match w with
       | [] -> ()
       | ["cfg"; "sd"; n] -> sd := int_of_string n
       | ["new"; n] ->
         let k = max 1 (min 8 (int_of_string n)) in
         st := M.init_state (nat_of_int k); Printf.printf "NEW %d\n" k
       | ["end"] ->
         let h = !st.M.hp in
         let live = ref [] in
         for id = int_of_nat h.M.next - 1 downto 0 do
           match h.M.cells (nat_of_int id) with Some _ -> live := string_of_int id :: !live | None -> ()
         done;
         Printf.printf "END live=%s\n" (if !live = [] then "-" else String.concat "," !live)
       | name :: _ when String.length name > 0 && name.[0] = '#' -> ()
       | name :: args ->
         let o =
           try
             (match name, args with
              | "moves", [bits] -> Some (M.OMoves (if bits = "-" then [] else List.init (String.length bits) (fun i -> bits.[i] <> '0')))
              | "init", [i; ff; u; m; px; py; nd] ->
                Some (M.OInit (nat i, n_of_dec ff, parse_cstr u, parse_cstr m, n_of_dec px, n_of_dec py, nat nd))
              | "uri", [i; s] -> Some (M.OSetUri (nat i, parse_cstr s))
              | "meta", [i; s] -> Some (M.OSetMeta (nat i, parse_cstr s))
              | "keys", [i; k; s] -> Some (M.OSetKeys (nat i, parse_cstr k, parse_cstr s))
              | "dim", [i; idx; s; k; a; c; d] ->
                Some (M.OSetDim (nat i, z_of_int (int_of_string idx), parse_cstr s, n_of_dec k, n_of_dec a, n_of_dec c, n_of_dec d))
              | "multi", [i; e] -> Some (M.OSetMulti (nat i, n_of_dec e))
              | "copy", [d; s] -> Some (M.OCopy (nat d, nat s))
              | "destroy", [i] -> Some (M.ODestroy (nat i))
              | _ -> None)
           with _ -> None in
         (match o with
          | None -> Printf.printf "BADOP %s\n" line
          | Some o ->
            let wf = M.wf_opb !st o in
            let (st', r) = M.step !st o in
            st := st';
            obs name r st' wf)
     done
   with End_of_file -> ())
