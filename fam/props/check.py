"""Props family: C13 (StorageProperties copies are deep, complete and independent).  DESIGN 6.13.

prove -> build -> corpus -> correspond (real storage.c with a logging allocator under ASan/UBSan  vs  the extracted Coq
model, line by line) -> independent property oracle over the implementation's own output -> minimised replay."""
import os
import re

import vlib

SRC = "acquire-core-libs/src"
UNIT = SRC + "/acquire-device-properties/device/props/storage.c"
ENV = {"ASAN_OPTIONS": "detect_leaks=0:abort_on_error=0:allocator_may_return_null=1", "UBSAN_OPTIONS": "print_stacktrace=1"}


# ----------------------------------------------------------------------------- generator
def tok(buf, n):
    """caller argument: buffer bytes (None = NULL) and byte count"""
    if buf is None:
        return "N:%d" % n
    return "X%s:%d" % (bytes(buf).hex(), n)


def gen_chars(rng, k):
    return [rng.choice(b"abcdefghijklmnopqrstuvwxyz0123456789_/.:{}\"") for _ in range(k)]


def gen_len(rng, thorough):
    r = rng.random()
    if r < 0.55:
        return rng.randint(1, 8)
    if r < 0.85:
        return rng.randint(9, 40)
    if r < 0.97:
        return rng.randint(41, 200)
    return rng.randint(201, 2000 if thorough else 600)


def gen_str(rng, thorough, count=None):
    """returns (token, class)"""
    r = rng.random()
    if r < 0.60:
        b = gen_chars(rng, gen_len(rng, thorough)) + [0]
        return tok(b, len(b)), "terminated"
    if r < 0.66:
        return tok([0], 1), "empty"
    if r < 0.72:
        return tok(None, rng.choice([0, 0, 1, 7])), "null"
    if r < 0.77:
        b = gen_chars(rng, rng.randint(0, 6))
        return tok(b + [0] if b else b, 0), "zero-count"
    if r < 0.87:
        b = gen_chars(rng, gen_len(rng, thorough))
        return tok(b, len(b)), "unterminated"
    if r < 0.93:
        b = gen_chars(rng, rng.randint(1, 6)) + [0] + gen_chars(rng, rng.randint(1, 6)) + [0]
        return tok(b, len(b)), "embedded-nul"
    b = gen_chars(rng, rng.randint(2, 30)) + [0]
    return tok(b, rng.randint(1, len(b) - 1)), "short-count"


DBL = [0, 0x3FF0000000000000, 0x4000000000000000, 0x3FE0000000000000, 0x3FB999999999999A, 0x40590C0000000000, 0x3F50624DD2F1A9FC]


def gen_history(rng, thorough, count):
    nobj = rng.choice([2, 3, 3, 3, 4])
    nops = rng.randint(5, 120 if thorough else 60)
    ops = ["new %d" % nobj]
    dirty = [False] * nobj
    nd = [0] * nobj
    for _ in range(nops):
        x = rng.random()
        if x < 0.05:
            ops.append("moves " + "".join(rng.choice("01") for _ in range(rng.randint(1, 10))))
            count("op:moves")
        elif x < 0.20:
            cand = [i for i in range(nobj) if not dirty[i]]
            if not cand:
                i = rng.randrange(nobj)
                ops.append("destroy %d" % i)
                count("op:destroy")
                dirty[i] = False
                nd[i] = 0
            else:
                i = rng.choice(cand)
            r = rng.random()
            n = 0 if r < 0.3 else rng.randint(1, 4) if r < 0.9 else rng.randint(5, 12 if not thorough else 40)
            u, cu = gen_str(rng, thorough)
            m, cm = gen_str(rng, thorough)
            count("str:" + cu)
            count("str:" + cm)
            ops.append("init %d %d %s %s %d %d %d" % (i, rng.choice([0, 1, 7, 4294967295, rng.randrange(1 << 32)]), u, m,
                                                        rng.choice(DBL), rng.choice(DBL), n))
            count("op:init")
            count("init-dims:%s" % ("0" if n == 0 else "1-4" if n <= 4 else "5+"))
            dirty[i] = True
            nd[i] = n
        elif x < 0.42:
            i = rng.randrange(nobj)
            k = rng.choice(["uri", "meta", "keys"])
            s, c = gen_str(rng, thorough)
            count("str:" + c)
            if k == "keys":
                t, c2 = gen_str(rng, thorough)
                count("str:" + c2)
                ops.append("keys %d %s %s" % (i, s, t))
            else:
                ops.append("%s %d %s" % (k, i, s))
            count("op:" + k)
            dirty[i] = True
        elif x < 0.66:
            cand = [i for i in range(nobj) if nd[i] > 0]
            i = rng.choice(cand) if cand and rng.random() < 0.9 else rng.randrange(nobj)
            r = rng.random()
            if r < 0.85 and nd[i] > 0:
                idx = rng.randrange(nd[i])
                count("dim-index:in-range")
            else:
                idx = rng.choice([-1, nd[i], nd[i] + 2, -7])
                count("dim-index:out-of-range")
            r = rng.random()
            if r < 0.8:
                b = gen_chars(rng, rng.randint(1, 5) if rng.random() < 0.8 else gen_len(rng, thorough)) + [0]
                s = tok(b, len(b))
                count("dim-name:terminated")
            else:
                s, c = gen_str(rng, thorough)
                count("dim-name:" + c)
            kind = rng.randrange(4) if rng.random() < 0.92 else rng.choice([4, 5, 255, 4294967295])
            ops.append("dim %d %d %s %d %d %d %d" % (i, idx, s, kind, rng.choice([0, 1, 64, 1920, 4294967295]),
                                                      rng.choice([0, 1, 16, 64]), rng.choice([0, 1, 2, 8])))
            count("op:dim")
            # a successful set_dimension makes the object own a name; an object with an array is dirty anyway
        elif x < 0.69:
            i = rng.randrange(nobj)
            ops.append("multi %d %d" % (i, rng.choice([0, 1, 1, 255])))
            count("op:multi")
        elif x < 0.92:
            d = rng.randrange(nobj)
            s = rng.choice([j for j in range(nobj) if j != d])
            ops.append("copy %d %d" % (d, s))
            count("op:copy")
            count("copy:src-dims=%s,dst-dims=%s" % ("0" if nd[s] == 0 else "n", "0" if nd[d] == 0 else "n"))
            dirty[d] = True
            nd[d] = nd[s]
        else:
            i = rng.randrange(nobj)
            ops.append("destroy %d" % i)
            count("op:destroy")
            dirty[i] = False
            nd[i] = 0
    for i in range(nobj):
        ops.append("destroy %d" % i)
    ops.append("end")
    return ops


def sweep_lengths(thorough):
    top = 1100 if thorough else 400
    lens = list(range(0, top))
    p2 = 512
    while p2 <= (32768 if thorough else 4096):      # the harness parses argument strings of up to 65536 bytes
        lens += [p2 + d for d in range(-3, 4)]
        p2 *= 2
    return sorted(set(lens))


def gen_length_sweep(rng, thorough):
    """one short history per string length L: strings of exactly L characters (+NUL) go through init, every setter, a copy in
    each direction (into a fresh object, over a shorter and over a longer string), a dimension name -- so a boundary a change
    introduces at ANY length (a stack buffer, a block size, a rounded allocation) is hit exactly"""
    out = []
    for L in sweep_lengths(thorough):
        def S(n):
            b = gen_chars(rng, n) + [0]
            return tok(b, len(b))
        ops = ["new 3",
               "init 0 1 %s %s %d %d 2" % (S(L), S(L), DBL[1], DBL[2]),
               "dim 0 0 %s 1 64 16 1" % S(L), "dim 0 1 %s 2 64 16 1" % S(max(0, L - 1)),
               "copy 1 0",
               "init 2 0 %s %s %d %d 1" % (S(L + 1), S(max(0, L - 1)), DBL[1], DBL[1]),
               "copy 2 0",                       # over a longer uri and a shorter metadata string
               "uri 1 %s" % S(L + 1), "meta 1 %s" % S(max(0, L - 1)), "keys 1 %s %s" % (S(L), S(L + 1)),
               "copy 0 1",                       # back: the destination holds strings of length L
               "dim 0 0 %s 1 64 16 1" % S(L + 1), "dim 0 0 %s 1 64 16 1" % S(L),
               "copy 2 0", "destroy 0", "destroy 1", "destroy 2", "end"]
        out.append(ops)
    return out


# ----------------------------------------------------------------------------- parsing of canonical lines
class Str:
    __slots__ = ("cls", "nbytes", "is_ref", "hex")

    def __init__(self, t):
        self.cls, nb, ir, self.hex = t.split(":")
        self.nbytes = int(nb)
        self.is_ref = int(ir)

    def value(self):
        """the string value: NULL / zero length count as the empty string, as copy_string itself treats them"""
        if self.cls == "-" or self.nbytes == 0:
            return "00"
        return self.hex


def parse_obj(t):
    """' o0 uri=.. meta=.. akey=.. skey=.. ffid=.. ps=.. multi=.. dims=cls:size[...]' -> dict"""
    w = t.split()
    o = {"raw": " ".join(w[1:])}
    for f in w[1:]:
        k, v = f.split("=", 1)
        if k in ("uri", "meta", "akey", "skey"):
            o[k] = Str(v)
        elif k == "dims":
            m = re.match(r"([^:]+):(\d+)\[(.*)\]$", v)
            o["dcls"], o["dsize"] = m.group(1), int(m.group(2))
            body = m.group(3)
            o["dims"] = None if body == "~" else []
            if body and body != "~":
                for e in body.split(";"):
                    s, kind, a, c, sh = e.rsplit(",", 4)
                    o["dims"].append((Str(s), kind, a, c, sh))
        else:
            o[k] = v
    return o


def parse_line(line):
    parts = line.split(" | ")
    head = parts[0].split()
    ret = int(head[1].split("=")[1])
    evs = parts[1][3:].split() if parts[1] != "ev=-" else []
    objs = [parse_obj(p) for p in parts[2:]]
    return head[0], ret, evs, objs


def parse_tok(t):
    body, n = t.rsplit(":", 1)
    n = int(n)
    if body == "N":
        return None, n
    return bytes.fromhex(body[1:]), n


# ----------------------------------------------------------------------------- independent property oracle
def pointers(o):
    """every pointer an object holds: (path, cls, is_ref)"""
    res = [(f, o[f].cls, o[f].is_ref) for f in ("uri", "meta", "akey", "skey")]
    res.append(("dims", o["dcls"], 0))
    for k, d in enumerate(o["dims"] or []):
        res.append(("dims[%d].name" % k, d[0].cls, d[0].is_ref))
    return res


def strings(o):
    res = [(f, o[f]) for f in ("uri", "meta", "akey", "skey")]
    for k, d in enumerate(o["dims"] or []):
        res.append(("dims[%d].name" % k, d[0]))
    return res


def wf_history(ops, out):
    """well-formedness of the calls, judged from the implementation's own observations: init only on an object that owns
    nothing, copy between two different objects, indices in range, byte counts within the caller's buffer."""
    nobj = int(ops[0].split()[1])
    prev = None
    for k, o in enumerate(ops[1:], 1):
        w = o.split()
        if w[0] in ("init", "uri", "meta", "keys", "dim", "multi", "destroy"):
            if not 0 <= int(w[1]) < nobj:
                return False
        for t in w[1:]:
            if t[0] in "NX" and ":" in t:
                b, n = parse_tok(t)
                if b is not None and n > len(b):
                    return False
        if w[0] == "copy":
            d, s = int(w[1]), int(w[2])
            if d == s or not (0 <= d < nobj and 0 <= s < nobj):
                return False
        if w[0] == "init":
            if prev is not None:
                ob = prev[int(w[1])]
                if any(c != "-" for (_, c, _) in pointers(ob)):
                    return False
            if int(w[7]) > 255:
                return False
        if k < len(out) and not out[k].startswith(("END", "ABORT", "BADOP", "NEW")):
            prev = parse_line(out[k])[3]
        elif k >= len(out):
            break
    return True


def oracle(ops, out):
    """Direct statement of C13 over the implementation's output lines (never through the model).
    Returns a list of (key, message, op index)."""
    v = []
    live = {}            # id -> size
    dropped = {}         # id -> name of the op after which no object referenced it any more
    prev = None
    for k, line in enumerate(out):
        if line.startswith("NEW"):
            continue
        if line.startswith("ABORT"):
            m = re.search(r"kind=(\S+) where=(\S+)", line)
            kind = m.group(1) if m else "?"
            opk = ops[k] if k < len(ops) else "?"
            v.append(("abort:" + kind, "the implementation aborted during op %d `%s`: %s" % (k, opk[:80], line), k))
            return v
        if line.startswith("BADOP") or line.startswith("FATAL"):
            v.append(("harness", "harness could not run `%s`" % line, k))
            return v
        if line.startswith("END"):
            rest = line.split("=")[1]
            left = [] if rest == "-" else [int(x) for x in rest.split(",")]
            for i in left:
                by = dropped.get(i, "?")
                v.append(("leak:dropped-by-" + by,
                          "allocation %d is still live after every object was destroyed (no object referenced it any more after `%s`)"
                          % (i, by), k))
            continue
        name, ret, evs, objs = parse_line(line)
        opk = ops[k]
        # --- allocator events: each allocation released exactly once
        for e in evs:
            m = re.match(r"M(\d+):(\d+)$", e)
            if m:
                live[int(m.group(1))] = int(m.group(2))
                continue
            m = re.match(r"R(\d+)>(\d+):(\d+)$", e)
            if m:
                a, b, n = int(m.group(1)), int(m.group(2)), int(m.group(3))
                if a not in live:
                    v.append(("free-not-live", "op %d `%s` reallocates allocation %d which is not live" % (k, opk[:60], a), k))
                    return v
                del live[a]
                live[b] = n
                continue
            m = re.match(r"F(\d+)$", e)
            if m:
                a = int(m.group(1))
                if a not in live:
                    v.append(("free-not-live", "op %d `%s` frees allocation %d which is not live" % (k, opk[:60], a), k))
                    return v
                del live[a]
                continue
            v.append(("free-not-live", "op %d `%s`: release of memory that is not a live allocation (%s)" % (k, opk[:60], e), k))
            return v
        # --- pointers: no stale pointer, no sharing
        seen = {}
        for i, o in enumerate(objs):
            if o["dims"] is None and o["dcls"] != "-":
                if o["dcls"].startswith("#"):
                    v.append(("dims-size", "object %d: acquisition_dimensions.size=%d exceeds its allocation after op %d" % (i, o["dsize"], k), k))
                    return v
            for (path, cls, is_ref) in pointers(o):
                if cls == "-":
                    continue
                if cls.startswith("!"):
                    v.append(("dangling-pointer", "after op %d `%s` object %d field %s points to the released allocation %s"
                              % (k, opk[:60], i, path, cls[1:]), k))
                    return v
                if cls == "?":
                    if not is_ref:
                        v.append(("unowned-pointer", "after op %d `%s` object %d field %s claims ownership (is_ref=0) of memory that is no allocation"
                                  % (k, opk[:60], i, path), k))
                        return v
                    continue
                a = int(cls[1:])
                if a in seen:
                    j, p2 = seen[a]
                    key = "shared-allocation" if j != i else "shared-within-object"
                    v.append((key, "after op %d `%s` allocation %d is referenced by object %d field %s and by object %d field %s"
                              % (k, opk[:60], a, j, p2, i, path), k))
                    return v
                seen[a] = (i, path)
        for a in live:
            if a not in seen:
                dropped.setdefault(a, name)
            else:
                dropped.pop(a, None)
        # --- every stored string is NUL-terminated within its recorded length, inside its allocation
        for i, o in enumerate(objs):
            for (path, s) in strings(o):
                if not s.cls.startswith("#"):
                    continue
                if s.hex == "OVER":
                    v.append(("not-terminated", "after op %d object %d field %s records nbytes=%d, more than its allocation holds"
                              % (k, i, path, s.nbytes), k))
                    return v
                if s.nbytes < 1 or not s.hex.endswith("00") or len(s.hex) != 2 * s.nbytes:
                    v.append(("not-terminated", "after op %d `%s` object %d field %s (nbytes=%d, bytes %s) is not NUL-terminated at its recorded length"
                              % (k, opk[:60], i, path, s.nbytes, s.hex[-16:]), k))
                    return v
        w = opk.split()
        # --- copy: deep equality, source untouched
        if name == "copy" and ret == 1:
            d, s = int(w[1]), int(w[2])
            D, S = objs[d], objs[s]
            diffs = []
            for f in ("uri", "meta", "akey", "skey"):
                if D[f].value() != S[f].value():
                    diffs.append(f)
            for f in ("ffid", "ps", "multi"):
                if D[f] != S[f]:
                    diffs.append(f)
            if D["dsize"] != S["dsize"] or (D["dcls"] == "-") != (S["dcls"] == "-"):
                diffs.append("acquisition_dimensions.size/data")
            elif D["dims"] is not None and S["dims"] is not None:
                for n, (x, y) in enumerate(zip(D["dims"], S["dims"])):
                    if x[0].value() != y[0].value() or x[1:] != y[1:]:
                        diffs.append("dims[%d]" % n)
            if diffs:
                v.append(("copy-not-equal", "after op %d `%s` (returned 1) destination and source differ in: %s" % (k, opk, ", ".join(diffs)), k))
                return v
            if prev is not None and prev[s]["raw"] != S["raw"]:
                v.append(("copy-modified-source", "op %d `%s` changed its source: before `%s` after `%s`" % (k, opk, prev[s]["raw"][:300], S["raw"][:300]), k))
                return v
        # --- setters store what they were given (terminated inputs only: what happens to others is the code's choice)
        if ret == 1 and name in ("uri", "meta", "keys", "init"):
            i = int(w[1])
            if name == "uri":
                pairs = [("uri", w[2])]
            elif name == "meta":
                pairs = [("meta", w[2])]
            elif name == "keys":
                pairs = [("akey", w[2]), ("skey", w[3])]
            else:
                pairs = [("uri", w[3]), ("meta", w[4])]
            for f, t in pairs:
                b, n = parse_tok(t)
                if b is not None and n >= 1 and b[n - 1] == 0:
                    if objs[i][f].hex != b[:n].hex():
                        v.append(("set-mismatch", "op %d `%s` returned 1 but object %d field %s holds %s" % (k, opk[:80], i, f, objs[i][f].hex[:80]), k))
                        return v
        if ret == 1 and name == "dim":
            i, idx = int(w[1]), int(w[2])
            b, n = parse_tok(w[3])
            ds = objs[i]["dims"]
            if ds is None or not 0 <= idx < len(ds):
                v.append(("set-mismatch", "op %d `%s` returned 1 but the object has no such dimension" % (k, opk[:80]), k))
                return v
            e = ds[idx]
            if b is not None and n >= 1 and b[n - 1] == 0:
                if e[0].hex != b[:n].hex() or list(e[1:]) != w[4:8]:
                    v.append(("set-mismatch", "op %d `%s` returned 1 but dimension %d holds %s,%s" % (k, opk[:80], idx, e[0].hex[:60], ",".join(e[1:])), k))
                    return v
        prev = objs
    return v


# ----------------------------------------------------------------------------- runners
def run_lines(exe, ops, pre=(), timeout=300):
    rc, o, e = vlib.sh([exe], inp="\n".join(list(pre) + ops) + "\n", timeout=timeout, env=ENV)
    lines = o.split("\n")
    if lines and lines[-1] == "":
        lines.pop()
    return rc, lines, e


def split_out(lines):
    hs = []
    for l in lines:
        if l.startswith("NEW"):
            hs.append([l])
        elif hs:
            hs[-1].append(l)
    return hs


def read_histories(path):
    """a corpus file (one op per line, `#` comments, each history starts with `new <n>`) or a replays/C13-*.json file"""
    text = open(path).read()
    if text.lstrip().startswith("{"):
        import json
        lines = json.loads(text)["replay"]["history"]
    else:
        lines = text.split("\n")
    hs = []
    for l in lines:
        l = l.strip()
        if not l or l.startswith("#"):
            continue
        if l.startswith("new "):
            hs.append([l])
        elif hs:
            hs[-1].append(l)
    return hs


def build(ctx):
    orac = ctx.oracle_build()
    here = os.path.join(ctx.famdir, "harness")
    inc = ["-I" + os.path.join(vlib.REPO, SRC, "acquire-device-properties"), "-I" + os.path.join(vlib.REPO, SRC, "acquire-core-logger")]
    impl = ctx.cc([os.path.join(here, "h_props.c"), UNIT], "h_props",
                  flags=inc + ["-DNO_UNIT_TESTS", "-Dmalloc=vh_malloc", "-Drealloc=vh_realloc", "-Dfree=vh_free"])
    sd = ctx.cc([os.path.join(here, "sizeof_dim.c")], "sizeof_dim", flags=inc, asan=False)
    rc, o, e = vlib.sh([sd])
    return orac, impl, int(o.strip())


def minimise(ctx, impl, h, key):
    """ddmin over the ops between `new` and the closing destroy/end block; a candidate counts only if it is a well-formed
    history (judged from the implementation's own observations) that fails the oracle with the same key."""
    nobj = int(h[0].split()[1])
    tail = ["destroy %d" % i for i in range(nobj)] + ["end"]
    body = h[1:]
    while body and body[-1] == "end":
        body.pop()

    def fails(cand):
        ops = [h[0]] + cand + tail
        rc, out, _ = run_lines(impl, ops, timeout=30)
        if not wf_history(ops, out):
            return False
        return any(k == key for (k, _, _) in oracle(ops, out))
    try:
        if not fails(body):
            return h
        body = vlib.ddmin(body, fails, max_tests=250)
        # shrink the caller strings too: a long buffer becomes "a\0" when the failure does not depend on it
        for n, o in enumerate(body):
            w = o.split()
            for j, t in enumerate(w):
                if re.match(r"X[0-9a-f]*:\d+$", t) and t != "X6100:2":
                    cand = body[:n] + [" ".join(w[:j] + ["X6100:2"] + w[j + 1:])] + body[n + 1:]
                    if fails(cand):
                        body = cand
                        w = body[n].split()
        # drop closing destroys that are not needed
        for i in range(nobj):
            t2 = [t for t in tail if t != "destroy %d" % i]
            ops = [h[0]] + body + t2
            rc, out, _ = run_lines(impl, ops, timeout=30)
            if key.startswith("leak"):
                break
            if wf_history(ops, out) and any(k == key for (k, _, _) in oracle(ops, out)):
                tail = t2
        return [h[0]] + body + tail
    except Exception:
        return h


def nontrivial_history(h, mo):
    """a copy whose source has at least one named dimension, or a copy over a destination that had dimensions"""
    prev = None
    for o, l in zip(h, mo):
        if l.startswith(("NEW", "END")):
            continue
        name, ret, evs, objs = parse_line(l.replace(" NOTWF", "").replace(" MODELBAD", ""))
        if name == "copy" and ret == 1:
            w = o.split()
            S = objs[int(w[2])]
            if S["dims"] and any(d[0].cls != "-" for d in S["dims"]):
                return True
            if prev is not None and prev[int(w[1])]["dsize"] > 0:
                return True
        prev = objs
    return False


def evaluate(ctx, impl, histories, mlines, ilines, stage):
    mh = split_out(mlines)
    ih = split_out(ilines)
    if len(mh) != len(histories):
        ctx.broken_tie("model oracle produced %d histories for %d inputs" % (len(mh), len(histories)), "\n".join(mlines[-3:]))
        return
    if len(ih) != len(histories):
        ctx.broken_tie("harness produced %d histories for %d inputs" % (len(ih), len(histories)), "\n".join(ilines[-3:]))
        return
    for h, m, i in zip(histories, mh, ih):
        if any(l.endswith("NOTWF") for l in m):
            ctx.count("generator:not-well-formed")
            continue
        try:
            nt = nontrivial_history(h, m)
        except Exception:
            nt = False
        ctx.case("\n".join(h), nontrivial=nt)
        ctx.count("history:%s" % ("nontrivial" if nt else "plain"))
        for l in m:
            if " | ev=" in l:
                evs = l.split(" | ")[1]
                if "R" in evs:
                    ctx.count("res:realloc-moved", len(re.findall(r"R(\d+)>(?!\1:)", evs)))
                    ctx.count("res:realloc-in-place", len(re.findall(r"R(\d+)>\1:", evs)))
            if l.startswith("dim ret=0"):
                ctx.count("res:set_dimension-rejected")
        try:
            found = oracle(h, i)
        except Exception as ex:  # output the oracle cannot read: the observation format itself is broken
            found = [("harness", "unreadable implementation output: %r" % (ex,), 0)]
        for (key, msg, k) in found:
            if not ctx.has_violation(key):
                hh = minimise(ctx, impl, h, key)
                rc, out, err = run_lines(impl, hh, timeout=30)
                msgs = [mm for (kk, mm, _) in oracle(hh, out) if kk == key]
                ctx.violation(msgs[0] if msgs else msg,
                              {"history": hh, "impl_output": out, "stage": stage,
                               "how": "build: python3 tools/check.py --property C13 (leaves .build/C13/h_props, compiled from the "
                                      "working tree of %s); replay: feed the history, one op per line, to .build/C13/h_props with "
                                      "ASAN_OPTIONS=detect_leaks=0" % vlib.REPO}, key=key)
            else:
                ctx.violation(msg, None, key=key)
        if m != i:
            d = next((k for k in range(min(len(m), len(i))) if m[k] != i[k]), min(len(m), len(i)))
            ctx.broken_tie("model/implementation disagreement on a StorageProperties history (%s)" % stage,
                           {"history": h[:d + 1], "op": h[d] if d < len(h) else None,
                            "model": m[d][:1500] if d < len(m) else None, "impl": i[d][:1500] if d < len(i) else None})
        else:
            ctx.traces_validated += 1


def run(ctx):
    ctx.coq_prove(["Properties_C13"])
    orac, impl, sd = build(ctx)
    thorough = ctx.tier == "thorough"
    ctx.rule = ("histories of 5..60 (thorough: ..120) calls over 2..4 zero-initialised StorageProperties objects: init (only on an object "
                "that owns nothing), set_uri/set_external_metadata/set_access_key_and_secret/set_dimension/set_enable_multiscale, copy "
                "between two distinct objects in either direction, destroy, and realloc move/stay scripts; every history ends by "
                "destroying every object; strings: terminated 1..600 (thorough ..2000) chars, empty, NULL, zero count, unterminated, "
                "embedded NUL, count shorter than the buffer; 0..12 (thorough ..40) dimensions, indices in and out of range, invalid "
                "kinds; the real storage.c runs with a logging allocator under ASan/UBSan, one child process per history; "
                "non-trivial = the history contains a successful copy from a source with a named dimension or over a destination "
                "that had dimensions; distinct = distinct op text")
    ctx.assumptions = ["malloc/realloc succeed and hand out fresh blocks disjoint from every live block (allocator correctness is not modelled)",
                       "copy is called with two different objects; init only on an object that owns nothing (zero-initialised or destroyed)",
                       "a caller's byte count never exceeds the caller's buffer",
                       "first_frame_id, dimension count, kind and sizes are passed within the range of their C types",
                       "leaks are judged from the allocator log of the logging wrappers (LeakSanitizer is not used); "
                       "memory errors by ASan/UBSan"]
    ctx.extra["sizeof_StorageDimension"] = sd
    pre = ["cfg sd %d" % sd]

    def pair(hs):
        flat = [o for h in hs for o in h]
        return run_lines(orac, flat, pre=pre), run_lines(impl, flat)

    # corpus first
    cdir = os.path.join(vlib.VERIF, "corpus", "C13")
    corpus = []
    if os.path.isdir(cdir):
        for fn in sorted(os.listdir(cdir)):
            corpus += read_histories(os.path.join(cdir, fn))
    if corpus:
        (rcm, mo, em), (rci, io, ei) = pair(corpus)
        evaluate(ctx, impl, corpus, mo, io, "corpus")
    ctx.extra["corpus_histories"] = len(corpus)

    # --replay <file>: re-run only the history of a replay file written by an earlier run (or an op-per-line file)
    rf = getattr(ctx, "replay_file", None)
    if rf:
        hs = read_histories(rf)
        (rcm, mo, em), (rci, io, ei) = pair(hs)
        for l in io:
            ctx.log("impl : " + l[:400])
        evaluate(ctx, impl, hs, mo, io, "replay")
        return

    nh = 60000 if thorough else 4000
    sweep = gen_length_sweep(ctx.rng, thorough)
    ctx.extra["string_length_sweep"] = "%d histories: every string length 0..%d and around the powers of two up to %d" % (
        len(sweep), (1100 if thorough else 400) - 1, 32768 if thorough else 4096)
    batch = sweep + [gen_history(ctx.rng, thorough, ctx.count) for _ in range(nh)]
    for h in batch[:2]:
        ctx.sample([o[:200] for o in h[:30]])
    shards = [s for s in vlib.shard(batch, vlib.NPROC * (8 if thorough else 1)) if s]
    results = vlib.parallel(pair, shards)
    for hs, ((rcm, mo, em), (rci, io, ei)) in zip(shards, results):
        if rcm != 0:
            ctx.broken_tie("model oracle failed", (em or "")[-500:])
            continue
        evaluate(ctx, impl, hs, mo, io, "generated")
    # ---- thorough: independent re-check of the compiled proofs with coqchk
    if thorough and os.path.exists(os.path.join(ctx.coqdir, "Properties_C13.vo")):
        rc, o, e = vlib.sh("timeout 900 coqchk -o -silent -Q . Props Props.Properties_C13", cwd=ctx.coqdir, timeout=950)
        txt = o + e
        ok = rc == 0 and "Axioms: <none>" in txt and "type-in-type: <none>" in txt
        ctx.extra["coqchk"] = "ok: axioms <none>, no type-in-type, no unsafe fixpoints" if ok else txt[-800:]
        if not ok:
            ctx.broken_tie("coqchk does not accept Props.Properties_C13", txt[-800:])
