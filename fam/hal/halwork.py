"""Worker side of the C11 check: generator, runners (extracted model / real HAL harness), independent property oracle.
Kept in its own importable module because the shards are evaluated in worker processes (functions are pickled by
module name; check.py itself is loaded by tools/check.py under a synthetic name)."""
import hashlib
import itertools
import os
import random
import re

import vlib

ASAN_ENV = {"ASAN_OPTIONS": "detect_leaks=0:abort_on_error=0:exitcode=86:allocator_may_return_null=1",
            "UBSAN_OPTIONS": "print_stacktrace=1:halt_on_error=1:exitcode=87"}
MAX_RESTARTS = 12          # per shard: how often the harness is restarted after a sanitizer abort

STATUS = [0, 1, 2, -1]     # Device_Ok, Device_Err, two codes outside the enum
STATES = [0, 1, 2, 3, 4]   # Closed, AwaitingConfiguration, Armed, Running, DeviceStateCount (outside the enum)


# ----------------------------------------------------------------------------------------------- generator
def pick_status(rng, p_ok=0.7):
    return 0 if rng.random() < p_ok else rng.choice(STATUS)


def pick_state(rng, want, p=0.75):
    return want if rng.random() < p else rng.choice(STATES)


def open_fields(rng, kind, faulty):
    """I D H OS OBJ DS ST FN for copen/sopen/svalidate."""
    ident, drv, hasopen, os_, obj, ds, st, fn = 0, 1, 1, 0, 1, 0, 1, 255
    if faulty:
        x = rng.randrange(10)
        if x == 0:
            ident = rng.choice([1, 2])
        elif x == 1:
            drv = 0
        elif x == 2:
            hasopen = 0
        elif x == 3:
            os_ = rng.choice([1, 2, -1])
        elif x == 4:
            obj = 0
        elif x == 5:
            ds = rng.choice([1, 2, -1])
        elif x in (6, 7):
            fn = 255 ^ (1 << rng.randrange(8))
        elif x == 8:
            fn = rng.randrange(256)
        if rng.random() < 0.5:
            st = rng.choice(STATES)
    elif rng.random() < 0.1:
        st = rng.choice(STATES)
    return [ident, drv, hasopen, os_, obj, ds, st, fn]


def gen_op(rng, name):
    """One op line with random answers."""
    s, t = pick_status, pick_state
    if name == "copen":
        return "copen %s %d" % (" ".join(map(str, open_fields(rng, 1, rng.random() < 0.4))), rng.choice(STATUS))
    if name == "sopen":
        return "sopen %s %d %d" % (" ".join(map(str, open_fields(rng, 2, rng.random() < 0.4))), t(rng, 2), rng.choice(STATUS))
    if name == "svalidate":
        f = open_fields(rng, 2, rng.random() < 0.4)
        if f[0] == 1:
            f[0] = 2
        f[7] |= 1
        return "svalidate %s %d %d %d %d" % (" ".join(map(str, f)), 0 if rng.random() < 0.3 else 1, t(rng, 2), t(rng, 2), rng.choice(STATUS))
    if name == "cset":
        return "cset %d %d %d" % (rng.random() < 0.05, s(rng), s(rng))
    if name in ("cget", "cmeta", "cshape"):
        return "%s %d %d" % (name, rng.random() < 0.1, s(rng))
    if name in ("cstart", "cstop", "ctrig"):
        return "%s %d" % (name, s(rng))
    if name == "cframe":
        return "cframe %d %d" % (s(rng, 0.8), s(rng))
    if name == "cclose":
        return "cclose %d" % rng.choice(STATUS)
    if name == "sset":
        return "sset %d %d" % (rng.random() < 0.05, t(rng, 2))
    if name == "sstart":
        return "sstart %d" % t(rng, 3)
    if name == "sstop":
        return "sstop %d" % t(rng, 2)
    if name == "sappend":
        return "sappend %d %d" % (rng.choice([2, 2, 2, 3, 3, 4, 1, 0]), t(rng, 3, 0.8))
    if name == "sclose":
        return "sclose %d %d" % (t(rng, 2), rng.choice(STATUS))
    return name   # cstate sstate sget smeta sreserve


CAM_OPS = ["copen", "cset", "cget", "cmeta", "cshape", "cstart", "cstop", "ctrig", "cframe", "cclose", "cstate"]
STO_OPS = ["sopen", "sset", "sget", "smeta", "sreserve", "sstart", "sstop", "sappend", "sclose", "sstate", "svalidate"]


def open_succeeds(line):
    f = line.split()
    return f[1:7] == ["0", "1", "1", "0", "1", "0"] and f[8] == "255"


def gen_structured(rng, maxlen):
    """Mostly valid life cycles (open, configure, start, stream, stop, ... close, reopen) with perturbations.
    The generator follows the answers it scripts (a failed open is retried, a refused start goes back to configure)
    only to steer the sequence towards deep states; nothing of this is used by the comparison or the oracle."""
    ops = []
    cam = rng.random() < 0.5
    n = rng.randint(3, maxlen)
    phase = 0    # 0 closed, 1 open, 2 armed, 3 running
    while len(ops) < n:
        if rng.random() < 0.12:   # perturbation: any op of this kind (sometimes of the other kind, or validate)
            pool = (CAM_OPS[1:] if cam else STO_OPS[1:]) if rng.random() < 0.9 else (STO_OPS if cam else CAM_OPS)
            ops.append(gen_op(rng, rng.choice(pool)))
            if ops[-1].startswith(("cclose", "sclose")):
                phase = 0
            continue
        if phase == 0:
            ops.append(gen_op(rng, "copen" if cam else "sopen"))
            if open_succeeds(ops[-1]):
                phase = 1
        elif phase == 1:
            ops.append(gen_op(rng, rng.choice(["cset", "cset", "cget", "cmeta", "cshape"] if cam else ["sset", "sset", "sget", "smeta", "sreserve"])))
            f = ops[-1].split()
            if f[0] == "cset" and f[1:3] == ["0", "0"] or f[0] == "sset" and f[1:3] == ["0", "2"]:
                phase = 2
        elif phase == 2:
            x = rng.random()
            if x < 0.7:
                ops.append(gen_op(rng, "cstart" if cam else "sstart"))
                r = ops[-1].split()[1]
                phase = 3 if r == ("0" if cam else "3") else 1 if (cam and r == "1" or not cam and r != "2") else 2
            elif x < 0.85:
                ops.append(gen_op(rng, "cset" if cam else "sset"))
            else:
                ops.append(gen_op(rng, "cclose" if cam else "sclose"))
                phase = 0
        else:
            x = rng.random()
            if x < 0.6:
                ops.append(gen_op(rng, rng.choice(["cframe", "cframe", "ctrig"]) if cam else "sappend"))
                f = ops[-1].split()
                if f[0] == "cframe" and f[1] != "0" or f[0] == "sappend" and f[1] in ("2", "3", "4") and f[2] != "3":
                    phase = 1
            elif x < 0.8:
                ops.append(gen_op(rng, "cstop" if cam else "sstop"))
                phase = 2
            elif x < 0.9:
                ops.append(gen_op(rng, "cset" if cam else "sset"))
            else:
                ops.append(gen_op(rng, "cclose" if cam else "sclose"))
                phase = 0
                if rng.random() < 0.3:
                    cam = not cam
    return ops[:maxlen]


def gen_arbitrary(rng, maxlen):
    """Any HAL call at any time, any answers."""
    n = rng.randint(1, maxlen)
    mix = rng.random()
    pool = CAM_OPS if mix < 0.45 else STO_OPS if mix < 0.9 else CAM_OPS + STO_OPS
    return [gen_op(rng, rng.choice(pool)) for _ in range(n)]


# reduced alphabets for the exhaustive enumeration (every sequence of exactly the given length; prefixes are covered
# because every op's result is compared)
OPEN_OK = "0 1 1 0 1 0 1 255"
CAM_ALPHA_Q = ["copen %s 0" % OPEN_OK, "copen 0 1 1 0 1 0 1 127 0", "cset 0 0 0", "cset 0 1 2", "cstart 0", "cstart 1",
               "cstop 0", "cstop 2", "cframe 0 0", "cframe 1 0", "ctrig 0", "cclose 0"]
CAM_ALPHA_T = CAM_ALPHA_Q + ["copen 0 1 1 0 1 1 1 255 0", "copen 0 1 1 0 1 0 3 255 0", "cset 0 2 0", "cstop 1", "cframe 2 1", "cstart -1"]
STO_ALPHA_Q = ["sopen %s 2 0" % OPEN_OK, "sopen 0 1 1 0 1 0 3 223 2 0", "sset 0 2", "sset 0 3", "sstart 3", "sstart 1",
               "sstop 2", "sstop 3", "sappend 2 3", "sappend 2 1", "sappend 3 2", "sclose 2 0", "svalidate %s 0 2 2 0" % OPEN_OK]
STO_ALPHA_T = STO_ALPHA_Q + ["sopen 0 1 1 0 1 1 1 255 2 0", "sopen 0 1 1 0 1 0 3 191 2 0", "sset 0 4", "sstop 0", "sappend 1 3",
                             "svalidate %s 1 3 4 0" % OPEN_OK]


# ----------------------------------------------------------------------------------------------- runners
def run_model(exe, seqs):
    text = "".join("new\n" + "\n".join(s) + "\n" for s in seqs)
    rc, o, e = vlib.sh([exe], inp=text, timeout=900)
    lines = o.split("\n")
    if lines and lines[-1] == "":
        lines.pop()
    res = []
    pos = 0
    for s in seqs:
        chunk = lines[pos:pos + 1 + len(s)]
        pos += 1 + len(s)
        if len(chunk) != 1 + len(s) or chunk[0] != "NEW":
            return None, "model oracle output out of step (rc=%d): %s" % (rc, (e or "")[-300:])
        res.append(chunk[1:])
    return res, None


def run_impl(exe, seqs, max_restarts=MAX_RESTARTS):
    """Feed the sequences to the harness in one child process; when the child aborts (sanitizer report, crash) the
    abort is attributed to the sequence and op it happened in and the rest of the batch is run in a new child.
    Returns a list of (output lines, crash or None) per sequence; (None, None) for sequences not run."""
    results = [(None, None)] * len(seqs)
    start = 0
    restarts = 0
    while start < len(seqs):
        text = "".join("new\n" + "\n".join(s) + "\n" for s in seqs[start:])
        rc, o, e = vlib.sh([exe], inp=text, timeout=900, env=ASAN_ENV)
        lines = o.split("\n")
        if lines and lines[-1] == "":
            lines.pop()
        pos = 0
        k = start
        while k < len(seqs):
            need = 1 + len(seqs[k])
            chunk = lines[pos:pos + need]
            if len(chunk) == need and chunk[0] == "NEW" and not chunk[-1].startswith(" | PARTIAL"):
                results[k] = (chunk[1:], None)
                pos += need
                k += 1
            else:
                break
        if k == len(seqs):
            if rc != 0:
                results[k - 1] = (results[k - 1][0], {"rc": rc, "stderr": (e or "")[-6000:], "at_exit": True})
            break
        part = lines[pos:]
        results[k] = (part[1:] if part and part[0] == "NEW" else part, {"rc": rc, "stderr": (e or "")[-6000:]})
        start = k + 1
        restarts += 1
        if restarts > max_restarts:
            break
    return results


# ----------------------------------------------------------------------------------------------- independent property oracle
ENTRY = re.compile(r"^(open|describe|close|[cs]\.[a-z_]+)(?:#(-?\d+|\?))?(?:@(-?\d+))?=(-?\d+)(?::(-|#(\d+)@(-?\d+)))?$")
STATE_RETURNING = ("s.set", "s.start", "s.append", "s.stop")


def classify_crash(crash):
    err = crash.get("stderr", "")
    m = re.search(r"ERROR: AddressSanitizer: ([a-z\-]+)", err)
    what = m.group(1) if m else ("UndefinedBehaviorSanitizer" if "runtime error" in err else "abort rc=%s" % crash.get("rc"))
    acc = re.search(r"^(READ|WRITE) of size (\d+)", err, re.M)
    frame = re.search(r"#0 0x[0-9a-f]+ in (\w+) ([^\s]+)", err)
    where = ("%s %s" % (frame.group(1), os.path.basename(frame.group(2)))) if frame else "?"
    fn = frame.group(1) if frame else "?"
    if what == "heap-use-after-free":
        rw = acc.group(1).lower() if acc else "access"
        return ("uaf-%s:%s" % (rw, fn),
                "memory %s (%s bytes) to the released device: the driver's close freed the object, then %s touched it"
                % (rw, acc.group(2) if acc else "?", where))
    if what in ("attempting", "double-free") or "double-free" in err:
        return ("double-free:%s" % fn, "the device object was released twice (second close) in %s" % where)
    return ("crash:%s:%s" % (what, fn), "the harness aborted: %s in %s" % (what, where))


def oracle(ops, out, crash):
    """Direct statement of C11 over the implementation's own output (never through the model).
    Returns [(key, message, op index)]."""
    v = []
    objs = {}          # serial -> dict(described, closed, started, last)
    handle = None      # serial the client holds
    hkind = None
    for k, o in enumerate(ops):
        if k >= len(out):
            break
        line = out[k]
        name = o.split()[0]
        partial = line.startswith(" | PARTIAL")
        parts = line.split("|")
        res = parts[0].strip()
        log = parts[1].split() if len(parts) > 1 else []
        if partial:
            log = parts[1].split()[1:]
        opened_here = []
        for ent in log:
            m = ENTRY.match(ent)
            if not m:
                v.append(("log-unparsed", "unparsed log entry %r at op %d" % (ent, k), k))
                continue
            call, ser, at, r = m.group(1), m.group(2), m.group(3), int(m.group(4))
            if call == "open":
                if m.group(5) and m.group(5) != "-":
                    d = int(m.group(6))
                    if d in objs:
                        v.append(("serial-reused", "object #%d handed out twice" % d, k))
                    objs[d] = {"described": False, "closed": False, "started": int(m.group(7)) == 3, "last": int(m.group(7))}
                    opened_here.append(d)
                continue
            if ser == "?" or ser is None or int(ser) < 0 or int(ser) not in objs:
                v.append(("call-on-unknown-object", "%s on an object the driver never handed out or already released (op %d: %s)" % (call, k, o), k))
                continue
            d = int(ser)
            ob = objs[d]
            if ob["closed"]:
                v.append(("call-after-close" if call != "close" else "second-close",
                          "%s on object #%d after it was closed (op %d: %s)" % (call, d, k, o), k))
                continue
            if call == "describe":
                ob["described"] = r == 0
                continue
            if call == "close":
                ob["closed"] = True
                continue
            at = int(at)
            if call == "c.stop":
                if not ob["started"]:
                    v.append(("stop-without-start", "camera stop on object #%d without a preceding successful start (op %d: %s)" % (d, k, o), k))
                if r in (0, 1):
                    ob["started"] = False
            elif call in ("c.get_frame", "c.trigger"):
                if not ob["started"] or at != 3:
                    v.append(("io-outside-running", "%s on object #%d outside the running state (state field %d; op %d: %s)" % (call, d, at, k, o), k))
            elif call == "c.start":
                if r == 0:
                    ob["started"] = True
            elif call in ("s.stop", "s.append"):
                if ob["last"] != 3:
                    v.append(("stop-without-start" if call == "s.stop" else "io-outside-running",
                              "%s on object #%d although the state it last reported is %d, not Running (op %d: %s)" % (call, d, ob["last"], k, o), k))
            if call in STATE_RETURNING:
                ob["last"] = r
        if partial or res == "NOTWF":
            continue
        # ---- after the HAL call returned
        if name in ("copen", "sopen"):
            ok_objs = [d for d in opened_here if objs[d]["described"]]
            if res == "h=1":
                if len(ok_objs) != 1 or objs[ok_objs[0]]["closed"]:
                    v.append(("handle-without-open", "HAL open returned a handle but no (open) device stands behind it (op %d: %s)" % (k, o), k))
                else:
                    handle, hkind = ok_objs[0], name[0]
            else:
                for d in ok_objs:
                    if not objs[d]["closed"]:
                        v.append(("open-leaks-device:" + name,
                                  "%s returned NULL but the device #%d that the driver opened for it was never closed (op %d: %s)"
                                  % ("camera_open" if name == "copen" else "storage_open", d, k, o), k))
        elif name == "svalidate":
            for d in opened_here:
                if objs[d]["described"] and not objs[d]["closed"]:
                    v.append(("open-leaks-device:svalidate",
                              "storage_validate returned but the device #%d that the driver opened for it was never closed (op %d: %s)" % (d, k, o), k))
        elif name in ("cclose", "sclose"):
            if handle is not None:
                if not objs[handle]["closed"]:
                    v.append(("close-did-not-close", "HAL close returned but the driver's close was not called for #%d (op %d)" % (handle, k), k))
                handle, hkind = None, None
        # ---- the reported state follows from the driver's last response
        m = re.search(r"st=(-?\d+)", parts[2] if len(parts) > 2 else "")
        if m:
            st = int(m.group(1))
            if handle is None:
                if st != 0:
                    v.append(("state-not-last-response", "no device is held but state %d is reported (op %d)" % (st, k), k))
            elif hkind == "s":
                if st != objs[handle]["last"]:
                    v.append(("state-not-last-response", "storage reports state %d but the driver last reported %d (op %d: %s)" % (st, objs[handle]["last"], k, o), k))
            elif st == 3 and not objs[handle]["started"]:
                v.append(("state-not-last-response", "camera reports Running without a successful start (op %d: %s)" % (k, o), k))
    if crash is not None:
        key, msg = classify_crash(crash)
        kk = min(len(out), len(ops)) - 1 if out and out[-1].startswith(" | PARTIAL") else min(len(out), len(ops) - 1)
        v.append((key, msg + " (op %d: %s)" % (kk, ops[kk] if 0 <= kk < len(ops) else "?"), kk))
    return v


# ----------------------------------------------------------------------------------------------- one shard (runs in a worker process)
def sig_hash(seq):
    return hashlib.sha1("\n".join(seq).encode()).digest()[:10]


def nontrivial(out):
    """At least one call through the device's function table or a close reached the driver."""
    return any((" c." in l or " s." in l or " close#" in l) for l in out if l)


def do_shard(job):
    orac, impl, spec = job
    kind = spec[0]
    if kind == "random":
        _, seed, n, maxlen = spec
        rng = random.Random(seed)
        seqs = [gen_structured(rng, maxlen) if rng.random() < 0.6 else gen_arbitrary(rng, maxlen) for _ in range(n)]
    elif kind == "enum":
        _, alpha, length, lo, hi = spec
        seqs = [list(t) for t in itertools.islice(itertools.product(alpha, repeat=length), lo, hi)]
    else:
        seqs = spec[1]
    return evaluate(orac, impl, seqs, keep_samples=(kind == "random"))


def evaluate(orac, impl, seqs, keep_samples=False):
    r = {"n": 0, "validated": 0, "hashes": set(), "dist": {}, "viol": [], "mismatch": [], "notrun": 0, "samples": [], "error": None}
    mo, err = run_model(orac, seqs)
    if mo is None:
        r["error"] = err
        return r
    io = run_impl(impl, seqs)
    dist = r["dist"]
    for s, m, (i, crash) in zip(seqs, mo, io):
        if i is None:
            r["notrun"] += 1
            continue
        r["n"] += 1
        for o in s:
            key = "op:" + o.split(" ", 1)[0]
            dist[key] = dist.get(key, 0) + 1
        for l in m:
            if l.startswith("NOTWF"):
                dist["res:notwf"] = dist.get("res:notwf", 0) + 1
            elif l.startswith("h=0"):
                dist["res:open-failed"] = dist.get("res:open-failed", 0) + 1
            if " c.stop" in l or " s.stop" in l:
                dist["log:stop"] = dist.get("log:stop", 0) + 1
            if " close#" in l:
                dist["log:close"] = dist.get("log:close", 0) + 1
            if " c.get_frame" in l or " s.append" in l:
                dist["log:io"] = dist.get("log:io", 0) + 1
        if nontrivial(m):
            r["hashes"].add(sig_hash(s))
        vs = oracle(s, i, crash)
        for (key, msg, k) in vs:
            if not any(x[0] == key for x in r["viol"]):
                r["viol"].append((key, msg, s, i, (crash or {}).get("stderr", "")[-3000:]))
        if m == i and crash is None:
            r["validated"] += 1
        elif len(r["mismatch"]) < 3:
            d = next((k for k in range(min(len(m), len(i))) if m[k] != i[k]), min(len(m), len(i)))
            r["mismatch"].append({"history": s[:d + 1], "op": s[d] if d < len(s) else None,
                                  "model": m[d] if d < len(m) else None, "impl": i[d] if d < len(i) else "(no output: the harness aborted)"})
            r["mismatches"] = r.get("mismatches", 0) + 1
        else:
            r["mismatches"] = r.get("mismatches", 0) + 1
        if keep_samples and len(r["samples"]) < 1 and len(s) >= 6 and nontrivial(m):
            r["samples"].append({"ops": s, "impl": i})
    return r


