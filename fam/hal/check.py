"""HAL family: C11 (HAL wrappers enforce the device protocol and never touch a closed device).  DESIGN 6.11.

prove -> build -> corpus -> correspond (real camera.c/storage.c/driver.c + scripted mock driver whose close frees the
object, under ASan, against the extracted HalModel) -> independent property oracle (protocol automaton over the mock's
call log + the sanitizer verdict) -> violations with a minimised replay.   Generator, runners, oracle: halwork.py.
"""
import json
import os

import vlib
from halwork import (CAM_ALPHA_T, STO_ALPHA_T, do_shard, evaluate, oracle, run_impl)

L = "acquire-core-libs/src"
HAL = L + "/acquire-device-hal/device/hal"


# ----------------------------------------------------------------------------------------------- check
def build(ctx):
    orac = ctx.oracle_build()
    here = os.path.join(ctx.famdir, "harness")
    inc = ["-I" + os.path.join(vlib.REPO, L, d) for d in
           ("acquire-device-hal", "acquire-device-hal/device/hal", "acquire-device-kit", "acquire-device-properties",
            "acquire-core-logger", "acquire-core-platform/linux")]
    impl = ctx.cc([os.path.join(here, "h_hal.c"), HAL + "/camera.c", HAL + "/storage.c", HAL + "/driver.c",
                   L + "/acquire-device-properties/device/props/device.c"], "h_hal", flags=inc)
    return orac, impl


def minimise(impl, seq, key):
    def fails(cand):
        (out, crash), = run_impl(impl, [cand], max_restarts=0)
        return out is not None and any(k == key for (k, _, _) in oracle(cand, out, crash))
    try:
        return vlib.ddmin(seq, fails, max_tests=200)
    except Exception:
        return seq


def fold(ctx, impl, results, label):
    for r in results:
        if r["error"]:
            ctx.broken_tie("model oracle failed", r["error"])
            continue
        # same effect as ctx.case(signature, nontrivial) once per case; done in bulk because the cases were
        # evaluated in worker processes
        ctx.evaluations += r["n"]
        ctx.nontrivial.update(r["hashes"])
        ctx.traces_validated += r["validated"]
        for k, n in r["dist"].items():
            ctx.count(k, n)
        ctx.count("cases:" + label, r["n"])
        if r["notrun"]:
            ctx.count("cases-not-run-after-repeated-aborts", r["notrun"])
        for s in r["samples"]:
            ctx.sample(s)
        for (key, msg, seq, out, stderr) in r["viol"]:
            if ctx.has_violation(key):
                ctx.violation(msg, None, key=key)
                continue
            small = minimise(impl, seq, key)
            (o2, c2), = run_impl(impl, [small], max_restarts=0)
            ctx.violation(msg, {"ops": ["new"] + small, "impl_output": o2, "sanitizer": ((c2 or {}).get("stderr", "") or stderr)[:2500],
                                "found_in": label, "original_length": len(seq),
                                "how": "feed the ops, one per line, to .build/%s/h_hal (built by this check from %s; "
                                       "ASAN_OPTIONS=detect_leaks=0)" % (ctx.prop, vlib.REPO)}, key=key)
        for mm in r["mismatch"]:
            ctx.broken_tie("model/implementation disagreement on a HAL call sequence (%s)" % label, mm)
        extra = r.get("mismatches", 0) - len(r["mismatch"])
        if extra > 0:
            ctx.count("broken:more-disagreements", extra)


def run(ctx):
    ctx.coq_prove(["Properties_C11"])
    orac, impl = build(ctx)
    thorough = ctx.tier == "thorough"
    ctx.rule = ("sequences of <= 30 HAL calls on one client handle (camera_* / storage_* incl. storage_validate, NULL handle, NULL "
                "arguments) against the real camera.c/storage.c/driver.c with a scripted mock driver: status codes from {0,1,2,-1}, "
                "returned states from {0..4}, state field of the object handed out from {0..4}, NULL table entries, missing driver, "
                "NULL open, NULL object, failing describe; the mock's close frees the object (ASan). 60% structured life cycles with "
                "15% perturbed steps, 40% arbitrary calls; plus every sequence of length 4 (quick) / 5 (thorough) over a reduced "
                "alphabet of 18 ops per device kind. Compared per op: returned status/handle, the mock's call log (call, object, "
                "state field seen, answer), *_get_state. non-trivial = a table call or a close reached the driver; distinct = op text")
    ctx.assumptions = ["the client keeps one handle and does not use a pointer after close / a failed open (it is NULL then)",
                       "a Camera* is not passed to storage_* and vice versa; no open while the handle is live (answered NOTWF, nothing called)",
                       "storage_validate is called with a non-NULL identifier and a driver that has a `set` entry (no check in the C: observation O1)",
                       "Driver.describe and Driver.close are non-NULL (only Driver.open is checked by the HAL)",
                       "an object whose describe fails right after open is abandoned, not closed: close dispatches on the identifier describe "
                       "did not write (stated reading, notes.md O2)",
                       "status codes and states fit an int; 64-bit values are not exercised"]
    ctx.notes.append("theorems quantify over all finite call sequences and all integer answers; the correspondence samples them")
    # ---- replay of a recorded violation:  tools/check.py --property C11 --replay replays/C11-n.json
    rf = getattr(ctx, "replay_file", None)
    if rf:
        obj = json.load(open(rf))
        ops = [o for o in ((obj.get("replay") or {}).get("ops") or []) if o != "new"]
        if not ops:
            ctx.broken_tie("replay file holds no op list (it records a proof/tie that no longer checks, not a failing input)", rf)
            return
        fold(ctx, impl, [evaluate(orac, impl, [ops])], "replay")
        return
    # ---- corpus
    cdir = os.path.join(vlib.VERIF, "corpus", "C11")
    corpus = []
    if os.path.isdir(cdir):
        for fn in sorted(os.listdir(cdir)):
            ops = [l.strip() for l in open(os.path.join(cdir, fn)) if l.strip() and not l.startswith("#")]
            ops = [o for o in ops if o != "new"]
            corpus.append(ops)
    for ops in corpus:   # one child per corpus history: an abort in one does not hide the next
        fold(ctx, impl, [evaluate(orac, impl, [ops])], "corpus")
    # ---- generated
    nrand = 500000 if thorough else 32000
    length = 5 if thorough else 4
    ca, sa = CAM_ALPHA_T, STO_ALPHA_T
    jobs = []
    nsh = vlib.NPROC * (4 if thorough else 1)
    for k in range(nsh):
        jobs.append((orac, impl, ("random", ctx.rng.getrandbits(64), nrand // nsh, 30)))
    per = 40000 if thorough else 8000
    for alpha in (ca, sa):
        total = len(alpha) ** length
        for lo in range(0, total, per):
            jobs.append((orac, impl, ("enum", alpha, length, lo, min(total, lo + per))))
    ctx.extra["exhaustive"] = {"length": length, "camera_alphabet": ca, "storage_alphabet": sa,
                               "sequences": len(ca) ** length + len(sa) ** length}
    from concurrent.futures import ProcessPoolExecutor
    with ProcessPoolExecutor(max_workers=vlib.NPROC) as ex:
        results = list(ex.map(do_shard, jobs))
    nr = sum(1 for j in jobs if j[2][0] == "random")
    fold(ctx, impl, results[:nr], "random")
    fold(ctx, impl, results[nr:], "exhaustive")
    # ---- thorough: independent re-check of the compiled proofs with coqchk
    if thorough and os.path.exists(os.path.join(ctx.coqdir, "Properties_C11.vo")):
        rc, o, e = vlib.sh("timeout 900 coqchk -o -silent -Q . Hal Hal.Properties_C11", cwd=ctx.coqdir, timeout=950)
        txt = o + e
        ok = rc == 0 and "Axioms: <none>" in txt and "type-in-type: <none>" in txt
        ctx.extra["coqchk"] = "ok: axioms <none>, no type-in-type, no unsafe fixpoints" if ok else txt[-800:]
        if not ok:
            ctx.broken_tie("coqchk does not accept Hal.Properties_C11", txt[-800:])
