(* Line-protocol driver around the extracted HAL model (same protocol as harness/h_hal.c; see the comment there).
   One result line per op:   <result> |<driver call log> | st=<reported state>
   With the argument "events" the complete event list (including the touches of the object) is printed instead of
   the call log; with "unfixed" the three repairs are switched off (used only to document the refutations). *)
open Halmodel

let rec pos_of_int n = if n = 1 then XH else if n land 1 = 0 then XO (pos_of_int (n lsr 1)) else XI (pos_of_int (n lsr 1))
let z_of_int n = if n = 0 then Z0 else if n > 0 then Zpos (pos_of_int n) else Zneg (pos_of_int (-n))
let n_of_int n = if n <= 0 then N0 else Npos (pos_of_int n)
let rec int_of_pos = function XH -> 1 | XO p -> 2 * int_of_pos p | XI p -> 2 * int_of_pos p + 1
let int_of_z = function Z0 -> 0 | Zpos p -> int_of_pos p | Zneg p -> - (int_of_pos p)
let rec int_of_nat = function O -> 0 | S n -> 1 + int_of_nat n

let call_name = function
  | CSet -> "c.set" | CGet -> "c.get" | CGetMeta -> "c.get_meta" | CGetShape -> "c.get_shape" | CStart -> "c.start"
  | CStop -> "c.stop" | CTrigger -> "c.trigger" | CGetFrame -> "c.get_frame"
  | SSet -> "s.set" | SGet -> "s.get" | SGetMeta -> "s.get_meta" | SStart -> "s.start" | SAppend -> "s.append"
  | SStop -> "s.stop" | SReserve -> "s.reserve"

let access_name = function
  | RdState -> "rd.state" | WrState v -> Printf.sprintf "wr.state:=%d" (int_of_z v) | RdFn -> "rd.fn"
  | RdDriver -> "rd.driver" | WrDriver -> "wr.driver" | RdIdent -> "rd.ident" | WrIdent -> "wr.ident"

let show_ev with_touches = function
  | EOpen (r, None) -> Printf.sprintf " open=%d:-" (int_of_z r)
  | EOpen (_, Some (d, s0)) -> Printf.sprintf " open=0:#%d@%d" (int_of_nat d) (int_of_z s0)
  | EDescribe (d, r) -> Printf.sprintf " describe#%d=%d" (int_of_nat d) (int_of_z r)
  | EClose (d, r) -> Printf.sprintf " close#%d=%d" (int_of_nat d) (int_of_z r)
  | ECall (d, c, st, r) -> Printf.sprintf " %s#%d@%d=%d" (call_name c) (int_of_nat d) (int_of_z st) (int_of_z r)
  | ETouch (d, a) -> if with_touches then Printf.sprintf " %s#%d" (access_name a) (int_of_nat d) else ""

let show_res = function
  | RStatus z -> Printf.sprintf "s=%d" (int_of_z z)
  | RHandle b -> Printf.sprintf "h=%d" (if b then 1 else 0)
  | RVoid -> "v"
  | RState z -> Printf.sprintf "q=%d" (int_of_z z)
  | RBool b -> Printf.sprintf "ok=%d" (if b then 1 else 0)
  | RNotWf -> "NOTWF"

let () =
  let with_touches = Array.exists (fun a -> a = "events") Sys.argv in
  let v = if Array.exists (fun a -> a = "unfixed") Sys.argv then { v_d10 = false; v_d17 = false; v_d27 = false } else fixed in
  let s = ref init in
  let z = z_of_int in
  let b x = x <> 0 in
  let oresp d h os obj ds st fn =
    { o_driver = b d; o_hasopen = b h; o_open = z os; o_obj = b obj; o_describe = z ds; o_state = z st; o_fns = n_of_int fn } in
  (try
     while true do
       let line = input_line stdin in
       let w = List.filter (fun x -> x <> "") (String.split_on_char ' ' (String.trim line)) in
       match w with
       | [] -> ()
       | x :: _ when String.length x > 0 && x.[0] = '#' -> ()
       | ["new"] -> s := init; print_string "NEW\n"
       | name :: args ->
         let a = try Some (List.map int_of_string args) with _ -> None in
         let o = match name, a with
           | "copen", Some [i; d; h; os; obj; ds; st; fn; rc] -> Some (OCamOpen (z i, oresp d h os obj ds st fn, z rc))
           | "cset", Some [n; rs; rstop] -> Some (OCamSet (b n, z rs, z rstop))
           | "cget", Some [n; rs] -> Some (OCamGet (b n, z rs))
           | "cmeta", Some [n; rs] -> Some (OCamGetMeta (b n, z rs))
           | "cshape", Some [n; rs] -> Some (OCamGetShape (b n, z rs))
           | "cstart", Some [rs] -> Some (OCamStart (z rs))
           | "cstop", Some [rs] -> Some (OCamStop (z rs))
           | "ctrig", Some [rs] -> Some (OCamTrigger (z rs))
           | "cframe", Some [rs; rstop] -> Some (OCamGetFrame (z rs, z rstop))
           | "cclose", Some [rc] -> Some (OCamClose (z rc))
           | "cstate", Some [] -> Some OCamGetState
           | "sopen", Some [i; d; h; os; obj; ds; st; fn; rstop; rc] -> Some (OStoOpen (z i, oresp d h os obj ds st fn, z rstop, z rc))
           | "sset", Some [n; r] -> Some (OStoSet (b n, z r))
           | "sget", Some [] -> Some OStoGet
           | "smeta", Some [] -> Some OStoGetMeta
           | "sreserve", Some [] -> Some OStoReserve
           | "sstart", Some [r] -> Some (OStoStart (z r))
           | "sstop", Some [r] -> Some (OStoStop (z r))
           | "sappend", Some [arg; r] -> Some (OStoAppend (z arg, z r))
           | "sclose", Some [rstop; rc] -> Some (OStoClose (z rstop, z rc))
           | "sstate", Some [] -> Some OStoGetState
           | "svalidate", Some [i; d; h; os; obj; ds; st; fn; k; rset; rstop; rc] ->
             Some (OStoValidate (z i, oresp d h os obj ds st fn, b k, z rset, z rstop, z rc))
           | _ -> None in
         (match o with
          | None -> Printf.printf "BADOP %s\n" line
          | Some o ->
            let ((s1, r), es) = step v !s o in
            s := s1;
            let buf = Buffer.create 128 in
            Buffer.add_string buf (show_res r);
            Buffer.add_string buf " |";
            List.iter (fun e -> Buffer.add_string buf (show_ev with_touches e)) es;
            Buffer.add_string buf (Printf.sprintf " | st=%d\n" (int_of_z (reported s1)));
            print_string (Buffer.contents buf))
     done
   with End_of_file -> ())
