/* h_hal.c -- operation-sequence driver for the REAL HAL wrappers (DESIGN 3(a), 6.11; property C11).

   Links, unmodified, acquire-device-hal/device/hal/{camera.c,storage.c,driver.c} (and props/device.c for the
   *_as_string helpers) from the repository under test.  What they need from the rest of the runtime is provided
   here: `aq_logger` (silent) and `device_manager_get_driver`, which hands out a scripted mock Driver (or NULL).

   The mock driver
     * answers every call with the response given on the op line (status codes, device states, NULL entries of the
       function table at open, the value of the `state` field of the object it hands out);
     * logs every call it receives together with the serial number of the object it was called on, the value of that
       object's `state` field at the time of the call and its own answer;
     * releases (free) the object in `close`, so that under AddressSanitizer every later touch of the object by the
       HAL -- even a 4-byte write -- aborts the process with a report.  The death callback flushes stdout first, so
       the parent sees the calls logged up to the abort and can attribute it to an op.

   The client (this file) owns ONE handle variable that is NULL before open, after close and after a failed open
   (a C client cannot legally do anything else with a released pointer).  Ops on a NULL handle are legal HAL calls and
   are performed.  Not well-formed for a C client, answered "NOTWF" without calling anything (the model does the same):
   open while the handle is live; a camera_* call with a Storage* (and vice versa); storage_validate with a NULL
   identifier or with a driver whose table has no `set` (see notes.md, observation O1).

   One op per line on stdin, one result line per op on stdout:   <result> | <driver call log> | st=<*_get_state(handle)>
     new
     copen I D H OS OBJ DS ST FN RC          I: identifier 0 valid / 1 NULL / 2 wrong kind; D: manager finds a driver;
     sopen I D H OS OBJ DS ST FN RSTOP RC    H: driver->open != NULL; OS: status of open; OBJ: *out != NULL;
     svalidate I D H OS OBJ DS ST FN K RSET RSTOP RC     DS: status of describe; ST: state field of the new object;
                                             FN: bit i set <=> entry i of the function table is non-NULL; K: describe
                                             reports kind Storage; R*: answers of set/stop/close
     cset A RS RSTOP | cget A RS | cmeta A RS | cshape A RS      A: 1 = the settings/meta/shape argument is NULL
     cstart RS | cstop RS | ctrig RS | cframe RS RSTOP | cclose RC | cstate
     sset A R | sget | smeta | sreserve | sstart R | sstop R | sappend ARG R (ARG 0: end<beg, 1: empty, 2: one frame;
                                             3 / 4: one frame, of which the driver reports half / nothing consumed through *nbytes)
     sclose RSTOP RC | sstate
   Log entries:  open=<status>:-   open=0:#<serial>@<state>   describe#<serial>=<r>   close#<serial>=<r>
                 <call>#<serial>@<state>=<r>                                                                    */
#include <stdio.h>
#include <stdlib.h>
#include <string.h>
#include <stdarg.h>

#include "device/hal/camera.h"
#include "device/hal/storage.h"
#include "device/hal/driver.h"
#include "device/hal/device.manager.h"
#include "device/kit/driver.h"
#include "device/kit/camera.h"
#include "device/kit/storage.h"

#if defined(__SANITIZE_ADDRESS__)
void __sanitizer_set_death_callback(void (*cb)(void));
#endif

/* ------------------------------------------------------------------ what the HAL needs from the runtime */
void
aq_logger(int is_error, const char* file, int line, const char* function, const char* fmt, ...)
{
    (void)is_error; (void)file; (void)line; (void)function; (void)fmt;
}

/* ------------------------------------------------------------------ script state (answers of the mock) */
static struct
{
    int has_driver, has_open, obj, kind_ok;
    long long open_status, describe_status, init_state, fnmask;
    long long rs, rstop, rclose;
    int consume; /* what ms_append reports through *nbytes: 3 half of the packet, 4 nothing, otherwise everything */
    int opening_kind; /* 1 camera, 2 storage */
} R;

/* ------------------------------------------------------------------ log */
static char g_log[4096];
static size_t g_loglen;
static void
logf_(const char* fmt, ...)
{
    va_list ap;
    va_start(ap, fmt);
    if (g_loglen < sizeof g_log - 64) {
        int n = vsnprintf(g_log + g_loglen, sizeof g_log - g_loglen, fmt, ap);
        if (n > 0) g_loglen += (size_t)n;
    }
    va_end(ap);
}

/* ------------------------------------------------------------------ mock objects */
#define MAXLIVE 64
static struct { void* p; int serial; int kind; } g_live[MAXLIVE]; /* objects handed out and not yet released */
static int g_nlive = 0;
static int g_serial = 0;

static void reg_add(void* p, int serial, int kind)
{
    if (g_nlive >= MAXLIVE) { printf("FATAL too many live objects\n"); exit(3); }
    g_live[g_nlive].p = p; g_live[g_nlive].serial = serial; g_live[g_nlive].kind = kind; g_nlive++;
}
static int reg_find(const void* p)
{
    for (int i = 0; i < g_nlive; ++i)
        if (g_live[i].p == p) return i;
    return -1;
}
static int serial_of(const void* p) { int i = reg_find(p); return i < 0 ? -1 : g_live[i].serial; }

/* camera table */
#define CAMLOG(name, r) logf_(" c." name "#%d@%d=%lld", serial_of(c), (int)c->state, (long long)(r))
static enum DeviceStatusCode mc_set(struct Camera* c, struct CameraProperties* s) { CAMLOG("set", R.rs); return (enum DeviceStatusCode)R.rs; }
static enum DeviceStatusCode mc_get(const struct Camera* c, struct CameraProperties* s) { CAMLOG("get", R.rs); return (enum DeviceStatusCode)R.rs; }
static enum DeviceStatusCode mc_get_meta(const struct Camera* c, struct CameraPropertyMetadata* m) { CAMLOG("get_meta", R.rs); return (enum DeviceStatusCode)R.rs; }
static enum DeviceStatusCode mc_get_shape(const struct Camera* c, struct ImageShape* s) { CAMLOG("get_shape", R.rs); return (enum DeviceStatusCode)R.rs; }
static enum DeviceStatusCode mc_start(struct Camera* c) { CAMLOG("start", R.rs); return (enum DeviceStatusCode)R.rs; }
static enum DeviceStatusCode mc_stop(struct Camera* c) { CAMLOG("stop", R.rstop); return (enum DeviceStatusCode)R.rstop; }
static enum DeviceStatusCode mc_trigger(struct Camera* c) { CAMLOG("trigger", R.rs); return (enum DeviceStatusCode)R.rs; }
static enum DeviceStatusCode mc_get_frame(struct Camera* c, void* im, size_t* nbytes, struct ImageInfo* info) { CAMLOG("get_frame", R.rs); return (enum DeviceStatusCode)R.rs; }

/* storage table */
#define STOLOG(name, r) logf_(" s." name "#%d@%d=%lld", serial_of(s), (int)s->state, (long long)(r))
static enum DeviceState ms_set(struct Storage* s, const struct StorageProperties* p) { STOLOG("set", R.rs); return (enum DeviceState)R.rs; }
static void ms_get(const struct Storage* s, struct StorageProperties* p) { STOLOG("get", 0); }
static void ms_get_meta(const struct Storage* s, struct StoragePropertyMetadata* m) { STOLOG("get_meta", 0); }
static enum DeviceState ms_start(struct Storage* s) { STOLOG("start", R.rs); return (enum DeviceState)R.rs; }
static enum DeviceState ms_append(struct Storage* s, const struct VideoFrame* f, size_t* nbytes)
{
    STOLOG("append", R.rs);
    if (R.consume == 3) *nbytes /= 2; else if (R.consume == 4) *nbytes = 0;
    return (enum DeviceState)R.rs;
}
static enum DeviceState ms_stop(struct Storage* s) { STOLOG("stop", R.rstop); return (enum DeviceState)R.rstop; }
static void ms_destroy(struct Storage* s) { STOLOG("destroy", 0); }
static void ms_reserve(struct Storage* s, const struct ImageShape* shape) { STOLOG("reserve", 0); }

/* ------------------------------------------------------------------ mock driver */
static enum DeviceStatusCode
md_open(struct Driver* self, uint64_t device_id, struct Device** out)
{
    if (R.open_status != Device_Ok || !R.obj) {
        /* no object is created unless the driver reports success AND hands one out */
        if (R.open_status != Device_Ok && R.obj && out) {
            /* a driver that publishes the handle first, then fails its bring-up, releases the object itself and reports the failure:
               *out is left pointing at released memory -- the HAL must not use it (it was never opened) */
            void* p = calloc(1, sizeof(struct Camera) > sizeof(struct Storage) ? sizeof(struct Camera) : sizeof(struct Storage));
            *out = (struct Device*)p;
            free(p);
        }
        logf_(" open=%lld:-", R.open_status);
        return (enum DeviceStatusCode)R.open_status;
    }
    int serial = g_serial++;
    unsigned m = (unsigned)R.fnmask;
    if (R.opening_kind == 1) {
        struct Camera* c = (struct Camera*)calloc(1, sizeof *c);
        c->state = (enum DeviceState)R.init_state;
        c->set = (m & 1) ? mc_set : 0;
        c->get = (m & 2) ? mc_get : 0;
        c->get_shape = (m & 4) ? mc_get_shape : 0;
        c->get_meta = (m & 8) ? mc_get_meta : 0;
        c->start = (m & 16) ? mc_start : 0;
        c->stop = (m & 32) ? mc_stop : 0;
        c->execute_trigger = (m & 64) ? mc_trigger : 0;
        c->get_frame = (m & 128) ? mc_get_frame : 0;
        reg_add(c, serial, 1);
        *out = &c->device;
    } else {
        struct Storage* s = (struct Storage*)calloc(1, sizeof *s);
        s->state = (enum DeviceState)R.init_state;
        s->set = (m & 1) ? ms_set : 0;
        s->get = (m & 2) ? ms_get : 0;
        s->get_meta = (m & 4) ? ms_get_meta : 0;
        s->start = (m & 8) ? ms_start : 0;
        s->append = (m & 16) ? ms_append : 0;
        s->stop = (m & 32) ? ms_stop : 0;
        s->destroy = (m & 64) ? ms_destroy : 0;
        s->reserve_image_shape = (m & 128) ? ms_reserve : 0;
        reg_add(s, serial, 2);
        *out = &s->device;
    }
    logf_(" open=0:#%d@%lld", serial, R.init_state);
    return Device_Ok;
}

static enum DeviceStatusCode
md_describe(const struct Driver* self, struct DeviceIdentifier* identifier, uint64_t i)
{
    /* identifier is the first member of struct Device, which is the first member of Camera/Storage */
    logf_(" describe#%d=%lld", serial_of(identifier), R.describe_status);
    if (R.describe_status == Device_Ok) {
        memset(identifier, 0, sizeof *identifier);
        identifier->device_id = (uint8_t)i;
        identifier->kind = R.opening_kind == 1 ? DeviceKind_Camera : (R.kind_ok ? DeviceKind_Storage : DeviceKind_Camera);
        strcpy(identifier->name, "mock");
    }
    return (enum DeviceStatusCode)R.describe_status;
}

static enum DeviceStatusCode
md_close(struct Driver* self, struct Device* in)
{
    int i = reg_find(in);
    if (i < 0) {
        /* not a live object: log it; free() lets ASan report the double free / bad free */
        logf_(" close#?=%lld", R.rclose);
    } else {
        logf_(" close#%d=%lld", g_live[i].serial, R.rclose);
        g_live[i] = g_live[--g_nlive];
    }
    free(in); /* the device is released: any later touch by the HAL is a use after free */
    return (enum DeviceStatusCode)R.rclose;
}

static uint32_t md_count(struct Driver* self) { return 1; }
static enum DeviceStatusCode md_shutdown(struct Driver* self) { return Device_Ok; }

static struct Driver g_driver;

struct Driver*
device_manager_get_driver(const struct DeviceManager* self, const struct DeviceIdentifier* identifier)
{
    if (!R.has_driver) return 0;
    g_driver.device_count = md_count;
    g_driver.describe = md_describe;
    g_driver.open = R.has_open ? md_open : 0;
    g_driver.close = md_close;
    g_driver.shutdown = md_shutdown;
    return &g_driver;
}

/* ------------------------------------------------------------------ client */
static struct Camera* g_cam;
static struct Storage* g_sto;

static void flush_cb(void) { if (g_loglen) { fputs(" | PARTIAL", stdout); fputs(g_log, stdout); fputc('\n', stdout); } fflush(stdout); }

static void
finish(const char* res)
{
    int st = g_sto ? (int)storage_get_state(g_sto) : (int)camera_get_state(g_cam);
    printf("%s |%s | st=%d\n", res, g_log, st);
    g_loglen = 0;
    g_log[0] = 0;
}

static void
set_open_script(long long d, long long h, long long os, long long obj, long long ds, long long st, long long fn, int kind)
{
    R.has_driver = d != 0; R.has_open = h != 0; R.open_status = os; R.obj = obj != 0; R.describe_status = ds;
    R.init_state = st; R.fnmask = fn; R.opening_kind = kind; R.kind_ok = 1;
}

int
main(void)
{
    static char line[512];
    static struct DeviceManager dm;
    static struct CameraProperties cprops;
    static struct CameraPropertyMetadata cmeta;
    static struct ImageShape shape;
    static struct ImageInfo info;
    static struct StorageProperties sprops;
    static struct StoragePropertyMetadata smeta;
    static _Alignas(16) unsigned char frames[512];
    static unsigned char im[64];
    char res[64];
    setvbuf(stdout, 0, _IOFBF, 1 << 16);
#if defined(__SANITIZE_ADDRESS__)
    __sanitizer_set_death_callback(flush_cb);
#endif
    while (fgets(line, sizeof line, stdin)) {
        long long a[12] = { 0 };
        char op[32] = { 0 };
        int n = sscanf(line, "%31s %lld %lld %lld %lld %lld %lld %lld %lld %lld %lld %lld %lld", op,
                       a, a + 1, a + 2, a + 3, a + 4, a + 5, a + 6, a + 7, a + 8, a + 9, a + 10, a + 11);
        if (n < 1 || op[0] == '#') continue;
        g_loglen = 0; g_log[0] = 0;
        const int live = g_cam || g_sto;
        if (!strcmp(op, "new")) {
            for (int i = 0; i < g_nlive; ++i) free(g_live[i].p);
            g_nlive = 0; g_serial = 0; g_cam = 0; g_sto = 0;
            printf("NEW\n");
            continue;
        }
        if ((op[0] == 'c' && g_sto) || (op[0] == 's' && g_cam && strcmp(op, "svalidate")) ||
            ((!strcmp(op, "copen") || !strcmp(op, "sopen")) && live) ||
            (!strcmp(op, "svalidate") && (a[0] == 1 || !(a[7] & 1)))) {
            finish("NOTWF");
            continue;
        }
        fflush(stdout); /* everything before this op is out before the HAL is entered */
        if (!strcmp(op, "copen") && n >= 10) {
            struct DeviceIdentifier id = { .kind = a[0] == 2 ? DeviceKind_Storage : DeviceKind_Camera, .name = "mock" };
            set_open_script(a[1], a[2], a[3], a[4], a[5], a[6], a[7], 1);
            R.rclose = a[8];
            g_cam = camera_open(&dm, a[0] == 1 ? 0 : &id);
            snprintf(res, sizeof res, "h=%d", g_cam != 0);
        } else if (!strcmp(op, "sopen") && n >= 11) {
            struct DeviceIdentifier id = { .kind = a[0] == 2 ? DeviceKind_Camera : DeviceKind_Storage, .name = "mock" };
            set_open_script(a[1], a[2], a[3], a[4], a[5], a[6], a[7], 2);
            R.rstop = a[8]; R.rclose = a[9];
            g_sto = storage_open(&dm, a[0] == 1 ? 0 : &id);
            snprintf(res, sizeof res, "h=%d", g_sto != 0);
        } else if (!strcmp(op, "svalidate") && n >= 13) {
            struct DeviceIdentifier id = { .kind = a[0] == 2 ? DeviceKind_Camera : DeviceKind_Storage, .name = "mock" };
            set_open_script(a[1], a[2], a[3], a[4], a[5], a[6], a[7], 2);
            R.kind_ok = a[8] != 0; R.rs = a[9]; R.rstop = a[10]; R.rclose = a[11];
            int ok = storage_validate(&dm, &id, &sprops);
            snprintf(res, sizeof res, "ok=%d", ok);
        } else if (!strcmp(op, "cset") && n >= 4) {
            R.rs = a[1]; R.rstop = a[2];
            snprintf(res, sizeof res, "s=%d", (int)camera_set(g_cam, a[0] ? 0 : &cprops));
        } else if (!strcmp(op, "cget") && n >= 3) {
            R.rs = a[1];
            snprintf(res, sizeof res, "s=%d", (int)camera_get(g_cam, a[0] ? 0 : &cprops));
        } else if (!strcmp(op, "cmeta") && n >= 3) {
            R.rs = a[1];
            snprintf(res, sizeof res, "s=%d", (int)camera_get_meta(g_cam, a[0] ? 0 : &cmeta));
        } else if (!strcmp(op, "cshape") && n >= 3) {
            R.rs = a[1];
            snprintf(res, sizeof res, "s=%d", (int)camera_get_image_shape(g_cam, a[0] ? 0 : &shape));
        } else if (!strcmp(op, "cstart") && n >= 2) {
            R.rs = a[0];
            snprintf(res, sizeof res, "s=%d", (int)camera_start(g_cam));
        } else if (!strcmp(op, "cstop") && n >= 2) {
            R.rstop = a[0];
            snprintf(res, sizeof res, "s=%d", (int)camera_stop(g_cam));
        } else if (!strcmp(op, "ctrig") && n >= 2) {
            R.rs = a[0];
            snprintf(res, sizeof res, "s=%d", (int)camera_execute_trigger(g_cam));
        } else if (!strcmp(op, "cframe") && n >= 3) {
            size_t nbytes = sizeof im;
            R.rs = a[0]; R.rstop = a[1];
            snprintf(res, sizeof res, "s=%d", (int)camera_get_frame(g_cam, im, &nbytes, &info));
        } else if (!strcmp(op, "cclose") && n >= 2) {
            R.rclose = a[0];
            camera_close(g_cam);
            g_cam = 0; /* the client must not use the pointer again */
            snprintf(res, sizeof res, "v");
        } else if (!strcmp(op, "cstate")) {
            snprintf(res, sizeof res, "q=%d", (int)camera_get_state(g_cam));
        } else if (!strcmp(op, "sset") && n >= 3) {
            R.rs = a[1];
            snprintf(res, sizeof res, "s=%d", (int)storage_set(g_sto, a[0] ? 0 : &sprops));
        } else if (!strcmp(op, "sget")) {
            snprintf(res, sizeof res, "s=%d", (int)storage_get(g_sto, &sprops));
        } else if (!strcmp(op, "smeta")) {
            snprintf(res, sizeof res, "s=%d", (int)storage_get_meta(g_sto, &smeta));
        } else if (!strcmp(op, "sreserve")) {
            snprintf(res, sizeof res, "s=%d", (int)storage_reserve_image_shape(g_sto, &shape));
        } else if (!strcmp(op, "sstart") && n >= 2) {
            R.rs = a[0];
            snprintf(res, sizeof res, "s=%d", (int)storage_start(g_sto));
        } else if (!strcmp(op, "sstop") && n >= 2) {
            R.rstop = a[0];
            snprintf(res, sizeof res, "s=%d", (int)storage_stop(g_sto));
        } else if (!strcmp(op, "sappend") && n >= 3) {
            const struct VideoFrame* beg = (const struct VideoFrame*)(frames + 128);
            const struct VideoFrame* end = (const struct VideoFrame*)(frames + (a[0] == 0 ? 0 : a[0] == 1 ? 128 : 256));
            R.rs = a[1];
            R.consume = (int)a[0];
            snprintf(res, sizeof res, "s=%d", (int)storage_append(g_sto, beg, end));
        } else if (!strcmp(op, "sclose") && n >= 3) {
            R.rstop = a[0]; R.rclose = a[1];
            storage_close(g_sto);
            g_sto = 0;
            snprintf(res, sizeof res, "v");
        } else if (!strcmp(op, "sstate")) {
            snprintf(res, sizeof res, "q=%d", (int)storage_get_state(g_sto));
        } else {
            printf("BADOP %s", line);
            continue;
        }
        finish(res);
    }
    for (int i = 0; i < g_nlive; ++i) free(g_live[i].p);
    fflush(stdout);
    return 0;
}
