(* HalSpec.v -- the device protocol of property C11, stated over event traces only (no reference to the HAL model's
   state): what the driver is entitled to see.  Definitions only; the proofs are in HalProofs.v.

   A *history* [h] lists events newest first (the natural direction for "the last response before this call"); a
   *trace* [t] lists them oldest first (what HalModel.run produces).  [rev] converts. *)
From Coq Require Import ZArith NArith List Bool Arith.
From Hal Require Import HalModel.
Import ListNotations.
Local Open Scope Z_scope.

(* the object an event is about *)
Definition ev_dev (e : ev) : option nat :=
  match e with
  | EOpen _ (Some (d, _)) => Some d
  | EOpen _ None => None
  | EDescribe d _ | EClose d _ | ECall d _ _ _ | ETouch d _ => Some d
  end.

(* object d was handed out by driver->open *)
Fixpoint opened (d : nat) (h : list ev) : bool :=
  match h with
  | [] => false
  | EOpen _ (Some (d', _)) :: h' => (d' =? d)%nat || opened d h'
  | _ :: h' => opened d h'
  end.

(* ... and driver->describe answered Device_Ok for it: driver_open_device succeeded ("a successful open") *)
Fixpoint described (d : nat) (h : list ev) : bool :=
  match h with
  | [] => false
  | EDescribe d' r :: h' => ((d' =? d)%nat && (r =? Ok)) || described d h'
  | _ :: h' => described d h'
  end.

(* number of driver->close calls on d *)
Fixpoint nclose (d : nat) (h : list ev) : nat :=
  match h with
  | [] => 0
  | EClose d' _ :: h' => (if (d' =? d)%nat then 1 else 0) + nclose d h'
  | _ :: h' => nclose d h'
  end.

(* number of objects handed out *)
Fixpoint nopens (h : list ev) : nat :=
  match h with
  | [] => 0
  | EOpen _ (Some _) :: h' => S (nopens h')
  | _ :: h' => nopens h'
  end.

Definition is_sto_call (c : dcall) : bool :=
  match c with SSet | SGet | SGetMeta | SStart | SAppend | SStop | SReserve => true | _ => false end.

(* the Storage entries that return a DeviceState *)
Definition returns_state (c : dcall) : bool :=
  match c with SSet | SStart | SAppend | SStop => true | _ => false end.

(* the calls that are only legal on a running device: stop, get_frame / append (and the software trigger) *)
Definition needs_running (c : dcall) : bool :=
  match c with CStop | CTrigger | CGetFrame | SStop | SAppend => true | _ => false end.

(* STORAGE: the state the driver last reported for object d: returned by set/start/append/stop, or, before any of
   them, the value of the state field of the object it handed out at open.  (The stated reading of DESIGN 6.11:
   the HAL has no other notion of "started" for storage devices.) *)
Fixpoint sto_last (d : nat) (h : list ev) : option Z :=
  match h with
  | [] => None
  | EOpen _ (Some (d', s0)) :: h' => if (d' =? d)%nat then Some s0 else sto_last d h'
  | ECall d' c _ r :: h' => if (d' =? d)%nat && returns_state c then Some r else sto_last d h'
  | _ :: h' => sto_last d h'
  end.

(* CAMERA: object d has been started and not stopped since: the most recent of
     { start answered Ok ; stop answered Ok or Err ; open }   is a start answered Ok
   (or the open, if the driver handed the object out already marked Running).
   A stop answered with an unknown code has neither succeeded nor failed: it does not count. *)
Fixpoint cam_started (d : nat) (h : list ev) : bool :=
  match h with
  | [] => false
  | EOpen _ (Some (d', s0)) :: h' => if (d' =? d)%nat then s0 =? Running else cam_started d h'
  | ECall d' CStart _ r :: h' => if (d' =? d)%nat && (r =? Ok) then true else cam_started d h'
  | ECall d' CStop _ r :: h' => if (d' =? d)%nat && ((r =? Ok) || (r =? Err)) then false else cam_started d h'
  | _ :: h' => cam_started d h'
  end.

(* d is open: handed out, described, not closed *)
Definition live (d : nat) (h : list ev) : Prop :=
  opened d h = true /\ described d h = true /\ nclose d h = 0%nat.

(* event e is legal after history h *)
Definition legal (h : list ev) (e : ev) : Prop :=
  match e with
  | EOpen _ None => True
  | EOpen r (Some (d, _)) => d = nopens h /\ r = Ok                  (* objects are numbered in the order of the opens *)
  | EDescribe d _ => opened d h = true /\ described d h = false /\ nclose d h = 0%nat
  | EClose d _ => live d h                                           (* only an open object is closed: at most once *)
  | ETouch d _ => live d h                                           (* only an open object is touched *)
  | ECall d c st r =>
      live d h /\                                                    (* only an open object is called *)
      (is_sto_call c = true -> sto_last d h = Some st) /\            (* storage: the state field is the last reported state *)
      (needs_running c = true ->
         st = Running /\ (is_sto_call c = false -> cam_started d h = true))
  end.

(* every event of the history was legal when it happened *)
Fixpoint wf_hist (h : list ev) : Prop :=
  match h with
  | [] => True
  | e :: h' => legal h' e /\ wf_hist h'
  end.

(* ------------------------------------------------------------------ the same notions over traces (oldest first) *)
Definition opened_in (d : nat) (t : list ev) : Prop := exists r s0, In (EOpen r (Some (d, s0))) t.
Definition open_succeeded (d : nat) (t : list ev) : Prop := opened_in d t /\ In (EDescribe d Ok) t.
Definition closed_in (d : nat) (t : list ev) : Prop := exists r, In (EClose d r) t.
Definition last_reported_state (d : nat) (t : list ev) : option Z := sto_last d (rev t).
Definition camera_started (d : nat) (t : list ev) : bool := cam_started d (rev t).

(* the client's handle is object d *)
Definition holds (s : hal) (d : nat) : bool :=
  match hd s with Some dv => (d_id dv =? d)%nat | None => false end.

(* ------------------------------------------------------------------ the state table (C11_state_follows)
   What *_get_state reports after a HAL call, as a function of what it reported before, of the call and of the
   driver's answers to it.  [None]: the client holds no device (reported: Closed).  Rows not listed: unchanged.  *)
Definition astate := option (kind * Z).

Definition opens (r : open_resp) : bool :=                (* driver_open_device succeeds and the table is complete *)
  o_driver r && o_hasopen r && (o_open r =? Ok) && o_obj r && (o_describe r =? Ok) && all8 (o_fns r).

Definition state_table (a : astate) (o : op) : astate :=
  match a, o with
  (* open: the state field of the object the driver handed out *)
  | None, OCamOpen ident r _ => if (ident =? 0) && opens r then Some (KCam, o_state r) else None
  | None, OStoOpen ident r _ _ => if (ident =? 0) && opens r then Some (KSto, o_state r) else None
  (* close *)
  | Some (KCam, _), OCamClose _ => None
  | Some (KSto, _), OStoClose _ _ => None
  (* camera: status codes *)
  | Some (KCam, st), OCamSet false rs _ =>
      Some (KCam, if rs =? Ok then (if st =? Running then Running else Armed) else if rs =? Err then Await else st)
  | Some (KCam, st), OCamStart rs =>
      Some (KCam, if rs =? Ok then Running else if rs =? Err then Await else st)
  | Some (KCam, st), OCamStop rstop =>
      Some (KCam, if st =? Running then (if rstop =? Ok then Armed else if rstop =? Err then Await else st) else st)
  | Some (KCam, st), OCamGetFrame rs _ =>
      Some (KCam, if st =? Running then (if rs =? Ok then st else Await) else st)
  (* storage: the state the driver returned *)
  | Some (KSto, st), OStoSet false r => Some (KSto, r)
  | Some (KSto, st), OStoStart r => Some (KSto, if st =? Armed then r else st)
  | Some (KSto, st), OStoStop rstop => Some (KSto, if st =? Running then rstop else st)
  | Some (KSto, st), OStoAppend arg r =>
      Some (KSto, if (st =? Running) && negb (arg =? 0) && negb (arg =? 1) then r else st)
  | _, _ => a
  end.

Definition abs (s : hal) : astate :=
  match hd s with None => None | Some d => Some (d_kind d, d_st d) end.

Definition is_drv_call (e : ev) : bool :=
  match e with ETouch _ _ => false | _ => true end.
