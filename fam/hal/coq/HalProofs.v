(* HalProofs.v -- invariants of the HAL model and the lemmas behind Properties_C11.v.
   Everything is by induction over the list of HAL calls: no bound on the length of the history, every call carries
   its own arbitrary driver answers. *)
From Coq Require Import ZArith NArith List Bool Arith Lia.
From Hal Require Import HalModel HalSpec.
Import ListNotations.
Local Open Scope Z_scope.

#[local] Arguments Z.eqb : simpl never.
#[local] Arguments N.testbit : simpl never.
#[local] Arguments all8 : simpl never.

(* ------------------------------------------------------------------ generic facts about well-formed histories *)

Lemma wf_app : forall h2 h1, wf_hist (h2 ++ h1) -> wf_hist h1.
Proof. induction h2; cbn; intros; auto. destruct H; auto. Qed.

Lemma wf_split : forall h2 e h1, wf_hist (h2 ++ e :: h1) -> legal h1 e.
Proof. intros h2 e h1 H. apply wf_app in H. destruct H; auto. Qed.

Lemma opened_lt : forall h d, wf_hist h -> opened d h = true -> (d < nopens h)%nat.
Proof.
  induction h as [|e h IH]; cbn; intros d W O; [discriminate|].
  destruct W as [L W].
  destruct e as [r [[d' s0]|] | d' r | d' r | d' c st r | d' a]; cbn in *; auto.
  destruct L as [L _]. destruct (Nat.eqb_spec d' d); cbn in O.
  - lia.
  - specialize (IH d W O). lia.
Qed.

Lemma not_opened : forall h d, wf_hist h -> opened d h = false -> described d h = false /\ nclose d h = 0%nat.
Proof.
  induction h as [|e h IH]; cbn; intros d W O; [auto|].
  destruct W as [L W].
  destruct e as [r [[d' s0]|] | d' r | d' r | d' c st r | d' a]; cbn in *; auto.
  - apply orb_false_iff in O. destruct O as [_ O]. auto.
  - destruct L as [L _]. destruct (Nat.eqb_spec d' d); cbn.
    + subst. congruence.
    + auto.
  - destruct L as [L _]. destruct (Nat.eqb_spec d' d); cbn.
    + subst. congruence.
    + auto.
Qed.

Lemma opened_app : forall d h2 h1, opened d (h2 ++ h1) = opened d h2 || opened d h1.
Proof.
  induction h2 as [|e h2 IH]; cbn; intros; auto.
  destruct e as [r [[d' s0]|] | | | | ]; cbn; auto. rewrite IH. apply orb_assoc.
Qed.

Lemma described_app : forall d h2 h1, described d (h2 ++ h1) = described d h2 || described d h1.
Proof.
  induction h2 as [|e h2 IH]; cbn; intros; auto.
  destruct e; cbn; auto. rewrite IH. apply orb_assoc.
Qed.

Lemma nclose_app : forall d h2 h1, nclose d (h2 ++ h1) = (nclose d h2 + nclose d h1)%nat.
Proof.
  induction h2 as [|e h2 IH]; cbn; intros; auto.
  destruct e; cbn; auto. rewrite IH. lia.
Qed.

Lemma opened_In : forall d h, opened d h = true <-> exists r s0, In (EOpen r (Some (d, s0))) h.
Proof.
  induction h as [|e h IH]; cbn.
  - split; [discriminate | intros (r & s0 & [])].
  - destruct e as [r [[d' s0]|] | | | | ]; cbn;
      try (rewrite IH; split; [intros (r' & s' & H); eauto | intros (r' & s' & [H|H]); [discriminate | eauto]]).
    split.
    + intros H. apply orb_true_iff in H. destruct H as [H|H].
      * apply Nat.eqb_eq in H. subst. eauto.
      * apply IH in H. destruct H as (r' & s' & H). eauto.
    + intros (r' & s' & [H|H]).
      * inversion H; subst. rewrite Nat.eqb_refl. reflexivity.
      * apply orb_true_iff. right. apply IH. eauto.
Qed.

Lemma described_In : forall d h, described d h = true <-> In (EDescribe d Ok) h.
Proof.
  induction h as [|e h IH]; cbn.
  - split; [discriminate | intros []].
  - destruct e as [ | d' r | | | ]; cbn;
      try (rewrite IH; split; [auto | intros [H|H]; [discriminate | auto]]).
    split.
    + intros H. apply orb_true_iff in H. destruct H as [H|H].
      * apply andb_true_iff in H. destruct H as [H1 H2]. apply Nat.eqb_eq in H1. apply Z.eqb_eq in H2. subst. auto.
      * right. apply IH. auto.
    + intros [H|H].
      * inversion H; subst. rewrite Nat.eqb_refl. reflexivity.
      * apply orb_true_iff. right. apply IH. auto.
Qed.

Lemma nclose_pos_In : forall d h, (nclose d h > 0)%nat <-> exists r, In (EClose d r) h.
Proof.
  induction h as [|e h IH]; cbn.
  - split; [lia | intros (r & [])].
  - destruct e as [ | | d' r | | ]; cbn;
      try (rewrite IH; split; [intros (r' & H); eauto | intros (r' & [H|H]); [discriminate | eauto]]).
    split.
    + intros H. destruct (Nat.eqb_spec d' d).
      * subst. eauto.
      * cbn in H. apply IH in H. destruct H as (r' & H). eauto.
    + intros (r' & [H|H]).
      * inversion H; subst. rewrite Nat.eqb_refl. lia.
      * assert (nclose d h > 0)%nat by (apply IH; eauto). lia.
Qed.

Lemma ev_dev_none_or : forall e d, ev_dev e = Some d ->
  forall h, legal h e -> (exists r s0, e = EOpen r (Some (d, s0))) \/ (opened d h = true /\ nclose d h = 0%nat).
Proof.
  intros e d E h L.
  destruct e as [r [[d' s0]|] | d' r | d' r | d' c st r | d' a]; cbn in *; inversion E; subst.
  - left; eauto.
  - right; tauto.
  - right; unfold live in L; tauto.
  - right; unfold live in L; tauto.
  - right; unfold live in L; tauto.
Qed.

(* ------------------------------------------------------------------ the invariant tying the model to the history *)

Definition hd_id (s : hal) : option nat :=
  match hd s with Some dv => Some (d_id dv) | None => None end.

Record Inv (s : hal) (h : list ev) : Prop := mkInv {
  i_wf : wf_hist h;
  i_n : nopens h = nopen s;
  i_hd : match hd s with
         | Some dv =>
             live (d_id dv) h /\
             (d_kind dv = KSto -> sto_last (d_id dv) h = Some (d_st dv)) /\
             (d_kind dv = KCam -> d_st dv = Running -> cam_started (d_id dv) h = true)
         | None => True
         end;
  i_rest : forall d, opened d h = true -> described d h = true -> hd_id s <> Some d -> nclose d h = 1%nat
}.

Lemma Inv_init : Inv init [].
Proof. constructor; cbn; auto; intros; discriminate. Qed.

Ltac consts := unfold Ok, Err, Closed, Await, Armed, Running in *.

Ltac dec_eqb :=
  repeat match goal with
    | |- context[(?a =? ?b)%Z] =>
        first [ rewrite (proj2 (Z.eqb_eq a b)) by lia | rewrite (proj2 (Z.eqb_neq a b)) by lia ]
    | |- context[(?a =? ?b)%nat] =>
        first [ rewrite (proj2 (Nat.eqb_eq a b)) by lia | rewrite (proj2 (Nat.eqb_neq a b)) by lia ]
    end.

Ltac eqb2prop :=
  repeat match goal with
    | H : (_ =? _)%Z = true |- _ => apply Z.eqb_eq in H
    | H : (_ =? _)%Z = false |- _ => apply Z.eqb_neq in H
    | H : negb _ = true |- _ => apply negb_true_iff in H
    | H : negb _ = false |- _ => apply negb_false_iff in H
    end.

Ltac brk :=
  match goal with
  | |- context[if negb ?b then _ else _] => destruct b eqn:?; cbn [negb]
  | |- context[if ?b then _ else _] => destruct b eqn:?
  end.

(* solve the four fields of Inv for a concrete event list; [i] is the handle's object (if any), [n] the next number *)
Ltac leaf :=
  eqb2prop; consts;
  match goal with
  | HI : Inv _ _ |- _ =>
      let W := fresh "W" in let N := fresh "N" in let HD := fresh "HD" in let RS := fresh "RS" in
      destruct HI as [W N HD RS]; cbn in N, HD, RS; unfold live in *;
      constructor; unfold live;
      [ (* wf *) repeat (cbn; consts; dec_eqb); unfold live; cbn; consts; dec_eqb;
                 intuition (try discriminate; try lia; try congruence)
      | (* n  *) cbn; try lia
      | (* hd *) repeat (cbn; consts; dec_eqb); intuition (try discriminate; try lia; try congruence)
      | (* rest *) idtac ]
  end.

Lemma fresh_id : forall h, wf_hist h -> opened (nopens h) h = false /\ described (nopens h) h = false /\ nclose (nopens h) h = 0%nat.
Proof.
  intros h W. destruct (opened (nopens h) h) eqn:O.
  - apply opened_lt in O; auto. lia.
  - destruct (not_opened h _ W O). auto.
Qed.
