(* HalProofs.v -- invariants of the HAL model and the lemmas behind Properties_C11.v.
   Everything is by induction over the list of HAL calls: no bound on the length of the history, every call carries
   its own arbitrary driver answers. *)
From Coq Require Import ZArith NArith List Bool Arith Lia.
From Hal Require Import HalModel HalSpec.
Import ListNotations.
Local Open Scope Z_scope.

#[local] Arguments Z.eqb : simpl never.
#[local] Arguments N.testbit : simpl never.
#[local] Arguments all8 : simpl never.

(* ------------------------------------------------------------------ generic facts about well-formed histories *)

Lemma wf_app : forall h2 h1, wf_hist (h2 ++ h1) -> wf_hist h1.
Proof. induction h2; cbn; intros; auto. destruct H; auto. Qed.

Lemma wf_split : forall h2 e h1, wf_hist (h2 ++ e :: h1) -> legal h1 e.
Proof. intros h2 e h1 H. apply wf_app in H. destruct H; auto. Qed.

Lemma opened_lt : forall h d, wf_hist h -> opened d h = true -> (d < nopens h)%nat.
Proof.
  induction h as [|e h IH]; cbn; intros d W O; [discriminate|].
  destruct W as [L W].
  destruct e as [r [[d' s0]|] | d' r | d' r | d' c st r | d' a]; cbn in *; auto.
  destruct L as [L _]. destruct (Nat.eqb_spec d' d); cbn in O.
  - lia.
  - specialize (IH d W O). lia.
Qed.

Lemma not_opened : forall h d, wf_hist h -> opened d h = false -> described d h = false /\ nclose d h = 0%nat.
Proof.
  induction h as [|e h IH]; cbn; intros d W O; [auto|].
  destruct W as [L W].
  destruct e as [r [[d' s0]|] | d' r | d' r | d' c st r | d' a]; cbn in *; auto.
  - apply orb_false_iff in O. destruct O as [_ O]. auto.
  - destruct L as [L _]. destruct (Nat.eqb_spec d' d); cbn.
    + subst. congruence.
    + auto.
  - destruct L as [L _]. destruct (Nat.eqb_spec d' d); cbn.
    + subst. congruence.
    + auto.
Qed.

Lemma opened_app : forall d h2 h1, opened d (h2 ++ h1) = opened d h2 || opened d h1.
Proof.
  induction h2 as [|e h2 IH]; cbn; intros; auto.
  destruct e as [r [[d' s0]|] | | | | ]; cbn; auto. rewrite IH. apply orb_assoc.
Qed.

Lemma described_app : forall d h2 h1, described d (h2 ++ h1) = described d h2 || described d h1.
Proof.
  induction h2 as [|e h2 IH]; cbn; intros; auto.
  destruct e; cbn; auto. rewrite IH. apply orb_assoc.
Qed.

Lemma nclose_app : forall d h2 h1, nclose d (h2 ++ h1) = (nclose d h2 + nclose d h1)%nat.
Proof.
  induction h2 as [|e h2 IH]; cbn; intros; auto.
  destruct e; cbn; auto. rewrite IH. lia.
Qed.

Lemma opened_In : forall d h, opened d h = true <-> exists r s0, In (EOpen r (Some (d, s0))) h.
Proof.
  induction h as [|e h IH]; cbn.
  - split; [discriminate | intros (r & s0 & [])].
  - destruct e as [r [[d' s0]|] | | | | ]; cbn;
      try (rewrite IH; split; [intros (r' & s' & H); eauto | intros (r' & s' & [H|H]); [discriminate | eauto]]).
    split.
    + intros H. apply orb_true_iff in H. destruct H as [H|H].
      * apply Nat.eqb_eq in H. subst. eauto.
      * apply IH in H. destruct H as (r' & s' & H). eauto.
    + intros (r' & s' & [H|H]).
      * inversion H; subst. rewrite Nat.eqb_refl. reflexivity.
      * apply orb_true_iff. right. apply IH. eauto.
Qed.

Lemma described_In : forall d h, described d h = true <-> In (EDescribe d Ok) h.
Proof.
  induction h as [|e h IH]; cbn.
  - split; [discriminate | intros []].
  - destruct e as [ | d' r | | | ]; cbn;
      try (rewrite IH; split; [auto | intros [H|H]; [discriminate | auto]]).
    split.
    + intros H. apply orb_true_iff in H. destruct H as [H|H].
      * apply andb_true_iff in H. destruct H as [H1 H2]. apply Nat.eqb_eq in H1. apply Z.eqb_eq in H2. subst. auto.
      * right. apply IH. auto.
    + intros [H|H].
      * inversion H; subst. rewrite Nat.eqb_refl. reflexivity.
      * apply orb_true_iff. right. apply IH. auto.
Qed.

Lemma nclose_pos_In : forall d h, (nclose d h > 0)%nat <-> exists r, In (EClose d r) h.
Proof.
  induction h as [|e h IH]; cbn.
  - split; [lia | intros (r & [])].
  - destruct e as [ | | d' r | | ]; cbn;
      try (rewrite IH; split; [intros (r' & H); eauto | intros (r' & [H|H]); [discriminate | eauto]]).
    split.
    + intros H. destruct (Nat.eqb_spec d' d).
      * subst. eauto.
      * cbn in H. apply IH in H. destruct H as (r' & H). eauto.
    + intros (r' & [H|H]).
      * inversion H; subst. rewrite Nat.eqb_refl. lia.
      * assert (nclose d h > 0)%nat by (apply IH; eauto). lia.
Qed.

Lemma ev_dev_none_or : forall e d, ev_dev e = Some d ->
  forall h, legal h e -> (exists r s0, e = EOpen r (Some (d, s0))) \/ (opened d h = true /\ nclose d h = 0%nat).
Proof.
  intros e d E h L.
  destruct e as [r [[d' s0]|] | d' r | d' r | d' c st r | d' a]; cbn in *; inversion E; subst.
  - left; eauto.
  - right; tauto.
  - right; unfold live in L; tauto.
  - right; unfold live in L; tauto.
  - right; unfold live in L; tauto.
Qed.

(* ------------------------------------------------------------------ the invariant tying the model to the history *)

Definition hd_id (s : hal) : option nat :=
  match hd s with Some dv => Some (d_id dv) | None => None end.

Record Inv (s : hal) (h : list ev) : Prop := mkInv {
  i_wf : wf_hist h;
  i_n : nopens h = nopen s;
  i_hd : match hd s with
         | Some dv =>
             live (d_id dv) h /\
             (d_kind dv = KSto -> sto_last (d_id dv) h = Some (d_st dv)) /\
             (d_kind dv = KCam -> d_st dv = Running -> cam_started (d_id dv) h = true)
         | None => True
         end;
  i_rest : forall d, opened d h = true -> described d h = true -> hd_id s <> Some d -> nclose d h = 1%nat
}.

Lemma Inv_init : Inv init [].
Proof. constructor; cbn; auto; intros; discriminate. Qed.

Ltac consts := unfold Ok, Err, Closed, Await, Armed, Running in *.

Ltac dec_eqb :=
  repeat match goal with
    | |- context[(?a =? ?b)%Z] =>
        first [ rewrite (proj2 (Z.eqb_eq a b)) by lia | rewrite (proj2 (Z.eqb_neq a b)) by lia ]
    | |- context[(?a =? ?b)%nat] =>
        first [ rewrite (proj2 (Nat.eqb_eq a b)) by lia | rewrite (proj2 (Nat.eqb_neq a b)) by lia ]
    end.

Ltac eqb2prop :=
  repeat match goal with
    | H : (_ =? _)%Z = true |- _ => apply Z.eqb_eq in H
    | H : (_ =? _)%Z = false |- _ => apply Z.eqb_neq in H
    | H : negb _ = true |- _ => apply negb_true_iff in H
    | H : negb _ = false |- _ => apply negb_false_iff in H
    end.

Ltac brk :=
  match goal with
  | |- context[if negb ?b then _ else _] => destruct b eqn:?; cbn [negb]
  | |- context[if ?b then _ else _] => destruct b eqn:?
  end.

(* solve the four fields of Inv for a concrete event list; [i] is the handle's object (if any), [n] the next number *)
Ltac leaf :=
  eqb2prop; consts;
  match goal with
  | HI : Inv _ _ |- _ =>
      let W := fresh "W" in let N := fresh "N" in let HD := fresh "HD" in let RS := fresh "RS" in
      destruct HI as [W N HD RS]; cbn in N, HD, RS; unfold live in *;
      constructor; unfold live;
      [ (* wf *) repeat (cbn; consts; dec_eqb); unfold live; cbn; consts; dec_eqb;
                 intuition (try discriminate; try lia; try congruence)
      | (* n  *) cbn; try lia
      | (* hd *) repeat (cbn; consts; dec_eqb); intuition (try discriminate; try lia; try congruence)
      | (* rest *) idtac ]
  end.

Lemma fresh_id : forall h, wf_hist h -> opened (nopens h) h = false /\ described (nopens h) h = false /\ nclose (nopens h) h = 0%nat.
Proof.
  intros h W. destruct (opened (nopens h) h) eqn:O.
  - apply opened_lt in O; auto. lia.
  - destruct (not_opened h _ W O). auto.
Qed.

(* ------------------------------------------------------------------ one HAL call preserves the invariant *)

Definition st_of (x : hal * res * list ev) : hal := fst (fst x).
Definition res_of (x : hal * res * list ev) : res := snd (fst x).
Definition ev_of (x : hal * res * list ev) : list ev := snd x.

Ltac unf := unfold step, camera_open, camera_close, camera_set, camera_passthrough, camera_start, camera_stop,
  camera_execute_trigger, camera_get_frame, get_state, storage_open, storage_set, storage_void, storage_start,
  storage_stop, storage_append, storage_close, storage_validate, storage_close_ev, storage_stop_dev, camera_stop_dev,
  camera_close_ev, driver_close_device, driver_open_device, st_of, res_of, ev_of, wf_op, is_cam_op, fixed.

Definition is_open_op (o : op) : bool :=
  match o with OCamOpen _ _ _ | OStoOpen _ _ _ _ | OStoValidate _ _ _ _ _ _ => true | _ => false end.

(* every call that cannot hand out a new object *)
Lemma step_nonopen : forall s h o, Inv s h -> is_open_op o = false ->
  Inv (st_of (step fixed s o)) (rev (ev_of (step fixed s o)) ++ h).
Proof.
  intros [hdv n] h o HI NO.
  destruct hdv as [[i k st]|]; [destruct k|]; destruct o; try discriminate NO; unf;
  cbn [hd d_id d_kind d_st nopen with_dev set_st negb v_d10 v_d17 v_d27 fst snd rev app];
  try assumption.
  all: repeat brk; cbn [fst snd rev app]; try assumption.
  all: leaf.
  all: try (intros d; cbn; dec_eqb; cbn; intros; apply RS; auto).
  all: try (intros d; destruct (Nat.eq_dec i d) as [<-|]; repeat (cbn; consts; dec_eqb); intros; try lia;
            try (apply RS; auto; congruence)).
Qed.

(* camera_open, storage_open, storage_validate: the new object gets the number [nopen s] *)
Lemma step_open : forall s h o, Inv s h -> is_open_op o = true ->
  Inv (st_of (step fixed s o)) (rev (ev_of (step fixed s o)) ++ h).
Proof.
  intros [hdv n] h o HI NO.
  assert (FR := fresh_id h (i_wf _ _ HI)). rewrite (i_n _ _ HI) in FR. cbn [nopen] in FR. destruct FR as (FO & FD & FC).
  destruct hdv as [[i k st]|]; [destruct k|]; destruct o; try discriminate NO; unf;
  cbn [hd d_id d_kind d_st nopen with_dev set_st negb v_d10 v_d17 v_d27 fst snd rev app];
  try assumption.
  all: repeat brk; cbn [fst snd rev app]; try assumption.
  all: try (assert (i <> n) by (intros ->; destruct HI as [_ _ [[HH _] _] _]; cbn in HH; congruence)).
  all: leaf.
  all: intros d; destruct (Nat.eq_dec n d) as [<-|];
    repeat (cbn; consts; dec_eqb; rewrite ?FO, ?FD, ?FC); intros; try discriminate; try lia; try congruence;
    try (apply RS; auto; congruence).
Qed.

Lemma step_inv : forall s h o, Inv s h -> Inv (st_of (step fixed s o)) (rev (ev_of (step fixed s o)) ++ h).
Proof.
  intros s h o HI. destruct (is_open_op o) eqn:E; [apply step_open | apply step_nonopen]; auto.
Qed.

(* ------------------------------------------------------------------ whole histories *)

Lemma run_cons : forall v s o ops,
  run v s (o :: ops) =
  (fst (run v (st_of (step v s o)) ops), ev_of (step v s o) ++ snd (run v (st_of (step v s o)) ops)).
Proof.
  intros. cbn [run]. unfold st_of, ev_of. destruct (step v s o) as [[s1 r] es]. cbn [fst snd].
  destruct (run v s1 ops). reflexivity.
Qed.

Lemma run_inv : forall ops s h, Inv s h -> Inv (fst (run fixed s ops)) (rev (snd (run fixed s ops)) ++ h).
Proof.
  induction ops as [|o ops IH]; intros s h HI.
  - cbn. assumption.
  - rewrite run_cons. cbn [fst snd]. rewrite rev_app_distr, <- app_assoc. apply IH. apply step_inv. assumption.
Qed.

Lemma run_app : forall v ops1 ops2 s,
  run v s (ops1 ++ ops2) =
  (fst (run v (fst (run v s ops1)) ops2), snd (run v s ops1) ++ snd (run v (fst (run v s ops1)) ops2)).
Proof.
  induction ops1 as [|o ops1 IH]; intros ops2 s.
  - cbn. destruct (run v s ops2); reflexivity.
  - rewrite <- app_comm_cons, !run_cons. cbn [fst snd]. rewrite IH. cbn [fst snd]. rewrite app_assoc. reflexivity.
Qed.

Lemma final_snoc : forall ops o, final (ops ++ [o]) = st_of (step fixed (final ops) o).
Proof.
  intros. unfold final. rewrite run_app. cbn [fst]. rewrite run_cons. reflexivity.
Qed.

Lemma trace_snoc : forall ops o, trace (ops ++ [o]) = trace ops ++ ev_of (step fixed (final ops) o).
Proof.
  intros. unfold trace, final. rewrite run_app. cbn [snd]. rewrite run_cons. cbn [snd run]. rewrite app_nil_r. reflexivity.
Qed.

Theorem inv_final : forall ops, Inv (final ops) (rev (trace ops)).
Proof.
  intros. unfold final, trace. rewrite <- (app_nil_r (rev _)). apply run_inv. apply Inv_init.
Qed.

(* every event of every trace was legal when it happened *)
Lemma event_legal : forall ops t1 e t2, trace ops = t1 ++ e :: t2 -> legal (rev t1) e.
Proof.
  intros ops t1 e t2 E. assert (W := i_wf _ _ (inv_final ops)).
  rewrite E, rev_app_distr in W. cbn [rev] in W. rewrite <- app_assoc in W. cbn [app] in W.
  apply wf_split in W. assumption.
Qed.

Lemma prefix_wf : forall ops t1 t2, trace ops = t1 ++ t2 -> wf_hist (rev t1).
Proof.
  intros ops t1 t2 E. assert (W := i_wf _ _ (inv_final ops)).
  rewrite E, rev_app_distr in W. apply wf_app in W. assumption.
Qed.

(* ------------------------------------------------------------------ explicit witnesses for the two scans *)

Definition starts (d : nat) (e : ev) : Prop :=
  (exists st, e = ECall d CStart st Ok) \/ (exists r, e = EOpen r (Some (d, Running))).
Definition decisive_stop (d : nat) (e : ev) : Prop :=
  exists st r, e = ECall d CStop st r /\ (r = Ok \/ r = Err).

(* cam_started: some start answered Ok (or an open that handed out a Running object), and no stop answered
   Ok or Err after it *)
Lemma cam_started_witness : forall d h, cam_started d h = true ->
  exists h2 e h1, h = h2 ++ e :: h1 /\ starts d e /\ forall e', In e' h2 -> ~ decisive_stop d e'.
Proof.
  induction h as [|e h IH]; cbn; intros H; [discriminate|].
  assert (REC : cam_started d h = true -> ~ decisive_stop d e ->
                exists h2 e0 h1, e :: h = h2 ++ e0 :: h1 /\ starts d e0 /\ forall e', In e' h2 -> ~ decisive_stop d e').
  { intros H' ND. destruct (IH H') as (h2 & e0 & h1 & -> & S0 & NS).
    exists (e :: h2), e0, h1. split; [reflexivity|]. split; [assumption|].
    intros e' [<-|I]; auto. }
  destruct e as [r [[d' s0]|] | d' r | d' r | d' c st r | d' a];
    try (apply REC; [assumption | intros (st' & r' & E & _); discriminate E]).
  - destruct (Nat.eqb_spec d' d).
    + subst. apply Z.eqb_eq in H. subst. exists [], (EOpen r (Some (d, Running))), h.
      split; [reflexivity|]. split; [right; eauto | intros e' []].
    + apply REC; [assumption | intros (st' & r' & E & _); discriminate E].
  - destruct c; try (apply REC; [assumption | intros (st' & r' & E & _); discriminate E]).
    + (* CStart *) destruct ((d' =? d)%nat && (r =? Ok)) eqn:B.
      * apply andb_true_iff in B. destruct B as [B1 B2]. apply Nat.eqb_eq in B1. apply Z.eqb_eq in B2. subst.
        exists [], (ECall d CStart st Ok), h. split; [reflexivity|]. split; [left; eauto | intros e' []].
      * apply REC; [assumption | intros (st' & r' & E & _); discriminate E].
    + (* CStop *) destruct ((d' =? d)%nat && ((r =? Ok) || (r =? Err))) eqn:B; [discriminate|].
      apply REC; [assumption|]. intros (st' & r' & E & RR). inversion E; subst.
      rewrite Nat.eqb_refl in B. cbn in B. destruct RR as [-> | ->]; cbn in B; discriminate.
Qed.

Definition reports (d : nat) (e : ev) (v : Z) : Prop :=
  (exists c st, returns_state c = true /\ e = ECall d c st v) \/ (exists r, e = EOpen r (Some (d, v))).

(* sto_last: the most recent state the driver reported for d *)
Lemma sto_last_witness : forall d v h, sto_last d h = Some v ->
  exists h2 e h1, h = h2 ++ e :: h1 /\ reports d e v /\ forall e' v', In e' h2 -> ~ reports d e' v'.
Proof.
  induction h as [|e h IH]; cbn; intros H; [discriminate|].
  assert (REC : sto_last d h = Some v -> (forall v', ~ reports d e v') ->
                exists h2 e0 h1, e :: h = h2 ++ e0 :: h1 /\ reports d e0 v /\ forall e' v', In e' h2 -> ~ reports d e' v').
  { intros H' ND. destruct (IH H') as (h2 & e0 & h1 & -> & S0 & NS).
    exists (e :: h2), e0, h1. split; [reflexivity|]. split; [assumption|].
    intros e' v' [<-|I]; auto. }
  destruct e as [r [[d' s0]|] | d' r | d' r | d' c st r | d' a];
    try (apply REC; [assumption | intros v' [(c' & st' & _ & E) | (r' & E)]; discriminate E]).
  - destruct (Nat.eqb_spec d' d).
    + subst. inversion H; subst. exists [], (EOpen r (Some (d, v))), h.
      split; [reflexivity|]. split; [right; eauto | intros e' v' []].
    + apply REC; [assumption|]. intros v' [(c' & st' & _ & E) | (r' & E)]; [discriminate E | inversion E; congruence].
  - destruct ((d' =? d)%nat && returns_state c) eqn:B.
    + apply andb_true_iff in B. destruct B as [B1 B2]. apply Nat.eqb_eq in B1. subst. inversion H; subst.
      exists [], (ECall d c st v), h. split; [reflexivity|]. split; [left; eauto | intros e' v' []].
    + apply REC; [assumption|]. intros v' [(c' & st' & RS & E) | (r' & E)]; [|discriminate E].
      inversion E; subst. rewrite Nat.eqb_refl, RS in B. discriminate.
Qed.

(* the same two facts over traces (oldest first) *)
Lemma camera_started_witness : forall d t, camera_started d t = true ->
  exists ta e tb, t = ta ++ e :: tb /\ starts d e /\ forall e', In e' tb -> ~ decisive_stop d e'.
Proof.
  unfold camera_started. intros d t H. apply cam_started_witness in H. destruct H as (h2 & e & h1 & E & S0 & NS).
  exists (rev h1), e, (rev h2). split.
  - rewrite <- (rev_involutive t), E, rev_app_distr. cbn [rev]. rewrite <- app_assoc. reflexivity.
  - split; [assumption|]. intros e' I. apply NS. apply in_rev. assumption.
Qed.

Lemma last_reported_witness : forall d v t, last_reported_state d t = Some v ->
  exists ta e tb, t = ta ++ e :: tb /\ reports d e v /\ forall e' v', In e' tb -> ~ reports d e' v'.
Proof.
  unfold last_reported_state. intros d v t H. apply sto_last_witness in H. destruct H as (h2 & e & h1 & E & S0 & NS).
  exists (rev h1), e, (rev h2). split.
  - rewrite <- (rev_involutive t), E, rev_app_distr. cbn [rev]. rewrite <- app_assoc. reflexivity.
  - split; [assumption|]. intros e' v' I. apply NS. apply in_rev. assumption.
Qed.

(* ------------------------------------------------------------------ C11: stop / io need Running *)

Lemma call_needs_running : forall ops t1 d c st r t2,
  trace ops = t1 ++ ECall d c st r :: t2 -> needs_running c = true ->
  st = Running /\
  (is_sto_call c = true -> last_reported_state d t1 = Some Running) /\
  (is_sto_call c = false ->
     exists ta e tb, t1 = ta ++ e :: tb /\ starts d e /\ forall e', In e' tb -> ~ decisive_stop d e').
Proof.
  intros ops t1 d c st r t2 E NR. apply event_legal in E. cbn in E. destruct E as (_ & SL & RU).
  destruct (RU NR) as [-> CS]. split; [reflexivity|]. split.
  - intros SC. unfold last_reported_state. auto.
  - intros SC. apply camera_started_witness. unfold camera_started. auto.
Qed.

Lemma stop_needs_running : forall ops t1 d c st r t2,
  trace ops = t1 ++ ECall d c st r :: t2 -> c = CStop \/ c = SStop ->
  st = Running /\
  (c = SStop -> last_reported_state d t1 = Some Running) /\
  (c = CStop ->
     exists ta e tb, t1 = ta ++ e :: tb /\ starts d e /\ forall e', In e' tb -> ~ decisive_stop d e').
Proof.
  intros ops t1 d c st r t2 E C.
  destruct (call_needs_running ops t1 d c st r t2 E) as (A & B & D); [destruct C; subst; reflexivity|].
  split; [assumption|]. split; intros ->; auto.
Qed.

Lemma io_needs_running : forall ops t1 d c st r t2,
  trace ops = t1 ++ ECall d c st r :: t2 -> c = CGetFrame \/ c = CTrigger \/ c = SAppend ->
  st = Running /\
  (c = SAppend -> last_reported_state d t1 = Some Running) /\
  (c <> SAppend ->
     exists ta e tb, t1 = ta ++ e :: tb /\ starts d e /\ forall e', In e' tb -> ~ decisive_stop d e').
Proof.
  intros ops t1 d c st r t2 E C.
  destruct (call_needs_running ops t1 d c st r t2 E) as (A & B & D); [destruct C as [->|[->| ->]]; reflexivity|].
  split; [assumption|]. split.
  - intros ->; auto.
  - intros NA. apply D. destruct C as [->|[->| ->]]; try reflexivity. congruence.
Qed.

(* storage: the state field the driver sees at EVERY storage call is the state it last reported *)
Lemma storage_call_state : forall ops t1 d c st r t2,
  trace ops = t1 ++ ECall d c st r :: t2 -> is_sto_call c = true -> last_reported_state d t1 = Some st.
Proof.
  intros ops t1 d c st r t2 E SC. apply event_legal in E. cbn in E. destruct E as (_ & SL & _).
  unfold last_reported_state. auto.
Qed.

(* ------------------------------------------------------------------ C11: close once, nothing afterwards *)

Lemma opened_rev : forall d t, opened d (rev t) = true <-> opened_in d t.
Proof.
  intros. rewrite opened_In. unfold opened_in. split; intros (r & s0 & H); exists r, s0; [apply in_rev | apply in_rev in H]; assumption.
Qed.

Lemma nothing_after_close : forall ops d t1 r t2,
  trace ops = t1 ++ EClose d r :: t2 -> forall e, In e t2 -> ev_dev e <> Some d.
Proof.
  intros ops d t1 r t2 E e I ED.
  apply in_split in I. destruct I as (u & w & ->).
  assert (L0 : legal (rev t1) (EClose d r)) by (eapply event_legal; eauto).
  cbn in L0. destruct L0 as (O0 & _ & _).
  assert (E' : trace ops = (t1 ++ EClose d r :: u) ++ e :: w) by (rewrite E, <- app_assoc; reflexivity).
  assert (L := event_legal _ _ _ _ E').
  assert (W := prefix_wf _ _ _ E').
  set (p := rev (t1 ++ EClose d r :: u)) in *.
  assert (OP : opened d p = true).
  { unfold p. rewrite rev_app_distr, opened_app. cbn [rev]. rewrite opened_app. rewrite O0.
    rewrite !orb_true_r. reflexivity. }
  assert (NC : (nclose d p > 0)%nat).
  { unfold p. rewrite rev_app_distr, nclose_app. cbn [rev]. rewrite nclose_app. cbn. rewrite Nat.eqb_refl. lia. }
  destruct (ev_dev_none_or e d ED p L) as [(r' & s0 & ->) | (_ & Z)].
  - cbn in L. destruct L as [L _]. apply opened_lt in OP; auto. lia.
  - lia.
Qed.

Lemma only_opened_objects : forall ops d t1 e t2,
  trace ops = t1 ++ e :: t2 -> ev_dev e = Some d ->
  (exists r s0, e = EOpen r (Some (d, s0))) \/ opened_in d t1.
Proof.
  intros ops d t1 e t2 E ED. apply event_legal in E.
  destruct (ev_dev_none_or e d ED _ E) as [H | (H & _)]; [left; assumption | right; apply opened_rev; assumption].
Qed.

Lemma closed_iff_not_held : forall ops d,
  open_succeeded d (trace ops) ->
  if holds (final ops) d then ~ closed_in d (trace ops) else closed_in d (trace ops).
Proof.
  intros ops d (O & D).
  assert (I := inv_final ops).
  apply opened_rev in O. apply in_rev in D. apply described_In in D.
  unfold holds. destruct I as [W N HD RS]. unfold closed_in.
  destruct (hd (final ops)) as [dv|] eqn:H.
  - destruct (Nat.eqb_spec (d_id dv) d).
    + subst. destruct HD as ((_ & _ & C) & _). intros (r & I). apply in_rev in I.
      assert (nclose (d_id dv) (rev (trace ops)) > 0)%nat by (apply nclose_pos_In; eauto). lia.
    + assert (C : nclose d (rev (trace ops)) = 1%nat).
      { apply RS; auto. unfold hd_id. rewrite H. congruence. }
      assert (P : (nclose d (rev (trace ops)) > 0)%nat) by lia.
      apply nclose_pos_In in P. destruct P as (r & I). exists r. apply in_rev. assumption.
  - assert (C : nclose d (rev (trace ops)) = 1%nat).
    { apply RS; auto. unfold hd_id. rewrite H. congruence. }
    assert (P : (nclose d (rev (trace ops)) > 0)%nat) by lia.
    apply nclose_pos_In in P. destruct P as (r & I). exists r. apply in_rev. assumption.
Qed.

(* the client's handle always is an object whose open succeeded and that has not been closed *)
Lemma held_is_open : forall ops d, holds (final ops) d = true ->
  open_succeeded d (trace ops) /\ ~ closed_in d (trace ops).
Proof.
  intros ops d H. assert (I := inv_final ops). unfold holds in H.
  destruct (hd (final ops)) as [dv|] eqn:E; [|discriminate]. apply Nat.eqb_eq in H. subst.
  destruct I as [_ _ HD _]. rewrite E in HD. destruct HD as ((O & D & C) & _).
  split; [split|].
  - apply opened_rev. assumption.
  - apply in_rev. apply described_In. assumption.
  - intros (r & I). apply in_rev in I.
    assert (nclose (d_id dv) (rev (trace ops)) > 0)%nat by (apply nclose_pos_In; eauto). lia.
Qed.

(* the HAL close call for the handle's kind *)
Definition closes (s : hal) (o : op) : bool :=
  match hd s, o with
  | Some dv, OCamClose _ => match d_kind dv with KCam => true | KSto => false end
  | Some dv, OStoClose _ _ => match d_kind dv with KSto => true | KCam => false end
  | _, _ => false
  end.

Lemma hal_close_closes : forall ops o d,
  holds (final ops) d = true -> closes (final ops) o = true ->
  hd (final (ops ++ [o])) = None /\ closed_in d (trace (ops ++ [o])).
Proof.
  intros ops o d H C. rewrite final_snoc, trace_snoc. unfold holds, closes, closed_in in *.
  destruct (final ops) as [hdv n]. cbn [hd] in *.
  destruct hdv as [[i k st]|]; [|discriminate]. cbn [d_id d_kind] in *. apply Nat.eqb_eq in H. subst.
  destruct o; try discriminate C; destruct k; try discriminate C; unf;
    cbn [hd d_id d_kind d_st nopen negb v_d10 fst snd].
  - split; [reflexivity|]. exists rclose. apply in_or_app. right. cbn. auto.
  - split; [reflexivity|]. exists rclose. apply in_or_app. right.
    repeat brk; cbn [fst snd]; apply in_or_app; right; cbn; auto.
Qed.

(* a HAL open that returns NULL leaves the client without a device (so every object it opened is closed) *)
Lemma failed_open_no_handle : forall ops o,
  res_of (step fixed (final ops) o) = RHandle false -> hd (final (ops ++ [o])) = None.
Proof.
  intros ops o R. rewrite final_snoc. revert R. destruct (final ops) as [hdv n].
  destruct hdv as [[i k st]|]; [destruct k|]; destruct o; unf;
    cbn [hd d_id d_kind d_st nopen with_dev set_st negb v_d10 v_d17 v_d27 fst snd];
    repeat brk; cbn [fst snd hd]; intros R; try discriminate R; reflexivity.
Qed.

(* ------------------------------------------------------------------ C11: the reported state follows the table *)

Lemma step_table : forall s o, abs (st_of (step fixed s o)) = state_table (abs s) o.
Proof.
  intros [hdv n] o. unfold abs, state_table, opens.
  destruct hdv as [[i k st]|]; [destruct k|]; destruct o; unf;
    cbn [hd d_id d_kind d_st nopen with_dev set_st negb v_d10 v_d17 v_d27 fst snd];
    repeat brk; cbn [fst snd hd d_kind d_st andb negb]; eqb2prop; consts; repeat (cbn; dec_eqb);
    try reflexivity; try congruence; try lia.
Qed.

Lemma state_follows : forall ops, abs (final ops) = fold_left state_table ops None.
Proof.
  intros ops. pattern ops. apply rev_ind.
  - reflexivity.
  - intros o l IH. rewrite final_snoc, step_table, IH, fold_left_app. reflexivity.
Qed.

Lemma reported_abs : forall s, reported s = match abs s with None => Closed | Some (_, st) => st end.
Proof. intros [[dv|] n]; reflexivity. Qed.

(* the state changes only in a HAL call during which the driver was called *)
Lemma state_changes_only_on_driver_call : forall s o,
  existsb is_drv_call (ev_of (step fixed s o)) = false -> abs (st_of (step fixed s o)) = abs s.
Proof.
  intros [hdv n] o. unfold abs.
  destruct hdv as [[i k st]|]; [destruct k|]; destruct o; unf;
    cbn [hd d_id d_kind d_st nopen with_dev set_st negb v_d10 v_d17 v_d27 fst snd];
    repeat brk; cbn [fst snd hd d_kind d_st app existsb is_drv_call orb];
    intros H; try discriminate H; try reflexivity.
Qed.

(* storage: what storage_get_state reports IS the state the driver last reported *)
Lemma storage_reports_last : forall ops dv,
  hd (final ops) = Some dv -> d_kind dv = KSto -> last_reported_state (d_id dv) (trace ops) = Some (d_st dv).
Proof.
  intros ops dv H K. destruct (inv_final ops) as [_ _ HD _]. rewrite H in HD. destruct HD as (_ & S & _).
  unfold last_reported_state. auto.
Qed.

(* camera: Running is reported only for a started camera *)
Lemma camera_running_started : forall ops dv,
  hd (final ops) = Some dv -> d_kind dv = KCam -> d_st dv = Running ->
  exists ta e tb, trace ops = ta ++ e :: tb /\ starts (d_id dv) e /\ forall e', In e' tb -> ~ decisive_stop (d_id dv) e'.
Proof.
  intros ops dv H K R. destruct (inv_final ops) as [_ _ HD _]. rewrite H in HD. destruct HD as (_ & _ & C).
  apply camera_started_witness. unfold camera_started. auto.
Qed.
