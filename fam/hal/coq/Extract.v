From Coq Require Import ZArith NArith List Bool.
From Coq Require Import ExtrOcamlBasic.
From Hal Require Import HalModel.
Extraction Language OCaml.
Extraction "halmodel.ml" init fixed step reported wf_op run.
