(* Properties_C11.v -- C11: HAL wrappers enforce the device protocol and never touch a closed device.

   "For any sequence of HAL calls on a camera or storage device and any status the driver returns, the driver sees
    only legal calls: no stop without a preceding successful start, no frame or append call outside the running
    state, exactly one close per open and nothing afterwards, not even a memory write to the released device.  The
    state the HAL reports always follows from the driver's last response."

   [ops] ranges over ALL finite lists of HAL calls (HalModel.op: the 22 exported functions of camera.c / storage.c, on
   a live or a NULL handle, with NULL arguments), and every call carries its own, arbitrary driver answers: any status
   code (0 Ok, 1 Err, any other integer), any returned device state, any value of the state field of the object handed
   out by open, NULL entries in the function table, missing driver, NULL open, NULL object, failing describe.
   [trace ops] is the complete list, oldest first, of driver calls (with the object they were issued on, the value of
   its state field at that moment and the driver's answer) and of touches of the object by the HAL.

   This file contains statements only; every proof is [exact <lemma of HalProofs.v>]. *)
From Coq Require Import ZArith NArith List Bool Arith.
From Hal Require Import HalModel HalSpec HalProofs.
Import ListNotations.
Local Open Scope Z_scope.

(* ---------------------------------------------------------------------------------------------------------------
   C11_stop_needs_running.  Whenever the driver's stop is called, the state field of the object holds Running, and
     - storage: Running is the state the driver itself last reported for that object (returned by its set / start /
       append / stop or, before any of them, found in the object it handed out at open).  Stated reading (DESIGN 6.11):
       the HAL has no other notion of "started" for storage; a driver that answers Running to `set` is stopped at close
       although start was never called -- this follows from "the state follows from the driver's last response";
     - camera: some earlier event e is a start answered Device_Ok (or the open, if the driver handed the object out
       already marked Running), and no stop answered Ok or Err lies between e and this stop: no stop without a
       preceding successful start, and at most one (decisive) stop per start. *)
Theorem C11_stop_needs_running :
  forall ops t1 d c st r t2,
    trace ops = t1 ++ ECall d c st r :: t2 -> c = CStop \/ c = SStop ->
    st = Running /\
    (c = SStop -> last_reported_state d t1 = Some Running) /\
    (c = CStop ->
       exists ta e tb, t1 = ta ++ e :: tb /\ starts d e /\ forall e', In e' tb -> ~ decisive_stop d e').
Proof. exact stop_needs_running. Qed.
Print Assumptions C11_stop_needs_running.

(* C11_io_needs_running.  The same for get_frame, the software trigger and append. *)
Theorem C11_io_needs_running :
  forall ops t1 d c st r t2,
    trace ops = t1 ++ ECall d c st r :: t2 -> c = CGetFrame \/ c = CTrigger \/ c = SAppend ->
    st = Running /\
    (c = SAppend -> last_reported_state d t1 = Some Running) /\
    (c <> SAppend ->
       exists ta e tb, t1 = ta ++ e :: tb /\ starts d e /\ forall e', In e' tb -> ~ decisive_stop d e').
Proof. exact io_needs_running. Qed.
Print Assumptions C11_io_needs_running.

(* what [last_reported_state] and the camera witness mean, spelled out *)
Theorem C11_last_reported_state_meaning :
  forall d v t, last_reported_state d t = Some v ->
    exists ta e tb, t = ta ++ e :: tb /\ reports d e v /\ forall e' v', In e' tb -> ~ reports d e' v'.
Proof. exact last_reported_witness. Qed.
Print Assumptions C11_last_reported_state_meaning.

(* ---------------------------------------------------------------------------------------------------------------
   C11_close_once, in four parts.
   (a) a close is the last thing that ever happens to an object: no second close, no call, no describe, and no read
       or write of any of its fields by the HAL (not even a memory write to the released device);
   (b) only objects the driver handed out are ever described, called, touched or closed;
   (c) every object whose open succeeded (open answered Ok with an object and describe answered Ok) has been closed,
       except the one object the client still holds, which has not: in particular an object opened by a HAL open that
       then returns NULL, and the temporary device of storage_validate, are closed before the call returns;
   (d) the HAL close call closes the object the client holds and leaves the client without a device.
   (a)+(c)+(d): exactly one close per successful open once the HAL close is called, at most one before. *)
Theorem C11_close_once_nothing_after :
  forall ops d t1 r t2,
    trace ops = t1 ++ EClose d r :: t2 -> forall e, In e t2 -> ev_dev e <> Some d.
Proof. exact nothing_after_close. Qed.
Print Assumptions C11_close_once_nothing_after.

Theorem C11_close_once_only_opened :
  forall ops d t1 e t2,
    trace ops = t1 ++ e :: t2 -> ev_dev e = Some d ->
    (exists r s0, e = EOpen r (Some (d, s0))) \/ opened_in d t1.
Proof. exact only_opened_objects. Qed.
Print Assumptions C11_close_once_only_opened.

Theorem C11_close_once_every_open_closed :
  forall ops d,
    open_succeeded d (trace ops) ->
    if holds (final ops) d then ~ closed_in d (trace ops) else closed_in d (trace ops).
Proof. exact closed_iff_not_held. Qed.
Print Assumptions C11_close_once_every_open_closed.

Theorem C11_close_once_hal_close :
  forall ops o d,
    holds (final ops) d = true -> closes (final ops) o = true ->
    hd (final (ops ++ [o])) = None /\ closed_in d (trace (ops ++ [o])).
Proof. exact hal_close_closes. Qed.
Print Assumptions C11_close_once_hal_close.

Theorem C11_close_once_failed_open :
  forall ops o,
    res_of (step fixed (final ops) o) = RHandle false -> hd (final (ops ++ [o])) = None.
Proof. exact failed_open_no_handle. Qed.
Print Assumptions C11_close_once_failed_open.

Theorem C11_handle_is_open :
  forall ops d, holds (final ops) d = true -> open_succeeded d (trace ops) /\ ~ closed_in d (trace ops).
Proof. exact held_is_open. Qed.
Print Assumptions C11_handle_is_open.

(* ---------------------------------------------------------------------------------------------------------------
   C11_state_follows.  What *_get_state reports after a history is obtained by folding HalSpec.state_table -- a
   table giving, per HAL call, the new reported state as a function of the previous one and of the driver's answers
   to that call -- over the history; it changes only in a HAL call during which the driver was called; for a storage
   device it IS the state the driver last reported, and at every storage call the driver finds that state in the
   object; a camera reports Running only if it has been started and not (decisively) stopped since. *)
Theorem C11_state_follows :
  forall ops, abs (final ops) = fold_left state_table ops None.
Proof. exact state_follows. Qed.
Print Assumptions C11_state_follows.

Theorem C11_state_follows_reported :
  forall s, reported s = match abs s with None => Closed | Some (_, st) => st end.
Proof. exact reported_abs. Qed.
Print Assumptions C11_state_follows_reported.

Theorem C11_state_follows_only_driver :
  forall s o, existsb is_drv_call (ev_of (step fixed s o)) = false -> abs (st_of (step fixed s o)) = abs s.
Proof. exact state_changes_only_on_driver_call. Qed.
Print Assumptions C11_state_follows_only_driver.

Theorem C11_state_follows_storage :
  forall ops dv,
    hd (final ops) = Some dv -> d_kind dv = KSto -> last_reported_state (d_id dv) (trace ops) = Some (d_st dv).
Proof. exact storage_reports_last. Qed.
Print Assumptions C11_state_follows_storage.

Theorem C11_state_follows_storage_calls :
  forall ops t1 d c st r t2,
    trace ops = t1 ++ ECall d c st r :: t2 -> is_sto_call c = true -> last_reported_state d t1 = Some st.
Proof. exact storage_call_state. Qed.
Print Assumptions C11_state_follows_storage_calls.

Theorem C11_state_follows_camera_running :
  forall ops dv,
    hd (final ops) = Some dv -> d_kind dv = KCam -> d_st dv = Running ->
    exists ta e tb, trace ops = ta ++ e :: tb /\ starts (d_id dv) e /\ forall e', In e' tb -> ~ decisive_stop (d_id dv) e'.
Proof. exact camera_running_started. Qed.
Print Assumptions C11_state_follows_camera_running.

(* the invariant all of the above rest on: every event of every trace was legal (HalSpec.legal) when it happened *)
Theorem C11_every_event_legal :
  forall ops t1 e t2, trace ops = t1 ++ e :: t2 -> legal (rev t1) e.
Proof. exact event_legal. Qed.
Print Assumptions C11_every_event_legal.

(* ===============================================================================================================
   Non-vacuity: each hypothesis above is met by a reachable, non-trivial history. *)
Definition good_open : open_resp := mkOpenResp true true Ok true Ok Await 255.
Definition no_stop_fn : open_resp := mkOpenResp true true Ok true Ok Running 223.    (* table without `stop` *)
Definition no_frame_fn : open_resp := mkOpenResp true true Ok true Ok Await 127.     (* table without `get_frame` *)

Definition cam_cycle : list op :=
  [OCamOpen 0 good_open 0; OCamSet false Ok 0; OCamStart Ok; OCamGetFrame Ok 0; OCamTrigger Ok; OCamGetFrame Err 2;
   OCamStart Ok; OCamStop Ok; OCamStop Ok; OCamClose 0].
Definition sto_cycle : list op :=
  [OStoOpen 0 good_open 0 0; OStoSet false Armed; OStoStart Running; OStoAppend 2 Running; OStoStop Armed;
   OStoSet false Running; OStoClose Armed 1].

(* a camera stop, a get_frame, a trigger; a stop that follows a get_frame failure and is answered with an unknown code *)
Example cam_cycle_trace :
  trace cam_cycle =
  [EOpen 0 (Some (0%nat, 1)); EDescribe 0 0; ETouch 0 WrDriver; ETouch 0 RdFn;
   ETouch 0 RdFn; ECall 0 CSet 1 0; ETouch 0 RdState; ETouch 0 (WrState 2);
   ETouch 0 RdFn; ECall 0 CStart 2 0; ETouch 0 (WrState 3);
   ETouch 0 RdState; ETouch 0 RdFn; ECall 0 CGetFrame 3 0;
   ETouch 0 RdState; ETouch 0 RdFn; ECall 0 CTrigger 3 0;
   ETouch 0 RdState; ETouch 0 RdFn; ECall 0 CGetFrame 3 1;
     ETouch 0 RdState; ETouch 0 RdIdent; ETouch 0 RdFn; ECall 0 CStop 3 2; ETouch 0 (WrState 1);
   ETouch 0 RdFn; ECall 0 CStart 1 0; ETouch 0 (WrState 3);
   ETouch 0 RdState; ETouch 0 RdIdent; ETouch 0 RdFn; ECall 0 CStop 3 0; ETouch 0 (WrState 2);
   ETouch 0 RdState;
   ETouch 0 RdDriver; EClose 0 0].
Proof. vm_compute. reflexivity. Qed.

(* storage: start/append/stop, then the stated reading: `set` answered Running, so close stops the device *)
Example sto_cycle_trace :
  trace sto_cycle =
  [EOpen 0 (Some (0%nat, 1)); EDescribe 0 0; ETouch 0 WrDriver; ETouch 0 RdFn;
   ETouch 0 RdFn; ECall 0 SSet 1 2; ETouch 0 (WrState 2); ETouch 0 RdState;
   ETouch 0 RdState; ETouch 0 RdFn; ECall 0 SStart 2 3; ETouch 0 (WrState 3);
   ETouch 0 RdState; ETouch 0 RdFn; ECall 0 SAppend 3 3; ETouch 0 (WrState 3); ETouch 0 RdState;
   ETouch 0 RdFn; ETouch 0 RdState; ETouch 0 RdFn; ECall 0 SStop 3 2; ETouch 0 (WrState 2);
   ETouch 0 RdFn; ECall 0 SSet 2 3; ETouch 0 (WrState 3); ETouch 0 RdState; ETouch 0 RdState;
   ETouch 0 RdFn; ETouch 0 RdState; ETouch 0 RdFn; ECall 0 SStop 3 2; ETouch 0 (WrState 2);
     ETouch 0 (WrState 0); ETouch 0 RdDriver; EClose 0 1].
Proof. vm_compute. reflexivity. Qed.

(* the hypotheses of (c), (d) and of the state theorems are reachable *)
Example held_reachable :
  holds (final [OStoOpen 0 good_open 0 0; OStoSet false Armed]) 0 = true /\
  closes (final [OStoOpen 0 good_open 0 0; OStoSet false Armed]) (OStoClose 0 0) = true /\
  open_succeeded 0 (trace [OStoOpen 0 good_open 0 0; OStoSet false Armed]).
Proof.
  split; [vm_compute; reflexivity|]. split; [vm_compute; reflexivity|].
  split; [exists 0, 1 | ]; vm_compute; auto.
Qed.

(* a HAL open that fails after the driver's open succeeded: the object is closed inside the call (D17, and the
   storage_open error path, which stops a device that was handed out Running first) *)
Example failed_camera_open_closes :
  trace [OCamOpen 0 no_frame_fn 7] =
  [EOpen 0 (Some (0%nat, 1)); EDescribe 0 0; ETouch 0 WrDriver; ETouch 0 RdFn; ETouch 0 RdDriver; EClose 0 7]
  /\ res_of (step fixed init (OCamOpen 0 no_frame_fn 7)) = RHandle false.
Proof. split; vm_compute; reflexivity. Qed.

Example failed_storage_open_closes :
  trace [OStoOpen 0 no_stop_fn 2 0] =
  [EOpen 0 (Some (0%nat, 3)); EDescribe 0 0; ETouch 0 WrDriver; ETouch 0 RdFn;
   ETouch 0 RdFn; ETouch 0 (WrState 0); ETouch 0 RdDriver; EClose 0 0].
Proof. vm_compute. reflexivity. Qed.

(* storage_validate on a foreign device (D27) and on a good one, while the client holds a camera *)
Example validate_closes :
  trace [OCamOpen 0 good_open 0; OStoValidate 0 good_open false Armed 0 0; OStoValidate 0 good_open true Armed 0 0] =
  [EOpen 0 (Some (0%nat, 1)); EDescribe 0 0; ETouch 0 WrDriver; ETouch 0 RdFn;
   EOpen 0 (Some (1%nat, 1)); EDescribe 1 0; ETouch 1 WrDriver; ETouch 1 RdIdent; ETouch 1 RdDriver; EClose 1 0;
   EOpen 0 (Some (2%nat, 1)); EDescribe 2 0; ETouch 2 WrDriver; ETouch 2 RdIdent; ETouch 2 WrIdent;
     ETouch 2 RdFn; ECall 2 SSet 1 2; ETouch 2 (WrState 2); ETouch 2 RdState;
     ETouch 2 RdFn; ETouch 2 RdState; ETouch 2 (WrState 0); ETouch 2 RdDriver; EClose 2 0].
Proof. vm_compute. reflexivity. Qed.

(* state table: a non-trivial fold *)
Example state_table_example :
  fold_left state_table cam_cycle None = None /\
  fold_left state_table (firstn 3 cam_cycle) None = Some (KCam, Running) /\
  fold_left state_table (firstn 6 cam_cycle) None = Some (KCam, Await) /\
  fold_left state_table (firstn 6 sto_cycle) None = Some (KSto, Running).
Proof. vm_compute. auto. Qed.

(* ===============================================================================================================
   Sensitivity: with a repair switched off the model produces exactly the trace the theorems exclude.
   (These are the three defects confirmed on the unrepaired /repo; corpus/C11/*.txt replays them on the real code.) *)
Definition d10_only : variant := mkVariant false true true.
Definition d17_only : variant := mkVariant true false true.
Definition d27_only : variant := mkVariant true true false.

(* D10: storage_close writes the state field of the object AFTER the driver released it *)
Example D10_unrepaired_writes_after_close :
  snd (run d10_only init [OStoOpen 0 good_open 0 0; OStoClose 0 0]) =
  [EOpen 0 (Some (0%nat, 1)); EDescribe 0 0; ETouch 0 WrDriver; ETouch 0 RdFn;
   ETouch 0 RdFn; ETouch 0 RdState; ETouch 0 RdDriver; EClose 0 0; ETouch 0 (WrState 0)].
Proof. vm_compute. reflexivity. Qed.

(* D17: camera_open returns NULL without closing the device it opened *)
Example D17_unrepaired_never_closes :
  run d17_only init [OCamOpen 0 no_frame_fn 0] =
  (mkHal None 1, [EOpen 0 (Some (0%nat, 1)); EDescribe 0 0; ETouch 0 WrDriver; ETouch 0 RdFn]).
Proof. vm_compute. reflexivity. Qed.

(* D27: storage_validate returns 0 without closing a device that is not a Storage *)
Example D27_unrepaired_never_closes :
  run d27_only init [OStoValidate 0 good_open false Armed 0 0] =
  (mkHal None 1, [EOpen 0 (Some (0%nat, 1)); EDescribe 0 0; ETouch 0 WrDriver; ETouch 0 RdIdent]).
Proof. vm_compute. reflexivity. Qed.
