(* HalModel.v -- executable model of the HAL wrappers (property C11, DESIGN 6.11)

     acquire-core-libs/src/acquire-device-hal/device/hal/driver.c    driver_open_device, driver_close_device
     acquire-core-libs/src/acquire-device-hal/device/hal/camera.c    camera_open .. camera_get_state   (all 11 exported)
     acquire-core-libs/src/acquire-device-hal/device/hal/storage.c   storage_validate .. storage_reserve_image_shape (all 11)

   One Gallina function per C function, one `if` per `if`/CHECK of the C, in the same order.  No proofs in this file.

   What is modelled
   ----------------
   * The client owns ONE handle variable ([hd]): NULL ([None]) before open, after a failed open and after close
     (a C client cannot legally keep using a released pointer).  Every wrapper may be called on a NULL handle.
   * The HAL-visible state of a live device is the `state` field of the object (struct Camera / struct Storage);
     it is a raw integer because storage.c stores whatever the driver returns (also values outside the enum).
   * Every driver call takes its answer from the op itself (the "oracle argument"): any status code (0 Ok, 1 Err,
     anything else: unknown), any returned device state, the `state` value of the object handed out by open, NULL
     entries in the function table at open, a missing driver, a NULL `open`, a NULL object, a failing `describe`.
   * Every step returns the list of EVENTS it produced, in order: the driver calls (with the number of the object
     they were issued on, the value of that object's `state` field at that moment and the driver's answer) and every
     TOUCH of the object by the HAL (reads/writes of `state`, reads of the function table, of `device.driver`, the
     writes of `device.driver` and `device.identifier`).  Objects are numbered in the order in which the driver's
     `open` hands them out, so "a write into object d after close#d" is a first-class event.

   The model describes the code WITH the repairs fixes/01..03 applied ([fixed]).  The three booleans of [variant]
   switch each repair off again; the unrepaired variants are only used for the refutation Examples in
   Properties_C11.v (they show that the theorems are sensitive to exactly these defects).                              *)
From Coq Require Import ZArith NArith List Bool.
Import ListNotations.
Local Open Scope Z_scope.

(* enum DeviceStatusCode, enum DeviceState (device/props/device.h) *)
Definition Ok : Z := 0.
Definition Err : Z := 1.
Definition Closed : Z := 0.
Definition Await : Z := 1.      (* DeviceState_AwaitingConfiguration *)
Definition Armed : Z := 2.
Definition Running : Z := 3.

Inductive kind := KCam | KSto.

(* entries of the function tables of struct Camera / struct Storage that the HAL calls (destroy is never called) *)
Inductive dcall :=
| CSet | CGet | CGetMeta | CGetShape | CStart | CStop | CTrigger | CGetFrame
| SSet | SGet | SGetMeta | SStart | SAppend | SStop | SReserve.

Inductive access :=
| RdState | WrState (v : Z)     (* self->state *)
| RdFn                          (* an entry of the function table (NULL check or call through it) *)
| RdDriver | WrDriver           (* self->device.driver *)
| RdIdent | WrIdent.            (* self->device.identifier *)

Inductive ev :=
| EOpen (r : Z) (o : option (nat * Z))       (* driver->open answered r; Some (d, s0): r = Ok and it handed out object d, state field = s0 *)
| EDescribe (d : nat) (r : Z)                (* driver->describe(driver, &d->identifier, id) answered r *)
| EClose (d : nat) (r : Z)                   (* driver->close(driver, d) answered r: object d is released *)
| ECall (d : nat) (c : dcall) (st : Z) (r : Z)  (* table call c on object d, issued while d->state = st, answered r
                                                   (a status for camera calls, a state for SSet/SStart/SAppend/SStop, 0 for void calls) *)
| ETouch (d : nat) (a : access).             (* the HAL reads / writes a field of object d *)

(* what the driver side answers at open *)
Record open_resp := mkOpenResp {
  o_driver : bool;     (* device_manager_get_driver returned a driver *)
  o_hasopen : bool;    (* driver->open != NULL *)
  o_open : Z;          (* status returned by driver->open *)
  o_obj : bool;        (* out[0] != NULL *)
  o_describe : Z;      (* status returned by driver->describe *)
  o_state : Z;         (* value of the state field of the object handed out *)
  o_fns : N            (* bit i set <=> entry i of the function table is non-NULL
                          camera : 0 set 1 get 2 get_shape 3 get_meta 4 start 5 stop 6 execute_trigger 7 get_frame
                          storage: 0 set 1 get 2 get_meta 3 start 4 append 5 stop 6 destroy 7 reserve_image_shape *)
}.

Record dev := mkDev { d_id : nat; d_kind : kind; d_st : Z }.

Record hal := mkHal {
  hd : option dev;     (* the client's handle *)
  nopen : nat          (* number of objects handed out by driver->open so far (ghost: numbers the objects) *)
}.

Definition init : hal := mkHal None 0.

Inductive res :=
| RStatus (z : Z)      (* enum DeviceStatusCode returned *)
| RHandle (b : bool)   (* open: non-NULL? *)
| RVoid
| RState (z : Z)       (* *_get_state *)
| RBool (b : bool)     (* storage_validate *)
| RNotWf.              (* not a well-formed client action (see [step]); nothing is called *)

(* which repairs are in the code: true = repaired *)
Record variant := mkVariant {
  v_d10 : bool;        (* storage_close: state = Closed is written BEFORE the driver releases the object *)
  v_d17 : bool;        (* camera_open closes the device when its function table is incomplete *)
  v_d27 : bool         (* storage_validate closes the device when it is not a Storage device *)
}.
Definition fixed : variant := mkVariant true true true.

Definition set_st (d : dev) (v : Z) : dev := mkDev (d_id d) (d_kind d) v.
Definition with_dev (s : hal) (d : dev) : hal := mkHal (Some d) (nopen s).

(* ------------------------------------------------------------------------------------------------ driver.c *)

(* driver_open_device: result (Some (object, state field) when Device_Ok), new object counter, events *)
Definition driver_open_device (n : nat) (r : open_resp) : option (nat * Z) * nat * list ev :=
  if negb (o_driver r) then (None, n, [])                                   (* EXPECT(driver) *)
  else if negb (o_hasopen r) then (None, n, [])                             (* EXPECT(driver->open) *)
  else if negb (o_open r =? Ok) then (None, n, [EOpen (o_open r) None])     (* CHECK(Device_Ok == driver->open(..)) *)
  else if negb (o_obj r) then (None, n, [EOpen Ok None])                    (* CHECK( *out ) *)
  else if negb (o_describe r =? Ok)                                         (* CHECK(Device_Ok == driver->describe(..)) *)
  then (None, S n, [EOpen Ok (Some (n, o_state r)); EDescribe n (o_describe r)])
  else (Some (n, o_state r), S n,
        [EOpen Ok (Some (n, o_state r)); EDescribe n Ok; ETouch n WrDriver]).   (* out[0]->driver = driver *)

(* driver_close_device *)
Definition driver_close_device (d : nat) (rclose : Z) : list ev :=
  [ETouch d RdDriver; EClose d rclose].

Definition all8 (m : N) : bool :=
  forallb (N.testbit m) [0; 1; 2; 3; 4; 5; 6; 7]%N.

(* ------------------------------------------------------------------------------------------------ camera.c *)

(* camera_close (self != NULL) *)
Definition camera_close_ev (d : nat) (rclose : Z) : list ev :=
  [ETouch d RdDriver; EClose d rclose].

(* camera_stop (self != NULL): new state, returned status, events *)
Definition camera_stop_dev (d : dev) (rstop : Z) : Z * Z * list ev :=
  let i := d_id d in
  if d_st d =? Running then
    let pre := [ETouch i RdState; ETouch i RdIdent; ETouch i RdFn; ECall i CStop (d_st d) rstop] in   (* LOG(.. identifier.name) *)
    if rstop =? Ok then (Armed, rstop, pre ++ [ETouch i (WrState Armed)])
    else if rstop =? Err then (Await, rstop, pre ++ [ETouch i (WrState Await)])
    else (d_st d, rstop, pre)
  else (d_st d, Ok, [ETouch i RdState]).

Definition camera_open (v : variant) (s : hal) (ident : Z) (r : open_resp) (rclose : Z) : hal * res * list ev :=
  if negb (ident =? 0) then (s, RHandle false, [])            (* CHECK(identifier); CHECK(kind == Camera) *)
  else
    let '(o, n', es) := driver_open_device (nopen s) r in
    match o with
    | None => (mkHal None n', RHandle false, es)
    | Some (d, s0) =>
        if all8 (o_fns r)                                       (* the eight CHECK(self->f != NULL) *)
        then (mkHal (Some (mkDev d KCam s0)) n', RHandle true, es ++ [ETouch d RdFn])
        else (mkHal None n', RHandle false,
              es ++ [ETouch d RdFn] ++ (if v_d17 v then camera_close_ev d rclose else []))
    end.

Definition camera_close (s : hal) (rclose : Z) : hal * res * list ev :=
  match hd s with
  | None => (s, RVoid, [])
  | Some d => (mkHal None (nopen s), RVoid, camera_close_ev (d_id d) rclose)
  end.

Definition camera_set (s : hal) (argnull : bool) (rs rstop : Z) : hal * res * list ev :=
  match hd s with
  | None => (s, RStatus Err, [])
  | Some d =>
      if argnull then (s, RStatus Err, [])
      else
        let i := d_id d in
        let pre := [ETouch i RdFn; ECall i CSet (d_st d) rs] in
        if rs =? Ok then
          if negb (d_st d =? Running)
          then (with_dev s (set_st d Armed), RStatus rs, pre ++ [ETouch i RdState; ETouch i (WrState Armed)])
          else (s, RStatus rs, pre ++ [ETouch i RdState])
        else if rs =? Err then
          let '(_, _, es) := camera_stop_dev d rstop in
          (with_dev s (set_st d Await), RStatus rs, pre ++ es ++ [ETouch i (WrState Await)])
        else (s, RStatus rs, pre)
  end.

(* camera_get, camera_get_meta, camera_get_image_shape *)
Definition camera_passthrough (s : hal) (c : dcall) (argnull : bool) (rs : Z) : hal * res * list ev :=
  match hd s with
  | None => (s, RStatus Err, [])
  | Some d =>
      if argnull then (s, RStatus Err, [])
      else (s, RStatus rs, [ETouch (d_id d) RdFn; ECall (d_id d) c (d_st d) rs])
  end.

Definition camera_start (s : hal) (rs : Z) : hal * res * list ev :=
  match hd s with
  | None => (s, RStatus Err, [])
  | Some d =>
      let i := d_id d in
      let pre := [ETouch i RdFn; ECall i CStart (d_st d) rs] in
      if rs =? Ok then (with_dev s (set_st d Running), RStatus rs, pre ++ [ETouch i (WrState Running)])
      else if rs =? Err then (with_dev s (set_st d Await), RStatus rs, pre ++ [ETouch i (WrState Await)])
      else (s, RStatus rs, pre)
  end.

Definition camera_stop (s : hal) (rstop : Z) : hal * res * list ev :=
  match hd s with
  | None => (s, RStatus Err, [])
  | Some d =>
      let '(st', ecode, es) := camera_stop_dev d rstop in
      (with_dev s (set_st d st'), RStatus ecode, es)
  end.

Definition camera_execute_trigger (s : hal) (rs : Z) : hal * res * list ev :=
  match hd s with
  | None => (s, RStatus Err, [])
  | Some d =>
      let i := d_id d in
      if d_st d =? Running
      then (s, RStatus rs, [ETouch i RdState; ETouch i RdFn; ECall i CTrigger (d_st d) rs])
      else (s, RStatus Ok, [ETouch i RdState])
  end.

Definition camera_get_frame (s : hal) (rs rstop : Z) : hal * res * list ev :=
  match hd s with
  | None => (s, RStatus Err, [])
  | Some d =>
      let i := d_id d in
      if negb (d_st d =? Running) then (s, RStatus Err, [ETouch i RdState])
      else
        let pre := [ETouch i RdState; ETouch i RdFn; ECall i CGetFrame (d_st d) rs] in
        if negb (rs =? Ok) then
          let '(_, _, es) := camera_stop_dev d rstop in
          (with_dev s (set_st d Await), RStatus rs, pre ++ es ++ [ETouch i (WrState Await)])
        else (s, RStatus rs, pre)
  end.

Definition get_state (s : hal) : hal * res * list ev :=
  match hd s with
  | None => (s, RState Closed, [])
  | Some d => (s, RState (d_st d), [ETouch (d_id d) RdState])
  end.

(* ------------------------------------------------------------------------------------------------ storage.c *)

(* storage_stop (self != NULL); [hasstop]: self->stop != NULL.  new state, status, events *)
Definition storage_stop_dev (i : nat) (st : Z) (hasstop : bool) (rstop : Z) : Z * Z * list ev :=
  if negb hasstop then (st, Err, [ETouch i RdFn])                          (* CHECK(self->stop) *)
  else if st =? Running then
    let es := [ETouch i RdFn; ETouch i RdState; ETouch i RdFn; ECall i SStop st rstop; ETouch i (WrState rstop)] in
    if rstop =? Armed then (rstop, Ok, es)                                 (* (self->state = stop()) == Armed *)
    else if rstop =? Await then (rstop, Ok, es ++ [ETouch i RdState])      (* || self->state == Await *)
    else (rstop, Err, es ++ [ETouch i RdState; ETouch i RdState])         (* + device_state_as_string(self->state) *)
  else (st, Ok, [ETouch i RdFn; ETouch i RdState]).

(* storage_close (self != NULL) *)
Definition storage_close_ev (v : variant) (i : nat) (st : Z) (hasstop : bool) (rstop rclose : Z) : list ev :=
  let '(_, _, es) := storage_stop_dev i st hasstop rstop in
  if v_d10 v
  then es ++ [ETouch i (WrState Closed)] ++ driver_close_device i rclose
  else es ++ driver_close_device i rclose ++ [ETouch i (WrState Closed)].

Definition storage_open (v : variant) (s : hal) (ident : Z) (r : open_resp) (rstop rclose : Z) : hal * res * list ev :=
  if negb (ident =? 0) then (s, RHandle false, [])            (* CHECK(identifier); CHECK(kind == Storage); Error: storage_close(0) *)
  else
    let '(o, n', es) := driver_open_device (nopen s) r in
    match o with
    | None => (mkHal None n', RHandle false, es)
    | Some (d, s0) =>
        if all8 (o_fns r)
        then (mkHal (Some (mkDev d KSto s0)) n', RHandle true, es ++ [ETouch d RdFn])
        else (mkHal None n', RHandle false,                   (* Error: storage_close(self) *)
              es ++ [ETouch d RdFn] ++ storage_close_ev v d s0 (N.testbit (o_fns r) 5) rstop rclose)
    end.

Definition storage_set (s : hal) (argnull : bool) (r : Z) : hal * res * list ev :=
  match hd s with
  | None => (s, RStatus Err, [])
  | Some d =>
      if argnull then (s, RStatus Err, [])
      else
        let i := d_id d in
        let es := [ETouch i RdFn; ECall i SSet (d_st d) r; ETouch i (WrState r); ETouch i RdState] in
        if r =? Armed then (with_dev s (set_st d r), RStatus Ok, es)
        else (with_dev s (set_st d r), RStatus Err, es ++ [ETouch i RdState])
  end.

(* storage_get, storage_get_meta, storage_reserve_image_shape: CHECK(self->f); self->f(..); return Device_Ok *)
Definition storage_void (s : hal) (c : dcall) : hal * res * list ev :=
  match hd s with
  | None => (s, RStatus Err, [])
  | Some d => (s, RStatus Ok, [ETouch (d_id d) RdFn; ETouch (d_id d) RdFn; ECall (d_id d) c (d_st d) 0])
  end.

Definition storage_start (s : hal) (r : Z) : hal * res * list ev :=
  match hd s with
  | None => (s, RStatus Err, [])
  | Some d =>
      let i := d_id d in
      if negb (d_st d =? Armed) then (s, RStatus Err, [ETouch i RdState])
      else
        let es := [ETouch i RdState; ETouch i RdFn; ECall i SStart (d_st d) r; ETouch i (WrState r)] in
        (with_dev s (set_st d r), RStatus (if r =? Running then Ok else Err), es)
  end.

Definition storage_stop (s : hal) (rstop : Z) : hal * res * list ev :=
  match hd s with
  | None => (s, RStatus Err, [])
  | Some d =>
      let '(st', ecode, es) := storage_stop_dev (d_id d) (d_st d) true rstop in
      (with_dev s (set_st d st'), RStatus ecode, es)
  end.

(* arg: 0 end < beg, 1 beg = end, otherwise beg < end *)
Definition storage_append (s : hal) (arg : Z) (r : Z) : hal * res * list ev :=
  match hd s with
  | None => (s, RStatus Err, [])
  | Some d =>
      let i := d_id d in
      if negb (d_st d =? Running) then (s, RStatus Err, [ETouch i RdState])
      else if arg =? 0 then (s, RStatus Err, [ETouch i RdState])
      else if arg =? 1 then (s, RStatus Ok, [ETouch i RdState])
      else
        let es := [ETouch i RdState; ETouch i RdFn; ECall i SAppend (d_st d) r; ETouch i (WrState r); ETouch i RdState] in
        (with_dev s (set_st d r), RStatus (if r =? Running then Ok else Err), es)
  end.

Definition storage_close (v : variant) (s : hal) (rstop rclose : Z) : hal * res * list ev :=
  match hd s with
  | None => (s, RVoid, [])
  | Some d => (mkHal None (nopen s), RVoid, storage_close_ev v (d_id d) (d_st d) true rstop rclose)
  end.

(* storage_validate: works on a device of its own; the client's handle is not involved.
   ident: 0 a Storage identifier, otherwise an identifier of another kind (NULL is not allowed: no check in the C). *)
Definition storage_validate (v : variant) (s : hal) (ident : Z) (r : open_resp) (kind_ok : bool)
           (rset rstop rclose : Z) : hal * res * list ev :=
  if negb (ident =? 0) then (s, RBool false, [])               (* EXPECT(identifier->kind == Storage); Finalize: storage_close(0) *)
  else
    let '(o, n', es) := driver_open_device (nopen s) r in
    match o with
    | None => (mkHal (hd s) n', RBool false, es)
    | Some (d, s0) =>
        if negb kind_ok                                         (* EXPECT(device->identifier.kind == Storage) *)
        then (mkHal (hd s) n', RBool false,
              es ++ [ETouch d RdIdent] ++ (if v_d27 v then driver_close_device d rclose else []))
        else
          let es1 := es ++ [ETouch d RdIdent; ETouch d WrIdent; ETouch d RdFn; ECall d SSet s0 rset; ETouch d (WrState rset); ETouch d RdState] in
          (mkHal (hd s) n', RBool (rset =? Armed),
           es1 ++ storage_close_ev v d rset (N.testbit (o_fns r) 5) rstop rclose)
    end.

(* ------------------------------------------------------------------------------------------------ the HAL calls *)
Inductive op :=
| OCamOpen (ident : Z) (r : open_resp) (rclose : Z)
| OCamSet (argnull : bool) (rs rstop : Z)
| OCamGet (argnull : bool) (rs : Z)
| OCamGetMeta (argnull : bool) (rs : Z)
| OCamGetShape (argnull : bool) (rs : Z)
| OCamStart (rs : Z)
| OCamStop (rstop : Z)
| OCamTrigger (rs : Z)
| OCamGetFrame (rs rstop : Z)
| OCamClose (rclose : Z)
| OCamGetState
| OStoOpen (ident : Z) (r : open_resp) (rstop rclose : Z)
| OStoSet (argnull : bool) (r : Z)
| OStoGet
| OStoGetMeta
| OStoReserve
| OStoStart (r : Z)
| OStoStop (rstop : Z)
| OStoAppend (arg : Z) (r : Z)
| OStoClose (rstop rclose : Z)
| OStoGetState
| OStoValidate (ident : Z) (r : open_resp) (kind_ok : bool) (rset rstop rclose : Z).

Definition is_cam_op (o : op) : bool :=
  match o with
  | OCamOpen _ _ _ | OCamSet _ _ _ | OCamGet _ _ | OCamGetMeta _ _ | OCamGetShape _ _ | OCamStart _ | OCamStop _
  | OCamTrigger _ | OCamGetFrame _ _ | OCamClose _ | OCamGetState => true
  | _ => false
  end.

(* A C client cannot: open into a handle that is live (it would lose the pointer), pass a Storage* to camera_*
   or a Camera* to storage_*; storage_validate needs a driver with a `set` entry and a non-NULL identifier. *)
Definition wf_op (s : hal) (o : op) : bool :=
  match o with
  | OStoValidate ident r _ _ _ _ => N.testbit (o_fns r) 0 && negb (ident =? 1)
  | OCamOpen _ _ _ | OStoOpen _ _ _ _ => match hd s with None => true | Some _ => false end
  | _ =>
      match hd s with
      | None => true
      | Some d => match d_kind d with KCam => is_cam_op o | KSto => negb (is_cam_op o) end
      end
  end.

Definition step (v : variant) (s : hal) (o : op) : hal * res * list ev :=
  if negb (wf_op s o) then (s, RNotWf, [])
  else
    match o with
    | OCamOpen ident r rclose => camera_open v s ident r rclose
    | OCamSet a rs rstop => camera_set s a rs rstop
    | OCamGet a rs => camera_passthrough s CGet a rs
    | OCamGetMeta a rs => camera_passthrough s CGetMeta a rs
    | OCamGetShape a rs => camera_passthrough s CGetShape a rs
    | OCamStart rs => camera_start s rs
    | OCamStop rstop => camera_stop s rstop
    | OCamTrigger rs => camera_execute_trigger s rs
    | OCamGetFrame rs rstop => camera_get_frame s rs rstop
    | OCamClose rclose => camera_close s rclose
    | OCamGetState => get_state s
    | OStoOpen ident r rstop rclose => storage_open v s ident r rstop rclose
    | OStoSet a r => storage_set s a r
    | OStoGet => storage_void s SGet
    | OStoGetMeta => storage_void s SGetMeta
    | OStoReserve => storage_void s SReserve
    | OStoStart r => storage_start s r
    | OStoStop rstop => storage_stop s rstop
    | OStoAppend arg r => storage_append s arg r
    | OStoClose rstop rclose => storage_close v s rstop rclose
    | OStoGetState => get_state s
    | OStoValidate ident r k rset rstop rclose => storage_validate v s ident r k rset rstop rclose
    end.

(* a whole history: final state and the complete event trace, oldest event first *)
Fixpoint run (v : variant) (s : hal) (ops : list op) : hal * list ev :=
  match ops with
  | [] => (s, [])
  | o :: ops' =>
      let '(s1, _, es) := step v s o in
      let '(s2, t) := run v s1 ops' in
      (s2, es ++ t)
  end.

Definition final (ops : list op) : hal := fst (run fixed init ops).
Definition trace (ops : list op) : list ev := snd (run fixed init ops).

(* what *_get_state(handle) returns *)
Definition reported (s : hal) : Z :=
  match hd s with None => Closed | Some d => d_st d end.
