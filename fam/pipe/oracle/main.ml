(* main.ml -- line-protocol driver around the extracted pipeline model (Pipe.PipeModel).
   stdin: one event per line (see fam/pipe/pipelib.py: to_events), traces separated by a line "end <id>".
   stdout per trace: "<id> ACCEPT <n>" or "<id> REJECT <index> <event text>", then a line "<id> STATE ..." describing the
   model state after the accepted prefix (per stream: stored ids, delivered count, pcs) for the Python side. *)
open Pipemodel

let rec pos_of_int n = if n <= 1 then XH else if n land 1 = 0 then XO (pos_of_int (n lsr 1)) else XI (pos_of_int (n lsr 1))
let n_of_int n = if n <= 0 then N0 else Npos (pos_of_int n)
let rec nat_of_int n = if n <= 0 then O else S (nat_of_int (n - 1))
let rec int_of_nat = function O -> 0 | S n -> 1 + int_of_nat n
let rec int_of_pos = function XH -> 1 | XO p -> 2 * int_of_pos p | XI p -> 2 * int_of_pos p + 1
let int_of_n = function N0 -> 0 | Npos p -> int_of_pos p

let frm_of_string s =
  match String.split_on_char ':' s with
  | [t; i; h; sh] -> { f_tag = n_of_int (int_of_string t); f_id = n_of_int (int_of_string i); f_hw = n_of_int (int_of_string h); f_sh = n_of_int (int_of_string sh) }
  | _ -> failwith ("bad frame " ^ s)

let actor_of = function "cli" -> ACli | "src" -> ASrc | "sink" -> ASink | "filt" -> AFilt | s -> failwith ("actor " ^ s)
let role_of = function "src" -> RSrc | "sink" -> RSink | "filt" -> RFilt | s -> failwith ("role " ^ s)
let rd_of = function "sink" -> RdSink | "mon" -> RdMon | s -> failwith ("reader " ^ s)
let okb = function "ok" | "1" -> true | _ -> false
let hst_of = function "await" -> HAwait | "armed" -> HArmed | "running" -> HRunning | s -> failwith ("state " ^ s)
let ni s = n_of_int (int_of_string s)

let sev_of = function
  | ["opencam"; i] -> DOpenCam (ni i) | ["closecam"; i] -> DCloseCam (ni i) | ["setcam"; i] -> DSetCam (ni i)
  | ["opensto"; i] -> DOpenSto (ni i) | ["closesto"; i] -> DCloseSto (ni i) | ["setsto"; i] -> DSetSto (ni i)
  | ["stostart"; i; r] -> DStoStart (ni i, okb r)
  | ["camstart"; i; r; t] -> DCamStart (ni i, okb r, ni t)
  | ["camstop"; i] -> DCamStop (ni i) | ["stostop"; i] -> DStoStop (ni i) | ["trigger"; i] -> DTrigger (ni i)
  | ["getframe"; i; "ok"; hw; tag; sh] -> DGetFrame (ni i, Some ((ni hw, ni tag), ni sh))
  | ["getframe"; i; "fail"] -> DGetFrame (ni i, None)
  | ["getempty"; i] -> DGetEmpty (ni i)
  | "append" :: i :: r :: fs -> DAppend (ni i, okb r, List.map frm_of_string fs)
  | ["wmapenter"] -> WMapEnter | ["wmap"; r] -> WMap (okb r)
  | ["commit"; r; f] -> Commit (okb r, frm_of_string f)
  | ["accept"; b] -> Accept (okb b)
  | ["rmapenter"; r] -> RMapEnter (rd_of r)
  | "rmap" :: r :: fs -> RMap (rd_of r, List.map frm_of_string fs)
  | ["runmap"; r; c] -> RUnmap (rd_of r, nat_of_int (int_of_string c))
  | ["cbstopfilter"] -> CbStopFilter | ["cbstopsink"] -> CbStopSink | ["cbstopsource"] -> CbStopSource
  | ["spawn"; w] -> Spawn (role_of w) | ["exit"; w] -> Exit (role_of w) | ["joined"; w] -> Joined (role_of w)
  | ["monrefused"] -> MonMapRefused | ["monret"; r] -> MonMapRet (okb r)
  | ["startrefused"; w] -> StartRefused (role_of w)
  | l -> failwith ("bad stream event: " ^ String.concat " " l)

let gev_of = function
  | ["configure"; v0; v1; n0; n1] -> GConfigure (okb v0, okb v1, ni n0, ni n1)
  | ["startcall"] -> GStartCall | ["startret"; r] -> GStartRet (okb r)
  | ["startrefused"] -> GStartRefused
  | ["stopcall"] -> GStopCall | ["stopret"] -> GStopRet
  | ["abortcall"] -> GAbortCall | ["abortret"] -> GAbortRet
  | ["shutdowncall"] -> GShutdownCall | ["shutdownret"] -> GShutdownRet
  | ["state"; s] -> GState (hst_of s)
  | l -> failwith ("bad global event: " ^ String.concat " " l)

let event_of line =
  match List.filter (fun s -> s <> "") (String.split_on_char ' ' line) with
  | "S" :: i :: a :: rest -> EvS (i = "1", actor_of a, sev_of rest)
  | "G" :: rest -> EvG (gev_of rest)
  | _ -> failwith ("bad event line: " ^ line)

let ids l = String.concat "," (List.map (fun f -> Printf.sprintf "%d:%d:%d" (int_of_n f.f_tag) (int_of_n f.f_id) (int_of_n f.f_hw)) l)
let spc_name = function SOff -> "SOff" | SLoop -> "SLoop" | SWMap -> "SWMap" | SMapped -> "SMapped" | SGot _ -> "SGot" | SFailStop -> "SFailStop"
  | SLeave -> "SLeave" | SWind1 -> "SWind1" | SWind2 -> "SWind2" | SExiting -> "SExiting" | SDone -> "SDone"
let kpc_name = function KOff -> "KOff" | KTest -> "KTest" | KMainMapping -> "KMainMapping" | KMainMapped _ -> "KMainMapped"
  | KMainAppended _ -> "KMainAppended" | KMainAgain -> "KMainAgain" | KFlushMapping -> "KFlushMapping" | KFlushMapped _ -> "KFlushMapped"
  | KFlushAppended _ -> "KFlushAppended" | KFlushAgain -> "KFlushAgain" | KStop -> "KStop" | KErrCb _ -> "KErrCb" | KErrAccept _ -> "KErrAccept"
  | KErrUnmap _ -> "KErrUnmap" | KDrainAgain -> "KDrainAgain" | KDrainMapping -> "KDrainMapping" | KDrainMapped _ -> "KDrainMapped"
  | KExiting -> "KExiting" | KDone -> "KDone"
let fpc_name = function FOff -> "FOff" | FRun -> "FRun" | FDone -> "FDone"
let cstop_name = function CNone -> "CNone" | CWaitJoin -> "CWaitJoin" | CFlush0 -> "CFlush0" | CFlush -> "CFlush" | CFlushMapping -> "CFlushMapping"
  | CFlushMapped _ -> "CFlushMapped" | CStopped -> "CStopped"
let hst_name = function HAwait -> "await" | HArmed -> "armed" | HRunning -> "running"
let b2s b = if b then "1" else "0"
let describe (s : stream) =
  Printf.sprintf "valid=%s pcs=%s/%s/%s/%s cam=%s sto=%s acc=%s flags(src,sink,filt stop)=%s%s%s win=%s log=%d base=%d sinkcur=%d moncur=%d monreg=%s iframe=%d maxn=%d stored=[%s] delivered=%d"
    (b2s s.valid) (spc_name s.s_pc) (kpc_name s.k_pc) (fpc_name s.f_pc) (cstop_name s.c_stop) (hst_name s.cam_st) (hst_name s.sto_st)
    (b2s s.accepting) (b2s s.src_stopping) (b2s s.sink_stopping) (b2s s.filt_stopping) (b2s s.abort_win) (List.length s.log) (int_of_nat s.base)
    (int_of_nat s.sink_cur) (int_of_nat s.mon_cur) (b2s s.mon_reg) (int_of_n s.iframe) (int_of_n s.maxn) (ids s.stored) (List.length s.delivered)

let () =
  let y = ref init_sys and n = ref 0 and rejected = ref None in
  (try
     while true do
       let line = input_line stdin in
       if String.length line >= 3 && String.sub line 0 3 = "end" then begin
         let id = String.trim (String.sub line 3 (String.length line - 3)) in
         (match !rejected with
          | None -> Printf.printf "%s ACCEPT %d\n" id !n
          | Some (i, txt) -> Printf.printf "%s REJECT %d %s\n" id i txt);
         Printf.printf "%s STATE api=%s s0{%s} s1{%s}\n" id (hst_name !y.api) (describe !y.st0) (describe !y.st1);
         y := init_sys; n := 0; rejected := None
       end else if !rejected = None && String.trim line <> "" then begin
         match (try Some (event_of line) with Failure m -> rejected := Some (!n, "PARSE " ^ m); None) with
         | None -> ()
         | Some ev ->
           (match step !y ev with
            | Some y' -> y := y'; incr n
            | None -> rejected := Some (!n, line))
       end
     done
   with End_of_file -> ())
