"""pipelib.py -- build, scenario generation, log parsing and the independent property oracles of the pipeline family
(C04 C05 C06 C07 C08 C09; the runtime under the deterministic scheduler with the mock driver)."""
import os
import re
import subprocess

import vlib

RT = "acquire-video-runtime/src"
CL = "acquire-core-libs/src"
HDR = 96


def build(ctx, name="h_pipe"):
    """Compile the whole runtime from the repo working tree against vplatform + mock driver."""
    R = vlib.REPO
    V = vlib.VERIF
    here = os.path.join(V, "fam", "pipe", "harness")
    vp = os.path.join(V, "harness", "vplatform")
    inc = ["-I" + vp, "-I" + here, "-I%s/%s" % (R, RT), "-I%s/%s/runtime" % (R, RT),
           "-I%s/%s/acquire-device-hal" % (R, CL), "-I%s/%s/acquire-device-kit" % (R, CL),
           "-I%s/%s/acquire-device-properties" % (R, CL), "-I%s/%s/acquire-core-logger" % (R, CL)]
    fl = ["-O1", "-g", "-w", "-mavx2", "-fsanitize=address,undefined", "-fno-sanitize-recover=all", "-fno-omit-frame-pointer", "-DNO_UNIT_TESTS"]
    srcs = [("%s/%s/acquire.c" % (R, RT), ["-Dvideo_sink_init=vh_video_sink_init", "-Dvideo_filter_init=vh_video_filter_init",
                                           "-Dvideo_source_init=vh_video_source_init", "-DGIT_TAG=x", "-DGIT_HASH=x"])]
    for f in ["runtime/source.c", "runtime/sink.c", "runtime/filter.c", "runtime/channel.c", "runtime/vfslice.c",
              "runtime/frame_iterator.c", "runtime/throttler.c"]:
        srcs.append(("%s/%s/%s" % (R, RT, f), []))
    for f in ["acquire-device-hal/device/hal/camera.c", "acquire-device-hal/device/hal/storage.c", "acquire-device-hal/device/hal/driver.c",
              "acquire-device-hal/device/hal/loader.c", "acquire-device-hal/device/hal/device.manager.cpp",
              "acquire-device-properties/device/props/device.c", "acquire-device-properties/device/props/components.c",
              "acquire-device-properties/device/props/storage.c", "acquire-core-logger/logger.c"]:
        srcs.append(("%s/%s/%s" % (R, CL, f), []))
    srcs += [(os.path.join(vp, "vsched.c"), []), (os.path.join(here, "mockdrv.c"), []), (os.path.join(here, "h_pipe.c"), [])]
    objs = []
    procs = []
    for i, (s, extra) in enumerate(srcs):
        o = os.path.join(ctx.bdir, "%s.%d.o" % (name, i))
        cxx = s.endswith(".cpp")
        cmd = (["g++", "-std=gnu++20"] if cxx else ["gcc", "-std=gnu11"]) + fl + inc + extra + ["-c", s, "-o", o]
        procs.append((subprocess.Popen(cmd, stdout=subprocess.PIPE, stderr=subprocess.PIPE, text=True), s))
        objs.append(o)
    for p, s in procs:
        o, e = p.communicate(timeout=600)
        if p.returncode != 0:
            raise vlib.BuildError("compiling %s failed:\n%s" % (s, (o + e)[-3000:]))
    exe = os.path.join(ctx.bdir, name)
    cmd = ["g++"] + [f for f in fl if f.startswith("-fsanitize") or f == "-g"] + objs + \
          ["-o", exe, "-Wl,--wrap=channel_write_unmap,--wrap=channel_abort_write,--wrap=channel_write_map,--wrap=channel_accept_writes,--wrap=channel_read_map,--wrap=channel_read_unmap,--wrap=video_sink_start,--wrap=video_source_start", "-lm", "-ldl", "-pthread"]
    rc, o, e = vlib.sh(cmd, timeout=600)
    if rc != 0:
        raise vlib.BuildError("link failed:\n" + (o + e)[-3000:])
    return exe


class Lines(list):
    """the log lines of a run, with .tids[i] = id of the thread that printed line i (-1: the scheduler)"""
    tids = ()


def run_prog(exe, prog, timeout=120):
    rc, o, e = vlib.sh([exe], inp="\n".join(prog) + "\n", timeout=timeout)
    raw = [l for l in o.split("\n") if l]
    lines = []
    tids = []
    for l in raw:
        m = re.match(r"@(-?\d+) (.*)$", l)
        if m:
            tids.append(int(m.group(1)))
            lines.append(m.group(2))
        else:
            tids.append(-1)
            lines.append(l)
    lines = Lines(lines)
    lines.tids = tids
    return rc, lines, e


# ----------------------------------------------------------------------------- the mock camera's generator, recomputed
BPP = {0: 1, 1: 2, 2: 1, 3: 2, 4: 4, 5: 2, 6: 2, 7: 2}


def px_hash(cam, tag, hw, w, h, t):
    n = w * h * BPP.get(t, 1)
    hsh = 2166136261
    base = 17 * cam + 31 * tag + 7 * hw + 1
    for j in range(n):
        b = (base + 13 * j) & 0xFF
        hsh = ((hsh ^ b) * 16777619) & 0xFFFFFFFF
    return "%08x" % hsh


_hash_cache = {}


def px_hash_c(cam, tag, hw, w, h, t):
    k = (cam, tag & 0xFF, hw & 0xFF, w, h, t)   # the generator is periodic mod 256 in tag and hw contributions
    k2 = (cam, tag, hw, w, h, t)
    if k2 not in _hash_cache:
        _hash_cache[k2] = px_hash(cam, tag, hw, w, h, t)
    return _hash_cache[k2]


def frame_size(w, h, t):
    return 8 * ((HDR + w * h * BPP.get(t, 1) + 7) // 8)


FRAME_RE = re.compile(r"\[id=(\d+) hw=(\d+) sz=(\d+) w=(\d+) h=(\d+) t=(-?\d+) px=([0-9a-f]+)\]")


def parse_frames(text):
    return [dict(id=int(a), hw=int(b), sz=int(c), w=int(d), h=int(e), t=int(f), px=g) for a, b, c, d, e, f, g in FRAME_RE.findall(text)]


# ----------------------------------------------------------------------------- frame averaging, recomputed (C10 at pipeline level)
import struct as _struct


def _f32(x):
    return _struct.unpack("<f", _struct.pack("<f", x))[0]


def mock_pixel(cam, tag, hw, j):
    return (17 * cam + 31 * tag + 7 * hw + 13 * j + 1) & 0xFF


def mean_frame_hash(cam, tag, hws, w, h, t):
    """FNV-1a hash of the f32 frame the filter must emit for the window of camera frames `hws` (hardware ids) of sample type t:
    every pixel = float32(sum of the integer input pixels) * float32(1/k).  The sum is exact in binary32 (k*maxval < 2^24) and the
    product of two binary32 numbers is exact in binary64, so one rounding to binary32 reproduces the C arithmetic bit for bit."""
    k = len(hws)
    inv = _f32(1.0 / k)
    npx = w * h
    wide = BPP.get(t, 1) == 2
    signed = t in (2, 3)
    hsh = 2166136261
    for i in range(npx):
        s = 0
        for hw in hws:
            if wide:
                v = mock_pixel(cam, tag, hw, 2 * i) | (mock_pixel(cam, tag, hw, 2 * i + 1) << 8)
                if signed and v >= 0x8000:
                    v -= 0x10000
            else:
                v = mock_pixel(cam, tag, hw, i)
                if signed and v >= 0x80:
                    v -= 0x100
            s += v
        out = _f32(float(s) * inv)
        for b in _struct.pack("<f", out):
            hsh = ((hsh ^ b) * 16777619) & 0xFFFFFFFF
    return "%08x" % hsh


def averaging_verdicts(add, s, ai, a, frames, where):
    """C10 over what `where` (storage / the monitor) received in an acquisition with frame averaging k that was started, ran to
    completion without fault or abort and was stopped: one f32 frame per complete window of k consecutive camera frames, in order,
    frame id = id of the window's first frame, pixels = the binary32 mean; at most one extra frame for a trailing incomplete window."""
    k = a.cfg["avg"]
    n = len(a.cam_ok)
    cam = a.cam
    full = n // k
    if where == "storage":
        if not (full <= len(frames) <= full + (1 if n % k else 0)):
            add("C10", "window-count", "stream %d acquisition %d: %d camera frames with averaging %d: %s received %d frames, expected %d complete windows%s"
                % (s, ai, n, k, where, len(frames), full, " (+ at most one for the trailing %d frames)" % (n % k) if n % k else ""))
            return
    for i, f in enumerate(frames[:full]):
        base = f["id"] // k if where != "storage" else i
        if where == "storage" and f["id"] != i * k:
            add("C10", "window-id", "stream %d acquisition %d: averaged frame %d reached %s with frame id %d, the id of its window's first frame is %d" % (s, ai, i, where, f["id"], i * k))
            continue
        if f["id"] % k or f["id"] // k >= full:
            continue      # the monitor may be looking at the trailing partial window
        wi = f["id"] // k
        if f["t"] != 4 or (f["w"], f["h"]) != (cam["w"], cam["h"]):
            add("C10", "window-shape", "stream %d acquisition %d: averaged frame %d reached %s as type %d %dx%d, expected f32 %dx%d" % (s, ai, wi, where, f["t"], f["w"], f["h"], cam["w"], cam["h"]))
            continue
        if a.tag is None or cam["t"] not in (0, 1, 2, 3, 5, 6, 7):
            continue
        hws = a.cam_ok[wi * k:(wi + 1) * k]
        want = mean_frame_hash(a.camidx, a.tag, hws, cam["w"], cam["h"], cam["t"])
        if f["px"] != want:
            add("C10", "window-mean", "stream %d acquisition %d: the averaged frame of window %d (camera frames %s) that reached %s is not the binary32 mean of its %d input frames"
                % (s, ai, wi, hws, where, k))


# ----------------------------------------------------------------------------- scenarios
def gen_cam_lines(rng, two):
    lines = []
    cams = {}
    for idx in ([0, 1] if two else [0]):
        w, h = rng.randint(1, 6), rng.randint(1, 5)
        t = rng.choice([0, 0, 1, 2, 3, 5, 6, 7])
        cams[idx] = dict(w=w, h=h, t=t, trig=0, pace=rng.choice([0, 0, 1, 3]))
    return cams


def avgswitch_scenario(rng):
    """kind "avgswitch": frame averaging is switched off (or on, or to another window) by acquire_configure while the acquisition is
    running, same devices: the source changes from the filter's queue to the sink's queue (or back) under the handshake
    await_filter_reset.  Such runs are outside C04/C06 (configure while running: known findings of C08); what is judged is the
    single-writer discipline of the queues (C02's precondition at the runtime level)."""
    cams = gen_cam_lines(rng, False)
    c = cams[0]
    fs = frame_size(c["w"], c["h"], 4)
    ring = fs * rng.choice([3, 4, 6, 8]) + 8
    prog = ["ring %d" % ring, "filtring %d" % ring, "seed %d" % rng.randint(1, 1 << 30)]
    if rng.random() < 0.3:
        prog.append("pct %d" % rng.randint(1, 3))
    c["trig"] = 0
    c["pace"] = rng.choice([0, 1, 2, 3])
    prog.append("cam 0 w=%d h=%d type=%d trig=0 pace=%d" % (c["w"], c["h"], c["t"], c["pace"]))
    if rng.random() < 0.5:
        prog.append("stopace 0 %d" % rng.choice([1, 2, 5]))
    prog.append("init")
    n = rng.choice([12, 20, 40, 1 << 40])
    avg = rng.choice([2, 2, 3, 4])
    prog.append("cfg 0 cam=A sto=A n=%d avg=%d delay=0" % (n, avg))
    prog.append("configure")
    prog.append("start")
    for _ in range(rng.randint(1, 3)):
        prog.append("yield %d" % rng.randint(1, 60))
        avg = rng.choice([0, 0, 0, 2, 3]) if avg else rng.choice([2, 3])
        prog.append("cfg 0 cam=A sto=A n=%d avg=%d delay=0" % (n, avg))
        prog.append("configure")
    prog.append("yield %d" % rng.randint(1, 80))
    prog.append("abort")
    prog.append("state")
    prog.append("shutdown")
    return prog, dict(kind="avgswitch", cams=cams, ring=ring, streams=[0], acqs=[])


def busyrestart_scenario(rng):
    """kind "busyrestart": acquire_start on a runtime that is RUNNING with its queue full -- a fast camera, a slow storage device that
    is in the middle of an append with everything mapped, the source parked on the full ring.  The call must fail without touching
    the running acquisition's queue (C02 at the runtime level: the packet storage is working on stays intact)."""
    cams = gen_cam_lines(rng, False)
    c = cams[0]
    c["trig"] = 0
    c["pace"] = 0
    fs = frame_size(c["w"], c["h"], c["t"])
    ring = fs * rng.choice([2, 3, 4]) + rng.choice([0, 8, 16]) + 8
    prog = ["ring %d" % ring, "filtring %d" % ring, "seed %d" % rng.randint(1, 1 << 30)]
    if rng.random() < 0.3:
        prog.append("pct %d" % rng.randint(1, 3))
    prog.append("cam 0 w=%d h=%d type=%d trig=0 pace=0" % (c["w"], c["h"], c["t"]))
    prog.append("stopace 0 %d" % rng.choice([5, 9, 14]))
    prog.append("init")
    prog.append("cfg 0 cam=A sto=A n=%d avg=0 delay=0" % (1 << 40))
    prog.append("configure")
    prog.append("start")
    for _ in range(rng.randint(1, 4)):
        prog.append("yield %d" % rng.randint(5, 90))
        prog.append("start")                      # while running: refused
        if rng.random() < 0.5:
            break
    prog.append("yield %d" % rng.randint(5, 60))
    prog.append("abort")
    prog.append("state")
    prog.append("shutdown")
    return prog, dict(kind="busyrestart", cams=cams, ring=ring, streams=[0], acqs=[])


def scenario(rng, kind):
    """Returns (program lines, meta).  kind in basic | monitor | abort | fault | api | avg | avgswitch | busyrestart."""
    if kind == "busyrestart":
        return busyrestart_scenario(rng)
    if kind == "api":
        return api_scenario(rng)
    if kind == "avgswitch":
        return avgswitch_scenario(rng)
    two = rng.random() < 0.3
    cams = gen_cam_lines(rng, two)
    streams = [0, 1] if two else [0]
    fs = {s: frame_size(cams[s]["w"], cams[s]["h"], 4 if kind == "avg" else cams[s]["t"]) for s in streams}   # avg: f32 output frames
    capf = rng.choice([2, 2, 3, 3, 4, 6])
    ring = max(fs.values()) * capf + rng.choice([0, 0, 8, 16, 24, max(fs.values()) // 2 // 8 * 8]) + 8
    prog = ["ring %d" % ring, "filtring %d" % ring, "seed %d" % rng.randint(1, 1 << 30)]
    if rng.random() < 0.2:
        prog.append("pct %d" % rng.randint(1, 3))
    trig = kind == "abort" and rng.random() < 0.35
    for idx, c in cams.items():
        c["trig"] = 1 if trig else 0
        prog.append("cam %d w=%d h=%d type=%d trig=%d pace=%d" % (idx, c["w"], c["h"], c["t"], c["trig"], c["pace"]))
    for s in streams:
        if rng.random() < 0.4:
            prog.append("stopace %d %d" % (s, rng.choice([1, 2, 5])))
    prog.append("init")
    if kind in ("basic", "monitor", "abort") and not trig and rng.random() < 0.12:
        # a camera whose frame call sometimes times out: Device_Ok with zero bytes ("no frame yet"); the runtime cancels the write and
        # asks again -- such polls are not frames (model event DGetEmpty)
        for idx in cams:
            if rng.random() < 0.8:
                prog.append("camempty %d %d" % (idx, rng.choice([2, 3, 4, 7])))
    nacq = rng.choice([1, 1, 2, 3]) if kind != "basic" else rng.choice([1, 2])
    if kind == "fault":
        nacq = rng.choice([1, 2, 2, 3, 3])      # "a later fault-free acquisition is complete and correct" needs later acquisitions
    meta = dict(kind=kind, cams=cams, ring=ring, streams=streams, acqs=[])
    mon_started = False
    mon_streams = set()
    prev_acq = None
    for a in range(nacq):
        acq = {}
        reuse = (prev_acq is not None and kind in ("abort", "basic", "monitor") and rng.random() < 0.25
                 and all(prev_acq[s]["n"] >= 0 for s in streams))
        if reuse:
            # start again from Armed WITHOUT another configure (the configuration persists): what an earlier stop or abort left
            # behind -- flags, requests nobody consumed -- must not reach this acquisition; and a second abort in a row sometimes
            acq = {s: dict(n=prev_acq[s]["n"], avg=prev_acq[s]["avg"], delay=prev_acq[s]["delay"]) for s in streams}
            if kind == "abort" and rng.random() < 0.3:
                prog.append("abort")
                prog.append("state")
        for s in ([] if reuse else streams):
            n = rng.choice([0, 1, 2, 3, 5, 8, 13, 21, rng.randint(1, 40)])
            avg = 0
            if kind == "abort" and rng.random() < 0.25:
                avg = rng.choice([2, 3])
            if kind == "avg" and rng.random() < 0.85:
                avg = rng.choice([2, 2, 3, 4])
            delay = rng.choice([0, 0, 0, 0.5, 2, 5])
            unbounded = kind == "abort" and rng.random() < 0.3
            if unbounded:
                n = -1
            acq[s] = dict(n=n, avg=avg, delay=delay)
            prog.append("cfg %d cam=%s sto=%s n=%d avg=%d delay=%g" % (s, "AB"[s], "AB"[s], n if n >= 0 else (1 << 40), avg, delay))
        if not reuse:
            prog.append("configure")
        prev_acq = acq
        if kind == "fault" and (a == 0 or rng.random() < 0.5):
            s = rng.choice(streams)
            n = acq[s]["n"]
            r = rng.random()
            if r < 0.15:
                prog.append("camstartfail %d" % s)
                acq[s]["fault"] = "camstart"
            elif r < 0.3:
                prog.append("stostartfail %d" % s)
                acq[s]["fault"] = "stostart"
            elif r < 0.65:
                prog.append("camfail %d %d" % (s, rng.randint(0, max(0, n))))
                acq[s]["fault"] = "cam"
            else:
                prog.append("stofail %d %d" % (s, rng.randint(0, max(0, n // 2))))
                acq[s]["fault"] = "sto"
            if a + 1 < nacq and rng.random() < 0.7:
                pass
        prog.append("start")
        # client activity while running
        mon = kind == "monitor" or (kind in ("abort", "api", "avg") and rng.random() < 0.4)
        if mon and (a > 0 or rng.random() < 0.8 or mon_started):
            mon_started = True
            s = rng.choice(streams)
            mon_streams.add(s)
            rounds = rng.randint(1, 12)
            if rng.random() < 0.5:
                mode = rng.choice(["all", "all", "half", "frames 1", "none"])
                prog.append("monitor %d %d %s" % (s, rounds, mode))
                if rng.random() < 0.7:
                    prog.append("yield %d" % rng.randint(1, 60))
                prog.append("joinmon")
            else:
                for _ in range(rounds):
                    prog.append("yield %d" % rng.randint(0, 25))
                    prog.append("map %d" % s)
                    if rng.random() < 0.4:
                        prog.append("yield %d" % rng.randint(1, 40))   # hold the region for a while
                    prog.append("unmap %d %s" % (s, rng.choice(["all", "all", "all", "half", "frames 1", "none"])))
        elif rng.random() < 0.6:
            prog.append("yield %d" % rng.randint(1, 80))
        if kind == "avg" and rng.random() < 0.35:
            # a client that looks at the stream once and then does not consume for a long while: the queue fills, the averaging
            # filter is parked in its write until the client comes back -- well after the source has delivered its last frame
            s = rng.choice(streams)
            mon_streams.add(s)
            mon_started = True
            prog.append("map %d" % s)
            prog.append("unmap %d none" % s)
            prog.append("yield %d" % rng.randint(250, 700))
        if trig:
            # fire some triggers; abort is the way out of a trigger wait
            for s in streams:
                for _ in range(rng.randint(0, 4)):
                    prog.append("trigger %d" % s)
                    prog.append("yield %d" % rng.randint(1, 15))
        if rng.random() < 0.3:
            prog.append("state")
        use_abort = kind == "abort" or trig or any(acq[s]["n"] < 0 for s in streams) or (kind == "fault" and rng.random() < 0.4)
        if kind == "abort" and not trig and all(acq[s]["n"] >= 0 for s in streams) and rng.random() < 0.2:
            use_abort = False
        if not use_abort:
            for s in sorted(mon_streams):   # a registered monitor must keep consuming or the writer stalls (acquire.h)
                prog.append("drain %d" % s)
        held = None
        if use_abort and kind in ("abort", "monitor") and not trig and rng.random() < 0.2:
            # the client is holding mapped data when it aborts, and lets go of it only afterwards
            held = rng.choice(streams)
            mon_streams.add(held)
            mon_started = True
            prog.append("map %d" % held)
        prog.append("abort" if use_abort else "stop")
        if held is not None:
            prog.append("unmap %d %s" % (held, rng.choice(["all", "none", "frames 1"])))
        for s in streams:
            acq[s]["abort"] = use_abort
        prog.append("state")
        meta["acqs"].append(acq)
    prog.append("shutdown")
    return prog, meta


def api_scenario(rng):
    """kind "api": an arbitrary client program over configure / start / stop / abort / trigger / map / unmap / state, in any
    order and number (start while running, stop or abort when idle, re-configure -- also while running, also with the other
    device pair --, a stream switched off and on again), closed by shutdown.  Only restriction (DESIGN 6.8): stop is not
    issued while an unbounded or trigger-gated acquisition is running, and a registered monitor drains before a stop."""
    two = rng.random() < 0.35
    cams = gen_cam_lines(rng, True)
    trig = rng.random() < 0.15
    for c in cams.values():
        c["trig"] = 1 if trig else 0
    fsz = max(frame_size(c["w"], c["h"], c["t"]) for c in cams.values())
    ring = fsz * rng.choice([2, 3, 3, 4, 6]) + rng.choice([0, 8, 16]) + 8
    prog = ["ring %d" % ring, "filtring %d" % ring, "seed %d" % rng.randint(1, 1 << 30)]
    if rng.random() < 0.2:
        prog.append("pct %d" % rng.randint(1, 3))
    for idx, c in cams.items():
        prog.append("cam %d w=%d h=%d type=%d trig=%d pace=%d" % (idx, c["w"], c["h"], c["t"], c["trig"], c["pace"]))
    prog.append("init")
    wild = rng.random() < 0.3            # 30 % arbitrary programs, 70 % "sensible" sessions with a few odd calls mixed in
    meta = dict(kind="api", cams=cams, ring=ring, streams=[0, 1], acqs=[])
    running = False                      # as the client sees it: start returned ok and no stop/abort since
    unbounded = False
    configured = False
    mon_streams = set()
    streams = [0, 1] if two else [0]

    cfg_unb = [False]                    # the configuration in force asks for an unbounded acquisition on some stream

    def emit_cfg(while_running):
        nonlocal unbounded
        unb = False
        # device choice: the stream's own pair, the other pair (both streams swap together, so that two streams never share a
        # device), or none (stream switched off)
        r = rng.random()
        swap = configured and r < (0.25 if wild else 0.08)
        for s in streams:
            if rng.random() < (0.1 if wild else 0.04):
                dev = "none"                       # the stream is switched off
            else:
                dev = ("BA" if swap else "AB")[s]
            n = rng.choice([0, 1, 2, 3, 5, 8, 13, rng.randint(1, 30)])
            if rng.random() < 0.15:
                n = 1 << 40
                unb = True
            dcam = dsto = dev
            if dev != "none" and rng.random() < (0.15 if wild else 0.07):
                # a device that is enumerated but cannot be opened: the stream is rejected by this configure
                if rng.random() < 0.5:
                    dcam = "Bad"
                else:
                    dsto = "Bad"
            prog.append("cfg %d cam=%s sto=%s n=%d avg=0 delay=%g" % (s, dcam, dsto, n, rng.choice([0, 0, 0, 0.5, 2])))
            if dcam in ("A", "B") and rng.random() < (0.25 if while_running else 0.08):
                prog.append("camreject %d" % "AB".index(dcam))     # the camera refuses the settings once; the runtime retries
        prog.append("configure")
        cfg_unb[0] = unb
        if while_running:
            unbounded = unbounded or unb        # max_frame_count is changed under the running source

    ncmd = rng.randint(4, 26)
    emit_cfg(False)
    configured = True
    for _ in range(ncmd):
        r = rng.random()
        if not running:
            if r < 0.45:
                if rng.random() < 0.12:
                    # a device fault in the coming acquisition; the later calls of the session (start without another configure,
                    # stop, abort, configure) then meet devices the HAL has taken out of the armed state
                    d = rng.randrange(2) if two else 0
                    prog.append(rng.choice(["camfail %d %d" % (d, rng.randint(0, 6)), "camfail %d %d" % (d, rng.randint(0, 6)),
                                            "stofail %d %d" % (d, rng.randint(0, 3)), "camstartfail %d" % d, "stostartfail %d" % d]))
                prog.append("start")
                running = True
                unbounded = cfg_unb[0]
            elif r < 0.65:
                emit_cfg(False)
            elif r < 0.72:
                # when idle -- as far as this generator knows: a finite acquisition may have ended by itself and a "start while
                # running" may therefore have succeeded, so a stop still drains the registered monitors first (acquire.h: a client
                # that holds data stalls the writer, and stop waits for the writer)
                if rng.random() < 0.5 and not cfg_unb[0] and not trig:
                    for s in sorted(mon_streams):
                        prog.append("drain %d" % s)
                    prog.append("stop")
                else:
                    prog.append("abort")
            elif r < 0.80:
                prog.append("state")
            elif r < 0.88:
                s = rng.choice(streams)
                prog.append("map %d" % s)
                prog.append("unmap %d %s" % (s, rng.choice(["all", "all", "none", "frames 1"])))
                mon_streams.add(s)
            elif r < 0.93:
                prog.append("trigger %d" % rng.choice(streams))
            else:
                prog.append("yield %d" % rng.randint(1, 20))
        else:
            odd = 0.22 if wild else 0.06
            if not unbounded and not trig and rng.random() < 0.07:
                # a client that never calls stop: it polls the state until the finite acquisition is over, then goes on -- typically by
                # configuring the next acquisition (also with other devices) straight away
                prog.append("waitidle")
                running = False
                if rng.random() < 0.8:
                    emit_cfg(False)
                continue
            if r < odd / 2:
                prog.append("start")                               # start while running
                running = False                                    # it fails and aborts the acquisition
                unbounded = False
            elif r < odd:
                emit_cfg(True)                                     # configure while running
            elif r < odd + 0.25:
                prog.append("yield %d" % rng.randint(1, 60))
            elif r < odd + 0.40:
                s = rng.choice(streams)
                prog.append("map %d" % s)
                if rng.random() < 0.3:
                    prog.append("yield %d" % rng.randint(1, 30))
                prog.append("unmap %d %s" % (s, rng.choice(["all", "all", "half", "frames 1", "none"])))
                mon_streams.add(s)
            elif r < odd + 0.48:
                prog.append("trigger %d" % rng.choice(streams))
            elif r < odd + 0.55:
                prog.append("state")
            else:
                if unbounded or trig or rng.random() < 0.4:
                    prog.append("abort")
                else:
                    for s in sorted(mon_streams):
                        prog.append("drain %d" % s)
                    prog.append("stop")
                prog.append("state")
                running = False
                unbounded = False
    if rng.random() < 0.5 and running:
        prog.append("abort")
        prog.append("state")
    prog.append("shutdown")
    return prog, meta


def meta_from_prog(prog):
    """Reconstruct the oracle's meta (camera shapes) from a program (corpus / replay files)."""
    cams = {}
    for l in prog:
        w = l.split()
        if w and w[0] == "cam":
            kv = dict(x.split("=") for x in w[2:])
            cams[int(w[1])] = dict(w=int(kv.get("w", 4)), h=int(kv.get("h", 3)), t=int(kv.get("type", 0)),
                                   trig=int(kv.get("trig", 0)), pace=int(kv.get("pace", 0)))
    for i in (0, 1):
        cams.setdefault(i, dict(w=4, h=3, t=0, trig=0, pace=0))
    return dict(kind="corpus", cams=cams, streams=[0, 1], acqs=[])


def load_prog(path):
    lines = [l.rstrip("\n") for l in open(path)]
    expect = [l[len("# expect-unfixed:"):].split() for l in lines if l.startswith("# expect-unfixed:")]
    return [l for l in lines if l and not l.startswith("#")], (expect[0] if expect else [])


# ----------------------------------------------------------------------------- the independent oracle
class Acq:
    def __init__(self, stream, cfg, cam):
        self.stream = stream
        self.cfg = cfg            # dict n avg delay cam sto
        self.cam = cam            # dict w h t
        self.tag = None
        self.cam_ok = []          # hardware ids delivered by get_frame
        self.cam_fail = False
        self.sto = []             # frames appended (dicts)
        self.sto_fail = False
        self.sto_started = False
        self.cam_started = False
        self.cam_stopped = False
        self.sto_stopped = False
        self.aborted = False
        self.appended_after_fail = False
        self.mon = []             # frames seen by the monitor, in consumption order
        self.start_ok = None
        self.returned = False
        self.mon_reg_at_start = False   # the monitor reader of this stream was registered before this acquisition started
        self.reconf = False             # acquire_configure was called while this acquisition's devices were running


def oracle(prog, lines, meta):
    """Direct statement of C04..C09 over the implementation's log.  Returns [(property, key, message)]."""
    V = []
    cams = meta["cams"]

    def add(p, key, msg):
        if not any(k == key and pp == p for pp, k, _ in V):
            V.append((p, key, msg))

    cfg = {}
    valid = set()
    cur = {}                      # stream -> Acq (running or last)
    hist = {0: [], 1: []}
    dev = {}                      # object key -> state dict
    mon_state = {}                # stream -> dict(next=None, held=[frames], consumed pending)
    pi = 0
    cfg_lines = [l for l in prog if l.startswith("cfg ")]
    # configuration is applied at each `A configure` from the cfg lines that precede it in the program
    prog_pos = 0
    deadlock = any(l.startswith(("DEADLOCK", "STEPLIMIT")) for l in lines)
    ended = any(l.startswith("END") for l in lines)
    last_api = None
    in_call = None
    fresh_tag = {}
    mon_registered = {0: False, 1: False}
    late_reg = {0: False, 1: False}   # the monitor reader registered when the ring already held frames of earlier acquisitions, and no
                                      # stop/abort has flushed it since: what it is handed first is stale (known finding D14b)
    tainted = set()               # devices touched by a configure that was issued while they (or their stream's devices) were running
    taint_open = False
    switched = [False]            # some configure-while-running asked for other devices than the running ones
    reconf_acqs = []
    cam_rejected = set()          # cameras stopped by a rejected camera_set of a configure-while-running
    saw_idle = [False]            # the runtime has reported a state other than Running since the last acquire_start

    def reconf_key():
        return "protocol-broken-after-configure-while-running-" + ("other-devices" if switched[0] else "same-devices")

    def add8(key, k, msg):
        # once acquire_configure has been called on a running stream the run is polluted: workers may keep using devices that were
        # closed, swapped or re-armed under them, so every later device-protocol verdict of the run is classified with that call
        if key in cam_rejected and not switched[0]:
            # one symptom of this history is a recorded finding (a frame call reaches the driver after the client thread's stop);
            # every other symptom on the camera is reported under its own key
            add("C08", "camera-" + k + "-after-rejected-set-while-running", msg + " [after acquire_configure on a running stream whose camera refused the settings]")
        elif key in tainted or (tainted and (switched[0] or key.startswith("sto"))):
            add("C08", reconf_key(), msg + " [" + k + "; after acquire_configure was called while the stream was running]")
        else:
            add("C08", k, msg)

    def dev_event(key, ev, line):
        d = dev.setdefault(key, dict(open=False, closed=False, running=False, starts=0, stops=0, armed=False))
        if ev == "open":
            d["open"] = True
            d["armed"] = False              # a freshly opened device awaits configuration
            if taint_open:
                tainted.add(key)
            return
        if d["closed"]:
            add8(key, "use-after-close", "device %s used after close: %s" % (key, line))
            return
        if not d["open"]:
            add8(key, "use-before-open", "device %s used before open: %s" % (key, line))
        if ev == "close":
            d["closed"] = True
            if d["running"]:
                add8(key, "close-while-running", "device %s closed while running (no stop after its last start): %s" % (key, line))
        elif ev == "set":
            d["armed"] = "REJECTED" not in line
        elif ev == "unarm":
            d["armed"] = False
        elif ev == "start":
            if d["running"]:
                add8(key, "start-while-running", "device %s started while already running" % key)
            elif not d["armed"]:
                # "is started only when armed": the device was opened and never (successfully) configured, or it failed (frame call,
                # append, start) and has not been configured since
                add8(key, "start-when-not-armed", "device %s started although it is not armed (no accepted configuration since it was opened or since its last failure): %s" % (key, line))
            d["running"] = True
            d["starts"] += 1
        elif ev == "stop":
            if not d["running"]:
                add8(key, "stop-without-start", "device %s stopped without a preceding start (or stopped twice)" % key)
            else:
                d["armed"] = not d.pop("unarm_at_stop", False)   # a stop that ends a run leaves the device armed, unless the run ended in a failed frame call
            d["running"] = False
            d["stops"] += 1
        elif ev in ("append", "get_frame"):
            if not d["running"]:
                add8(key, "io-outside-run", "device %s received %s outside start..stop" % (key, ev))

    for l in lines:
        w = l.split()
        if l.startswith("A start call"):
            saw_idle[0] = False
        if l.startswith("A state ->") and w[3] != "Running":
            saw_idle[0] = True            # the client has been told that the acquisition is over: what it does next is not "while running"
        if l.startswith("A configure call"):
            # a configure issued while a device of a running acquisition is running: everything that follows on those devices
            # (and on the devices this call opens) is classified as a consequence of it -- unless the runtime itself has reported that
            # it is no longer Running since the last start (then the client is entitled to configure, and any device still running is the
            # runtime's fault, judged at full strength)
            in_call = "configure"
            for s in ([] if saw_idle[0] else list(cur)):
                a = cur[s]
                keys = [k for k, d in dev.items() if d["open"] and not d["closed"] and
                        (k.startswith("cam%d#" % a.camidx) or k.startswith("sto%d#" % a.stoidx))]
                if any(dev[k]["running"] for k in keys):
                    a.reconf = True
                    reconf_acqs.append((a, keys))
                    taint_open = True
                    # which devices will this configure ask for?  (the cfg lines between the previous configure and this one)
                    newcfg = dict(cfg.get(s, {}))
                    q = prog_pos
                    while q < len(prog) and not prog[q].startswith("configure"):
                        if prog[q].startswith("cfg %d " % s):
                            kvs = dict(x.split("=") for x in prog[q].split()[2:])
                            newcfg.update(cam=kvs.get("cam"), sto=kvs.get("sto"))
                        q += 1
                    if (newcfg.get("cam"), newcfg.get("sto")) != (a.cfg.get("cam"), a.cfg.get("sto")):
                        switched[0] = True
                        tainted.update(keys)                                        # devices closed / swapped under the workers
                    else:
                        tainted.update(k for k in keys if k.startswith("sto"))      # the running storage is re-armed (D28); the camera keeps running
                        q2 = prog_pos
                        while q2 < len(prog) and not prog[q2].startswith("configure"):
                            if prog[q2].startswith("camreject %d" % a.camidx):
                                # ... unless it refuses the settings: the HAL then stops it under the source thread
                                cam_rejected.update(k for k in keys if k.startswith("cam"))
                            q2 += 1
        elif l.startswith("A configure ->"):
            in_call = None
            taint_open = False
            # apply cfg lines up to this configure
            while prog_pos < len(prog) and not prog[prog_pos].startswith("configure"):
                pl = prog[prog_pos]
                if pl.startswith("cfg "):
                    s = int(pl.split()[1])
                    kvs = dict(x.split("=") for x in pl.split()[2:])
                    cfg[s] = dict(cam=kvs.get("cam"), sto=kvs.get("sto"), n=int(kvs.get("n", 0)), avg=int(kvs.get("avg", 0)), delay=float(kvs.get("delay", 0)))
                prog_pos += 1
            prog_pos += 1
            valid = {s for s, c in cfg.items() if c["cam"] not in (None, "none", "Bad") and c["sto"] not in (None, "none", "Bad")} if "-> ok" in l else set()
        elif l.startswith("A start call"):
            for s in sorted(valid):
                camidx = "AB".index(cfg[s]["cam"])
                stoidx = "AB".index(cfg[s]["sto"])
                old = cur.get(s)
                busy = old is not None and not old.returned and any(
                    d["running"] for k, d in dev.items() if k.startswith("cam%d#" % old.camidx) or k.startswith("sto%d#" % old.stoidx))
                if busy:
                    # start while running: the HAL refuses to start a running device, acquire_start fails and aborts the
                    # acquisition in progress; no new acquisition begins on this stream
                    old.aborted = True
                    old.restarted = True
                    continue
                for s2 in list(cur):
                    # a stream whose devices are now used by stream s has been re-assigned: its last acquisition is history
                    if s2 != s and (cur[s2].camidx == camidx or cur[s2].stoidx == stoidx):
                        del cur[s2]
                cur[s] = Acq(s, dict(cfg[s]), cams.get(camidx, dict(w=4, h=3, t=0)))
                cur[s].reconf = bool(tainted)      # started after a configure-while-running: the run is polluted (see add8)
                cur[s].camidx = camidx
                cur[s].stoidx = stoidx
                cur[s].mon_reg_at_start = mon_registered[s]
                hist[s].append(cur[s])
            in_call = "start"
        elif l.startswith("A start ->"):
            for s in valid:
                if s in cur:
                    if getattr(cur[s], "restarted", False):
                        cur[s].restarted = False
                        if "-> ok" not in l:
                            cur[s].returned = True      # the failed start has aborted it
                    else:
                        cur[s].start_ok = "-> ok" in l
            in_call = None
        elif l.startswith(("A stop call", "A abort call", "A shutdown call")):
            in_call = w[1]
            if w[1] in ("abort", "shutdown"):
                for s in valid:
                    if s in cur and not cur[s].returned:
                        cur[s].aborted = True
        elif l.startswith(("A stop ->", "A abort ->")):
            in_call = None
            for s in valid:
                late_reg[s] = False             # acquire_stop has drained the monitor reader of every valid stream
                if s in cur:
                    cur[s].returned = True
        elif l.startswith("A state ->"):
            st = w[3]
            last_api = ("state", st)
        elif l.startswith("D cam") or l.startswith("D sto"):
            key = w[1]
            kind = key[:3]
            idx = int(key[3])
            ev = w[2]
            if ev in ("open", "close", "start", "stop", "set"):
                if ev == "start" and "FAIL" in l:
                    if key in dev and not dev[key]["closed"] and not dev[key]["running"] and not dev[key]["armed"]:
                        dev_event(key, "start", l)          # the verdict on the attempt; the device did not start
                        dev[key]["running"] = False
                        dev[key]["starts"] -= 1
                    dev_event(key, "unarm", l)              # a failed start leaves the device awaiting configuration
                else:
                    dev_event(key, ev, l)
            elif ev in ("append", "get_frame"):
                dev_event(key, ev, l)
                if ev == "append" and "FAIL" in l:
                    dev[key]["running"] = False     # a failing append returns a non-running state: the device stopped itself
                    dev[key]["armed"] = False
                if ev == "get_frame" and "FAIL" in l:
                    dev[key]["unarm_at_stop"] = True        # the HAL stops the camera and leaves it awaiting configuration
            acq = None
            for s in cur:
                a = cur[s]
                if (kind == "cam" and a.camidx == idx) or (kind == "sto" and a.stoidx == idx):
                    acq = a
            if acq is None:
                continue
            if kind == "cam":
                if ev == "start" and "ok" in w:
                    acq.cam_started = True
                    acq.tag = int(l.split("tag=")[1])
                elif ev == "get_frame" and w[3] == "ok":
                    acq.cam_ok.append(int(w[4].split("=")[1]))
                elif ev == "get_frame" and w[3] == "FAIL":
                    acq.cam_fail = True
                elif ev == "stop":
                    acq.cam_stopped = True
            else:
                if ev == "start" and "ok" in w:
                    acq.sto_started = True
                elif ev == "append" and "FAIL" in l:
                    acq.sto_fail = True
                    acq.sto_stopped = True          # the device reported that it left the running state (C16); the HAL will not stop it again
                elif ev == "append":
                    if acq.sto_fail or acq.cam_fail and False:
                        acq.appended_after_fail = True
                    if " align=0 " not in l:
                        add("C05", "packet-misaligned", "storage packet does not start on an 8-byte boundary: " + l[:120])
                    if "BADFRAME" in l:
                        add("C05", "packet-not-chained", "storage packet is not a chain of whole frames: " + l[:200])
                    acq.sto.extend(parse_frames(l))
                elif ev == "stop":
                    acq.sto_stopped = True
        elif l.startswith("V s") and "two-writers" in l:
            add("C02", "two-writers-on-one-queue", "two threads hold a write mapping of the same queue at once (the channel has one write cursor: both are "
                "handed the same bytes, and the first unmap commits the other's unfinished region): " + l[:160])
        elif l.startswith("V s") and "region-changed-while-mapped" in l:
            add("C02", "region-changed-while-mapped", "a region a reader had mapped was modified before the reader unmapped it: " + l[:160])
        elif l.startswith("R s") and len(w) > 4 and w[2] == "sink.in" and w[3] == "mon" and w[4] == "rmap":
            s = int(w[1][1])
            if not mon_registered[s]:
                earlier = [a for a in hist[s] if a.cam_started and not (a is cur.get(s) and not a.returned)]
                late_reg[s] = bool(earlier)
            mon_registered[s] = True
        elif l.startswith("M s"):
            s = int(w[1][1])
            m = mon_state.setdefault(s, dict(expect=None, held=[], acq=None))
            if w[3] == "map":
                if w[4] != "ok":
                    add("C06", "map-fails", "acquire_map_read failed: " + l[:100])
                    continue
                if " align=0 " not in l and "nbytes=0" not in l:
                    add("C05", "packet-misaligned", "monitor packet does not start on an 8-byte boundary: " + l[:120])
                if "BADFRAME" in l:
                    add("C05", "packet-not-chained", "monitor packet is not a chain of whole frames: " + l[:200])
                m["held"] = parse_frames(l)
                m["acq"] = cur.get(s)
                m["late"] = late_reg[s]          # judged when the region was HANDED OUT (it may be released after a stop/abort has returned)
            elif w[3] == "unmap":
                if w[4] != "ok":
                    add("C06", "unmap-fails", "acquire_unmap_read failed: " + l[:100])
                consumed = int(l.split("consumed=")[1])
                tot = 0
                k = 0
                for f in m["held"]:
                    if tot + f["sz"] <= consumed:
                        tot += f["sz"]
                        k += 1
                a = m["acq"]
                if a is not None:
                    for f in m["held"][:k]:
                        a.mon.append(dict(f, seen_returned=a.returned, late=m.get("late", late_reg[s])))
                m["held"] = []

    # ---- per acquisition verdicts
    for s in hist:
        for ai, a in enumerate(hist[s]):
            if a.reconf:
                continue          # re-configured while running: outside the scenario of C04/C06/C07/C09; C08's verdicts are per device
            cam = a.cam
            prev = hist[s][ai - 1] if ai > 0 else None
            after_fault = prev is not None and (prev.sto_fail or prev.cam_fail or prev.start_ok is False)
            after_abort = prev is not None and prev.aborted

            def data(key, msg, a=a, after_fault=after_fault, after_abort=after_abort):
                """what storage received is wrong: C04; also C09 when the stream's previous acquisition ended in a device fault ("a later
                fault-free acquisition is complete and correct") and C07 when it was aborted ("no leftovers from the aborted one")"""
                add("C04", key, msg)
                if after_fault:
                    add("C09", key + "-in-run-after-fault", msg + " [the previous acquisition on this stream ended in a device fault]")
                if after_abort:
                    add("C07", key + "-in-run-after-abort", msg + " [the previous acquisition on this stream was aborted]")
            want_sz = frame_size(cam["w"], cam["h"], cam["t"])
            avg = a.cfg["avg"] > 1
            ids = [f["id"] for f in a.sto]
            if avg and a.start_ok and a.returned and not a.aborted and not a.cam_fail and not a.sto_fail and a.cfg["n"] < (1 << 39) \
                    and not (prev is not None and (prev.aborted or prev.sto_fail or prev.cam_fail)):
                if len(a.cam_ok) == a.cfg["n"]:
                    averaging_verdicts(add, s, ai, a, a.sto, "storage")
                    averaging_verdicts(add, s, ai, a, [f for f in a.mon if not f.get("late")], "the monitor")
            if not avg:
                # gap-free prefix, in order, of what the camera delivered -- always (C04 safety; C07 prefix at abort)
                if ids != list(range(len(ids))):
                    data("storage-order", "stream %d acquisition %d: storage received frame ids %s (not 0,1,2,.. in order)" % (s, ai, ids[:30]))
                if len(ids) > len(a.cam_ok):
                    data("storage-extra", "stream %d acquisition %d: storage received %d frames but the camera delivered %d" % (s, ai, len(ids), len(a.cam_ok)))
                for f in a.sto:
                    if (f["w"], f["h"], f["t"]) != (cam["w"], cam["h"], cam["t"]):
                        add("C05", "shape-changed", "stream %d: frame %d reached storage with shape %s, camera reported %s" % (s, f["id"], (f["w"], f["h"], f["t"]), (cam["w"], cam["h"], cam["t"])))
                    if f["sz"] != want_sz:
                        add("C05", "size-field", "stream %d: frame %d has bytes_of_frame=%d, expected %d" % (s, f["id"], f["sz"], want_sz))
                    if a.tag is not None and f["id"] < len(a.cam_ok):
                        if f["hw"] != a.cam_ok[f["id"]]:
                            data("hardware-id", "stream %d: frame %d carries hardware id %d, camera delivered %d" % (s, f["id"], f["hw"], a.cam_ok[f["id"]]))
                        want = px_hash_c(a.camidx, a.tag, f["hw"], cam["w"], cam["h"], cam["t"])
                        if f["px"] != want:
                            stale = any(px_hash_c(a.camidx, t, f["hw"], cam["w"], cam["h"], cam["t"]) == f["px"] for t in range(1, a.tag))
                            other = px_hash_c(1 - a.camidx, a.tag, f["hw"], cam["w"], cam["h"], cam["t"]) == f["px"]
                            data("pixels-stale" if stale else ("streams-mixed" if other else "pixels-altered"),
                                "stream %d acquisition %d: frame %d reached storage with %s pixel bytes" % (s, ai, f["id"], "an earlier acquisition's" if stale else "altered"))
                # completeness: finite, started, stopped (not aborted), no fault
                if a.start_ok and a.returned and not a.aborted and not a.cam_fail and not a.sto_fail and a.cfg["n"] < (1 << 39):
                    if len(ids) != a.cfg["n"]:
                        data("storage-incomplete", "stream %d acquisition %d: stop returned, %d frames requested, storage received ids %s" % (s, ai, a.cfg["n"], ids[-5:] if ids else []))
            if a.sto_fail and any(True for _ in []):
                pass
            # C09: nothing appended after the failing append -- checked through order of lines below
            if a.start_ok and a.returned:
                if a.cam_started and not a.cam_stopped:
                    add("C07" if a.aborted else "C09", "camera-not-stopped", "stream %d acquisition %d: stop/abort returned but the camera was never stopped" % (s, ai))
                if a.sto_started and not a.sto_stopped:
                    add("C07" if a.aborted else "C09", "storage-not-stopped", "stream %d acquisition %d: stop/abort returned but the storage was never stopped" % (s, ai))
            # C06: monitor sees consecutive ids, right pixels, nothing from an earlier acquisition
            if not avg:
                prev = None
                fresh_seen = False
                for f in a.mon:
                    if a.tag is not None:
                        want = px_hash_c(a.camidx, a.tag, f["hw"], cam["w"], cam["h"], cam["t"])
                        if f["px"] != want:
                            stale = any(px_hash_c(a.camidx, t, f["hw"], cam["w"], cam["h"], cam["t"]) == f["px"] for t in range(1, a.tag))
                            # whose frame is it?  an earlier acquisition on this stream's camera that was never stopped or aborted
                            # (a finite acquisition that ended by itself, then start again) is not covered by "once stop or abort
                            # has returned, nothing from that acquisition is delivered later": nothing is concluded from it
                            src_acqs = [b for b in hist[s][:ai] if b.tag is not None and b.camidx == a.camidx and
                                        px_hash_c(b.camidx, b.tag, f["hw"], cam["w"], cam["h"], cam["t"]) == f["px"]]
                            if src_acqs and not src_acqs[-1].returned and not fresh_seen:
                                add("INFO", "monitor-sees-frames-of-an-acquisition-that-was-never-stopped", "")
                                prev = None
                                continue
                            if f.get("late") and not fresh_seen:
                                # the reader registered for the first time during this acquisition and these frames come before
                                # any frame of this acquisition: it joined the ring at offset 0 of the current lap (known finding)
                                add("C06", "monitor-stale-first-use", "stream %d acquisition %d: a monitor reader that registered for the first time in this "
                                    "(not the first) acquisition was handed frame %d of an earlier acquisition" % (s, ai, f["id"]))
                            else:
                                add("C06", "monitor-stale" if stale else "monitor-pixels", "stream %d acquisition %d: the monitor was handed frame %d with %s pixel bytes"
                                    % (s, ai, f["id"], "an earlier acquisition's" if stale else "wrong"))
                                if stale and src_acqs and src_acqs[-1].aborted:
                                    # "no leftovers from the aborted one"
                                    add("C07", "monitor-leftover-of-aborted-acquisition", "stream %d acquisition %d: the monitoring client was handed frame %d of the "
                                        "acquisition that was aborted before it" % (s, ai, f["id"]))
                            prev = None
                            continue
                    fresh_seen = True
                    if prev is not None and f["id"] != prev + 1:
                        add("C06", "monitor-gap", "stream %d acquisition %d: the monitor saw frame %d after frame %d" % (s, ai, f["id"], prev))
                    prev = f["id"]
    # ---- C09: no append after a failure, line order
    failed = set()
    for l in lines:
        w = l.split()
        if l.startswith("A start call"):
            failed = set()
        if l.startswith("D sto") and w[2] == "append":
            idx = int(w[1][3])
            if "FAIL" in l:
                failed.add(idx)
            elif idx in failed:
                add("C09", "append-after-failure", "storage sto%d received an append after its failing append in the same acquisition" % idx)
    # ---- C07/C09: liveness
    if deadlock:
        call = in_call or "?"
        tail = [l for l in lines if l.startswith(("  T", "DEADLOCK", "STEPLIMIT"))][:8]
        main_line = [l for l in lines if l.startswith("  T0 ")]
        if not any(l.startswith("DEADLOCK") for l in lines) and main_line and " enabled " in main_line[0]:
            # the step budget ran out while the client thread itself could still run: a long or unfair schedule, not a call that
            # does not return -- nothing is concluded from it
            add("INFO", "steplimit-client-enabled", "step budget exhausted while the client thread was enabled")
        elif any(a.reconf for s in hist for a in hist[s]):
            add("C08", reconf_key(), "the run did not finish after acquire_configure was called while a stream was running: " + " / ".join(tail))
        else:
            add("LIVE", "hang-in-" + call, "the run did not finish: %s during `%s`: %s" % ("deadlock" if any(l.startswith("DEADLOCK") for l in lines) else "step limit", call, " / ".join(tail)))
    if any(a.reconf for s in hist for a in hist[s]):
        add("INFO", reconf_key(), "acquire_configure was called while a stream was running")
    # ---- C08: every opened device closed once shutdown returned
    if any(l.startswith("A shutdown ->") for l in lines):
        for key, d in dev.items():
            if d["open"] and not d["closed"]:
                add8(key, "not-closed", "device %s was opened but never closed by shutdown" % key)
    # ---- state reports
    # "reports Running only while an acquisition's workers are alive" / "no longer reports Running once the workers have exited":
    # worker threads = the threads the client thread creates inside acquire_start (T 0 create n), alive until their T n exit
    alive_w = set()
    in_start = False
    for l in lines:
        w = l.split()
        if l.startswith("A start call"):
            in_start = True
        elif l.startswith("A start ->"):
            in_start = False
        elif len(w) >= 4 and w[0] == "T" and w[2] == "create" and w[1] == "0" and in_start:
            alive_w.add(w[3])
        elif len(w) >= 3 and w[0] == "T" and w[2] == "exit":
            alive_w.discard(w[1])
        elif l.startswith("A state ->") and w[3] == "Running" and not alive_w and not in_start:
            msg = "acquire_get_state reports Running although every worker thread of the acquisition has exited"
            add("C08", "running-with-no-worker-alive", msg)
            if any(" FAIL" in x and x.startswith("D ") for x in lines):
                add("C09", "running-with-no-worker-alive", msg + " [after a device fault]")
    prev = None
    for l in lines:
        if l.startswith(("A stop ->", "A abort ->")):
            prev = l
        elif l.startswith("A state ->") and prev is not None:
            if l.split()[3] == "Running":
                add("C08", "running-after-stop", "acquire_get_state reports Running right after %s returned" % prev.split()[1])
            prev = None
        elif l.startswith("A "):
            prev = None
    return V


# ----------------------------------------------------------------------------- log -> model events (fam/pipe/coq/PipeModel.v)
def shape_code(w, h, t, sz):
    return ((sz * 4096 + w) * 4096 + h) * 16 + (t & 15)


def in_model_scope(prog):
    """Grammar G1 of the Coq model: averaging off; the two streams never use the same device at the same time (any stream may
    use either device pair, or an unopenable device); configure / start only between acquisitions (checked on the log by to_events)."""
    cur = {0: (None, None), 1: (None, None)}
    for l in prog:
        w = l.split()
        if w and w[0] == "cfg":
            kv = dict(x.split("=") for x in w[2:])
            if int(kv.get("avg", "0")) > 1:
                return False, "averaging on (filter data path not in the model yet)"
            cur[int(w[1])] = (kv.get("cam"), kv.get("sto"))
        if w and w[0] == "configure":
            for k in (0, 1):
                a, b = cur[0][k], cur[1][k]
                if a == b and a in ("A", "B"):
                    return False, "two streams configured with the same device"
        if w and w[0] == "unmap" and len(w) > 2 and w[2] == "bytes":
            return False, "monitor consumes a byte count that is not a frame boundary"
    return True, ""


class Events(list):
    """model events of a log; .scope = None, or the reason why the log is outside the model's grammar G1"""
    scope = None


def to_events(prog, lines):
    """Translate the harness log into the event alphabet of the Coq model.  Returns (events, index map to log lines).
    events.scope names the first thing in the log that grammar G1 does not cover (configure / start while a worker is alive)."""
    tids = list(getattr(lines, "tids", [])) or [0] * len(lines)
    cams = meta_from_prog(prog)["cams"]
    ev = Events()
    src = []
    alive = set()        # worker threads created and not yet exited
    roles = {}           # thread id -> (stream, actor)
    pending = []         # roles of the threads acquire_start is about to create
    cfg = {}
    valid = []
    prog_pos = 0
    tags = {0: 0, 1: 0}  # camera index -> number of successful starts so far
    since_mon_rmap = {0: False, 1: False}
    owner = {}           # (kind, instance serial) -> stream that opened it
    IDX = {"A": 0, "B": 1, "Bad": 2}

    cur_cam = {}         # stream -> index of the camera it last configured successfully (A / B)
    skip_drop = {}       # stream -> the source's next (empty) unmap belongs to a frame call that returned no frame
    unarmed = set()      # (kind, instance) of open devices that failed (frame call, append, start) and were not configured since
    open_devs = set()

    def camidx(s):
        c = cfg.get(s, {}).get("cam")
        if c in ("A", "B"):
            cur_cam[s] = IDX[c]
        return cur_cam.get(s, s)

    def stream_for(kind, idx, inst, opening):
        """the stream a device event belongs to: the one that opened this instance; at open, the stream whose new configuration asks for it"""
        if (kind, inst) in owner:
            return owner[(kind, inst)]
        cand = [s for s in (0, 1) if IDX.get(cfg.get(s, {}).get(kind)) == idx]
        s = cand[0] if cand else idx
        if opening:
            owner[(kind, inst)] = s
        return s

    def gtag(ci, t):
        """model tag of run t of camera ci: unique across the two cameras (a stream may switch cameras between acquisitions)"""
        return 2 * t + ci if t > 0 else 0

    def frames(text, s):
        out = []
        for f in parse_frames(text):
            tag = 0
            for ci in sorted((0, 1), key=lambda c: c != camidx(s)):      # the stream's current camera first, then the other one
                for t in range(tags.get(ci, 0), 0, -1):
                    if px_hash_c(ci, t, f["hw"], f["w"], f["h"], f["t"]) == f["px"]:
                        tag = gtag(ci, t)
                        break
                if tag:
                    break
            out.append("%d:%d:%d:%d" % (tag, f["id"], f["hw"], shape_code(f["w"], f["h"], f["t"], f["sz"])))
        return out

    def emit(e, i):
        ev.append(e)
        src.append(i)

    def actor(tid, s):
        r = roles.get(tid)
        if r is None:
            return "cli"
        return r[1]

    for i, l in enumerate(lines):
        w = l.split()
        tid = tids[i]
        if not w:
            continue
        if w[0] == "A":
            if w[1] in ("configure", "start") and w[2] == "call" and alive and ev.scope is None:
                # start while running is inside the model when the HAL refuses the first storage start and nothing else is started
                ok_refusal = False
                if w[1] == "start":
                    j = i + 1
                    seen_ref = False
                    clean = True
                    while j < len(lines) and not lines[j].startswith("A start ->"):
                        if lines[j].startswith("H ") and "sink start refused state=3" in lines[j]:
                            seen_ref = True
                        if lines[j].startswith("D ") and " start " in lines[j] + " ":
                            clean = False
                        j += 1
                    ok_refusal = seen_ref and clean
                if not ok_refusal:
                    ev.scope = "acquire_%s called while a worker thread is alive" % w[1]
            if w[1] == "configure" and w[2] == "call":
                # the configuration this call applies: the cfg lines since the previous configure
                while prog_pos < len(prog) and not prog[prog_pos].startswith("configure"):
                    pl = prog[prog_pos]
                    if pl.startswith("cfg "):
                        s = int(pl.split()[1])
                        kvs = dict(x.split("=") for x in pl.split()[2:])
                        cfg[s] = dict(cam=kvs.get("cam"), sto=kvs.get("sto"), n=int(kvs.get("n", 0)))
                    prog_pos += 1
                continue
            if w[1] == "configure":
                while prog_pos < len(prog) and not prog[prog_pos].startswith("configure"):
                    pl = prog[prog_pos]
                    if pl.startswith("cfg "):
                        s = int(pl.split()[1])
                        kvs = dict(x.split("=") for x in pl.split()[2:])
                        cfg[s] = dict(cam=kvs.get("cam"), sto=kvs.get("sto"), n=int(kvs.get("n", 0)))
                    prog_pos += 1
                prog_pos += 1
                ok = "-> ok" in l
                v = [ok and s in cfg and cfg[s]["cam"] not in (None, "none", "Bad") and cfg[s]["sto"] not in (None, "none", "Bad") for s in (0, 1)]
                valid = [s for s in (0, 1) if v[s]]
                emit("G configure %d %d %d %d" % (v[0], v[1], cfg.get(0, {}).get("n", 0), cfg.get(1, {}).get("n", 0)), i)
            elif w[1] == "start" and w[2] == "call":
                pending = [(s, r) for s in valid for r in ("sink", "filt", "src")]
                emit("G startcall", i)
            elif w[1] == "start":
                emit("G startret %s" % ("ok" if w[3] == "ok" else "err"), i)
            elif w[1] in ("stop", "abort", "shutdown"):
                emit("G %s%s" % (w[1], "call" if w[2] == "call" else "ret"), i)
            elif w[1] == "state":
                emit("G state %s" % {"AwaitingConfiguration": "await", "Armed": "armed", "Running": "running"}.get(w[3], "await"), i)
            continue
        if w[0] == "H":
            if "sink start refused state=3" in l:
                emit("G startrefused", i)                  # the storage is still running: start while running
            elif "start refused" in l:
                # a device that is not armed (it failed and was not configured since): refused before the device is touched
                emit("S %d cli startrefused %s" % (int(w[1][1]), "sink" if w[2] == "sink" else "src"), i)
            continue
        if w[0] == "T":
            t = int(w[1])
            if w[2] == "create":
                new = int(w[3])
                if t == 0 and pending:
                    s, r = pending.pop(0)
                    roles[new] = (s, r)
                    alive.add(new)
                    emit("S %d cli spawn %s" % (s, r), i)
                # other creations: the harness' monitor thread (acts as the client)
            elif w[2] == "exit":
                alive.discard(t)
                if t in roles:
                    s, r = roles[t]
                    emit("S %d %s exit %s" % (s, r, r), i)
            elif w[2] == "joined":
                tgt = int(w[3])
                if tgt in roles:
                    s, r = roles[tgt]
                    emit("S %d %s joined %s" % (s, actor(t, s), r), i)
            continue
        if w[0] == "D":
            if w[1] == "driver" or w[1].startswith("dev"):
                continue
            kind, idx, inst = w[1][:3], int(w[1][3]), int(w[1].split("#")[1])
            op = w[2]
            s = stream_for(kind, idx, inst, op == "open")
            a = actor(tid, s)
            if op == "open":
                open_devs.add((kind, inst))
                unarmed.discard((kind, inst))
            elif op == "close":
                open_devs.discard((kind, inst))
            elif op == "set" and "REJECTED" not in l:
                unarmed.discard((kind, inst))
            elif "FAIL" in l and op in ("start", "append", "get_frame"):
                unarmed.add((kind, inst))
            if op == "set" and "REJECTED" in l:
                continue      # the device refused the settings: nothing changed; the runtime's retry follows
            if op in ("open", "close", "set"):
                emit("S %d %s %s%s %d" % (s, a, op, kind, inst), i)
            elif op == "reserve":
                pass
            elif op == "start":
                ok = "ok" in w[3:4]
                if kind == "cam":
                    if ok:
                        tags[idx] = tags.get(idx, 0) + 1
                    emit("S %d %s camstart %d %s %d" % (s, a, inst, "ok" if ok else "fail", gtag(idx, tags.get(idx, 0)) if ok else 0), i)
                else:
                    emit("S %d %s stostart %d %s" % (s, a, inst, "ok" if ok else "fail"), i)
            elif op == "stop":
                emit("S %d %s %sstop %d" % (s, a, kind, inst), i)
            elif op == "trigger":
                emit("S %d %s trigger %d" % (s, a, inst), i)
            elif op == "get_frame":
                if w[3] == "EMPTY":
                    # no frame: the source cancels the write (abort_write) and unmaps nothing -- the "commit ... DROPPED" line that
                    # follows on this stream is that empty unmap, not a refused commit; neither changes the queue
                    emit("S %d %s getempty %d" % (s, a, inst), i)
                    skip_drop[s] = True
                elif w[3] == "ok":
                    hw = int(w[4].split("=")[1])
                    tag = gtag(idx, int(w[5].split("=")[1]))
                    c = cams[idx]
                    emit("S %d %s getframe %d ok %d %d %d" % (s, a, inst, hw, tag, shape_code(c["w"], c["h"], c["t"], frame_size(c["w"], c["h"], c["t"]))), i)
                else:
                    emit("S %d %s getframe %d fail" % (s, a, inst), i)
            elif op == "append":
                if "FAIL" in l:
                    emit("S %d %s append %d fail x" % (s, a, inst), i)   # frames of a failing append are not logged: filled in below
                else:
                    emit("S %d %s append %d ok %s" % (s, a, inst, " ".join(frames(l, s))), i)
            continue
        if w[0] in ("W", "R", "C"):
            s = int(w[1][1])
            a = actor(tid, s)
            if w[0] == "C":
                if w[2] == "commit":
                    if w[3] != "sink.in":
                        continue
                    if skip_drop.get(s) and a == "src":
                        skip_drop[s] = False
                        if w[4] != "ok":
                            continue
                    f = dict(x.split("=") for x in w[5:])
                    c = cams[camidx(s)]
                    # the committed frame's identity: tag of the camera's current run
                    emit("S %d %s commit %s %d:%s:%s:%d" % (s, a, "ok" if w[4] == "ok" else "drop", gtag(camidx(s), tags.get(camidx(s), 0)), f["id"], f["hw"],
                                                           shape_code(c["w"], c["h"], int(f["t"]), int(f["sz"]))), i)
                elif w[2] == "abort_write":
                    pass
                elif w[2] in ("sig_stop_filter", "sig_stop_sink", "sig_stop_source"):
                    emit("S %d %s cb%s" % (s, a, w[2][4:].replace("_", "")), i)
                continue
            if w[2] != "sink.in":
                continue
            if w[0] == "W":
                if w[3] == "wmap-enter":
                    emit("S %d %s wmapenter" % (s, a), i)
                elif w[3] == "wmap":
                    emit("S %d %s wmap %s" % (s, a, w[4]), i)
                elif w[3] == "accept":
                    emit("S %d %s accept %s" % (s, a, w[4]), i)
            else:
                r = w[3]
                if r not in ("sink", "mon"):
                    continue
                if w[4] == "rmap-enter":
                    emit("S %d %s rmapenter %s" % (s, a, r), i)
                elif w[4] == "rmap":
                    if r == "mon":
                        since_mon_rmap[s] = True
                    emit("S %d %s rmap %s %s" % (s, a, r, " ".join(frames(l, s))), i)
                elif w[4] == "runmap":
                    kv = dict(x.split("=") for x in w[5:])
                    c = int(kv["of"]) if kv["all"] == "1" else int(kv["frames"])
                    if r == "mon" and kv["all"] == "1" and kv["mapped"] == "0":
                        c = 0
                    emit("S %d %s runmap %s %d" % (s, a, r, c), i)
            continue
        if w[0] == "M":
            s = int(w[1][1])
            if w[3] == "map":
                if w[4] == "ok":
                    emit("S %d cli monret ok" % s, i)
                elif since_mon_rmap[s]:
                    emit("S %d cli monret err" % s, i)
                else:
                    emit("S %d cli monrefused" % s, i)
                since_mon_rmap[s] = False
            continue
    # a failing append does not list its frames: it was handed what the sink had mapped -- recover it from the preceding rmap
    last_rmap = {}
    for k, e in enumerate(ev):
        w = e.split()
        if w[0] == "S" and w[3] == "rmap" and w[4] == "sink" and w[2] == "sink":
            last_rmap[w[1]] = w[5:]
        if w[0] == "S" and w[3] == "append" and w[5] == "fail":
            ev[k] = " ".join(w[:6] + last_rmap.get(w[1], []))
    return ev, src


def model_run(orac, traces):
    """traces: list of (id, [event lines]).  Returns {id: (accepted(bool), index, text, state line)}"""
    inp = []
    for tid, evs in traces:
        inp.extend(evs)
        inp.append("end %s" % tid)
    rc, o, e = vlib.sh([orac], inp="\n".join(inp) + "\n", timeout=600)
    res = {}
    for l in o.split("\n"):
        w = l.split(" ", 2)
        if len(w) < 2:
            continue
        if w[1] == "ACCEPT":
            res[w[0]] = [True, int(w[2]), "", ""]
        elif w[1] == "REJECT":
            k, _, txt = w[2].partition(" ")
            res[w[0]] = [False, int(k), txt, ""]
        elif w[1] == "STATE" and w[0] in res:
            res[w[0]][3] = w[2] if len(w) > 2 else ""
    return res


# ----------------------------------------------------------------------------- event lines -> Coq terms (Examples in the property files)
def _frm_coq(s):
    t, i, h, sh = s.split(":")
    return "(mkF %s %s %s %s)" % (t, i, h, sh)


def event_to_coq(line):
    w = line.split()
    B = {"ok": "true", "fail": "false", "err": "false", "drop": "false", "1": "true", "0": "false"}
    if w[0] == "G":
        g = w[1]
        if g == "configure":
            return "EvG (GConfigure %s %s %s %s)" % (B[w[2]], B[w[3]], w[4], w[5])
        if g == "startret":
            return "EvG (GStartRet %s)" % B[w[2]]
        if g == "state":
            return "EvG (GState %s)" % {"await": "HAwait", "armed": "HArmed", "running": "HRunning"}[w[2]]
        return "EvG %s" % {"startrefused": "GStartRefused", "startcall": "GStartCall", "stopcall": "GStopCall", "stopret": "GStopRet", "abortcall": "GAbortCall",
                           "abortret": "GAbortRet", "shutdowncall": "GShutdownCall", "shutdownret": "GShutdownRet"}[g]
    i = "true" if w[1] == "1" else "false"
    a = {"cli": "ACli", "src": "ASrc", "sink": "ASink", "filt": "AFilt"}[w[2]]
    op, r = w[3], w[4:]
    RD = {"sink": "RdSink", "mon": "RdMon"}
    RO = {"src": "RSrc", "sink": "RSink", "filt": "RFilt"}
    if op in ("opencam", "closecam", "setcam", "opensto", "closesto", "setsto", "camstop", "stostop", "trigger"):
        e = "%s %s" % ({"opencam": "DOpenCam", "closecam": "DCloseCam", "setcam": "DSetCam", "opensto": "DOpenSto", "closesto": "DCloseSto",
                        "setsto": "DSetSto", "camstop": "DCamStop", "stostop": "DStoStop", "trigger": "DTrigger"}[op], r[0])
    elif op == "stostart":
        e = "DStoStart %s %s" % (r[0], B[r[1]])
    elif op == "camstart":
        e = "DCamStart %s %s %s" % (r[0], B[r[1]], r[2])
    elif op == "getempty":
        e = "DGetEmpty %s" % r[0]
    elif op == "getframe":
        e = "DGetFrame %s (Some (%s, %s, %s))" % (r[0], r[2], r[3], r[4]) if r[1] == "ok" else "DGetFrame %s None" % r[0]
    elif op == "append":
        e = "DAppend %s %s [%s]" % (r[0], B[r[1]], "; ".join(_frm_coq(x) for x in r[2:]))
    elif op == "wmapenter":
        e = "WMapEnter"
    elif op == "wmap":
        e = "WMap %s" % B[r[0]]
    elif op == "commit":
        e = "Commit %s %s" % (B[r[0]], _frm_coq(r[1]))
    elif op == "accept":
        e = "Accept %s" % B[r[0]]
    elif op == "rmapenter":
        e = "RMapEnter %s" % RD[r[0]]
    elif op == "rmap":
        e = "RMap %s [%s]" % (RD[r[0]], "; ".join(_frm_coq(x) for x in r[1:]))
    elif op == "runmap":
        e = "RUnmap %s %s" % (RD[r[0]], r[1])
    elif op in ("cbstopfilter", "cbstopsink", "cbstopsource"):
        e = {"cbstopfilter": "CbStopFilter", "cbstopsink": "CbStopSink", "cbstopsource": "CbStopSource"}[op]
    elif op in ("spawn", "exit", "joined"):
        e = "%s %s" % ({"spawn": "Spawn", "exit": "Exit", "joined": "Joined"}[op], RO[r[0]])
    elif op == "startrefused":
        e = "StartRefused %s" % RO[r[0]]
    elif op == "monrefused":
        e = "MonMapRefused"
    elif op == "monret":
        e = "MonMapRet %s" % B[r[0]]
    else:
        raise ValueError("event " + line)
    return "EvS %s %s (%s)" % (i, a, e)


def events_to_coq(name, evs):
    body = ";\n  ".join(event_to_coq(e) for e in evs)
    return "Definition %s : list event := [\n  %s\n]%%N." % (name, body)
