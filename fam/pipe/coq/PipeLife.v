(* PipeLife.v -- an independent device life-cycle monitor (per device instance: new -> open -> (running -> open)* -> closed,
   nothing after closed) and the proof that every accepted trace of the runtime model drives every device instance through
   it without error: a simulation between the model's HAL state of its open devices and the monitor's state. *)
From Coq Require Import List Bool Arith NArith Lia.
From RecordUpdate Require Import RecordSet.
From Pipe Require Import PipeModel PipeFacts PipeTac PipeInvDefs PipeProps PipeStep PipeSysProps.
Import ListNotations RecordSetNotations.

Inductive lst := LNew | LOpen | LRun | LClosed.
Inductive dop := OOpen | OClose | OSet | OStart (ok : bool) | OStop | OUse | OUseFail.

(* the device call an event of the model stands for: instance and operation *)
Definition dev_op (e : sev) : option (N * dop) :=
  match e with
  | DOpenCam n | DOpenSto n => Some (n, OOpen)
  | DCloseCam n | DCloseSto n => Some (n, OClose)
  | DSetCam n | DSetSto n => Some (n, OSet)
  | DStoStart n ok => Some (n, OStart ok)
  | DCamStart n ok _ => Some (n, OStart ok)
  | DCamStop n | DStoStop n => Some (n, OStop)
  | DTrigger n => Some (n, OUse)
  | DGetFrame n _ => Some (n, OUse)
  | DGetEmpty n => Some (n, OUse)
  | DAppend n true _ => Some (n, OUse)
  | DAppend n false _ => Some (n, OUseFail)      (* the device reported that it left the running state *)
  | _ => None
  end.

Definition mon := N -> lst.
Definition mupd (m : mon) (n : N) (v : lst) : mon := fun k => if N.eqb k n then v else m k.

(* the discipline: opened once, never used before open or after close, configured only while not running, started only
   when open and not running, stopped only when running (so exactly once per start), data calls only while running,
   closed once and only when not running *)
Definition lc_step (m : mon) (n : N) (o : dop) : option mon :=
  match o, m n with
  | OOpen, LNew => Some (mupd m n LOpen)
  | OClose, LOpen => Some (mupd m n LClosed)
  | OSet, LOpen => Some m
  | OStart true, LOpen => Some (mupd m n LRun)
  | OStart false, LOpen => Some m
  | OStop, LRun => Some (mupd m n LOpen)
  | OUse, LRun => Some m
  | OUseFail, LRun => Some (mupd m n LOpen)
  | _, _ => None
  end.

Definition lc_event (m : mon) (ev : event) : option mon :=
  match ev with
  | EvS _ _ e => match dev_op e with Some (n, o) => lc_step m n o | None => Some m end
  | EvG _ => Some m
  end.

Fixpoint lc_run (m : mon) (tr : list event) : option mon :=
  match tr with
  | [] => Some m
  | ev :: tr' => match lc_event m ev with Some m' => lc_run m' tr' | None => None end
  end.

(* instance numbers handed out by the driver's open calls, in trace order *)
Definition open_of (ev : event) : list N :=
  match ev with EvS _ _ (DOpenCam n) | EvS _ _ (DOpenSto n) => [n] | _ => [] end.
Definition opens (tr : list event) : list N := flat_map open_of tr.

(* ---- the simulation relation: the model's four device slots against the monitor *)
Definition st_of (h : hst) : lst := match h with HRunning => LRun | _ => LOpen end.
Definition slot := (option N * hst)%type.
Definition slots (y : sys) : list slot :=
  [(cam (st0 y), cam_st (st0 y)); (sto (st0 y), sto_st (st0 y)); (cam (st1 y), cam_st (st1 y)); (sto (st1 y), sto_st (st1 y))].

Fixpoint upd_nth (l : list slot) (k : nat) (v : slot) : list slot :=
  match l, k with
  | [], _ => []
  | _ :: r, 0 => v :: r
  | x :: r, S k' => x :: upd_nth r k' v
  end.

Lemma nth_upd_same l k v : k < length l -> nth_error (upd_nth l k v) k = Some v.
Proof. revert k; induction l as [|x r IH]; intros [|k] H; cbn in *; try lia; auto. apply IH. lia. Qed.
Lemma nth_upd_other l k j v : j <> k -> nth_error (upd_nth l k v) j = nth_error l j.
Proof. revert k j; induction l as [|x r IH]; intros [|k] [|j] H; cbn; auto; try congruence. Qed.

Record SimL (sl : list slot) (m : mon) (seen : list N) : Prop := {
  s_ok : forall k n h, nth_error sl k = Some (Some n, h) -> m n = st_of h;
  s_live : forall n, m n = LOpen \/ m n = LRun -> exists k h, nth_error sl k = Some (Some n, h);
  s_seen : forall n, m n <> LNew -> In n seen;
  s_dist : forall k1 k2 n h1 h2, nth_error sl k1 = Some (Some n, h1) -> nth_error sl k2 = Some (Some n, h2) -> k1 = k2
}.

(* what one device operation on instance n does to the slot it acts on *)
Definition slot_trans (o : dop) (n : N) (a b : slot) : Prop :=
  let (d, h) := a in let (d', h') := b in
  match o with
  | OOpen => d = None /\ d' = Some n /\ st_of h' = LOpen
  | OClose => d = Some n /\ st_of h = LOpen /\ d' = None
  | OSet => d = Some n /\ d' = d /\ st_of h = LOpen /\ st_of h' = LOpen
  | OStart true => d = Some n /\ d' = d /\ st_of h = LOpen /\ st_of h' = LRun
  | OStart false => d = Some n /\ d' = d /\ st_of h = LOpen /\ st_of h' = LOpen
  | OStop => d = Some n /\ d' = d /\ st_of h = LRun /\ st_of h' = LOpen
  | OUse => d = Some n /\ d' = d /\ st_of h = LRun /\ st_of h' = LRun
  | OUseFail => d = Some n /\ d' = d /\ st_of h = LRun /\ st_of h' = LOpen
  end.

Definition new_of (n : N) (o : dop) : list N := match o with OOpen => [n] | _ => [] end.

Lemma mupd_same m n v : mupd m n v n = v.
Proof. unfold mupd. rewrite N.eqb_refl. reflexivity. Qed.
Lemma mupd_other m n v k : k <> n -> mupd m n v k = m k.
Proof. intros H. unfold mupd. destruct (N.eqb_spec k n); congruence. Qed.

Lemma lst_dec (a : lst) : a = LNew \/ a = LOpen \/ a = LRun \/ a = LClosed.
Proof. destruct a; auto. Qed.

(* the generic step: a legal slot transition is a legal monitor step and re-establishes the relation *)
Lemma sim_slot_step sl m seen k n o a b :
  SimL sl m seen -> nth_error sl k = Some a -> slot_trans o n a b -> (o = OOpen -> ~ In n seen) ->
  exists m', lc_step m n o = Some m' /\ SimL (upd_nth sl k b) m' (seen ++ new_of n o).
Proof.
  intros [Hok Hlive Hseen Hdist] Hk Ht Hfresh. destruct a as [d h], b as [d' h'].
  assert (Hlen : k < length sl) by (apply nth_error_Some; congruence).
  (* reading a slot of the updated list *)
  assert (Hrd : forall j x, nth_error (upd_nth sl k (d', h')) j = Some x -> (j = k /\ x = (d', h')) \/ (j <> k /\ nth_error sl j = Some x)).
  { intros j x Hj. destruct (Nat.eq_dec j k) as [->|Hne].
    - rewrite nth_upd_same in Hj by exact Hlen. inversion Hj. auto.
    - rewrite nth_upd_other in Hj by exact Hne. auto. }
  destruct o as [ | | | ok | | | ]; cbn in Ht.
  - (* open *)
    destruct Ht as (-> & -> & Hh). assert (Hn : m n = LNew).
    { destruct (lst_dec (m n)) as [E|E]; auto. exfalso. apply (Hfresh eq_refl). apply Hseen. destruct E as [E|[E|E]]; congruence. }
    exists (mupd m n LOpen). split; [unfold lc_step; rewrite Hn; reflexivity|]. constructor.
    + intros j n0 h0 Hj. destruct (Hrd _ _ Hj) as [[-> E]|[Hne E]].
      * inversion E; subst. rewrite mupd_same. congruence.
      * rewrite mupd_other; [eapply Hok; eauto|]. intros ->. specialize (Hok _ _ _ E). destruct h0; cbn in Hok; congruence.
    + intros n0 Hl. destruct (N.eq_dec n0 n) as [->|Hne].
      * exists k, h'. apply nth_upd_same. exact Hlen.
      * rewrite mupd_other in Hl by exact Hne. destruct (Hlive _ Hl) as (j & h0 & Hj). exists j, h0.
        rewrite nth_upd_other; [exact Hj|]. intros ->. congruence.
    + intros n0 Hl. apply in_or_app. destruct (N.eq_dec n0 n) as [->|Hne]; [right; cbn; auto|]. left. apply Hseen. rewrite mupd_other in Hl; auto.
    + intros k1 k2 n0 h1 h2 H1 H2. destruct (Hrd _ _ H1) as [[-> E1]|[N1 E1]]; destruct (Hrd _ _ H2) as [[-> E2]|[N2 E2]]; auto.
      * inversion E1; subst. specialize (Hok _ _ _ E2). destruct h2; cbn in Hok; congruence.
      * inversion E2; subst. specialize (Hok _ _ _ E1). destruct h1; cbn in Hok; congruence.
      * eapply Hdist; eauto.
  - (* close *)
    destruct Ht as (-> & Hh & ->). pose proof (Hok _ _ _ Hk) as Hn. rewrite Hh in Hn.
    exists (mupd m n LClosed). split; [unfold lc_step; rewrite Hn; reflexivity|]. cbn [new_of]. rewrite app_nil_r. constructor.
    + intros j n0 h0 Hj. destruct (Hrd _ _ Hj) as [[-> E]|[Hne E]]; [inversion E|].
      rewrite mupd_other; [eapply Hok; eauto|]. intros ->. apply Hne. eapply Hdist; eauto.
    + intros n0 Hl. destruct (N.eq_dec n0 n) as [->|Hne]; [rewrite mupd_same in Hl; destruct Hl; discriminate|].
      rewrite mupd_other in Hl by exact Hne. destruct (Hlive _ Hl) as (j & h0 & Hj). exists j, h0.
      rewrite nth_upd_other; [exact Hj|]. intros ->. congruence.
    + intros n0 Hl. destruct (N.eq_dec n0 n) as [->|Hne]; [apply Hseen; congruence|]. apply Hseen. rewrite mupd_other in Hl; auto.
    + intros k1 k2 n0 h1 h2 H1 H2. destruct (Hrd _ _ H1) as [[-> E1]|[N1 E1]]; destruct (Hrd _ _ H2) as [[-> E2]|[N2 E2]]; auto;
        try (inversion E1; fail); try (inversion E2; fail). eapply Hdist; eauto.
  - (* set *) destruct Ht as (-> & -> & Hh & Hh'). pose proof (Hok _ _ _ Hk) as Hn. rewrite Hh in Hn.
    exists m. split; [unfold lc_step; rewrite Hn; reflexivity|]. cbn [new_of]. rewrite app_nil_r. constructor.
    + intros j n0 h0 Hj. destruct (Hrd _ _ Hj) as [[-> E]|[Hne E]]; [inversion E; subst; congruence | eapply Hok; eauto].
    + intros n0 Hl. destruct (Hlive _ Hl) as (j & h0 & Hj). destruct (Nat.eq_dec j k) as [->|Hne].
      * rewrite Hk in Hj. inversion Hj; subst. exists k, h'. apply nth_upd_same; exact Hlen.
      * exists j, h0. rewrite nth_upd_other; auto.
    + exact Hseen.
    + intros k1 k2 n0 h1 h2 H1 H2.
      assert (X : forall j x0 hx, nth_error (upd_nth sl k (Some n, h')) j = Some (Some x0, hx) -> exists hy, nth_error sl j = Some (Some x0, hy)).
      { intros j x0 hx Hj. destruct (Hrd _ _ Hj) as [[-> E]|[Hne E]]; [inversion E; subst; eauto | eauto]. }
      destruct (X _ _ _ H1) as (y1 & Y1). destruct (X _ _ _ H2) as (y2 & Y2). eapply Hdist; eauto.
  - (* start *)
    assert (Hcore : d = Some n /\ d' = d /\ st_of h = LOpen /\ st_of h' = (if ok then LRun else LOpen)) by (destruct ok; tauto).
    clear Ht. destruct Hcore as (-> & -> & Hh & Hh'). pose proof (Hok _ _ _ Hk) as Hn. rewrite Hh in Hn.
    exists (if ok then mupd m n LRun else m). split; [unfold lc_step; rewrite Hn; destruct ok; reflexivity|]. cbn [new_of]. rewrite app_nil_r.
    assert (X : forall j x0 hx, nth_error (upd_nth sl k (Some n, h')) j = Some (Some x0, hx) -> exists hy, nth_error sl j = Some (Some x0, hy)).
    { intros j x0 hx Hj. destruct (Hrd _ _ Hj) as [[-> E]|[Hne E]]; [inversion E; subst; eauto | eauto]. }
    constructor.
    + intros j n0 h0 Hj. destruct (Hrd _ _ Hj) as [[-> E]|[Hne E]].
      * inversion E; subst. destruct ok; [rewrite mupd_same|]; congruence.
      * destruct ok; [|eapply Hok; eauto]. rewrite mupd_other; [eapply Hok; eauto|]. intros ->. apply Hne. eapply Hdist; eauto.
    + intros n0 Hl. assert (Hl0 : m n0 = LOpen \/ m n0 = LRun).
      { destruct ok; auto. destruct (N.eq_dec n0 n) as [->|Hne]; [left; exact Hn|]. rewrite mupd_other in Hl; auto. }
      destruct (Hlive _ Hl0) as (j & h0 & Hj). destruct (Nat.eq_dec j k) as [->|Hne].
      * rewrite Hk in Hj. inversion Hj; subst. exists k, h'. apply nth_upd_same; exact Hlen.
      * exists j, h0. rewrite nth_upd_other; auto.
    + intros n0 Hl. apply Hseen. destruct ok; auto. destruct (N.eq_dec n0 n) as [->|Hne]; [congruence|]. rewrite mupd_other in Hl; auto.
    + intros k1 k2 n0 h1 h2 H1 H2. destruct (X _ _ _ H1) as (y1 & Y1). destruct (X _ _ _ H2) as (y2 & Y2). eapply Hdist; eauto.
  - (* stop *)
    destruct Ht as (-> & -> & Hh & Hh'). pose proof (Hok _ _ _ Hk) as Hn. rewrite Hh in Hn.
    exists (mupd m n LOpen). split; [unfold lc_step; rewrite Hn; reflexivity|]. cbn [new_of]. rewrite app_nil_r.
    assert (X : forall j x0 hx, nth_error (upd_nth sl k (Some n, h')) j = Some (Some x0, hx) -> exists hy, nth_error sl j = Some (Some x0, hy)).
    { intros j x0 hx Hj. destruct (Hrd _ _ Hj) as [[-> E]|[Hne E]]; [inversion E; subst; eauto | eauto]. }
    constructor.
    + intros j n0 h0 Hj. destruct (Hrd _ _ Hj) as [[-> E]|[Hne E]].
      * inversion E; subst. rewrite mupd_same. congruence.
      * rewrite mupd_other; [eapply Hok; eauto|]. intros ->. apply Hne. eapply Hdist; eauto.
    + intros n0 Hl. assert (Hl0 : m n0 = LOpen \/ m n0 = LRun).
      { destruct (N.eq_dec n0 n) as [->|Hne]; [right; exact Hn|]. rewrite mupd_other in Hl; auto. }
      destruct (Hlive _ Hl0) as (j & h0 & Hj). destruct (Nat.eq_dec j k) as [->|Hne].
      * rewrite Hk in Hj. inversion Hj; subst. exists k, h'. apply nth_upd_same; exact Hlen.
      * exists j, h0. rewrite nth_upd_other; auto.
    + intros n0 Hl. apply Hseen. destruct (N.eq_dec n0 n) as [->|Hne]; [congruence|]. rewrite mupd_other in Hl; auto.
    + intros k1 k2 n0 h1 h2 H1 H2. destruct (X _ _ _ H1) as (y1 & Y1). destruct (X _ _ _ H2) as (y2 & Y2). eapply Hdist; eauto.
  - (* use *)
    destruct Ht as (-> & -> & Hh & Hh'). pose proof (Hok _ _ _ Hk) as Hn. rewrite Hh in Hn.
    exists m. split; [unfold lc_step; rewrite Hn; reflexivity|]. cbn [new_of]. rewrite app_nil_r.
    assert (X : forall j x0 hx, nth_error (upd_nth sl k (Some n, h')) j = Some (Some x0, hx) -> exists hy, nth_error sl j = Some (Some x0, hy)).
    { intros j x0 hx Hj. destruct (Hrd _ _ Hj) as [[-> E]|[Hne E]]; [inversion E; subst; eauto | eauto]. }
    constructor.
    + intros j n0 h0 Hj. destruct (Hrd _ _ Hj) as [[-> E]|[Hne E]]; [inversion E; subst; congruence | eapply Hok; eauto].
    + intros n0 Hl. destruct (Hlive _ Hl) as (j & h0 & Hj). destruct (Nat.eq_dec j k) as [->|Hne].
      * rewrite Hk in Hj. inversion Hj; subst. exists k, h'. apply nth_upd_same; exact Hlen.
      * exists j, h0. rewrite nth_upd_other; auto.
    + exact Hseen.
    + intros k1 k2 n0 h1 h2 H1 H2. destruct (X _ _ _ H1) as (y1 & Y1). destruct (X _ _ _ H2) as (y2 & Y2). eapply Hdist; eauto.
  - (* a failing use *)
    destruct Ht as (-> & -> & Hh & Hh'). pose proof (Hok _ _ _ Hk) as Hn. rewrite Hh in Hn.
    exists (mupd m n LOpen). split; [unfold lc_step; rewrite Hn; reflexivity|]. cbn [new_of]. rewrite app_nil_r.
    assert (X : forall j x0 hx, nth_error (upd_nth sl k (Some n, h')) j = Some (Some x0, hx) -> exists hy, nth_error sl j = Some (Some x0, hy)).
    { intros j x0 hx Hj. destruct (Hrd _ _ Hj) as [[-> E]|[Hne E]]; [inversion E; subst; eauto | eauto]. }
    constructor.
    + intros j n0 h0 Hj. destruct (Hrd _ _ Hj) as [[-> E]|[Hne E]].
      * inversion E; subst. rewrite mupd_same. congruence.
      * rewrite mupd_other; [eapply Hok; eauto|]. intros ->. apply Hne. eapply Hdist; eauto.
    + intros n0 Hl. assert (Hl0 : m n0 = LOpen \/ m n0 = LRun).
      { destruct (N.eq_dec n0 n) as [->|Hne]; [right; exact Hn|]. rewrite mupd_other in Hl; auto. }
      destruct (Hlive _ Hl0) as (j & h0 & Hj). destruct (Nat.eq_dec j k) as [->|Hne].
      * rewrite Hk in Hj. inversion Hj; subst. exists k, h'. apply nth_upd_same; exact Hlen.
      * exists j, h0. rewrite nth_upd_other; auto.
    + intros n0 Hl. apply Hseen. destruct (N.eq_dec n0 n) as [->|Hne]; [congruence|]. rewrite mupd_other in Hl; auto.
    + intros k1 k2 n0 h1 h2 H1 H2. destruct (X _ _ _ H1) as (y1 & Y1). destruct (X _ _ _ H2) as (y2 & Y2). eapply Hdist; eauto.
Qed.

(* ---- what one event of a stream does to that stream's two device slots *)
Definition is_cam_op (e : sev) : bool :=
  match e with DOpenCam _ | DCloseCam _ | DSetCam _ | DCamStart _ _ _ | DCamStop _ | DTrigger _ | DGetFrame _ _ | DGetEmpty _ => true | _ => false end.

Definition cam_slot (s : stream) : slot := (cam s, cam_st s).
Definition sto_slot (s : stream) : slot := (sto s, sto_st s).

Lemma not_running_open h : h <> HRunning -> st_of h = LOpen.
Proof. destruct h; cbn; congruence. Qed.

Lemma dev_step s a e s' :
  SInv s -> step_stream s a e = Some s' ->
  match dev_op e with
  | None => cam_slot s' = cam_slot s /\ sto_slot s' = sto_slot s
  | Some (n, o) =>
      if is_cam_op e then sto_slot s' = sto_slot s /\ slot_trans o n (cam_slot s) (cam_slot s')
      else cam_slot s' = cam_slot s /\ slot_trans o n (sto_slot s) (sto_slot s')
  end.
Proof.
  intros (_ & _ & _ & H4) H. destruct H4 as [_ _ _ _ _ Dc Ds _ _]. unfold cam_slot, sto_slot.
  step_cases s H; unfold sink_finish; cbn in *; split_goal_ifs; cbn; repeat split; auto; try congruence;
    try (apply not_running_open; intros Hr; first [destruct (Dc Hr) | destruct (Ds Hr)]; discriminate);
    try (exfalso; first [destruct (Dc eq_refl) | destruct (Ds eq_refl)]; discriminate).
Qed.

(* ---- the two-stream system *)
Lemma slots_eq y : slots y = [cam_slot (st0 y); sto_slot (st0 y); cam_slot (st1 y); sto_slot (st1 y)].
Proof. reflexivity. Qed.

Lemma fail_start_slots s : cam_slot (fail_start s) = cam_slot s /\ sto_slot (fail_start s) = sto_slot s.
Proof. destruct s. unfold fail_start, begin_stop, cam_slot, sto_slot. cbn. destruct valid; [|auto]. destruct src_running; cbn; auto. Qed.

Lemma step_stream_slots y i a e y' :
  step y (EvS i a e) = Some y' ->
  exists s', step_stream (stream_of y i) a e = Some s' /\
    cam_slot (stream_of y' i) = cam_slot s' /\ sto_slot (stream_of y' i) = sto_slot s' /\
    cam_slot (stream_of y' (negb i)) = cam_slot (stream_of y (negb i)) /\ sto_slot (stream_of y' (negb i)) = sto_slot (stream_of y (negb i)).
Proof.
  intros H. cbn in H. destruct (i && _ && _); [discriminate|].
  destruct (step_stream (if i then st1 y else st0 y) a e) as [s'|] eqn:Es; [|discriminate]. exists s'.
  split; [destruct i; exact Es|].
  destruct (is_start_failure e); inversion H; subst; clear H; destruct i; cbn;
    repeat match goal with |- context [fail_start ?x] => destruct (fail_start_slots x) as [-> ->] end; auto.
Qed.

Lemma begin_start_slots s : cam_slot (begin_start s) = cam_slot s /\ sto_slot (begin_start s) = sto_slot s.
Proof. destruct s. unfold begin_start, cam_slot, sto_slot. cbn. destruct valid; auto. Qed.
Lemma begin_stop_slots ab s : cam_slot (begin_stop ab s) = cam_slot s /\ sto_slot (begin_stop ab s) = sto_slot s.
Proof. destruct s. unfold begin_stop, cam_slot, sto_slot. cbn. destruct valid; auto. Qed.
Lemma end_stop_slots s : cam_slot (end_stop s) = cam_slot s /\ sto_slot (end_stop s) = sto_slot s.
Proof. destruct s. unfold end_stop, cam_slot, sto_slot. cbn. auto. Qed.
Lemma config_slots s v n : cam_slot (s <| valid := v |> <| maxn := n |>) = cam_slot s /\ sto_slot (s <| valid := v |> <| maxn := n |>) = sto_slot s.
Proof. destruct s. unfold cam_slot, sto_slot. cbn. auto. Qed.
Lemma reset_slots s : cam_slot (set c_start (fun _ => TNone) s) = cam_slot s /\ sto_slot (set c_start (fun _ => TNone) s) = sto_slot s.
Proof. destruct s. unfold cam_slot, sto_slot. cbn. auto. Qed.

Lemma api_slots y g y' : step y (EvG g) = Some y' -> slots y' = slots y.
Proof.
  intros H. rewrite !slots_eq. destruct y as [s0 s1 ap ic].
  destruct g; cbn in H; cbv zeta in H; destruct ic; try discriminate H;
    repeat match type of H with
           | (if ?b then _ else _) = Some _ => destruct b
           | (match ?x with _ => _ end) = Some _ => destruct x
           end; try discriminate H; inversion H; subst; clear H; cbn -[cam_slot sto_slot begin_start begin_stop end_stop fail_start];
    try reflexivity;
    repeat match goal with
           | |- context [cam_slot (begin_start ?s)] => destruct (begin_start_slots s) as [-> ->]
           | |- context [cam_slot (begin_stop ?b ?s)] => destruct (begin_stop_slots b s) as [-> ->]
           | |- context [cam_slot (end_stop ?s)] => destruct (end_stop_slots s) as [-> ->]
           | |- context [cam_slot (fail_start ?s)] => destruct (fail_start_slots s) as [-> ->]
           | |- context [cam_slot (?s <| valid := ?v |> <| maxn := ?n |>)] => destruct (config_slots s v n) as [-> ->]
           | |- context [cam_slot (set c_start ?f ?s)] => destruct (reset_slots s) as [-> ->]
           end; reflexivity.
Qed.

Lemma open_of_new i a e n o : dev_op e = Some (n, o) -> open_of (EvS i a e) = new_of n o.
Proof. destruct e; cbn; intros H; inversion H; subst; try reflexivity. destruct ok; inversion H; reflexivity. Qed.
Lemma open_of_none i a e : dev_op e = None -> open_of (EvS i a e) = [].
Proof. destruct e; cbn; intros H; try discriminate H; reflexivity. Qed.

Lemma sim_step y m seen ev y' :
  YInv y -> SimL (slots y) m seen -> step y ev = Some y' -> (forall n, In n (open_of ev) -> ~ In n seen) ->
  exists m', lc_event m ev = Some m' /\ SimL (slots y') m' (seen ++ open_of ev).
Proof.
  intros Hy Hsim H Hfresh. destruct ev as [i a e | g].
  - destruct (step_stream_slots _ _ _ _ _ H) as (s' & Es & C1 & C2 & C3 & C4).
    assert (Hs : SInv (stream_of y i)) by (destruct Hy; destruct i; assumption).
    pose proof (dev_step _ _ _ _ Hs Es) as Hd. cbn [lc_event].
    destruct (dev_op e) as [[n o]|] eqn:Eo.
    + rewrite (open_of_new i a e n o Eo) in *.
      assert (Hf : o = OOpen -> ~ In n seen) by (intros ->; apply Hfresh; cbn; auto).
      set (k := (if i then 2 else 0) + (if is_cam_op e then 0 else 1)).
      assert (Hk : nth_error (slots y) k = Some (if is_cam_op e then cam_slot (stream_of y i) else sto_slot (stream_of y i))).
      { subst k. rewrite slots_eq. destruct i, (is_cam_op e); reflexivity. }
      assert (Hup : slots y' = upd_nth (slots y) k (if is_cam_op e then cam_slot s' else sto_slot s')).
      { subst k. rewrite !slots_eq. destruct i; cbn in C1, C2, C3, C4; destruct (is_cam_op e); destruct Hd as [Hd _]; cbn;
          rewrite ?C1, ?C2, ?C3, ?C4, ?Hd; try reflexivity; rewrite <- ?Hd; reflexivity. }
      rewrite Hup. eapply sim_slot_step; eauto. destruct (is_cam_op e); tauto.
    + rewrite (open_of_none i a e Eo), app_nil_r. exists m. split; [reflexivity|].
      destruct Hd as [D1 D2]. replace (slots y') with (slots y); [exact Hsim|].
      rewrite !slots_eq. destruct i; cbn in C1, C2, C3, C4; rewrite C1, C2, C3, C4, D1, D2; reflexivity.
  - cbn. rewrite app_nil_r. exists m. split; [reflexivity|]. rewrite (api_slots _ _ _ H). exact Hsim.
Qed.

Lemma opens_cons ev tr : opens (ev :: tr) = open_of ev ++ opens tr.
Proof. reflexivity. Qed.

Lemma NoDup_app_l {A} (l1 l2 : list A) : NoDup (l1 ++ l2) -> NoDup l1.
Proof. induction l1 as [|x l1 IH]; intros H; [constructor|]. inversion H; subst. constructor; [intros Hx; apply H2; apply in_or_app; auto | auto]. Qed.

Lemma NoDup_app_disj {A} (l1 l2 : list A) x : NoDup (l1 ++ l2) -> In x l2 -> ~ In x l1.
Proof.
  induction l1 as [|a l1 IH]; intros H Hx Hin; [inversion Hin|]. inversion H; subst. destruct Hin as [->|Hin].
  - apply H2. apply in_or_app; auto.
  - eapply IH; eauto.
Qed.

Lemma sim_run tr : forall y m seen y',
  YInv y -> SimL (slots y) m seen -> NoDup (seen ++ opens tr) -> accepts y tr = Some y' ->
  exists m', lc_run m tr = Some m' /\ SimL (slots y') m' (seen ++ opens tr).
Proof.
  induction tr as [|ev tr IH]; intros y m seen y' Hy Hsim Hnd Hacc; cbn in Hacc.
  - inversion Hacc; subst. exists m. cbn. rewrite app_nil_r. auto.
  - destruct (step y ev) as [y1|] eqn:Es; [|discriminate]. rewrite opens_cons in Hnd. rewrite app_assoc in Hnd.
    assert (Hfresh : forall n, In n (open_of ev) -> ~ In n seen).
    { intros n Hn. apply (NoDup_app_disj seen (open_of ev)); [apply (NoDup_app_l _ (opens tr)); exact Hnd | exact Hn]. }
    destruct (sim_step y m seen ev y1 Hy Hsim Es Hfresh) as (m1 & L1 & S1).
    destruct (IH y1 m1 (seen ++ open_of ev) y' (yinv_step _ _ _ Hy Es) S1 Hnd Hacc) as (m' & L' & S').
    exists m'. cbn [lc_run]. rewrite L1. split; [exact L'|]. rewrite opens_cons, app_assoc. exact S'.
Qed.

Lemma sim_init : SimL (slots init_sys) (fun _ => LNew) [].
Proof.
  constructor; cbn.
  - intros k n h H. destruct k as [|[|[|[|k]]]]; cbn in H; try discriminate. destruct k; discriminate.
  - intros n [H|H]; cbv beta in H; discriminate.
  - intros n H. cbv beta in H. congruence.
  - intros k1 k2 n h1 h2 H. destruct k1 as [|[|[|[|k]]]]; cbn in H; try discriminate. destruct k; discriminate.
Qed.

(* every accepted trace whose open calls hand out pairwise different instances drives the monitor without error, and
   afterwards every instance the monitor knows as open or running is the device of one of the model's four slots *)
Theorem lifecycle_respected tr y :
  accepts init_sys tr = Some y -> NoDup (opens tr) ->
  exists m, lc_run (fun _ => LNew) tr = Some m /\ SimL (slots y) m (opens tr).
Proof. intros Hacc Hnd. apply (sim_run tr init_sys (fun _ => LNew) [] y yinv_init sim_init Hnd Hacc). Qed.

(* an instance the monitor still regards as new has not been opened in the trace *)
Lemma lc_new_unopened n : forall t m1 m2, lc_run m1 t = Some m2 -> m2 n = LNew -> m1 n = LNew /\ ~ In n (opens t).
Proof.
  induction t as [|ev t IH]; intros m1 m2 L E; cbn in L.
  - inversion L; subst. auto.
  - destruct (lc_event m1 ev) as [mx|] eqn:Ee; [|discriminate]. destruct (IH _ _ L E) as (Ex & Hni).
    destruct ev as [i a e|g]; cbn in Ee; [|inversion Ee; subst; split; [auto|cbn; exact Hni]].
    destruct (dev_op e) as [[k o]|] eqn:Eo.
    + unfold lc_step in Ee. rewrite opens_cons. rewrite (open_of_new i a e k o Eo).
      destruct o as [ | | | ok | | | ]; try destruct ok; destruct (m1 k) eqn:Ek; try discriminate Ee; inversion Ee; subst; clear Ee;
        cbn [new_of app]; unfold mupd in Ex; destruct (N.eqb_spec n k); try discriminate Ex; subst; try congruence;
        (split; [assumption|]); try exact Hni; intros [X|X]; [congruence | exact (Hni X)].
    + inversion Ee; subst. rewrite opens_cons, (open_of_none i a e Eo). auto.
Qed.

(* ... so once shutdown has returned (all four slots empty) every instance ever opened has been closed, exactly once
   (the monitor allows one close per instance and nothing after it) *)
Theorem all_closed_after_shutdown tr y :
  accepts init_sys (tr ++ [EvG GShutdownRet]) = Some y -> NoDup (opens tr) ->
  exists m, lc_run (fun _ => LNew) (tr ++ [EvG GShutdownRet]) = Some m /\
            forall n, In n (opens tr) -> m n = LClosed.
Proof.
  intros Hacc Hnd. assert (Ho : opens (tr ++ [EvG GShutdownRet]) = opens tr).
  { unfold opens. rewrite flat_map_app. cbn. apply app_nil_r. }
  destruct (lifecycle_respected _ y Hacc ltac:(rewrite Ho; exact Hnd)) as (m & L & S). exists m. split; [exact L|].
  rewrite accepts_app in Hacc. destruct (accepts init_sys tr) as [y0|] eqn:E0; [|discriminate]. cbn [accepts] in Hacc.
  destruct (step y0 (EvG GShutdownRet)) as [y1|] eqn:Es; [|discriminate]. inversion Hacc; subst y1; clear Hacc.
  pose proof (closed_at_shutdown y0 y false Es) as (A0 & B0 & _). pose proof (closed_at_shutdown y0 y true Es) as (A1 & B1 & _). cbn in A0, B0, A1, B1.
  intros n Hn. destruct S as [Hok Hlive Hseen Hdist].
  (* n was opened, so the monitor has seen an OOpen for it: it is not new; it is not live, since no slot holds it *)
  assert (Hnl : ~ (m n = LOpen \/ m n = LRun)).
  { intros Hl. destruct (Hlive n Hl) as (k & h & Hk). unfold slots in Hk. rewrite A0, B0, A1, B1 in Hk.
    destruct k as [|[|[|[|k]]]]; cbn in Hk; try discriminate. destruct k; discriminate. }
  destruct (lst_dec (m n)) as [E|[E|[E|E]]]; try tauto. exfalso.
  (* m n = LNew contradicts the fact that an open of n was accepted *)
  destruct (lc_new_unopened n _ _ _ L E) as (_ & Hni). apply Hni. rewrite Ho. exact Hn.
Qed.

(* acquire_start on a running runtime: refused before any device is touched; what follows is the abort of the error path *)
Theorem start_refused_touches_no_device y y' :
  step y (EvG GStartRefused) = Some y' -> slots y' = slots y /\ in_call y' = InStartFail /\ in_call y = InStartBusy.
Proof.
  intros H. split; [eapply api_slots; eauto|]. cbn in H. destruct (in_call y) eqn:E; try discriminate H. cbv zeta in H.
  match type of H with (if ?b then _ else _) = _ => destruct b end; [|discriminate]. inversion H; subst; clear H. cbn. auto.
Qed.

(* ---------------------------------------------------------------------------------------------------------------
   "a device is started only when armed".  The model enables a device start (successful or failing) only in the HAL state
   Armed; every trace of the runtime being accepted, the runtime never starts a device in another state ... *)
Theorem start_needs_armed s n ok s' :
  (step_stream s ACli (DStoStart n ok) = Some s' -> sto s = Some n /\ sto_st s = HArmed) /\
  (forall tag, step_stream s ACli (DCamStart n ok tag) = Some s' -> cam s = Some n /\ cam_st s = HArmed).
Proof.
  split; [|intros tag]; intros H; cbn in H; unfold guard in H;
    match type of H with (if ?b then _ else _) = _ => destruct b eqn:E end; try discriminate H;
    repeat (apply andb_true_iff in E; destruct E as [E ?]).
  - split; [apply optN_eqb_true; assumption|]. destruct (sto_st s); cbn in *; congruence.
  - split; [apply optN_eqb_true; assumption|]. destruct (cam_st s); cbn in *; congruence.
Qed.

(* ... and what it does instead, when acquire_start meets a device that is not armed (it failed -- frame call, append, start -- and
   was not configured since): video_sink_start / video_source_start refuse BEFORE touching the device -- the device slots of the
   stream are unchanged, the start is marked failed (the error path of acquire_start follows: fail_start, abort) *)
Theorem unarmed_start_refused s w s' :
  step_stream s ACli (StartRefused w) = Some s' ->
  cam_slot s' = cam_slot s /\ sto_slot s' = sto_slot s /\ c_start s' = TFailed /\
  match w with RSink => sto_st s = HAwait /\ c_start s = TBegin | RSrc => cam_st s = HAwait /\ c_start s = TFiltUp | RFilt => False end.
Proof.
  intros H. destruct w; cbn in H; unfold guard in H; try discriminate H;
    match type of H with (if ?b then _ else _) = _ => destruct b eqn:E end; try discriminate H;
    inversion H; subst; clear H; repeat (apply andb_true_iff in E; destruct E as [E ?]);
    unfold cam_slot, sto_slot; cbn; repeat split; auto.
  - destruct (cam_st s); cbn in *; congruence.
  - destruct (c_start s); congruence.
  - destruct (sto_st s); cbn in *; congruence.
  - destruct (c_start s); congruence.
Qed.

Lemma start_failure_call y i a e y' : step y (EvS i a e) = Some y' -> is_start_failure e = true -> in_call y' = InStartFail.
Proof.
  intros H Hf. cbn in H. destruct (i && _ && _); [discriminate|].
  destruct (step_stream (if i then st1 y else st0 y) a e); [|discriminate]. rewrite Hf in H. inversion H; reflexivity.
Qed.

Theorem unarmed_start_refused_sys y i w y' :
  step y (EvS i ACli (StartRefused w)) = Some y' -> slots y' = slots y /\ in_call y' = InStartFail.
Proof.
  intros H. destruct (step_stream_slots _ _ _ _ _ H) as (s' & Hs & A & B & C & D).
  destruct (unarmed_start_refused _ _ _ Hs) as (A' & B' & _).
  split.
  - rewrite !slots_eq. destruct i; cbn [stream_of negb] in *; congruence.
  - eapply start_failure_call; [exact H | reflexivity].
Qed.
