(* PipeModel.v -- executable model of one video stream of the runtime (acquire.c, source.c, sink.c, filter.c over
   channel.c and the HAL), at the granularity of the blocks between scheduling points, labelled by the observable
   events the harness logs (device calls, channel operations, callbacks, thread creation/exit/join, API calls).

   The model is an event-labelled transition system:  step : sys -> event -> option sys.  A transition is enabled
   exactly when the acting thread's program counter is at the block that produces this event and the guards that
   the code evaluates inside that block (flag tests, HAL state tests, channel state) hold.  Frames are abstract
   values (acquisition tag, frame id, hardware id, shape); the queue sink.in is the abstract multi-reader log that
   the ring family proves channel.c to implement (C01: exactly-once, in order, empty means drained).

   NO PROOFS IN THIS FILE (the model must extract when a proof breaks).

   Scope (grammar G1, see DESIGN 6.4-6.9): init; (configure; start; client activity; stop|abort)*; shutdown with
   camera/storage faults, one or two streams, frame averaging off (the filter thread runs but its queue stays empty);
   configure and start are issued only while no worker thread of the stream is alive. *)
From Coq Require Import List Bool Arith NArith Lia.
From RecordUpdate Require Import RecordSet.
Import ListNotations RecordSetNotations.
Local Open Scope bool_scope.

(* ------------------------------------------------------------------------------------------------ frames *)
Record frm := mkF { f_tag : N; f_id : N; f_hw : N; f_sh : N }.

Definition frm_eqb (a b : frm) : bool :=
  N.eqb (f_tag a) (f_tag b) && N.eqb (f_id a) (f_id b) && N.eqb (f_hw a) (f_hw b) && N.eqb (f_sh a) (f_sh b).

Fixpoint frms_eqb (l1 l2 : list frm) : bool :=
  match l1, l2 with
  | [], [] => true
  | a :: l1', b :: l2' => frm_eqb a b && frms_eqb l1' l2'
  | _, _ => false
  end.

(* index of the first occurrence of f in l (length l when absent) *)
Fixpoint find_idx (f : frm) (l : list frm) : nat :=
  match l with
  | [] => 0
  | a :: l' => if frm_eqb f a then 0 else S (find_idx f l')
  end.

(* ------------------------------------------------------------------------------------------------ vocabulary *)
Inductive hst := HAwait | HArmed | HRunning.             (* state field of an open HAL device *)
Definition hst_eqb (a b : hst) : bool :=
  match a, b with HAwait, HAwait | HArmed, HArmed | HRunning, HRunning => true | _, _ => false end.

Inductive actor := ACli | ASrc | ASink | AFilt.           (* client (API caller, incl. a monitor thread) and the workers *)
Inductive role := RSrc | RSink | RFilt.
Inductive rd := RdSink | RdMon.                           (* the two readers of sink.in *)

Definition optN_eqb (a : option N) (b : N) : bool := match a with Some x => N.eqb x b | None => false end.

(* per-stream events *)
Inductive sev :=
| DOpenCam (i : N) | DCloseCam (i : N) | DSetCam (i : N)
| DOpenSto (i : N) | DCloseSto (i : N) | DSetSto (i : N)
| DStoStart (i : N) (ok : bool)
| DCamStart (i : N) (ok : bool) (tag : N)
| DCamStop (i : N)
| DStoStop (i : N)
| DTrigger (i : N)
| DGetFrame (i : N) (res : option (N * N * N))            (* hardware id, tag, shape; None = the call failed *)
| DGetEmpty (i : N)                                          (* the frame call returned no frame (Device_Ok, zero bytes): the source
                                                                cancels the write (abort_write + an empty unmap, neither of which
                                                                changes the queue) and asks again *)
| DAppend (i : N) (ok : bool) (fs : list frm)
| WMapEnter | WMap (ok : bool) | Commit (ok : bool) (f : frm)
| Accept (b : bool)
| RMapEnter (r : rd) | RMap (r : rd) (fs : list frm) | RUnmap (r : rd) (c : nat)
| CbStopFilter | CbStopSink | CbStopSource
| Spawn (w : role) | Exit (w : role) | Joined (w : role)
| MonMapRefused | MonMapRet (ok : bool)
| StartRefused (w : role).   (* acquire_start: video_sink_start (RSink) / video_source_start (RSrc) finds its device not armed and
                                refuses before it touches the device (a device that failed and was not configured since) *)

(* program counters *)
Inductive spc :=
| SOff | SLoop | SWMap | SMapped | SGot (f : frm) | SFailStop | SLeave | SWind1 | SWind2 | SExiting | SDone.
Inductive kpc :=
| KOff | KTest
| KMainMapping | KMainMapped (k : nat) | KMainAppended (k j : nat) | KMainAgain
| KFlushMapping | KFlushMapped (k : nat) | KFlushAppended (k : nat) | KFlushAgain
| KStop
| KErrCb (k : nat) | KErrAccept (k : nat) | KErrUnmap (k : nat)
| KDrainAgain | KDrainMapping | KDrainMapped (k : nat)
| KExiting | KDone.
Inductive fpc := FOff | FRun | FDone.
(* the client's progress inside acquire_start for this stream (video_sink_start; video_filter_start; video_source_start) *)
Inductive cstart :=
| TNone | TBegin | TStoStarted | TAccepted | TRegEnter | TRegMapped | TRegDone | TSinkUp | TFiltUp | TCamStarted | TDone | TFailed.
(* the client's progress inside acquire_stop for this stream *)
Inductive cstop := CNone | CWaitJoin | CFlush0 | CFlush | CFlushMapping | CFlushMapped (k : nat) | CStopped.

Record stream := mkStream {
  valid : bool;                   (* bit of valid_video_streams *)
  maxn : N;                       (* max_frame_count *)
  cam : option N; cam_st : hst;   (* open camera instance and its HAL state *)
  sto : option N; sto_st : hst;
  cam_tag : N; cam_next : N;      (* mock camera: tag of the current run, next hardware id *)
  log : list frm;                 (* every frame ever committed to sink.in *)
  accepting : bool;
  sink_reg : bool; sink_cur : nat; sink_map : option nat;
  mon_reg : bool; mon_cur : nat; mon_map : option nat;
  src_stopping : bool; abort_win : bool; sink_stopping : bool; filt_stopping : bool;
  src_running : bool; sink_running : bool; filt_running : bool;
  s_pc : spc; k_pc : kpc; f_pc : fpc; c_stop : cstop; c_start : cstart;
  iframe : N;
  (* ghost: the history of the current acquisition *)
  base : nat;                     (* length of log when the storage device was last started *)
  delivered : list frm;           (* frames the camera handed out since its last start *)
  stored : list frm;              (* frames appended since the storage's last start *)
  sto_failed : bool;              (* an append has failed since the storage's last start *)
  seen : list frm;                (* frames the monitor consumed since the storage's last start *)
  aborted : bool;                 (* writes were refused / a stop was forced since the storage's last start (abort, failed start) *)
  cam_failed : bool;              (* the camera's frame call failed since the storage's last start *)
  acq_on : bool;                  (* video_sink_start has re-enabled writes since the storage's last start *)
  src_on : bool;                  (* the source thread of this acquisition has been created *)
  goal : N;                       (* max_frame_count when the source thread was created *)
  mon_fresh : bool;               (* the monitor reader was registered and drained when the storage was last started *)
  dropped : bool;                 (* a commit of this acquisition's source was refused (writes were not accepted) *)
  cam_starts : nat; cam_stops : nat; sto_starts : nat; sto_stops : nat  (* device-call counters (life cycle) *)
}.
#[export] Instance etaStream : Settable _ := settable! mkStream
  <valid; maxn; cam; cam_st; sto; sto_st; cam_tag; cam_next; log; accepting; sink_reg; sink_cur; sink_map;
   mon_reg; mon_cur; mon_map; src_stopping; abort_win; sink_stopping; filt_stopping; src_running; sink_running;
   filt_running; s_pc; k_pc; f_pc; c_stop; c_start; iframe; base; delivered; stored; sto_failed; seen; aborted; cam_failed; acq_on; src_on; goal; mon_fresh; dropped;
   cam_starts; cam_stops; sto_starts; sto_stops>.

Definition init_stream : stream :=
  mkStream false 0 None HAwait None HAwait 0 0 [] true false 0 None false 0 None
           false false false false false false false SOff KOff FOff CNone TNone 0 0 [] [] false [] false false false false 0 false false 0 0 0 0.

(* ------------------------------------------------------------------------------------------------ helpers *)
Definition seg (l : list frm) (from n : nat) : list frm := firstn n (skipn from l).

Definition spc_idle (p : spc) : bool := match p with SOff | SDone => true | _ => false end.
Definition kpc_idle (p : kpc) : bool := match p with KOff | KDone => true | _ => false end.
Definition fpc_idle (p : fpc) : bool := match p with FOff | FDone => true | _ => false end.
Definition workers_idle (s : stream) : bool := spc_idle (s_pc s) && kpc_idle (k_pc s) && fpc_idle (f_pc s).

(* no worker alive and the client is not inside acquire_start for this stream: where configure / shutdown act *)
Definition quiet (s : stream) : bool := workers_idle s && match c_start s with TNone => true | _ => false end.

Definition guard (b : bool) (s : stream) : option stream := if b then Some s else None.

(* what the sink does once its final read came back empty: storage_stop, clear its flags, leave *)
Definition sink_finish (s : stream) : stream :=
  match sto_st s with
  | HRunning => s <| k_pc := KStop |>
  | _ => s <| sink_running := false |> <| sink_stopping := false |> <| k_pc := KExiting |>
  end.

(* a reader maps: the frames handed out must be the next unread ones, and an empty result means drained *)
Definition read_ok (l : list frm) (cur : nat) (fs : list frm) : bool :=
  frms_eqb fs (seg l cur (length fs)) && (negb (Nat.eqb (length fs) 0) || Nat.eqb cur (length l)).

(* ------------------------------------------------------------------------------------------------ the step function *)
Definition step_stream (s : stream) (a : actor) (e : sev) : option stream :=
  match a, e with
  (* ---------------- devices: open / close / set (client, outside acquisitions) *)
  | ACli, DOpenCam i =>
      guard (match cam s with None => true | _ => false end && quiet s) (s <| cam := Some i |> <| cam_st := HAwait |>)
  | ACli, DCloseCam i =>
      guard (optN_eqb (cam s) i && quiet s) (s <| cam := None |> <| cam_st := HAwait |>)
  | ACli, DSetCam i =>
      guard (optN_eqb (cam s) i && quiet s)
            (s <| cam_st := match cam_st s with HRunning => HRunning | _ => HArmed end |>)
  | ACli, DOpenSto i =>
      guard (match sto s with None => true | _ => false end && quiet s) (s <| sto := Some i |> <| sto_st := HAwait |>)
  | ACli, DCloseSto i =>
      guard (optN_eqb (sto s) i && quiet s) (s <| sto := None |> <| sto_st := HAwait |>)
  | ACli, DSetSto i =>
      guard (optN_eqb (sto s) i && quiet s) (s <| sto_st := HArmed |>)
  (* ---------------- acquire_start, stream part *)
  | ACli, DStoStart i ok =>
      guard (optN_eqb (sto s) i && hst_eqb (sto_st s) HArmed && workers_idle s
             && match c_start s with TBegin => true | _ => false end)
            (if ok then s <| sto_st := HRunning |> <| base := length (log s) |> <| stored := [] |> <| seen := [] |>
                          <| sto_failed := false |> <| aborted := false |> <| cam_failed := false |>
                          <| acq_on := false |> <| src_on := false |>
                          <| mon_fresh := mon_reg s && Nat.eqb (mon_cur s) (length (log s)) |>
                          <| sto_starts ::= S |> <| c_start := TStoStarted |>
             else s <| sto_st := HAwait |> <| c_start := TFailed |>)
  | ACli, StartRefused RSink =>
      guard (workers_idle s && negb (hst_eqb (sto_st s) HArmed) && negb (hst_eqb (sto_st s) HRunning)
             && match c_start s with TBegin => true | _ => false end)
            (s <| c_start := TFailed |>)
  | ACli, StartRefused RSrc =>
      guard (spc_idle (s_pc s) && negb (hst_eqb (cam_st s) HArmed) && negb (hst_eqb (cam_st s) HRunning)
             && match c_start s with TFiltUp => true | _ => false end)
            (s <| c_start := TFailed |>)
  | ACli, Spawn RSink =>
      guard (kpc_idle (k_pc s) && hst_eqb (sto_st s) HRunning && match c_start s with TRegDone => true | _ => false end)
            (s <| sink_stopping := false |> <| sink_running := true |> <| k_pc := KTest |> <| c_start := TSinkUp |>)
  | ACli, Spawn RFilt =>
      guard (fpc_idle (f_pc s) && match c_start s with TSinkUp => true | _ => false end)
            (s <| filt_stopping := false |> <| filt_running := true |> <| f_pc := FRun |> <| c_start := TFiltUp |>)
  | ACli, DCamStart i ok tag =>
      guard (optN_eqb (cam s) i && hst_eqb (cam_st s) HArmed && spc_idle (s_pc s)
             && match c_start s with TFiltUp => true | _ => false end)
            (if ok then s <| cam_st := HRunning |> <| cam_tag := tag |> <| cam_next := 0%N |> <| delivered := [] |>
                          <| cam_starts ::= S |> <| c_start := TCamStarted |>
             else s <| cam_st := HAwait |> <| c_start := TFailed |>)
  | ACli, Spawn RSrc =>
      guard (spc_idle (s_pc s) && hst_eqb (cam_st s) HRunning && match c_start s with TCamStarted => true | _ => false end)
            (s <| src_stopping := false |> <| abort_win := false |> <| src_running := true |> <| s_pc := SLoop |>
               <| iframe := 0%N |> <| src_on := true |> <| goal := maxn s |> <| dropped := false |> <| c_start := TDone |>)
  (* ---------------- source thread *)
  | ASrc, WMapEnter =>
      guard (match s_pc s with SLoop => true | _ => false end && negb (src_stopping s) && N.ltb (iframe s) (maxn s))
            (s <| s_pc := SWMap |>)
  | ASrc, WMap ok =>
      guard (match s_pc s with SWMap => true | _ => false end && Bool.eqb ok (accepting s))
            (s <| s_pc := if ok then SMapped else SLoop |>)
  | ASrc, DGetFrame i (Some (hw, tag, sh)) =>
      guard (match s_pc s with SMapped => true | _ => false end && optN_eqb (cam s) i && hst_eqb (cam_st s) HRunning
             && N.eqb hw (cam_next s) && N.eqb tag (cam_tag s))
            (let f := mkF tag (iframe s) hw sh in
             s <| cam_next := N.succ (cam_next s) |> <| delivered := delivered s ++ [f] |> <| s_pc := SGot f |>
               <| iframe := N.succ (iframe s) |>)
  | ASrc, DGetFrame i None =>
      guard (match s_pc s with SMapped => true | _ => false end && optN_eqb (cam s) i && hst_eqb (cam_st s) HRunning)
            (s <| s_pc := SFailStop |> <| cam_failed := true |>)
  | ASrc, DGetEmpty i =>
      guard (match s_pc s with SMapped => true | _ => false end && optN_eqb (cam s) i && hst_eqb (cam_st s) HRunning)
            (s <| s_pc := SLoop |>)
  | ASrc, Commit ok f =>
      guard (match s_pc s with SGot f' => frm_eqb f f' | _ => false end && Bool.eqb ok (accepting s))
            (if ok then s <| log := log s ++ [f] |> <| s_pc := SLoop |> else s <| dropped := true |> <| s_pc := SLoop |>)
  | ASrc, CbStopFilter =>
      guard (match s_pc s with
             | SLoop => src_stopping s || abort_win s || N.leb (maxn s) (iframe s)
             | SLeave => true
             | SMapped => negb (hst_eqb (cam_st s) HRunning)
             | _ => false
             end)
            (s <| filt_stopping := true |> <| s_pc := SWind1 |>)
  | ASrc, CbStopSink =>
      guard (match s_pc s with SWind1 => true | _ => false end && match f_pc s with FDone | FOff => true | FRun => false end)
            (match cam_st s with
             | HRunning => s <| sink_stopping := true |> <| s_pc := SWind2 |>
             | _ => s <| sink_stopping := true |> <| src_stopping := false |> <| src_running := false |> <| s_pc := SExiting |>
             end)
  | ASrc, DCamStop i =>
      match s_pc s with
      | SWind2 => guard (optN_eqb (cam s) i && hst_eqb (cam_st s) HRunning)
                        (s <| cam_st := HArmed |> <| src_stopping := false |> <| src_running := false |>
                           <| s_pc := SExiting |> <| cam_stops ::= S |>)
      | SFailStop => guard (optN_eqb (cam s) i && hst_eqb (cam_st s) HRunning)
                           (s <| cam_st := HAwait |> <| s_pc := SLeave |> <| cam_stops ::= S |>)
      | _ => None
      end
  | ASrc, Exit RSrc => guard (match s_pc s with SExiting => true | _ => false end) (s <| s_pc := SDone |>)
  (* the client's camera_stop in acquire_start's error path *)
  | ACli, DCamStop i =>
      guard (optN_eqb (cam s) i && hst_eqb (cam_st s) HRunning && spc_idle (s_pc s))
            (s <| cam_st := HArmed |> <| cam_stops ::= S |>)
  (* ---------------- sink thread *)
  | ASink, RMapEnter RdSink =>
      match k_pc s with
      | KTest => Some (s <| k_pc := if negb (sink_stopping s) && hst_eqb (sto_st s) HRunning then KMainMapping else KFlushMapping |>)
      | KMainAgain => Some (s <| k_pc := KMainMapping |>)
      | KFlushAgain => Some (s <| k_pc := KFlushMapping |>)
      | KDrainAgain => Some (s <| k_pc := KDrainMapping |>)
      | _ => None
      end
  | ASink, RMap RdSink fs =>
      let k := length fs in
      match k_pc s with
      | KMainMapping | KFlushMapping | KDrainMapping =>
          guard (sink_reg s && read_ok (log s) (sink_cur s) fs && match sink_map s with None => true | _ => false end)
                (s <| sink_map := if Nat.eqb k 0 then None else Some k |>
                   <| k_pc := match k_pc s with
                              | KMainMapping => KMainMapped k
                              | KFlushMapping => KFlushMapped k
                              | _ => KDrainMapped k
                              end |>)
      | _ => None
      end
  | ASink, DAppend i ok fs =>
      let j := length fs in
      match k_pc s with
      | KMainMapped k =>
          guard (optN_eqb (sto s) i && hst_eqb (sto_st s) HRunning && negb (Nat.eqb j 0) && Nat.leb j k
                 && frms_eqb fs (seg (log s) (sink_cur s) j))
                (if ok then s <| stored := stored s ++ fs |> <| k_pc := KMainAppended k j |>
                 else s <| sto_st := HAwait |> <| sto_failed := true |> <| k_pc := KErrCb k |>)
      | KFlushMapped k =>
          guard (optN_eqb (sto s) i && hst_eqb (sto_st s) HRunning && negb (Nat.eqb j 0) && Nat.eqb j k
                 && frms_eqb fs (seg (log s) (sink_cur s) j))
                (if ok then s <| stored := stored s ++ fs |> <| k_pc := KFlushAppended k |>
                 else s <| sto_st := HAwait |> <| sto_failed := true |> <| k_pc := KErrCb k |>)
      | _ => None
      end
  | ASink, RUnmap RdSink c =>
      match k_pc s with
      | KMainMapped k =>          (* nothing was old enough to be written: storage_append of an empty range, unmap 0 *)
          guard (Nat.eqb c 0) (s <| sink_map := None |> <| k_pc := if Nat.eqb k 0 then KTest else KMainAgain |>)
      | KMainAppended k j =>
          guard (Nat.eqb c j) (s <| sink_cur := sink_cur s + j |> <| sink_map := None |> <| k_pc := KMainAgain |>)
      | KFlushMapped k =>          (* only an empty final read reaches the unmap without an append *)
          guard (Nat.eqb k 0 && Nat.eqb c 0 && hst_eqb (sto_st s) HRunning) (sink_finish (s <| sink_map := None |>))
      | KFlushAppended k =>
          guard (Nat.eqb c k) (s <| sink_cur := sink_cur s + k |> <| sink_map := None |> <| k_pc := KFlushAgain |>)
      | KErrUnmap k =>
          guard (Nat.eqb c 0) (s <| sink_map := None |> <| k_pc := KDrainAgain |>)
      | KDrainMapped k =>
          guard (Nat.eqb c k)
                (if Nat.eqb k 0 then sink_finish (s <| sink_map := None |>)
                 else s <| sink_cur := sink_cur s + k |> <| sink_map := None |> <| k_pc := KDrainAgain |>)
      | _ => None
      end
  | ASink, DStoStop i =>
      guard (match k_pc s with KStop => true | _ => false end && optN_eqb (sto s) i && hst_eqb (sto_st s) HRunning)
            (s <| sto_st := HArmed |> <| sink_running := false |> <| sink_stopping := false |> <| k_pc := KExiting |>
               <| sto_stops ::= S |>)
  | ASink, CbStopSource =>
      match k_pc s with
      | KErrCb k => Some (s <| src_stopping := true |> <| k_pc := KErrAccept k |>)
      | _ => None
      end
  | ASink, Accept b =>
      guard (match k_pc s with KErrAccept _ => true | _ => false end && negb b)
            (s <| accepting := false |> <| k_pc := match k_pc s with KErrAccept k => KErrUnmap k | p => p end |>)
  | ASink, Exit RSink => guard (match k_pc s with KExiting => true | _ => false end) (s <| k_pc := KDone |>)
  (* ---------------- filter thread (averaging off: its queue stays empty; it leaves when told to) *)
  | AFilt, Exit RFilt =>
      guard (match f_pc s with FRun => true | _ => false end && filt_stopping s)
            (s <| f_pc := FDone |> <| filt_running := false |> <| filt_stopping := false |>)
  (* ---------------- client: reader registration at start, stop / abort, storage_close *)
  | ACli, Accept b =>
      if b then
        match c_stop s, c_start s with
        | CWaitJoin, _ => guard (workers_idle s) (s <| accepting := true |> <| c_stop := if mon_reg s then CFlush0 else CStopped |>)
        | CNone, TStoStarted => Some (s <| accepting := true |> <| acq_on := true |> <| c_start := TAccepted |>)   (* video_sink_start *)
        | _, _ => None
        end
      else
        guard (match c_stop s with CWaitJoin => true | _ => false end)
              (s <| accepting := false |> <| src_stopping := true |> <| abort_win := false |> <| aborted := true |>)
  | ACli, DTrigger i => guard (optN_eqb (cam s) i && hst_eqb (cam_st s) HRunning) s
  | ACli, Joined w =>
      guard (match w with RSrc => spc_idle (s_pc s) | RSink => kpc_idle (k_pc s) | RFilt => fpc_idle (f_pc s) end) s
  | ASrc, Joined RFilt => guard (fpc_idle (f_pc s) && match s_pc s with SWind1 => true | _ => false end) s
  | ACli, RMapEnter RdSink => guard (match c_start s with TAccepted => true | _ => false end) (s <| c_start := TRegEnter |>)
  | ACli, RMap RdSink fs =>            (* video_sink_start registers the reader: map, then unmap 0 *)
      let j := if sink_reg s then sink_cur s else match fs with [] => length (log s) | f :: _ => find_idx f (log s) end in
      guard (match c_start s with TRegEnter => true | _ => false end && read_ok (log s) j fs
             && match sink_map s with None => true | _ => false end)
            (s <| sink_reg := true |> <| sink_cur := j |> <| c_start := TRegMapped |>)
  | ACli, RUnmap RdSink c =>
      guard (match c_start s with TRegMapped => true | _ => false end && Nat.eqb c 0) (s <| c_start := TRegDone |>)
  | ACli, DStoStop i =>                (* storage_close stops a device that is still running *)
      guard (optN_eqb (sto s) i && hst_eqb (sto_st s) HRunning && quiet s) (s <| sto_st := HArmed |> <| sto_stops ::= S |>)
  (* ---------------- the monitor reader (acquire_map_read / acquire_unmap_read, and acquire_stop's flush) *)
  | ACli, MonMapRefused => guard (match mon_map s with Some _ => true | None => false end && match c_stop s with CNone => true | _ => false end) s
  | ACli, RMapEnter RdMon =>
      match c_stop s with
      | CFlush => Some (s <| c_stop := CFlushMapping |>)
      | CNone => guard (match mon_map s with None => true | _ => false end) s
      | _ => None
      end
  | ACli, RMap RdMon fs =>
      let k := length fs in
      let j := if mon_reg s then mon_cur s else match fs with [] => length (log s) | f :: _ => find_idx f (log s) end in
      match c_stop s, mon_map s with
      | (CNone | CFlushMapping), None =>
          guard (read_ok (log s) j fs)
                (s <| mon_reg := true |> <| mon_cur := j |> <| mon_map := if Nat.eqb k 0 then None else Some k |>
                   <| c_stop := match c_stop s with CFlushMapping => CFlushMapped k | p => p end |>)
      | _, _ => None
      end
  | ACli, MonMapRet ok => guard (ok && match c_stop s with CNone => true | _ => false end) s
  | ACli, RUnmap RdMon c =>
      let k := match mon_map s with Some k => k | None => 0 end in
      let c' := Nat.min c k in
      let s' := s <| mon_cur := mon_cur s + c' |> <| seen := seen s ++ seg (log s) (mon_cur s) c' |> <| mon_map := None |> in
      match c_stop s with
      | CFlush0 => guard (Nat.leb k c) (s' <| c_stop := CFlush |>)
      | CFlushMapped k' => guard (Nat.leb k c) (s' <| c_stop := if Nat.eqb k' 0 then CStopped else CFlush |>)
      | CNone => Some s'
      | _ => None
      end
  | _, _ => None
  end.

(* ------------------------------------------------------------------------------------------------ two streams + the API *)
Inductive call := InIdle | InStart | InStartBusy | InStartFail | InStop | InAbort | InShutdown.
Inductive gev :=
| GConfigure (v0 v1 : bool) (n0 n1 : N)       (* acquire_configure returned: valid bits, max frame counts *)
| GStartCall | GStartRet (ok : bool)
| GStartRefused                                 (* the HAL refused to start a storage that is not Armed (start while running) *)
| GStopCall | GStopRet
| GAbortCall | GAbortRet
| GShutdownCall | GShutdownRet
| GState (st : hst).
Inductive event := EvS (i : bool) (a : actor) (e : sev) | EvG (g : gev).

Record sys := mkSys { st0 : stream; st1 : stream; api : hst; in_call : call }.
#[export] Instance etaSys : Settable _ := settable! mkSys <st0; st1; api; in_call>.
Definition init_sys : sys := mkSys init_stream init_stream HAwait InIdle.

Definition any_running (s : stream) : bool := valid s && (src_running s || filt_running s || sink_running s).
Definition stopped_ok (s : stream) : bool :=
  negb (valid s) || match c_stop s with CStopped => true | _ => false end.
Definition begin_stop (abort : bool) (s : stream) : stream :=
  if valid s then s <| c_stop := CWaitJoin |> <| abort_win := abort |> <| aborted := aborted s || abort |> else s.
Definition end_stop (s : stream) : stream := s <| c_stop := CNone |> <| abort_win := false |> <| c_start := TNone |>.
Definition begin_start (s : stream) : stream := if valid s then s <| c_start := TBegin |> else s.
Definition started_ok (s : stream) : bool := negb (valid s) || match c_start s with TDone => true | _ => false end.
(* a failed acquire_start: the filter and sink of every valid stream without a running source are told to stop, then
   the acquisition is aborted (acquire_abort) *)
Definition fail_start (s : stream) : stream :=
  if valid s then
    begin_stop true ((if src_running s then s else s <| filt_stopping := true |> <| sink_stopping := true |>)
                       <| c_start := match c_start s with TDone => TDone | _ => TFailed end |>)
  else s.
Definition is_start_failure (e : sev) : bool :=
  match e with DStoStart _ false | DCamStart _ false _ | StartRefused _ => true | _ => false end.
(* acquire_start's error path stops every valid stream's camera; its storage was stopped by its sink thread *)
Definition devs_stopped (s : stream) : bool :=
  negb (valid s) || (negb (hst_eqb (cam_st s) HRunning) && negb (hst_eqb (sto_st s) HRunning)).
Definition all_closed (s : stream) : bool :=
  match cam s, sto s with None, None => true | _, _ => false end.
Definition hmax (a b : hst) : hst :=
  match a, b with HRunning, _ | _, HRunning => HRunning | HArmed, _ | _, HArmed => HArmed | _, _ => HAwait end.

Definition step (y : sys) (ev : event) : option sys :=
  match ev with
  | EvS i a e =>
      let s := if i then st1 y else st0 y in
      (* acquire_start starts stream 1 only after stream 0 *)
      if i && match in_call y with InStart => negb (started_ok (st0 y)) | _ => false end
           && match a, c_start s with ACli, (TBegin | TStoStarted | TAccepted | TRegEnter | TRegMapped | TRegDone | TSinkUp | TFiltUp | TCamStarted) => true | _, _ => false end
      then None else
      match step_stream s a e with
      | None => None
      | Some s' =>
          let y' := if i then y <| st1 := s' |> else y <| st0 := s' |> in
          Some (if is_start_failure e then y' <| st0 ::= fail_start |> <| st1 ::= fail_start |> <| in_call := InStartFail |> else y')
      end
  | EvG (GConfigure v0 v1 n0 n1) =>
      match in_call y with
      | InIdle =>
          if workers_idle (st0 y) && workers_idle (st1 y) then
            Some (y <| st0 := st0 y <| valid := v0 |> <| maxn := n0 |> |>
                    <| st1 := st1 y <| valid := v1 |> <| maxn := n1 |> |>
                    <| api := if v0 || v1 then hmax (api y) HArmed else HAwait |>)
          else None
      | _ => None
      end
  | EvG GStartCall =>
      match in_call y with
      | InIdle => if valid (st0 y) || valid (st1 y) then
                    if workers_idle (st0 y) && workers_idle (st1 y)
                    then Some (y <| in_call := InStart |> <| st0 ::= begin_start |> <| st1 ::= begin_start |>)
                    else Some (y <| in_call := InStartBusy |>)   (* start while a worker is alive: see GStartRefused *)
                  else Some (y <| in_call := InStartFail |>)     (* no valid stream: acquire_start fails at once (and aborts nothing) *)
      | _ => None
      end
  | EvG GStartRefused =>
      (* acquire_start on a runtime whose first valid stream is still running: video_sink_start fails because the HAL refuses to
         start a storage that is Running; no device is touched; the error path aborts every stream *)
      match in_call y with
      | InStartBusy =>
          let s := if valid (st0 y) then st0 y else st1 y in
          if hst_eqb (sto_st s) HRunning
          then Some (y <| st0 ::= fail_start |> <| st1 ::= fail_start |> <| in_call := InStartFail |>)
          else None
      | _ => None
      end
  | EvG (GStartRet ok) =>
      match in_call y with
      | InStart => if ok && started_ok (st0 y) && started_ok (st1 y)
                   then Some (y <| in_call := InIdle |> <| api := HRunning |>
                                <| st0 ::= set c_start (fun _ => TNone) |> <| st1 ::= set c_start (fun _ => TNone) |>)
                   else None
      | InStartFail => if negb ok && stopped_ok (st0 y) && stopped_ok (st1 y) && devs_stopped (st0 y) && devs_stopped (st1 y)
                       then Some (y <| in_call := InIdle |> <| api := HAwait |> <| st0 ::= end_stop |> <| st1 ::= end_stop |>)
                       else None
      | _ => None
      end
  | EvG GStopCall =>
      match in_call y with
      | InIdle => Some (y <| in_call := InStop |> <| st0 ::= begin_stop false |> <| st1 ::= begin_stop false |>)
      | _ => None
      end
  | EvG GAbortCall =>
      match in_call y with
      | InIdle => Some (y <| in_call := InAbort |> <| st0 ::= begin_stop true |> <| st1 ::= begin_stop true |>)
      | _ => None
      end
  | EvG GStopRet =>
      match in_call y with
      | InStop => if stopped_ok (st0 y) && stopped_ok (st1 y)
                 then Some (y <| in_call := InIdle |> <| api := HArmed |> <| st0 ::= end_stop |> <| st1 ::= end_stop |>)
                 else None
      | _ => None
      end
  | EvG GAbortRet =>
      match in_call y with
      | InAbort => if stopped_ok (st0 y) && stopped_ok (st1 y)
                  then Some (y <| in_call := InIdle |> <| api := HArmed |> <| st0 ::= end_stop |> <| st1 ::= end_stop |>)
                  else None
      | _ => None
      end
  | EvG GShutdownCall =>
      match in_call y with
      | InIdle => Some (y <| in_call := InShutdown |> <| st0 ::= begin_stop true |> <| st1 ::= begin_stop true |>)
      | _ => None
      end
  | EvG GShutdownRet =>
      match in_call y with
      | InShutdown =>
          if stopped_ok (st0 y) && stopped_ok (st1 y) && workers_idle (st0 y) && workers_idle (st1 y)
             && all_closed (st0 y) && all_closed (st1 y)
          then Some (y <| in_call := InIdle |> <| api := HAwait |> <| st0 ::= end_stop |> <| st1 ::= end_stop |>)
          else None
      | _ => None
      end
  | EvG (GState st) =>
      match api y with
      | HRunning =>
          let r := any_running (st0 y) || any_running (st1 y) in
          let want := if r then HRunning else HArmed in
          if hst_eqb st want then Some (y <| api := want |>) else None
      | a => if hst_eqb st a then Some y else None
      end
  end.

(* run a trace; the result is the state after the longest accepted prefix and the number of events accepted *)
Fixpoint run (y : sys) (tr : list event) : sys * nat :=
  match tr with
  | [] => (y, 0)
  | e :: tr' => match step y e with
                | Some y' => let (z, n) := run y' tr' in (z, S n)
                | None => (y, 0)
                end
  end.

Fixpoint accepts (y : sys) (tr : list event) : option sys :=
  match tr with
  | [] => Some y
  | e :: tr' => match step y e with Some y' => accepts y' tr' | None => None end
  end.
