(* PipeStep.v -- every event of the two-stream system preserves the invariant; hence every reachable state has it. *)
From Coq Require Import List Bool Arith NArith Lia.
From RecordUpdate Require Import RecordSet.
From Pipe Require Import PipeModel PipeFacts PipeTac PipeInvDefs PipeInv1 PipeInv2 PipeInv3 PipeInv4 PipeSysA PipeSysCfg PipeSysBeginStart PipeSysResetStart PipeSysBeginStop PipeSysEndStop PipeSysFailStart.
Import ListNotations RecordSetNotations.

Lemma sinv_init : SInv init_stream.
Proof. split; [apply inv1_init | split; [apply inv2_init | split; [apply inv3_init | apply inv4_init]]]. Qed.

Lemma sinv_step s a e s' : SInv s -> step_stream s a e = Some s' -> SInv s'.
Proof.
  intros (H1 & H2 & H3 & H4) H.
  split; [eapply inv1_step; eassumption | split; [eapply inv2_step; eassumption | split; [eapply inv3_step; eassumption | eapply inv4_step; eassumption]]].
Qed.

Lemma yinv_init : YInv init_sys.
Proof. constructor; cbn; auto using sinv_init. Qed.

Lemma fail_start_call s : valid s = true \/ (c_stop s = CNone /\ c_start s = TNone) -> call_ok InStartFail (fail_start s).
Proof.
  intros H. unfold fail_start, begin_stop. destruct (valid s) eqn:Ev.
  - cbn. destruct (src_running s); cbn; rewrite ?Ev; cbn; rewrite ?Ev; cbn.
    all: split; [destruct (c_start s); auto | intros Hx; discriminate].
  - destruct H as [H|[H1 H2]]; [discriminate|]. cbn. rewrite H2. split; [auto | auto].
Qed.

Lemma failure_phase s a e s' :
  step_stream s a e = Some s' -> is_start_failure e = true -> c_start s = TBegin \/ c_start s = TFiltUp.
Proof. intros H Hf. destruct e; try discriminate Hf; try match goal with w : role |- _ => destruct w end;
       destruct a; cbn in H; unfold guard in H; destruct (c_start s); auto;
       rewrite ?andb_false_r in H; try discriminate H. Qed.

Lemma in_start_of_failure c s a e s' :
  call_ok c s -> step_stream s a e = Some s' -> is_start_failure e = true -> c = InStart.
Proof.
  intros Hc H Hf. destruct (failure_phase _ _ _ _ H Hf) as [Hp|Hp]; destruct c; cbn in Hc; auto;
    intuition (try congruence).
Qed.

Lemma started_ok_spec s : started_ok s = true -> valid s = false \/ c_start s = TDone.
Proof. unfold started_ok. destruct (valid s); cbn; auto. destruct (c_start s); auto; discriminate. Qed.
Lemma stopped_ok_spec s : stopped_ok s = true -> valid s = false \/ c_stop s = CStopped.
Proof. unfold stopped_ok. destruct (valid s); cbn; auto. destruct (c_stop s); auto; discriminate. Qed.
Lemma devs_stopped_spec s : devs_stopped s = true -> valid s = false \/ (cam_st s <> HRunning /\ sto_st s <> HRunning).
Proof.
  unfold devs_stopped. destruct (valid s); cbn; auto. intros H. right. apply andb_true_iff in H. destruct H as [H1 H2].
  apply negb_true_iff in H1, H2. split; apply hst_eqb_false; assumption.
Qed.

Lemma begin_start_call s : c_stop s = CNone -> c_start s = TNone -> call_ok InStart (begin_start s).
Proof. intros H1 H2. unfold begin_start. destruct (valid s) eqn:Ev; cbn; rewrite ?Ev; cbn; repeat split; auto; try congruence; intros; congruence. Qed.

Lemma begin_stop_call ab c s : (c = InStop \/ c = InAbort \/ c = InShutdown) -> c_stop s = CNone -> c_start s = TNone -> call_ok c (begin_stop ab s).
Proof.
  intros Hc H1 H2. unfold begin_stop. destruct (valid s) eqn:Ev; destruct Hc as [ -> | [ -> | -> ] ]; cbn; rewrite ?Ev; cbn; split; auto;
    intros; congruence.
Qed.

Lemma end_stop_call s : call_ok InIdle (end_stop s).
Proof. unfold end_stop; cbn; auto. Qed.

Lemma end_stop_inv c s :
  SInv s -> call_ok c s -> (c = InStop \/ c = InAbort \/ c = InShutdown) -> stopped_ok s = true -> SInv (end_stop s).
Proof.
  intros Hs Hc Hx Ho. assert (Ht : c_start s = TNone /\ (valid s = false -> c_stop s = CNone)) by (destruct Hx as [ -> | [ -> | -> ] ]; exact Hc).
  destruct Ht as [Ht Hv]. apply sinv_end_stop; auto.
  - destruct (stopped_ok_spec _ Ho); auto.
  - intros; congruence.
Qed.

Lemma yinv_step y ev y' : YInv y -> step y ev = Some y' -> YInv y'.
Proof.
  intros [Hs0 Hs1 Hc0 Hc1] H. destruct ev as [i a e | g]; cbn in H.
  - (* a stream event *)
    destruct (i && _ && _) eqn:Eo; [discriminate|].
    destruct i.
    + destruct (step_stream (st1 y) a e) as [s'|] eqn:Es; [|discriminate].
      pose proof (sinv_step _ _ _ _ Hs1 Es) as Hs1'.
      destruct (is_start_failure e) eqn:Ef; inversion H; subst; clear H.
      * pose proof (in_start_of_failure _ _ _ _ _ Hc1 Es Ef) as Hin. rewrite Hin in *. cbn in Hc0, Hc1.
        destruct Hc0 as (A0 & B0 & C0). destruct Hc1 as (A1 & B1 & C1).
        pose proof (step_cstop_none _ _ _ _ Es A1) as A1'. pose proof (step_valid _ _ _ _ Es) as V1.
        constructor; cbn.
        -- apply sinv_fail_start; assumption.
        -- apply sinv_fail_start; assumption.
        -- apply fail_start_call. destruct (valid (st0 y)) eqn:Ev; auto.
        -- apply fail_start_call. destruct (valid s') eqn:Ev; auto. right. split; auto.
           rewrite V1 in Ev. eapply step_cstart_none; eauto.
      * constructor; cbn; auto. eapply call_ok_step; eauto.
    + destruct (step_stream (st0 y) a e) as [s'|] eqn:Es; [|discriminate].
      pose proof (sinv_step _ _ _ _ Hs0 Es) as Hs0'.
      destruct (is_start_failure e) eqn:Ef; inversion H; subst; clear H.
      * pose proof (in_start_of_failure _ _ _ _ _ Hc0 Es Ef) as Hin. rewrite Hin in *. cbn in Hc0, Hc1.
        destruct Hc0 as (A0 & B0 & C0). destruct Hc1 as (A1 & B1 & C1).
        pose proof (step_cstop_none _ _ _ _ Es A0) as A0'. pose proof (step_valid _ _ _ _ Es) as V0.
        constructor; cbn.
        -- apply sinv_fail_start; assumption.
        -- apply sinv_fail_start; assumption.
        -- apply fail_start_call. destruct (valid s') eqn:Ev; auto. right. split; auto.
           rewrite V0 in Ev. eapply step_cstart_none; eauto.
        -- apply fail_start_call. destruct (valid (st1 y)) eqn:Ev; auto.
      * constructor; cbn; auto. eapply call_ok_step; eauto.
  - (* an API event *)
    destruct g; cbn in H.
    + (* configure *)
      destruct (in_call y) eqn:Ec; try discriminate.
      destruct (workers_idle (st0 y) && workers_idle (st1 y)) eqn:Ei; [|discriminate]. apply andb_true_iff in Ei. destruct Ei as [I0 I1].
      inversion H; subst; clear H. cbn in Hc0, Hc1. constructor; cbn; rewrite ?Ec; cbn.
      * apply sinv_config; assumption.
      * apply sinv_config; assumption.
      * exact Hc0.
      * exact Hc1.
    + (* start call *)
      destruct (in_call y) eqn:Ec; try discriminate.
      destruct (valid (st0 y) || valid (st1 y)) eqn:Ev.
      * destruct (workers_idle (st0 y) && workers_idle (st1 y)) eqn:Ei.
        -- apply andb_true_iff in Ei. destruct Ei as [I0 I1].
           inversion H; subst; clear H. cbn in Hc0, Hc1. destruct Hc0, Hc1. constructor; cbn.
           ++ apply sinv_begin_start; assumption.
           ++ apply sinv_begin_start; assumption.
           ++ apply (begin_start_call (st0 y)); assumption.
           ++ apply (begin_start_call (st1 y)); assumption.
        -- inversion H; subst; clear H. cbn in Hc0, Hc1. constructor; cbn; auto.
      * inversion H; subst; clear H. cbn in Hc0, Hc1. destruct Hc0 as [A0 B0], Hc1 as [A1 B1]. constructor; cbn; auto.
    + (* start returns *)
      destruct (in_call y) eqn:Ec; try discriminate.
      * destruct (ok && started_ok (st0 y) && started_ok (st1 y)) eqn:Ei; [|discriminate].
        apply andb_true_iff in Ei. destruct Ei as [Ei K1]. apply andb_true_iff in Ei. destruct Ei as [_ K0].
        inversion H; subst; clear H. cbn in Hc0, Hc1. destruct Hc0 as (A0 & B0 & C0). destruct Hc1 as (A1 & B1 & C1).
        constructor; cbn.
        -- apply sinv_reset_start; auto. destruct (started_ok_spec _ K0); auto.
        -- apply sinv_reset_start; auto. destruct (started_ok_spec _ K1); auto.
        -- split; auto.
        -- split; auto.
      * destruct (negb ok && stopped_ok (st0 y) && stopped_ok (st1 y) && devs_stopped (st0 y) && devs_stopped (st1 y)) eqn:Ei; [|discriminate].
        repeat (apply andb_true_iff in Ei; let X := fresh "X" in destruct Ei as [Ei X]).
        inversion H; subst; clear H. cbn in Hc0, Hc1. destruct Hc0 as (A0 & B0). destruct Hc1 as (A1 & B1).
        constructor; cbn.
        -- apply sinv_end_stop; auto.
           ++ destruct (stopped_ok_spec _ X2) as [V|V]; auto. right. apply (B0 V).
           ++ intros Hf. destruct (devs_stopped_spec _ X0) as [V|V]; auto. destruct (B0 V); congruence.
           ++ destruct A0 as [A|[A|A]]; auto.
        -- apply sinv_end_stop; auto.
           ++ destruct (stopped_ok_spec _ X1) as [V|V]; auto. right. apply (B1 V).
           ++ intros Hf. destruct (devs_stopped_spec _ X) as [V|V]; auto. destruct (B1 V); congruence.
           ++ destruct A1 as [A|[A|A]]; auto.
        -- unfold call_ok, end_stop; cbn; auto.
        -- unfold call_ok, end_stop; cbn; auto.
    + (* start refused by the HAL (start while running) *)
      destruct (in_call y) eqn:Ec; try discriminate.
      cbv zeta in H. match type of H with context [if ?b then _ else _] => destruct b eqn:Eb end; [|discriminate].
      inversion H; subst; clear H. cbn in Hc0, Hc1. destruct Hc0 as [A0 B0], Hc1 as [A1 B1]. constructor; cbn.
      * apply sinv_fail_start; assumption.
      * apply sinv_fail_start; assumption.
      * apply fail_start_call. right. auto.
      * apply fail_start_call. right. auto.
    + (* stop call *)
      destruct (in_call y) eqn:Ec; try discriminate. inversion H; subst; clear H. cbn in Hc0, Hc1. destruct Hc0, Hc1.
      constructor; cbn; [apply sinv_begin_stop | apply sinv_begin_stop | apply (begin_stop_call false InStop) | apply (begin_stop_call false InStop)]; auto.
    + (* stop returns *)
      destruct (in_call y) eqn:Ec; try discriminate.
      destruct (stopped_ok (st0 y) && stopped_ok (st1 y)) eqn:Ei; [|discriminate]. apply andb_true_iff in Ei. destruct Ei as [K0 K1].
      inversion H; subst; clear H.
      constructor; cbn; [eapply end_stop_inv; eauto | eapply end_stop_inv; eauto | unfold call_ok, end_stop; cbn; auto | unfold call_ok, end_stop; cbn; auto].
    + (* abort call *)
      destruct (in_call y) eqn:Ec; try discriminate. inversion H; subst; clear H. cbn in Hc0, Hc1. destruct Hc0, Hc1.
      constructor; cbn; [apply sinv_begin_stop | apply sinv_begin_stop | apply (begin_stop_call true InAbort) | apply (begin_stop_call true InAbort)]; auto.
    + (* abort returns *)
      destruct (in_call y) eqn:Ec; try discriminate.
      destruct (stopped_ok (st0 y) && stopped_ok (st1 y)) eqn:Ei; [|discriminate]. apply andb_true_iff in Ei. destruct Ei as [K0 K1].
      inversion H; subst; clear H.
      constructor; cbn; [eapply end_stop_inv; eauto | eapply end_stop_inv; eauto | unfold call_ok, end_stop; cbn; auto | unfold call_ok, end_stop; cbn; auto].
    + (* shutdown call *)
      destruct (in_call y) eqn:Ec; try discriminate. inversion H; subst; clear H. cbn in Hc0, Hc1. destruct Hc0, Hc1.
      constructor; cbn; [apply sinv_begin_stop | apply sinv_begin_stop | apply (begin_stop_call true InShutdown) | apply (begin_stop_call true InShutdown)]; auto.
    + (* shutdown returns *)
      destruct (in_call y) eqn:Ec; try discriminate.
      destruct (stopped_ok (st0 y) && stopped_ok (st1 y) && workers_idle (st0 y) && workers_idle (st1 y) && all_closed (st0 y) && all_closed (st1 y)) eqn:Ei; [|discriminate].
      repeat (apply andb_true_iff in Ei; let X := fresh "X" in destruct Ei as [Ei X]).
      inversion H; subst; clear H.
      constructor; cbn; [eapply end_stop_inv; eauto | eapply end_stop_inv; eauto | unfold call_ok, end_stop; cbn; auto | unfold call_ok, end_stop; cbn; auto].
    + (* get_state *)
      destruct (api y) eqn:Ea.
      * destruct (hst_eqb st HAwait); [|discriminate]. inversion H; subst; clear H. constructor; auto.
      * destruct (hst_eqb st HArmed); [|discriminate]. inversion H; subst; clear H. constructor; auto.
      * destruct (hst_eqb st _); [|discriminate]. inversion H; subst; clear H. constructor; cbn; auto.
Qed.

(* ---- reachability *)
Definition reachable (y : sys) : Prop := exists tr, accepts init_sys tr = Some y.

Lemma accepts_inv tr : forall y y', YInv y -> accepts y tr = Some y' -> YInv y'.
Proof.
  induction tr as [|e tr IH]; intros y y' Hy H; cbn in H.
  - inversion H; subst; exact Hy.
  - destruct (step y e) as [y1|] eqn:Es; [|discriminate]. eapply IH; [eapply yinv_step; eassumption | exact H].
Qed.

Theorem reachable_inv y : reachable y -> YInv y.
Proof. intros [tr H]. eapply accepts_inv; [apply yinv_init | exact H]. Qed.
