(* PipeSys.v -- the invariant of the two-stream system and its preservation by every event: every reachable state
   satisfies it (for every schedule, device behaviour and client program the model admits, of any length). *)
From Coq Require Import List Bool Arith NArith Lia.
From RecordUpdate Require Import RecordSet.
From Pipe Require Import PipeModel PipeFacts PipeTac PipeInv1 PipeInv2 PipeInv3 PipeInv4.
Import ListNotations RecordSetNotations.

Definition SInv (s : stream) : Prop := Inv1 s /\ Inv2 s /\ Inv3 s /\ Inv4 s.

Lemma sinv_init : SInv init_stream.
Proof. split; [apply inv1_init | split; [apply inv2_init | split; [apply inv3_init | apply inv4_init]]]. Qed.

Lemma sinv_step s a e s' : SInv s -> step_stream s a e = Some s' -> SInv s'.
Proof.
  intros (H1 & H2 & H3 & H4) H.
  split; [eapply inv1_step; eassumption | split; [eapply inv2_step; eassumption | split; [eapply inv3_step; eassumption | eapply inv4_step; eassumption]]].
Qed.

(* what the API call in progress implies for a stream's client-side progress counters *)
Definition call_ok (c : call) (s : stream) : Prop :=
  match c with
  | InIdle => c_stop s = CNone /\ c_start s = TNone
  | InStart => c_stop s = CNone /\ c_start s <> TFailed /\ (valid s = false -> c_start s = TNone)
  | InStartFail => (c_start s = TDone \/ c_start s = TFailed \/ c_start s = TNone) /\
                   (valid s = false -> c_stop s = CNone /\ c_start s = TNone)
  | InStop | InAbort | InShutdown => c_start s = TNone /\ (valid s = false -> c_stop s = CNone)
  end.

Record YInv (y : sys) : Prop := {
  y_s0 : SInv (st0 y);
  y_s1 : SInv (st1 y);
  y_c0 : call_ok (in_call y) (st0 y);
  y_c1 : call_ok (in_call y) (st1 y)
}.

(* ---- facts about how one stream event moves the client-side counters *)
Lemma step_valid s a e s' : step_stream s a e = Some s' -> valid s' = valid s.
Proof. intros H. step_cases s H; unfold sink_finish; cbn; split_goal_ifs; reflexivity. Qed.

Lemma step_cstop_none s a e s' : step_stream s a e = Some s' -> c_stop s = CNone -> c_stop s' = CNone.
Proof. intros H Hc. step_cases s H; unfold sink_finish in *; cbn in *; subst; split_goal_ifs; try reflexivity; try discriminate; fin. Qed.

Lemma step_cstart_none s a e s' : step_stream s a e = Some s' -> c_start s = TNone -> c_start s' = TNone.
Proof. intros H Hc. step_cases s H; unfold sink_finish in *; cbn in *; subst; split_goal_ifs; try reflexivity; try discriminate; fin. Qed.

Lemma step_cstart_failed s a e s' :
  step_stream s a e = Some s' -> c_start s' = TFailed -> c_start s = TFailed \/ is_start_failure e = true.
Proof. intros H. step_cases s H; unfold sink_finish in *; cbn in *; subst; split_goal_ifs; cbn; auto; try (intros Hc; discriminate Hc). Qed.

Lemma step_cstart_done s a e s' :
  step_stream s a e = Some s' -> (c_start s = TDone \/ c_start s = TFailed \/ c_start s = TNone) ->
  c_start s' = c_start s.
Proof. intros H Hc. step_cases s H; unfold sink_finish in *; cbn in *; subst; split_goal_ifs; try reflexivity; intuition discriminate. Qed.

(* ---- the client-side bookkeeping steps of the API calls preserve the stream invariant *)
Ltac sinv_open Hs s :=
  destruct Hs as ([] & [] & [] & []); destruct s; unfold begin_start, begin_stop, end_stop, fail_start, workers_idle, quiet in *;
  cbn in *.
Ltac sinv_tac :=
  match goal with |- SInv _ => split; [|split; [|split]] end; constructor;
  unfold quiet, workers_idle, mon_k, ncommitted in *; cbn in *; try reflexivity; try assumption; split_goal_ifs; fin.

Lemma sinv_config s v n : SInv s -> workers_idle s = true -> SInv (s <| valid := v |> <| maxn := n |>).
Proof. intros Hs Hi. sinv_open Hs s. sinv_tac. Qed.

Lemma sinv_begin_start s : SInv s -> workers_idle s = true -> c_stop s = CNone -> c_start s = TNone -> SInv (begin_start s).
Proof. intros Hs Hi Hc Ht. sinv_open Hs s. subst. destruct valid; sinv_tac. Qed.

Lemma sinv_reset_start s : SInv s -> (c_start s = TDone \/ c_start s = TNone) -> SInv (set c_start (fun _ => TNone) s).
Proof. intros Hs Ht. sinv_open Hs s. destruct Ht; subst; sinv_tac. Qed.

Lemma sinv_begin_stop ab s :
  SInv s -> c_stop s = CNone -> (c_start s = TNone \/ c_start s = TDone \/ c_start s = TFailed) -> SInv (begin_stop ab s).
Proof. intros Hs Hc Ht. sinv_open Hs s. subst. destruct valid; [|sinv_tac]. destruct ab; destruct Ht as [Ht|[Ht|Ht]]; subst; sinv_tac; rewrite ?orb_false_r, ?orb_true_r in *; fin. Qed.

Lemma sinv_end_stop s :
  SInv s -> (c_stop s = CStopped \/ c_stop s = CNone) ->
  (c_start s = TFailed -> cam_st s <> HRunning /\ sto_st s <> HRunning) ->
  (c_start s = TNone \/ c_start s = TDone \/ c_start s = TFailed) ->
  SInv (end_stop s).
Proof.
  intros Hs Hc Hd Ht. sinv_open Hs s. destruct Hc; destruct Ht as [Ht|[Ht|Ht]]; subst; sinv_tac.
Qed.

Lemma sinv_fail_start s : SInv s -> c_stop s = CNone -> SInv (fail_start s).
Proof.
  intros Hs Hc. sinv_open Hs s. subst. destruct valid; [|sinv_tac].
  destruct s_pc; destruct c_start; sinv_tac; rewrite ?orb_false_r, ?orb_true_r in *; fin.
Qed.

(* ---- preservation by every event of the two-stream system *)
Lemma yinv_init : YInv init_sys.
Proof. constructor; cbn; auto using sinv_init. Qed.

Lemma call_ok_step c s a e s' :
  step_stream s a e = Some s' -> is_start_failure e = false -> call_ok c s -> call_ok c s'.
Proof.
  intros H Hf Hc. pose proof (step_valid _ _ _ _ H) as Hv.
  destruct c; cbn in *.
  - destruct Hc as [H1 H2]. split; [eapply step_cstop_none | eapply step_cstart_none]; eassumption.
  - destruct Hc as (H1 & H2 & H3). split; [eapply step_cstop_none; eassumption|]. split.
    + intros Hx. destruct (step_cstart_failed _ _ _ _ H Hx) as [Hy|Hy]; [auto | congruence].
    + intros Hx. rewrite Hv in Hx. eapply step_cstart_none; eauto.
  - destruct Hc as (H1 & H2). rewrite (step_cstart_done _ _ _ _ H H1). split; [exact H1|].
    intros Hx. rewrite Hv in Hx. destruct (H2 Hx) as [H3 H4]. split; [eapply step_cstop_none; eassumption | exact H4].
  - destruct Hc as (H1 & H2). split; [eapply step_cstart_none; eassumption|].
    intros Hx. rewrite Hv in Hx. eapply step_cstop_none; eauto.
  - destruct Hc as (H1 & H2). split; [eapply step_cstart_none; eassumption|].
    intros Hx. rewrite Hv in Hx. eapply step_cstop_none; eauto.
  - destruct Hc as (H1 & H2). split; [eapply step_cstart_none; eassumption|].
    intros Hx. rewrite Hv in Hx. eapply step_cstop_none; eauto.
Qed.
