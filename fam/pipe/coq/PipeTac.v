(* PipeTac.v -- tactics shared by the invariant proofs. *)
From Coq Require Import List Bool Arith NArith Lia.
From RecordUpdate Require Import RecordSet.
From Pipe Require Import PipeModel PipeFacts.
Import ListNotations RecordSetNotations.

Lemma guard_some b s s' : guard b s = Some s' -> b = true /\ s' = s.
Proof. unfold guard; destruct b; intros H; inversion H; auto. Qed.

Ltac bool_hyps :=
  repeat match goal with
  | H : _ && _ = true |- _ => apply andb_true_iff in H; destruct H
  | H : negb _ = true |- _ => apply negb_true_iff in H
  | H : negb _ = false |- _ => apply negb_false_iff in H
  | H : Nat.eqb _ _ = true |- _ => apply Nat.eqb_eq in H
  | H : Nat.eqb _ _ = false |- _ => apply Nat.eqb_neq in H
  | H : Nat.leb _ _ = true |- _ => apply Nat.leb_le in H
  | H : N.eqb _ _ = true |- _ => apply N.eqb_eq in H
  | H : N.ltb _ _ = true |- _ => apply N.ltb_lt in H
  | H : N.leb _ _ = true |- _ => apply N.leb_le in H
  | H : N.leb _ _ = false |- _ => apply N.leb_gt in H
  | H : hst_eqb _ _ = true |- _ => apply hst_eqb_true in H
  | H : hst_eqb _ _ = false |- _ => apply hst_eqb_false in H
  | H : optN_eqb _ _ = true |- _ => apply optN_eqb_true in H
  | H : frm_eqb _ _ = true |- _ => apply frm_eqb_true in H
  | H : frms_eqb _ _ = true |- _ => apply frms_eqb_true in H
  | H : read_ok _ _ _ = true |- _ => apply read_ok_spec in H; destruct H
  | H : Bool.eqb _ _ = true |- _ => apply eqb_prop in H
  | H : _ && _ = false |- _ => apply andb_false_iff in H; destruct H
  | H : true = false |- _ => discriminate H
  | H : false = true |- _ => discriminate H
  | H : true = true -> _ |- _ => specialize (H eq_refl)
  | H : spc_idle ?x = true |- _ => is_var x; destruct x; try discriminate H; clear H
  | H : kpc_idle ?x = true |- _ => is_var x; destruct x; try discriminate H; clear H
  | H : fpc_idle ?x = true |- _ => is_var x; destruct x; try discriminate H; clear H
  | H : match ?x with _ => _ end = true |- _ => is_var x; destruct x; try discriminate H
  | H : match ?x with _ => _ end = false |- _ => is_var x; destruct x; try discriminate H
  end.

(* take a successful step apart: one goal per (actor, event, program-counter) case, guards as hypotheses *)
Ltac inv_guard :=
  repeat match goal with
  | H : guard _ _ = Some _ |- _ => apply guard_some in H; destruct H as [? ?]
  | H : Some _ = Some _ |- _ => inversion H; clear H
  | H : None = Some _ |- _ => discriminate H
  | H : (if ?b then _ else _) = Some _ |- _ => destruct b eqn:?
  | H : match ?x with _ => _ end = Some _ |- _ => destruct x eqn:?
  | H : (let _ := _ in _) = Some _ |- _ => cbv zeta in H
  end.

(* s must be a variable: it is taken apart first, so that every projection computes and the case analysis on program
   counters / device states substitutes everywhere at once *)
Ltac step_cases s H :=
  destruct s; unfold step_stream in H; cbn in H;
  match type of H with
  | context [match ?a with ACli => _ | _ => _ end] => destruct a
  end;
  match type of H with
  | context [match ?e with DOpenCam _ => _ | _ => _ end] => destruct e
  end;
  try discriminate H; inv_guard; subst; unfold quiet, workers_idle in *; cbn in *; bool_hyps; subst.

(* split the goal's conditionals: variables first (so that projections of conditional states compute), then the rest *)
Ltac split_goal_ifs :=
  repeat (match goal with
          | |- context [if ?b then _ else _] => is_var b; destruct b
          | |- context [match ?x with _ => _ end] => is_var x; destruct x
          end; cbn);
  repeat (match goal with
          | |- context [if ?b then _ else _] => let E := fresh "E" in destruct b eqn:E
          | |- context [match ?x with _ => _ end] => let E := fresh "E" in destruct x eqn:E
          end; cbn).

(* a slice that equals a segment of the log lies inside the log; find_idx is at most the length *)
Definition done_mark {A} (x : A) : Prop := True.
Ltac seg_bounds :=
  repeat match goal with
  | H : ?fs = seg ?l ?a ?n |- _ =>
      lazymatch goal with
      | _ : done_mark (fs, l, a, n) |- _ => fail
      | _ => let B := fresh "B" in
             pose proof (I : done_mark (fs, l, a, n));
             try (assert (B : a + length fs <= length l) by (apply (seg_bound_gen l fs a n H); first [lia | apply find_idx_le]))
      end
  | _ : context [find_idx ?f ?l] |- _ =>
      lazymatch goal with
      | _ : done_mark (find_idx f l) |- _ => fail
      | _ => pose proof (I : done_mark (find_idx f l)); pose proof (find_idx_le f l)
      end
  | |- context [find_idx ?f ?l] =>
      lazymatch goal with
      | _ : done_mark (find_idx f l) |- _ => fail
      | _ => pose proof (I : done_mark (find_idx f l)); pose proof (find_idx_le f l)
      end
  end; cbn [length] in *.

Ltac fin0 :=
  try reflexivity; try assumption; try congruence; try lia;
  try solve [intuition (try discriminate; try congruence; try lia)].
(* case analysis on the program counters a goal talks about *)
Ltac destruct_goal_pcs :=
  repeat match goal with
  | |- context [?f ?x] =>
      is_var x;
      match type of x with
      | kpc => destruct x | spc => destruct x | fpc => destruct x | cstart => destruct x | cstop => destruct x
      end; cbn in *; try discriminate
  end.
Ltac heavy := solve [intuition (subst; cbn in *; try discriminate; try congruence; try lia)].
Ltac fin :=
  cbn in *; bool_hyps; subst; cbn in *; fin0;
  try (seg_bounds; fin0);
  try heavy;
  try (destruct_goal_pcs; fin0; try heavy).
