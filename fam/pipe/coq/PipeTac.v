(* PipeTac.v -- tactics shared by the invariant proofs. *)
From Coq Require Import List Bool Arith NArith Lia.
From RecordUpdate Require Import RecordSet.
From Pipe Require Import PipeModel PipeFacts.
Import ListNotations RecordSetNotations.

Lemma guard_some b s s' : guard b s = Some s' -> b = true /\ s' = s.
Proof. unfold guard; destruct b; intros H; inversion H; auto. Qed.

Ltac bool_hyps :=
  repeat match goal with
  | H : _ && _ = true |- _ => apply andb_true_iff in H; destruct H
  | H : negb _ = true |- _ => apply negb_true_iff in H
  | H : negb _ = false |- _ => apply negb_false_iff in H
  | H : Nat.eqb _ _ = true |- _ => apply Nat.eqb_eq in H
  | H : Nat.eqb _ _ = false |- _ => apply Nat.eqb_neq in H
  | H : Nat.leb _ _ = true |- _ => apply Nat.leb_le in H
  | H : N.eqb _ _ = true |- _ => apply N.eqb_eq in H
  | H : N.ltb _ _ = true |- _ => apply N.ltb_lt in H
  | H : N.leb _ _ = true |- _ => apply N.leb_le in H
  | H : N.leb _ _ = false |- _ => apply N.leb_gt in H
  | H : hst_eqb _ _ = true |- _ => apply hst_eqb_true in H
  | H : hst_eqb _ _ = false |- _ => apply hst_eqb_false in H
  | H : optN_eqb _ _ = true |- _ => apply optN_eqb_true in H
  | H : frm_eqb _ _ = true |- _ => apply frm_eqb_true in H
  | H : frms_eqb _ _ = true |- _ => apply frms_eqb_true in H
  | H : read_ok _ _ _ = true |- _ => apply read_ok_spec in H; destruct H
  | H : Bool.eqb _ _ = true |- _ => apply eqb_prop in H
  | H : true = false |- _ => discriminate H
  | H : false = true |- _ => discriminate H
  end.

(* take a successful step apart: one goal per (actor, event, program-counter) case, guards as hypotheses *)
Ltac inv_guard :=
  repeat match goal with
  | H : guard _ _ = Some _ |- _ => apply guard_some in H; destruct H as [? ?]
  | H : Some _ = Some _ |- _ => inversion H; clear H
  | H : None = Some _ |- _ => discriminate H
  | H : (if ?b then _ else _) = Some _ |- _ => destruct b eqn:?
  | H : match ?x with _ => _ end = Some _ |- _ => destruct x eqn:?
  | H : (let _ := _ in _) = Some _ |- _ => cbv zeta in H
  end.

Ltac step_cases H :=
  unfold step_stream in H;
  match type of H with
  | context [match ?a with ACli => _ | _ => _ end] => destruct a
  end;
  match type of H with
  | context [match ?e with DOpenCam _ => _ | _ => _ end] => destruct e
  end;
  try discriminate H; inv_guard; subst; bool_hyps.

(* propagate the equations produced by the case analysis (k_pc s = KTest, cam_st s = HRunning, ...) into every hypothesis *)
Ltac rew_eqs :=
  repeat match goal with
  | E : ?t = _ |- _ =>
      match t with
      | _ ?s => is_var s; progress (rewrite E in * |-)
      | _ (_ ?s) => is_var s; progress (rewrite E in * |-)
      | _ (_ ?s) _ => is_var s; progress (rewrite E in * |-)
      end
  end.

(* split the goal's conditionals *)
Ltac split_goal_ifs :=
  repeat match goal with
  | |- context [if ?b then _ else _] => let E := fresh "E" in destruct b eqn:E; try rewrite E in *
  | |- context [match ?x with _ => _ end] => let E := fresh "E" in destruct x eqn:E; try rewrite E in *
  end.
