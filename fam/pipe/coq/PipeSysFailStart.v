(* PipeSysFailStart.v -- the error path of acquire_start preserves the stream invariant (groups proved in PipeSysFailStart1..4.v). *)
From Coq Require Import List Bool Arith NArith Lia.
From RecordUpdate Require Import RecordSet.
From Pipe Require Import PipeModel PipeFacts PipeTac PipeInvDefs PipeSysFailStart1 PipeSysFailStart2 PipeSysFailStart3 PipeSysFailStart4.
Import ListNotations RecordSetNotations.

Lemma sinv_fail_start s : SInv s -> c_stop s = CNone -> SInv (fail_start s).
Proof.
  intros Hs Hc. split; [apply inv1_fail_start; assumption | split; [apply inv2_fail_start; assumption | split; [apply inv3_fail_start; assumption | apply inv4_fail_start; assumption]]].
Qed.
