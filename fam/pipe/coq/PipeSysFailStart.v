(* PipeSysFailStart.v -- one client-side bookkeeping step of the API preserves the stream invariant. *)
From Coq Require Import List Bool Arith NArith Lia.
From RecordUpdate Require Import RecordSet.
From Pipe Require Import PipeModel PipeFacts PipeTac PipeInvDefs PipeSysTac.
Import ListNotations RecordSetNotations.

Lemma sinv_fail_start s : SInv s -> c_stop s = CNone -> SInv (fail_start s).
Proof.
  intros Hs Hc. sinv_open Hs s. subst. destruct valid; [|sinv_tac].
  destruct s_pc; destruct c_start; sinv_tac; rewrite ?orb_false_r, ?orb_true_r in *; fin.
Qed.

