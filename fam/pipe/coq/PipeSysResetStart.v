(* PipeSysResetStart.v -- one client-side bookkeeping step of the API preserves the stream invariant. *)
From Coq Require Import List Bool Arith NArith Lia.
From RecordUpdate Require Import RecordSet.
From Pipe Require Import PipeModel PipeFacts PipeTac PipeInvDefs PipeSysTac.
Import ListNotations RecordSetNotations.

Lemma sinv_reset_start s : SInv s -> (c_start s = TDone \/ c_start s = TNone) -> SInv (set c_start (fun _ => TNone) s).
Proof. intros Hs Ht. sinv_open Hs s. destruct Ht; subst; sinv_tac. Qed.

