(* PipeFacts.v -- list facts about seg, reflection of the model's boolean tests. *)
From Coq Require Import List Bool Arith NArith Lia.
From Pipe Require Import PipeModel.
Import ListNotations.

Global Arguments seg : simpl never.
Global Arguments find_idx : simpl never.
Global Arguments read_ok : simpl never.

Lemma hst_eqb_true a b : hst_eqb a b = true -> a = b.
Proof. destruct a, b; simpl; congruence. Qed.
Lemma hst_eqb_refl a : hst_eqb a a = true.
Proof. destruct a; reflexivity. Qed.
Lemma hst_eqb_false a b : hst_eqb a b = false -> a <> b.
Proof. intros H E; subst; rewrite hst_eqb_refl in H; discriminate. Qed.

Lemma optN_eqb_true o i : optN_eqb o i = true -> o = Some i.
Proof. destruct o; simpl; [|discriminate]. intros H; apply N.eqb_eq in H; congruence. Qed.

Lemma frm_eqb_true a b : frm_eqb a b = true -> a = b.
Proof.
  destruct a, b; unfold frm_eqb; simpl. rewrite !andb_true_iff, !N.eqb_eq. intros [[[? ?] ?] ?]; subst; reflexivity.
Qed.
Lemma frm_eqb_refl a : frm_eqb a a = true.
Proof. destruct a; unfold frm_eqb; simpl; rewrite !N.eqb_refl; reflexivity. Qed.

Lemma frms_eqb_true l1 : forall l2, frms_eqb l1 l2 = true -> l1 = l2.
Proof.
  induction l1 as [|a l1 IH]; intros [|b l2]; simpl; try discriminate; auto.
  rewrite andb_true_iff; intros [H1 H2]. apply frm_eqb_true in H1; apply IH in H2; subst; reflexivity.
Qed.
Lemma frms_eqb_refl l : frms_eqb l l = true.
Proof. induction l; simpl; auto. rewrite frm_eqb_refl; auto. Qed.

(* ---------------------------------------------------------------- seg *)
Lemma seg_nil (l : list frm) a : seg l a 0 = [].
Proof. reflexivity. Qed.

Lemma seg_length (l : list frm) a n : length (seg l a n) = Nat.min n (length l - a).
Proof. unfold seg. rewrite firstn_length, skipn_length. reflexivity. Qed.

Lemma seg_length_le (l : list frm) a n : a + n <= length l -> length (seg l a n) = n.
Proof. intros H. rewrite seg_length. lia. Qed.

Lemma seg_self_bound (l fs : list frm) a : a <= length l -> fs = seg l a (length fs) -> a + length fs <= length l.
Proof. intros Ha H. assert (E : length fs = length (seg l a (length fs))) by (rewrite <- H; reflexivity). rewrite seg_length in E. lia. Qed.

Lemma skipn_skipn' {A} (l : list A) a b : skipn a (skipn b l) = skipn (b + a) l.
Proof.
  revert l; induction b as [|b IH]; intros l; simpl; auto.
  destruct l; simpl; [destruct a; reflexivity|]. apply IH.
Qed.

Lemma seg_app (l : list frm) a n m : seg l a n ++ seg l (a + n) m = seg l a (n + m).
Proof.
  unfold seg. rewrite <- skipn_skipn'. generalize (skipn a l) as r. clear.
  induction n as [|n IH]; intros r; simpl; auto.
  destruct r; simpl.
  - destruct m; reflexivity.
  - f_equal. apply IH.
Qed.

Lemma seg_app_log (l x : list frm) a n : a + n <= length l -> seg (l ++ x) a n = seg l a n.
Proof.
  intros H. unfold seg. rewrite skipn_app. rewrite firstn_app. rewrite skipn_length.
  replace (n - (length l - a)) with 0 by lia. simpl. rewrite app_nil_r. reflexivity.
Qed.

Lemma seg_all (l : list frm) a : seg l a (length l - a) = skipn a l.
Proof. unfold seg. rewrite <- skipn_length. apply firstn_all. Qed.

Lemma seg_end (l : list frm) (f : frm) : seg (l ++ [f]) (length l) 1 = [f].
Proof. unfold seg. rewrite skipn_app, skipn_all, Nat.sub_diag. reflexivity. Qed.

Lemma seg_past (l : list frm) a n : length l <= a -> seg l a n = [].
Proof. intros H. unfold seg. rewrite skipn_all2 by lia. destruct n; reflexivity. Qed.

Lemma firstn_snoc {A} (l : list A) x : firstn (length l) (l ++ [x]) = l.
Proof. rewrite firstn_app, Nat.sub_diag, firstn_all. simpl. apply app_nil_r. Qed.

Lemma firstn_app_le {A} (l x : list A) n : n <= length l -> firstn n (l ++ x) = firstn n l.
Proof. intros H. rewrite firstn_app. replace (n - length l) with 0 by lia. simpl. apply app_nil_r. Qed.

Lemma firstn_succ_snoc {A} (l : list A) x : firstn (S (length l)) (l ++ [x]) = l ++ [x].
Proof. rewrite firstn_app. rewrite firstn_all2 by lia. replace (S (length l) - length l) with 1 by lia. reflexivity. Qed.

Lemma skipn_app_le {A} (l x : list A) n : n <= length l -> skipn n (l ++ x) = skipn n l ++ x.
Proof. intros H. rewrite skipn_app. replace (n - length l) with 0 by lia. reflexivity. Qed.

(* the reader test *)
Lemma read_ok_spec l cur fs : read_ok l cur fs = true -> fs = seg l cur (length fs) /\ (length fs = 0 -> cur = length l).
Proof.
  unfold read_ok. rewrite andb_true_iff, orb_true_iff. intros [H1 H2]. apply frms_eqb_true in H1. split; auto.
  intros Hz. destruct H2 as [H2|H2].
  - rewrite Hz in H2. discriminate.
  - apply Nat.eqb_eq in H2. exact H2.
Qed.

Lemma nth_error_snoc {A} (l : list A) x n y :
  nth_error (l ++ [x]) n = Some y -> (n < length l /\ nth_error l n = Some y) \/ (n = length l /\ y = x).
Proof.
  intros H. destruct (Nat.lt_ge_cases n (length l)) as [Hl|Hl].
  - left. rewrite nth_error_app1 in H by exact Hl. auto.
  - right. rewrite nth_error_app2 in H by exact Hl. destruct (n - length l) as [|k] eqn:E.
    + simpl in H. inversion H. split; [lia|reflexivity].
    + simpl in H. destruct k; discriminate.
Qed.

Lemma find_idx_le f l : find_idx f l <= length l.
Proof. induction l as [|a l IH]; unfold find_idx; fold find_idx; cbn [length]; [lia|]. destruct (frm_eqb f a); lia. Qed.

Lemma seg_bound_gen (l fs : list frm) a n : fs = seg l a n -> a <= length l -> a + length fs <= length l.
Proof. intros H Ha. subst fs. rewrite seg_length. lia. Qed.

Lemma stored_app (l st fs : list frm) b c :
  st = seg l b (length st) -> fs = seg l c (length fs) -> c = b + length st ->
  st ++ fs = seg l b (length (st ++ fs)).
Proof. intros H1 H2 ->. rewrite app_length, <- seg_app, <- H1, <- H2. reflexivity. Qed.

Lemma stored_commit (l st x : list frm) b :
  st = seg l b (length st) -> b + length st <= length l -> st = seg (l ++ x) b (length st).
Proof. intros H1 H2. rewrite seg_app_log by exact H2. exact H1. Qed.

Lemma seg_at_end (l fs : list frm) n : fs = seg l (length l) n -> fs = [].
Proof. intros ->. apply seg_past. lia. Qed.

Lemma commit_prefix (l dl d : list frm) f b :
  b <= length l -> skipn b l = firstn (length l - b) dl -> dl = d ++ [f] -> length dl = length l - b + 1 ->
  skipn b (l ++ [f]) = firstn (length (l ++ [f]) - b) dl.
Proof.
  intros Hb Hc Hd Hl. rewrite skipn_app_le by exact Hb. rewrite Hc. subst dl.
  rewrite app_length in Hl. cbn in Hl. assert (Hd : length d = length l - b) by lia.
  rewrite app_length. cbn [length]. replace (length l + 1 - b) with (S (length d)) by lia.
  rewrite <- Hd. rewrite firstn_snoc, firstn_succ_snoc. reflexivity.
Qed.

Lemma seen_step (l sn : list frm) cur c :
  sn = seg l (cur - length sn) (length sn) -> length sn <= cur -> cur + c <= length l ->
  sn ++ seg l cur c = seg l (cur + c - length (sn ++ seg l cur c)) (length (sn ++ seg l cur c)) /\
  length (sn ++ seg l cur c) <= cur + c /\
  cur + c - length (sn ++ seg l cur c) = cur - length sn.
Proof.
  intros H1 H2 H3. rewrite app_length, (seg_length_le l cur c H3).
  replace (cur + c - (length sn + c)) with (cur - length sn) by lia.
  split; [|split; lia].
  rewrite H1 at 1. rewrite <- (seg_app l (cur - length sn) (length sn) c).
  replace (cur - length sn + length sn) with cur by lia. reflexivity.
Qed.

Lemma seen_commit (l x sn : list frm) cur :
  sn = seg l (cur - length sn) (length sn) -> length sn <= cur -> cur <= length l ->
  sn = seg (l ++ x) (cur - length sn) (length sn).
Proof. intros H1 H2 H3. rewrite seg_app_log by lia. exact H1. Qed.
