(* PipeSysProps.v -- the statements of the property files, proved for every reachable state of the two-stream system
   (every accepted trace of any length: every schedule, device behaviour, fault script and client program of grammar G1). *)
From Coq Require Import List Bool Arith NArith Lia.
From RecordUpdate Require Import RecordSet.
From Pipe Require Import PipeModel PipeFacts PipeTac PipeInvDefs PipeProps PipeStep.
Import ListNotations RecordSetNotations.

Definition stream_of (y : sys) (i : bool) : stream := if i then st1 y else st0 y.

Lemma accepts_app tr1 : forall y tr2, accepts y (tr1 ++ tr2) = match accepts y tr1 with Some y1 => accepts y1 tr2 | None => None end.
Proof. induction tr1 as [|e tr1 IH]; intros y tr2; cbn; [reflexivity|]. destruct (step y e); [apply IH | reflexivity]. Qed.

Lemma reachable_step y e y' : reachable y -> step y e = Some y' -> reachable y'.
Proof. intros [tr H] Hs. exists (tr ++ [e]). rewrite accepts_app, H. cbn. rewrite Hs. reflexivity. Qed.

Lemma reachable_accepts y tr y' : reachable y -> accepts y tr = Some y' -> reachable y'.
Proof. intros [tr0 H] Hs. exists (tr0 ++ tr). rewrite accepts_app, H. exact Hs. Qed.

Lemma reachable_sinv y i : reachable y -> SInv (stream_of y i).
Proof. intros H. destruct (reachable_inv y H). destruct i; assumption. Qed.

(* ---------------------------------------------------------------- C04 *)
Theorem prefix_always y i :
  reachable y -> let s := stream_of y i in
  stored s = firstn (length (stored s)) (delivered s) /\
  (forall n f, nth_error (delivered s) n = Some f -> f_id f = N.of_nat n /\ f_hw f = N.of_nat n /\ f_tag f = cam_tag s).
Proof.
  intros H s. pose proof (reachable_sinv y i H) as Hs. split; [apply stored_prefix; exact Hs|].
  intros n f Hn. apply (delivered_ids _ _ _ Hs Hn).
Qed.

Lemma stop_return_shape y g y' :
  (g = GStopRet \/ g = GAbortRet) -> step y (EvG g) = Some y' ->
  stopped_ok (st0 y) = true /\ stopped_ok (st1 y) = true /\
  y' = y <| in_call := InIdle |> <| api := HArmed |> <| st0 ::= end_stop |> <| st1 ::= end_stop |>.
Proof.
  intros [-> | ->] H; cbn in H; destruct (in_call y); try discriminate H;
    destruct (stopped_ok (st0 y)) eqn:E0; try discriminate H; destruct (stopped_ok (st1 y)) eqn:E1; try discriminate H;
    cbn in H; inversion H; auto.
Qed.

Lemma stream_of_end_stop y i :
  stream_of (y <| in_call := InIdle |> <| api := HArmed |> <| st0 ::= end_stop |> <| st1 ::= end_stop |>) i = end_stop (stream_of y i).
Proof. destruct i; reflexivity. Qed.

Lemma stopped_stream y i : stopped_ok (st0 y) = true -> stopped_ok (st1 y) = true -> valid (stream_of y i) = true -> c_stop (stream_of y i) = CStopped.
Proof.
  intros H0 H1 Hv. destruct i; cbn in *.
  - destruct (stopped_ok_spec _ H1); congruence.
  - destruct (stopped_ok_spec _ H0); congruence.
Qed.

(* what is true of a stream at the moment acquire_stop / acquire_abort returns *)
Lemma at_return y g y' i :
  reachable y -> (g = GStopRet \/ g = GAbortRet) -> step y (EvG g) = Some y' ->
  let s := stream_of y i in
  stream_of y' i = end_stop s /\ SInv s /\ (valid s = true -> c_stop s = CStopped /\ workers_idle s = true).
Proof.
  intros Hr Hg H s; subst s. destruct (stop_return_shape y g y' Hg H) as (H0 & H1 & ->).
  rewrite stream_of_end_stop. split; [reflexivity|]. pose proof (reachable_sinv y i Hr) as Hs. split; [exact Hs|].
  intros Hv. pose proof (stopped_stream y i H0 H1 Hv) as Hc. split; [exact Hc|].
  destruct Hs as (_ & _ & _ & []). apply m_idle. rewrite Hc. reflexivity.
Qed.

Lemma idle_done s : SInv s -> workers_idle s = true -> src_on s = true -> s_pc s = SDone /\ k_pc s = KDone.
Proof.
  intros (_ & [] & [] & _) Hi Hon. unfold workers_idle in Hi. apply andb_true_iff in Hi. destruct Hi as [Hi _]. apply andb_true_iff in Hi. destruct Hi as [Hsp Hk].
  pose proof (l_srcoff Hon) as Hoff.
  assert (Hs : s_pc s = SDone) by (destruct (s_pc s); try discriminate; congruence).
  split; [exact Hs|]. destruct (k_pc s) eqn:Ek; try discriminate; auto. destruct (j_koff eq_refl) as (X & _). congruence.
Qed.

Theorem complete_after_stop y y' i :
  reachable y -> step y (EvG GStopRet) = Some y' ->
  let s := stream_of y' i in
  valid s = true -> src_on s = true -> aborted s = false -> sto_failed s = false -> cam_failed s = false ->
  stored s = delivered s /\ N.of_nat (length (delivered s)) = goal s.
Proof.
  intros Hr H s. destruct (at_return y GStopRet y' i Hr (or_introl eq_refl) H) as (E & Hs & Hv). subst s. rewrite E.
  unfold end_stop; cbn. intros V Hon Ha Hf Hc. destruct (Hv V) as (_ & Hi). destruct (idle_done _ Hs Hi Hon) as (Hp & Hk).
  apply complete_when_done; auto.
Qed.

(* the same conclusion, stated for every reachable state in which both workers of the acquisition are done *)
Theorem complete_when_workers_done y i :
  reachable y -> let s := stream_of y i in
  s_pc s = SDone -> k_pc s = KDone -> src_on s = true -> aborted s = false -> sto_failed s = false -> cam_failed s = false ->
  stored s = delivered s /\ N.of_nat (length (delivered s)) = goal s.
Proof. intros Hr s. apply complete_when_done. apply reachable_sinv; exact Hr. Qed.

(* an event of one stream leaves the other stream alone; a failing device start (which makes acquire_start abort every
   stream) changes only control flags of the other stream, never its queue, storage log or camera log *)
Theorem stream_event_local y i a e y' :
  step y (EvS i a e) = Some y' -> is_start_failure e = false -> stream_of y' (negb i) = stream_of y (negb i).
Proof.
  intros H Hf. cbn in H. destruct (i && _ && _); [discriminate|]. destruct (step_stream _ a e); [|discriminate]. rewrite Hf in H.
  inversion H; subst; clear H. destruct i; reflexivity.
Qed.

Definition data_of (s : stream) := (log s, stored s, delivered s, seen s, sink_cur s, mon_cur s, base s, cam_tag s).

Lemma fail_start_data s : data_of (fail_start s) = data_of s.
Proof. destruct s. unfold fail_start, begin_stop, data_of. cbn. destruct valid; [|reflexivity]. destruct src_running; cbn; reflexivity. Qed.

Theorem stream_event_data_local y i a e y' :
  step y (EvS i a e) = Some y' -> data_of (stream_of y' (negb i)) = data_of (stream_of y (negb i)).
Proof.
  intros H. cbn in H. destruct (i && _ && _); [discriminate|]. destruct (step_stream _ a e); [|discriminate].
  destruct (is_start_failure e); inversion H; subst; clear H; destruct i; cbn; try reflexivity; apply fail_start_data.
Qed.

(* monitor activity changes nothing but the monitor reader's own cursor, mapping and consumption log (and the progress of
   acquire_stop's flush): what the source commits, what the sink reads and what storage receives do not depend on it *)
Definition mon_event (e : sev) : bool :=
  match e with RMapEnter RdMon | RMap RdMon _ | RUnmap RdMon _ | MonMapRefused | MonMapRet _ => true | _ => false end.

Definition non_monitor_part (s : stream) :=
  (valid s, maxn s, cam s, cam_st s, sto s, sto_st s, cam_tag s, cam_next s, log s, accepting s, sink_reg s, sink_cur s, sink_map s,
   (src_stopping s, abort_win s, sink_stopping s, filt_stopping s, src_running s, sink_running s, filt_running s),
   (s_pc s, k_pc s, f_pc s, c_start s, iframe s, base s, delivered s, stored s, sto_failed s, aborted s, cam_failed s),
   (acq_on s, src_on s, goal s, mon_fresh s, dropped s, cam_starts s, cam_stops s, sto_starts s, sto_stops s)).

Theorem monitor_independent s e s' :
  mon_event e = true -> step_stream s ACli e = Some s' -> non_monitor_part s' = non_monitor_part s.
Proof.
  intros He H. unfold step_stream in H.
  destruct e; try discriminate He; try (destruct r; try discriminate He); cbn in H;
    repeat match type of H with
           | guard _ _ = Some _ => apply guard_some in H; destruct H as [_ H]; subst
           | Some _ = Some _ => inversion H; subst; clear H
           | None = Some _ => discriminate H
           | context [match ?x with _ => _ end] => destruct x
           end; reflexivity.
Qed.

(* ---------------------------------------------------------------- C06 *)
Theorem monitor_sees_run y i :
  reachable y -> let s := stream_of y i in mon_fresh s = true ->
  seen s = seg (delivered s) (mon_cur s - length (seen s) - base s) (length (seen s)) /\
  (forall k f, nth_error (seen s) k = Some f ->
     f_id f = N.of_nat (mon_cur s - length (seen s) - base s + k) /\ f_tag f = cam_tag s).
Proof.
  intros Hr s Hf. pose proof (reachable_sinv y i Hr) as Hs. split; [apply seen_segment; assumption|].
  intros k f Hn. apply seen_ids; assumption.
Qed.

Theorem monitor_flushed_at_return y g y' i :
  reachable y -> (g = GStopRet \/ g = GAbortRet) -> step y (EvG g) = Some y' ->
  let s := stream_of y' i in valid s = true -> mon_reg s = true -> mon_cur s = length (log s) /\ mon_map s = None.
Proof.
  intros Hr Hg H s. destruct (at_return y g y' i Hr Hg H) as (E & Hs & Hv). subst s. rewrite E. unfold end_stop; cbn.
  intros V Hm. destruct (Hv V) as (Hc & _). destruct Hs as (_ & _ & _ & []). rewrite Hc in m_flushed. auto.
Qed.

Theorem monitor_map_never_fails s ok s' : step_stream s ACli (MonMapRet ok) = Some s' -> ok = true.
Proof. cbn. intros H. apply guard_some in H. destruct H as [H _]. apply andb_true_iff in H. tauto. Qed.

(* ---------------------------------------------------------------- C07 / C09: the state stop and abort leave behind *)
Theorem armed_after_return y g y' :
  reachable y -> (g = GStopRet \/ g = GAbortRet) -> step y (EvG g) = Some y' ->
  api y' = HArmed /\ in_call y' = InIdle /\
  forall i, let s := stream_of y' i in
    c_stop s = CNone /\ c_start s = TNone /\
    (valid s = true -> workers_idle s = true /\ cam_st s <> HRunning /\ sto_st s <> HRunning /\
                       src_running s = false /\ sink_running s = false /\ filt_running s = false).
Proof.
  intros Hr Hg H. pose proof (stop_return_shape y g y' Hg H) as (H0 & H1 & E). split; [subst; reflexivity|]. split; [subst; reflexivity|].
  intros i s. destruct (at_return y g y' i Hr Hg H) as (Es & Hs & Hv). subst s. rewrite Es. unfold end_stop; cbn.
  split; [reflexivity|]. split; [reflexivity|]. intros V. destruct (Hv V) as (Hc & Hi). split; [exact Hi|].
  pose proof (reachable_inv y Hr) as [Y0 Y1 C0 C1].
  assert (Ht : c_start (stream_of y i) = TNone).
  { destruct Hg as [-> | ->]; cbn in H; destruct (in_call y) eqn:Ec; try discriminate H; destruct i; cbn in *; tauto. }
  destruct (devices_stopped_when_idle _ Hs Hi Ht) as (A & B). split; [exact A|]. split; [exact B|].
  destruct Hs as ([] & _). unfold workers_idle in Hi. apply andb_true_iff in Hi. destruct Hi as [Hi Hfp]. apply andb_true_iff in Hi. destruct Hi as [Hsp Hkp].
  rewrite i_srun, i_krun, i_frun.
  destruct (s_pc (stream_of y i)); try discriminate Hsp; destruct (k_pc (stream_of y i)); try discriminate Hkp;
    destruct (f_pc (stream_of y i)); try discriminate Hfp; auto.
Qed.

(* ---------------------------------------------------------------- C08: reports and shutdown *)
Theorem running_report_means_alive y y' : step y (EvG (GState HRunning)) = Some y' -> (any_running (st0 y) || any_running (st1 y)) = true.
Proof. cbn. destruct (api y); try discriminate. destruct (any_running (st0 y) || any_running (st1 y)); [reflexivity | discriminate]. Qed.

Theorem closed_at_shutdown y y' i :
  step y (EvG GShutdownRet) = Some y' -> let s := stream_of y' i in cam s = None /\ sto s = None /\ workers_idle s = true.
Proof.
  cbn. destruct (in_call y); try discriminate.
  destruct (stopped_ok (st0 y) && stopped_ok (st1 y) && workers_idle (st0 y) && workers_idle (st1 y) && all_closed (st0 y) && all_closed (st1 y)) eqn:E; [|discriminate].
  repeat (apply andb_true_iff in E; let X := fresh "X" in destruct E as [E X]).
  intros H. inversion H; subst; clear H. unfold all_closed in *. destruct i; cbn.
  - destruct (cam (st1 y)), (sto (st1 y)); try discriminate; auto.
  - destruct (cam (st0 y)), (sto (st0 y)); try discriminate; auto.
Qed.

(* ---------------------------------------------------------------- C09 *)
Theorem nothing_appended_after_failure y i a n ok fs y' :
  reachable y -> step y (EvS i a (DAppend n ok fs)) = Some y' -> sto_failed (stream_of y i) = false /\ sto_st (stream_of y i) = HRunning.
Proof.
  intros Hr H. pose proof (reachable_sinv y i Hr) as Hs. cbn in H. destruct (i && _ && _); [discriminate|].
  destruct (step_stream (if i then st1 y else st0 y) a (DAppend n ok fs)) eqn:E; [|discriminate].
  split; [eapply no_append_after_failure; eauto | eapply append_needs_running; eauto].
Qed.

Theorem failed_append_leaves_running s a n fs s' : step_stream s a (DAppend n false fs) = Some s' -> sto_st s' = HAwait /\ sto_failed s' = true.
Proof.
  intros H. unfold step_stream in H. destruct a; try discriminate H. destruct (k_pc s); try discriminate H;
    apply guard_some in H; destruct H as [_ H]; subst; auto.
Qed.

Theorem frames_only_while_running y i a n r y' :
  step y (EvS i a (DGetFrame n r)) = Some y' -> cam_st (stream_of y i) = HRunning.
Proof.
  intros H. cbn in H. destruct (i && _ && _); [discriminate|].
  destruct (step_stream (if i then st1 y else st0 y) a (DGetFrame n r)) eqn:E; [|discriminate]. eapply getframe_needs_running; eauto.
Qed.

Lemma nth_firstn_lt {A} (l : list A) : forall k n, n < k -> nth_error (firstn k l) n = nth_error l n.
Proof.
  induction l as [|x l IH]; intros k n H.
  - destruct k; destruct n; reflexivity.
  - destruct k; [lia|]. destruct n; [reflexivity|]. cbn. apply IH. lia.
Qed.

(* every frame storage has received is, unchanged (tag = payload, frame id, hardware id, shape code), the frame the camera
   delivered at that position *)
Theorem stored_frames_unchanged y i n f :
  reachable y -> nth_error (stored (stream_of y i)) n = Some f ->
  nth_error (delivered (stream_of y i)) n = Some f /\ f_id f = N.of_nat n /\ f_hw f = N.of_nat n /\ f_tag f = cam_tag (stream_of y i).
Proof.
  intros Hr Hn. destruct (prefix_always y i Hr) as (Hp & Hd). cbv zeta in *.
  assert (Hlt : n < length (stored (stream_of y i))) by (apply nth_error_Some; congruence).
  assert (Hm : nth_error (delivered (stream_of y i)) n = Some f).
  { rewrite Hp in Hn. rewrite nth_firstn_lt in Hn by exact Hlt. exact Hn. }
  split; [exact Hm | apply Hd; exact Hm].
Qed.
