(* PipeGhost.v -- the ghost flags the completeness theorems are stated with (aborted, sto_failed, cam_failed, src_on, acq_on) carry no
   information of their own: each is a fold over the observable events since the storage was last started. *)
From Coq Require Import List Bool Arith NArith Lia.
From RecordUpdate Require Import RecordSet.
From Pipe Require Import PipeModel PipeFacts PipeTac.
Import ListNotations RecordSetNotations.

Definition ev_sto_started (e : sev) : bool := match e with DStoStart _ true => true | _ => false end.
Definition ev_refuse (a : actor) (e : sev) : bool := match a, e with ACli, Accept false => true | _, _ => false end.
Definition ev_append_failed (e : sev) : bool := match e with DAppend _ false _ => true | _ => false end.
Definition ev_frame_failed (e : sev) : bool := match e with DGetFrame _ None => true | _ => false end.
Definition ev_source_created (e : sev) : bool := match e with Spawn RSrc => true | _ => false end.
Definition ev_writes_enabled_at_start (a : actor) (e : sev) (s : stream) : bool :=
  match a, e, c_stop s with ACli, Accept true, CNone => true | _, _, _ => false end.

(* one event of a stream: a successful storage start clears the flags; otherwise each flag is set by exactly its event *)
Lemma ghost_step s a e s' :
  step_stream s a e = Some s' ->
  if ev_sto_started e
  then aborted s' = false /\ sto_failed s' = false /\ cam_failed s' = false /\ src_on s' = false /\ acq_on s' = false
  else aborted s' = (aborted s || ev_refuse a e) /\
       sto_failed s' = (sto_failed s || ev_append_failed e) /\
       cam_failed s' = (cam_failed s || ev_frame_failed e) /\
       src_on s' = (src_on s || ev_source_created e) /\
       acq_on s' = (acq_on s || ev_writes_enabled_at_start a e s).
Proof.
  intros H. unfold ev_sto_started, ev_refuse, ev_append_failed, ev_frame_failed, ev_source_created, ev_writes_enabled_at_start.
  step_cases s H; unfold sink_finish; cbn in *; subst; split_goal_ifs; cbn;
    rewrite ?orb_false_r, ?orb_true_r; repeat split; try reflexivity; try congruence.
Qed.

(* the API bookkeeping: only abort / shutdown / a failed start raise `aborted`; nothing else touches the flags *)
Lemma ghost_begin_stop ab s :
  aborted (begin_stop ab s) = (aborted s || (valid s && ab)) /\ sto_failed (begin_stop ab s) = sto_failed s /\
  cam_failed (begin_stop ab s) = cam_failed s /\ src_on (begin_stop ab s) = src_on s /\ acq_on (begin_stop ab s) = acq_on s.
Proof. destruct s. unfold begin_stop. cbn. destruct valid; cbn; rewrite ?orb_false_r; auto. Qed.

Lemma ghost_end_stop s :
  aborted (end_stop s) = aborted s /\ sto_failed (end_stop s) = sto_failed s /\ cam_failed (end_stop s) = cam_failed s /\
  src_on (end_stop s) = src_on s /\ acq_on (end_stop s) = acq_on s.
Proof. destruct s. cbn. auto. Qed.

Lemma ghost_begin_start s :
  aborted (begin_start s) = aborted s /\ sto_failed (begin_start s) = sto_failed s /\ cam_failed (begin_start s) = cam_failed s /\
  src_on (begin_start s) = src_on s /\ acq_on (begin_start s) = acq_on s.
Proof. destruct s. unfold begin_start. cbn. destruct valid; auto. Qed.

Lemma ghost_fail_start s :
  aborted (fail_start s) = (aborted s || valid s) /\ sto_failed (fail_start s) = sto_failed s /\ cam_failed (fail_start s) = cam_failed s /\
  src_on (fail_start s) = src_on s /\ acq_on (fail_start s) = acq_on s.
Proof. destruct s. unfold fail_start, begin_stop. cbn. destruct valid; cbn; [|rewrite orb_false_r; auto]. destruct src_running; cbn; rewrite ?orb_true_r; auto. Qed.

(* the ghost logs: what storage received, what the camera delivered, what the monitor consumed -- each is appended to by exactly
   its event and cleared by the start of its device (stored, seen: storage start; delivered: camera start) *)
Definition mon_k' (s : stream) : nat := match mon_map s with Some k => k | None => 0 end.

Lemma logs_step s a e s' :
  step_stream s a e = Some s' ->
  stored s' = (match e with
               | DStoStart _ true => []
               | DAppend _ true fs => stored s ++ fs
               | _ => stored s
               end) /\
  delivered s' = (match e with
                  | DCamStart _ true _ => []
                  | DGetFrame _ (Some (hw, tag, sh)) => delivered s ++ [mkF tag (iframe s) hw sh]
                  | _ => delivered s
                  end) /\
  seen s' = (match a, e with
             | _, DStoStart _ true => []
             | ACli, RUnmap RdMon c => seen s ++ seg (log s) (mon_cur s) (Nat.min c (mon_k' s))
             | _, _ => seen s
             end) /\
  log s' = (match e with Commit true f => log s ++ [f] | _ => log s end).
Proof.
  intros H. unfold mon_k'.
  step_cases s H; unfold sink_finish; cbn in *; subst; split_goal_ifs; cbn; repeat split; try reflexivity; try congruence.
Qed.

(* a frame call that returns no frame (Device_Ok, zero bytes) is not a frame: it is made on a running camera by the source thread,
   consumes no frame number, no hardware id, and leaves the queue and every log as they were -- the source simply asks again *)
Lemma empty_poll_neutral s a i s' :
  step_stream s a (DGetEmpty i) = Some s' ->
  a = ASrc /\ cam s = Some i /\ cam_st s = HRunning /\ s_pc s' = SLoop /\
  iframe s' = iframe s /\ cam_next s' = cam_next s /\ log s' = log s /\ delivered s' = delivered s /\ stored s' = stored s /\
  dropped s' = dropped s.
Proof.
  intros H. destruct a; cbn in H; try discriminate H. unfold guard in H.
  match type of H with (if ?b then _ else _) = _ => destruct b eqn:E end; [|discriminate H].
  inversion H; subst; clear H. repeat (apply andb_true_iff in E; destruct E as [E ?]).
  repeat split; try reflexivity.
  - apply optN_eqb_true; assumption.
  - destruct (cam_st s); cbn in *; congruence.
Qed.
