(* PipeExamples.v -- three traces logged by the harness from the REAL runtime (programs quoted), as model events.  They are used by the
   property files to show that the hypotheses of the theorems are met by reachable, non-trivial states (no vacuity). *)
From Coq Require Import List Bool Arith NArith.
From Pipe Require Import PipeModel.
Import ListNotations.
Local Open Scope N_scope.

(* harness program:
ring 600
filtring 600
seed 7
cam 0 w=4 h=3 type=1 trig=0 pace=0
init
cfg 0 cam=A sto=A n=3 avg=0 delay=0
configure
start
yield 10
map 0
unmap 0 all
drain 0
stop
state
cfg 0 cam=A sto=A n=4 avg=0 delay=0
configure
start
yield 12
map 0
unmap 0 frames 1
yield 30
map 0
unmap 0 all
drain 0
stop
state
shutdown *)
Definition tr_two_acqs : list event := [
  EvS false ACli (DOpenCam 1);
  EvS false ACli (DSetCam 1);
  EvS false ACli (DOpenSto 2);
  EvS false ACli (DSetSto 2);
  EvG (GConfigure true false 3 0);
  EvG GStartCall;
  EvS false ACli (DStoStart 2 true);
  EvS false ACli (Accept true);
  EvS false ACli (RMapEnter RdSink);
  EvS false ACli (RMap RdSink []);
  EvS false ACli (RUnmap RdSink 0);
  EvS false ACli (Spawn RSink);
  EvS false ACli (Spawn RFilt);
  EvS false ACli (DCamStart 1 true 1);
  EvS false ACli (Spawn RSrc);
  EvG (GStartRet true);
  EvS false ASink (RMapEnter RdSink);
  EvS false ASrc (WMapEnter);
  EvS false ASink (RMap RdSink []);
  EvS false ASink (RUnmap RdSink 0);
  EvS false ASrc (WMap true);
  EvS false ASink (RMapEnter RdSink);
  EvS false ASrc (DGetFrame 1 (Some (0, 1, 32212516913)));
  EvS false ASink (RMap RdSink []);
  EvS false ASink (RUnmap RdSink 0);
  EvS false ASrc (Commit true (mkF 1 0 0 32212516913));
  EvS false ASrc (WMapEnter);
  EvS false ASink (RMapEnter RdSink);
  EvS false ASrc (WMap true);
  EvS false ASrc (DGetFrame 1 (Some (1, 1, 32212516913)));
  EvS false ASink (RMap RdSink [(mkF 1 0 0 32212516913)]);
  EvS false ASink (DAppend 2 true [(mkF 1 0 0 32212516913)]);
  EvS false ASink (RUnmap RdSink 1);
  EvS false ASink (RMapEnter RdSink);
  EvS false ASink (RMap RdSink []);
  EvS false ASink (RUnmap RdSink 0);
  EvS false ASrc (Commit true (mkF 1 1 1 32212516913));
  EvS false ASrc (WMapEnter);
  EvS false ASink (RMapEnter RdSink);
  EvS false ASrc (WMap true);
  EvS false ASink (RMap RdSink [(mkF 1 1 1 32212516913)]);
  EvS false ACli (RMapEnter RdMon);
  EvS false ASrc (DGetFrame 1 (Some (2, 1, 32212516913)));
  EvS false ACli (RMap RdMon [(mkF 1 0 0 32212516913); (mkF 1 1 1 32212516913)]);
  EvS false ACli (MonMapRet true);
  EvS false ACli (RUnmap RdMon 2);
  EvS false ACli (RMapEnter RdMon);
  EvS false ACli (RMap RdMon []);
  EvS false ACli (MonMapRet true);
  EvS false ACli (RUnmap RdMon 0);
  EvS false ACli (RMapEnter RdMon);
  EvS false ACli (RMap RdMon []);
  EvS false ACli (MonMapRet true);
  EvS false ACli (RUnmap RdMon 0);
  EvS false ACli (RMapEnter RdMon);
  EvS false ACli (RMap RdMon []);
  EvS false ACli (MonMapRet true);
  EvS false ACli (RUnmap RdMon 0);
  EvS false ACli (RMapEnter RdMon);
  EvS false ASink (DAppend 2 true [(mkF 1 1 1 32212516913)]);
  EvS false ACli (RMap RdMon []);
  EvS false ACli (MonMapRet true);
  EvS false ACli (RUnmap RdMon 0);
  EvS false ACli (RMapEnter RdMon);
  EvS false ACli (RMap RdMon []);
  EvS false ACli (MonMapRet true);
  EvS false ACli (RUnmap RdMon 0);
  EvS false ASink (RUnmap RdSink 1);
  EvS false ASink (RMapEnter RdSink);
  EvS false ACli (RMapEnter RdMon);
  EvS false ASrc (Commit true (mkF 1 2 2 32212516913));
  EvS false ASrc (CbStopFilter);
  EvS false AFilt (Exit RFilt);
  EvS false ASrc (Joined RFilt);
  EvS false ASrc (CbStopSink);
  EvS false ASink (RMap RdSink [(mkF 1 2 2 32212516913)]);
  EvS false ACli (RMap RdMon [(mkF 1 2 2 32212516913)]);
  EvS false ACli (MonMapRet true);
  EvS false ACli (RUnmap RdMon 1);
  EvS false ASink (DAppend 2 true [(mkF 1 2 2 32212516913)]);
  EvS false ASink (RUnmap RdSink 1);
  EvS false ASink (RMapEnter RdSink);
  EvS false ASink (RMap RdSink []);
  EvS false ASink (RUnmap RdSink 0);
  EvS false ACli (RMapEnter RdMon);
  EvS false ACli (RMap RdMon []);
  EvS false ACli (MonMapRet true);
  EvS false ACli (RUnmap RdMon 0);
  EvS false ASrc (DCamStop 1);
  EvS false ACli (RMapEnter RdMon);
  EvS false ASrc (Exit RSrc);
  EvS false ACli (RMap RdMon []);
  EvS false ACli (MonMapRet true);
  EvS false ACli (RUnmap RdMon 0);
  EvS false ACli (RMapEnter RdMon);
  EvS false ASink (RMapEnter RdSink);
  EvS false ACli (RMap RdMon []);
  EvS false ACli (MonMapRet true);
  EvS false ACli (RUnmap RdMon 0);
  EvS false ACli (RMapEnter RdMon);
  EvS false ACli (RMap RdMon []);
  EvS false ACli (MonMapRet true);
  EvS false ACli (RUnmap RdMon 0);
  EvS false ACli (RMapEnter RdMon);
  EvS false ACli (RMap RdMon []);
  EvS false ACli (MonMapRet true);
  EvS false ACli (RUnmap RdMon 0);
  EvS false ASink (RMap RdSink []);
  EvS false ASink (RUnmap RdSink 0);
  EvS false ACli (RMapEnter RdMon);
  EvS false ACli (RMap RdMon []);
  EvS false ACli (MonMapRet true);
  EvS false ACli (RUnmap RdMon 0);
  EvS false ACli (RMapEnter RdMon);
  EvS false ASink (DStoStop 2);
  EvS false ASink (Exit RSink);
  EvS false ACli (RMap RdMon []);
  EvS false ACli (MonMapRet true);
  EvS false ACli (RUnmap RdMon 0);
  EvG GStopCall;
  EvS false ACli (Joined RSrc);
  EvS false ACli (Joined RSink);
  EvS false ACli (Accept true);
  EvS false ACli (RUnmap RdMon 0);
  EvS false ACli (RMapEnter RdMon);
  EvS false ACli (RMap RdMon []);
  EvS false ACli (RUnmap RdMon 0);
  EvG GStopRet;
  EvG (GState HArmed);
  EvS false ACli (DSetCam 1);
  EvS false ACli (DSetSto 2);
  EvG (GConfigure true false 4 0);
  EvG GStartCall;
  EvS false ACli (DStoStart 2 true);
  EvS false ACli (Accept true);
  EvS false ACli (RMapEnter RdSink);
  EvS false ACli (RMap RdSink []);
  EvS false ACli (RUnmap RdSink 0);
  EvS false ACli (Spawn RSink);
  EvS false ACli (Spawn RFilt);
  EvS false ASink (RMapEnter RdSink);
  EvS false ACli (DCamStart 1 true 2);
  EvS false ACli (Spawn RSrc);
  EvG (GStartRet true);
  EvS false ASink (RMap RdSink []);
  EvS false ASink (RUnmap RdSink 0);
  EvS false ASink (RMapEnter RdSink);
  EvS false ASink (RMap RdSink []);
  EvS false ASink (RUnmap RdSink 0);
  EvS false ASink (RMapEnter RdSink);
  EvS false ASink (RMap RdSink []);
  EvS false ASink (RUnmap RdSink 0);
  EvS false ASink (RMapEnter RdSink);
  EvS false ASink (RMap RdSink []);
  EvS false ASink (RUnmap RdSink 0);
  EvS false ASink (RMapEnter RdSink);
  EvS false ASink (RMap RdSink []);
  EvS false ASink (RUnmap RdSink 0);
  EvS false ASink (RMapEnter RdSink);
  EvS false ASink (RMap RdSink []);
  EvS false ASink (RUnmap RdSink 0);
  EvS false ASrc (WMapEnter);
  EvS false ASink (RMapEnter RdSink);
  EvS false ACli (RMapEnter RdMon);
  EvS false ASink (RMap RdSink []);
  EvS false ASink (RUnmap RdSink 0);
  EvS false ACli (RMap RdMon []);
  EvS false ACli (MonMapRet true);
  EvS false ACli (RUnmap RdMon 0);
  EvS false ASrc (WMap true);
  EvS false ASrc (DGetFrame 1 (Some (0, 2, 32212516913)));
  EvS false ASink (RMapEnter RdSink);
  EvS false ASink (RMap RdSink []);
  EvS false ASink (RUnmap RdSink 0);
  EvS false ASrc (Commit true (mkF 2 0 0 32212516913));
  EvS false ASrc (WMapEnter);
  EvS false ASrc (WMap true);
  EvS false ASink (RMapEnter RdSink);
  EvS false ASink (RMap RdSink [(mkF 2 0 0 32212516913)]);
  EvS false ASrc (DGetFrame 1 (Some (1, 2, 32212516913)));
  EvS false ASrc (Commit true (mkF 2 1 1 32212516913));
  EvS false ASrc (WMapEnter);
  EvS false ASink (DAppend 2 true [(mkF 2 0 0 32212516913)]);
  EvS false ASrc (WMap true);
  EvS false ASrc (DGetFrame 1 (Some (2, 2, 32212516913)));
  EvS false ASrc (Commit true (mkF 2 2 2 32212516913));
  EvS false ASrc (WMapEnter);
  EvS false ASink (RUnmap RdSink 1);
  EvS false ASink (RMapEnter RdSink);
  EvS false ASrc (WMap true);
  EvS false ASink (RMap RdSink [(mkF 2 1 1 32212516913)]);
  EvS false ASrc (DGetFrame 1 (Some (3, 2, 32212516913)));
  EvS false ASrc (Commit true (mkF 2 3 3 32212516913));
  EvS false ASrc (CbStopFilter);
  EvS false ASink (DAppend 2 true [(mkF 2 1 1 32212516913)]);
  EvS false ASink (RUnmap RdSink 1);
  EvS false ASink (RMapEnter RdSink);
  EvS false ASink (RMap RdSink [(mkF 2 2 2 32212516913); (mkF 2 3 3 32212516913)]);
  EvS false ASink (DAppend 2 true [(mkF 2 2 2 32212516913); (mkF 2 3 3 32212516913)]);
  EvS false ASink (RUnmap RdSink 2);
  EvS false ASink (RMapEnter RdSink);
  EvS false ASink (RMap RdSink []);
  EvS false ASink (RUnmap RdSink 0);
  EvS false ASink (RMapEnter RdSink);
  EvS false AFilt (Exit RFilt);
  EvS false ASrc (Joined RFilt);
  EvS false ASrc (CbStopSink);
  EvS false ASrc (DCamStop 1);
  EvS false ASrc (Exit RSrc);
  EvS false ASink (RMap RdSink []);
  EvS false ASink (RUnmap RdSink 0);
  EvS false ASink (RMapEnter RdSink);
  EvS false ASink (RMap RdSink []);
  EvS false ASink (RUnmap RdSink 0);
  EvS false ASink (DStoStop 2);
  EvS false ASink (Exit RSink);
  EvS false ACli (RMapEnter RdMon);
  EvS false ACli (RMap RdMon [(mkF 2 0 0 32212516913); (mkF 2 1 1 32212516913)]);
  EvS false ACli (MonMapRet true);
  EvS false ACli (RUnmap RdMon 2);
  EvS false ACli (RMapEnter RdMon);
  EvS false ACli (RMap RdMon [(mkF 2 2 2 32212516913); (mkF 2 3 3 32212516913)]);
  EvS false ACli (MonMapRet true);
  EvS false ACli (RUnmap RdMon 2);
  EvS false ACli (RMapEnter RdMon);
  EvS false ACli (RMap RdMon []);
  EvS false ACli (MonMapRet true);
  EvS false ACli (RUnmap RdMon 0);
  EvG GStopCall;
  EvS false ACli (Joined RSrc);
  EvS false ACli (Joined RSink);
  EvS false ACli (Accept true);
  EvS false ACli (RUnmap RdMon 0);
  EvS false ACli (RMapEnter RdMon);
  EvS false ACli (RMap RdMon []);
  EvS false ACli (RUnmap RdMon 0);
  EvG GStopRet;
  EvG (GState HArmed);
  EvG GShutdownCall;
  EvS false ACli (Accept false);
  EvS false ACli (Accept true);
  EvS false ACli (RUnmap RdMon 0);
  EvS false ACli (RMapEnter RdMon);
  EvS false ACli (RMap RdMon []);
  EvS false ACli (RUnmap RdMon 0);
  EvS false ACli (DCloseCam 1);
  EvS false ACli (DCloseSto 2);
  EvG GShutdownRet
].

(* harness program:
ring 600
filtring 600
seed 11
cam 0 w=4 h=3 type=1 trig=0 pace=1
init
cfg 0 cam=A sto=A n=1099511627776 avg=0 delay=0
configure
start
yield 40
state
abort
state
shutdown *)
Definition tr_abort : list event := [
  EvS false ACli (DOpenCam 1);
  EvS false ACli (DSetCam 1);
  EvS false ACli (DOpenSto 2);
  EvS false ACli (DSetSto 2);
  EvG (GConfigure true false 1099511627776 0);
  EvG GStartCall;
  EvS false ACli (DStoStart 2 true);
  EvS false ACli (Accept true);
  EvS false ACli (RMapEnter RdSink);
  EvS false ACli (RMap RdSink []);
  EvS false ACli (RUnmap RdSink 0);
  EvS false ACli (Spawn RSink);
  EvS false ACli (Spawn RFilt);
  EvS false ASink (RMapEnter RdSink);
  EvS false ACli (DCamStart 1 true 1);
  EvS false ACli (Spawn RSrc);
  EvG (GStartRet true);
  EvS false ASrc (WMapEnter);
  EvS false ASrc (WMap true);
  EvS false ASink (RMap RdSink []);
  EvS false ASink (RUnmap RdSink 0);
  EvS false ASink (RMapEnter RdSink);
  EvS false ASrc (DGetFrame 1 (Some (0, 1, 32212516913)));
  EvS false ASrc (Commit true (mkF 1 0 0 32212516913));
  EvS false ASrc (WMapEnter);
  EvS false ASink (RMap RdSink [(mkF 1 0 0 32212516913)]);
  EvS false ASrc (WMap true);
  EvS false ASrc (DGetFrame 1 (Some (1, 1, 32212516913)));
  EvS false ASink (DAppend 2 true [(mkF 1 0 0 32212516913)]);
  EvS false ASrc (Commit true (mkF 1 1 1 32212516913));
  EvS false ASrc (WMapEnter);
  EvS false ASink (RUnmap RdSink 1);
  EvS false ASink (RMapEnter RdSink);
  EvS false ASink (RMap RdSink [(mkF 1 1 1 32212516913)]);
  EvS false ASrc (WMap true);
  EvS false ASrc (DGetFrame 1 (Some (2, 1, 32212516913)));
  EvS false ASink (DAppend 2 true [(mkF 1 1 1 32212516913)]);
  EvS false ASrc (Commit true (mkF 1 2 2 32212516913));
  EvS false ASrc (WMapEnter);
  EvS false ASink (RUnmap RdSink 1);
  EvS false ASink (RMapEnter RdSink);
  EvS false ASrc (WMap true);
  EvS false ASrc (DGetFrame 1 (Some (3, 1, 32212516913)));
  EvS false ASrc (Commit true (mkF 1 3 3 32212516913));
  EvS false ASrc (WMapEnter);
  EvS false ASink (RMap RdSink [(mkF 1 2 2 32212516913); (mkF 1 3 3 32212516913)]);
  EvS false ASrc (WMap true);
  EvS false ASink (DAppend 2 true [(mkF 1 2 2 32212516913); (mkF 1 3 3 32212516913)]);
  EvS false ASink (RUnmap RdSink 2);
  EvS false ASink (RMapEnter RdSink);
  EvS false ASink (RMap RdSink []);
  EvS false ASink (RUnmap RdSink 0);
  EvS false ASrc (DGetFrame 1 (Some (4, 1, 32212516913)));
  EvS false ASink (RMapEnter RdSink);
  EvS false ASink (RMap RdSink []);
  EvS false ASink (RUnmap RdSink 0);
  EvS false ASrc (Commit true (mkF 1 4 4 32212516913));
  EvS false ASrc (WMapEnter);
  EvS false ASink (RMapEnter RdSink);
  EvS false ASink (RMap RdSink [(mkF 1 4 4 32212516913)]);
  EvS false ASink (DAppend 2 true [(mkF 1 4 4 32212516913)]);
  EvS false ASink (RUnmap RdSink 1);
  EvS false ASink (RMapEnter RdSink);
  EvS false ASrc (WMap true);
  EvS false ASink (RMap RdSink []);
  EvS false ASink (RUnmap RdSink 0);
  EvS false ASink (RMapEnter RdSink);
  EvS false ASink (RMap RdSink []);
  EvS false ASink (RUnmap RdSink 0);
  EvS false ASink (RMapEnter RdSink);
  EvS false ASink (RMap RdSink []);
  EvS false ASink (RUnmap RdSink 0);
  EvS false ASink (RMapEnter RdSink);
  EvS false ASrc (DGetFrame 1 (Some (5, 1, 32212516913)));
  EvS false ASink (RMap RdSink []);
  EvS false ASink (RUnmap RdSink 0);
  EvS false ASrc (Commit true (mkF 1 5 5 32212516913));
  EvS false ASrc (WMapEnter);
  EvS false ASink (RMapEnter RdSink);
  EvS false ASrc (WMap true);
  EvS false ASrc (DGetFrame 1 (Some (6, 1, 32212516913)));
  EvS false ASrc (Commit true (mkF 1 6 6 32212516913));
  EvS false ASrc (WMapEnter);
  EvS false ASrc (WMap true);
  EvS false ASink (RMap RdSink [(mkF 1 5 5 32212516913); (mkF 1 6 6 32212516913)]);
  EvS false ASrc (DGetFrame 1 (Some (7, 1, 32212516913)));
  EvS false ASink (DAppend 2 true [(mkF 1 5 5 32212516913); (mkF 1 6 6 32212516913)]);
  EvS false ASrc (Commit true (mkF 1 7 7 32212516913));
  EvS false ASrc (WMapEnter);
  EvS false ASrc (WMap true);
  EvS false ASrc (DGetFrame 1 (Some (8, 1, 32212516913)));
  EvS false ASrc (Commit true (mkF 1 8 8 32212516913));
  EvS false ASrc (WMapEnter);
  EvS false ASink (RUnmap RdSink 2);
  EvS false ASink (RMapEnter RdSink);
  EvS false ASink (RMap RdSink [(mkF 1 7 7 32212516913); (mkF 1 8 8 32212516913)]);
  EvS false ASink (DAppend 2 true [(mkF 1 7 7 32212516913); (mkF 1 8 8 32212516913)]);
  EvS false ASrc (WMap true);
  EvS false ASrc (DGetFrame 1 (Some (9, 1, 32212516913)));
  EvS false ASrc (Commit true (mkF 1 9 9 32212516913));
  EvS false ASrc (WMapEnter);
  EvS false ASrc (WMap true);
  EvS false ASink (RUnmap RdSink 2);
  EvS false ASink (RMapEnter RdSink);
  EvS false ASink (RMap RdSink [(mkF 1 9 9 32212516913)]);
  EvS false ASink (DAppend 2 true [(mkF 1 9 9 32212516913)]);
  EvS false ASink (RUnmap RdSink 1);
  EvS false ASink (RMapEnter RdSink);
  EvS false ASrc (DGetFrame 1 (Some (10, 1, 32212516913)));
  EvS false ASrc (Commit true (mkF 1 10 10 32212516913));
  EvS false ASrc (WMapEnter);
  EvS false ASrc (WMap true);
  EvS false ASink (RMap RdSink [(mkF 1 10 10 32212516913)]);
  EvS false ASink (DAppend 2 true [(mkF 1 10 10 32212516913)]);
  EvG (GState HRunning);
  EvG GAbortCall;
  EvS false ACli (Accept false);
  EvS false ACli (DTrigger 1);
  EvS false ASink (RUnmap RdSink 1);
  EvS false ASink (RMapEnter RdSink);
  EvS false ASrc (DGetFrame 1 (Some (11, 1, 32212516913)));
  EvS false ASrc (Commit false (mkF 1 11 11 32212516913));
  EvS false ASrc (CbStopFilter);
  EvS false ASink (RMap RdSink []);
  EvS false ASink (RUnmap RdSink 0);
  EvS false ASink (RMapEnter RdSink);
  EvS false ASink (RMap RdSink []);
  EvS false ASink (RUnmap RdSink 0);
  EvS false ASink (RMapEnter RdSink);
  EvS false AFilt (Exit RFilt);
  EvS false ASink (RMap RdSink []);
  EvS false ASink (RUnmap RdSink 0);
  EvS false ASrc (Joined RFilt);
  EvS false ASrc (CbStopSink);
  EvS false ASink (RMapEnter RdSink);
  EvS false ASrc (DCamStop 1);
  EvS false ASink (RMap RdSink []);
  EvS false ASink (RUnmap RdSink 0);
  EvS false ASink (DStoStop 2);
  EvS false ASink (Exit RSink);
  EvS false ASrc (Exit RSrc);
  EvS false ACli (Joined RSrc);
  EvS false ACli (Joined RSink);
  EvS false ACli (Accept true);
  EvG GAbortRet;
  EvG (GState HArmed);
  EvG GShutdownCall;
  EvS false ACli (Accept false);
  EvS false ACli (Accept true);
  EvS false ACli (DCloseCam 1);
  EvS false ACli (DCloseSto 2);
  EvG GShutdownRet
].

(* harness program:
ring 600
filtring 600
seed 5
cam 0 w=4 h=3 type=1 trig=0 pace=0
init
cfg 0 cam=A sto=A n=6 avg=0 delay=0
configure
stofail 0 1
start
yield 60
stop
state
cfg 0 cam=A sto=A n=2 avg=0 delay=0
configure
start
yield 30
stop
state
shutdown *)
Definition tr_stofail : list event := [
  EvS false ACli (DOpenCam 1);
  EvS false ACli (DSetCam 1);
  EvS false ACli (DOpenSto 2);
  EvS false ACli (DSetSto 2);
  EvG (GConfigure true false 6 0);
  EvG GStartCall;
  EvS false ACli (DStoStart 2 true);
  EvS false ACli (Accept true);
  EvS false ACli (RMapEnter RdSink);
  EvS false ACli (RMap RdSink []);
  EvS false ACli (RUnmap RdSink 0);
  EvS false ACli (Spawn RSink);
  EvS false ASink (RMapEnter RdSink);
  EvS false ACli (Spawn RFilt);
  EvS false ACli (DCamStart 1 true 1);
  EvS false ACli (Spawn RSrc);
  EvG (GStartRet true);
  EvS false ASink (RMap RdSink []);
  EvS false ASink (RUnmap RdSink 0);
  EvS false ASrc (WMapEnter);
  EvS false ASrc (WMap true);
  EvS false ASrc (DGetFrame 1 (Some (0, 1, 32212516913)));
  EvS false ASrc (Commit true (mkF 1 0 0 32212516913));
  EvS false ASrc (WMapEnter);
  EvS false ASink (RMapEnter RdSink);
  EvS false ASink (RMap RdSink [(mkF 1 0 0 32212516913)]);
  EvS false ASink (DAppend 2 true [(mkF 1 0 0 32212516913)]);
  EvS false ASink (RUnmap RdSink 1);
  EvS false ASink (RMapEnter RdSink);
  EvS false ASink (RMap RdSink []);
  EvS false ASink (RUnmap RdSink 0);
  EvS false ASrc (WMap true);
  EvS false ASrc (DGetFrame 1 (Some (1, 1, 32212516913)));
  EvS false ASrc (Commit true (mkF 1 1 1 32212516913));
  EvS false ASrc (WMapEnter);
  EvS false ASink (RMapEnter RdSink);
  EvS false ASrc (WMap true);
  EvS false ASink (RMap RdSink [(mkF 1 1 1 32212516913)]);
  EvS false ASrc (DGetFrame 1 (Some (2, 1, 32212516913)));
  EvS false ASrc (Commit true (mkF 1 2 2 32212516913));
  EvS false ASrc (WMapEnter);
  EvS false ASrc (WMap true);
  EvS false ASrc (DGetFrame 1 (Some (3, 1, 32212516913)));
  EvS false ASink (DAppend 2 false [(mkF 1 1 1 32212516913)]);
  EvS false ASink (CbStopSource);
  EvS false ASrc (Commit true (mkF 1 3 3 32212516913));
  EvS false ASrc (CbStopFilter);
  EvS false AFilt (Exit RFilt);
  EvS false ASink (Accept false);
  EvS false ASink (RUnmap RdSink 0);
  EvS false ASink (RMapEnter RdSink);
  EvS false ASrc (Joined RFilt);
  EvS false ASrc (CbStopSink);
  EvS false ASrc (DCamStop 1);
  EvS false ASrc (Exit RSrc);
  EvS false ASink (RMap RdSink [(mkF 1 1 1 32212516913); (mkF 1 2 2 32212516913); (mkF 1 3 3 32212516913)]);
  EvS false ASink (RUnmap RdSink 3);
  EvS false ASink (RMapEnter RdSink);
  EvS false ASink (RMap RdSink []);
  EvS false ASink (RUnmap RdSink 0);
  EvS false ASink (Exit RSink);
  EvG GStopCall;
  EvS false ACli (Joined RSrc);
  EvS false ACli (Joined RSink);
  EvS false ACli (Accept true);
  EvG GStopRet;
  EvG (GState HArmed);
  EvS false ACli (DSetCam 1);
  EvS false ACli (DSetSto 2);
  EvG (GConfigure true false 2 0);
  EvG GStartCall;
  EvS false ACli (DStoStart 2 true);
  EvS false ACli (Accept true);
  EvS false ACli (RMapEnter RdSink);
  EvS false ACli (RMap RdSink []);
  EvS false ACli (RUnmap RdSink 0);
  EvS false ACli (Spawn RSink);
  EvS false ACli (Spawn RFilt);
  EvS false ACli (DCamStart 1 true 2);
  EvS false ACli (Spawn RSrc);
  EvG (GStartRet true);
  EvS false ASrc (WMapEnter);
  EvS false ASrc (WMap true);
  EvS false ASink (RMapEnter RdSink);
  EvS false ASink (RMap RdSink []);
  EvS false ASink (RUnmap RdSink 0);
  EvS false ASrc (DGetFrame 1 (Some (0, 2, 32212516913)));
  EvS false ASink (RMapEnter RdSink);
  EvS false ASink (RMap RdSink []);
  EvS false ASink (RUnmap RdSink 0);
  EvS false ASrc (Commit true (mkF 2 0 0 32212516913));
  EvS false ASrc (WMapEnter);
  EvS false ASrc (WMap true);
  EvS false ASink (RMapEnter RdSink);
  EvS false ASink (RMap RdSink [(mkF 2 0 0 32212516913)]);
  EvS false ASrc (DGetFrame 1 (Some (1, 2, 32212516913)));
  EvS false ASrc (Commit true (mkF 2 1 1 32212516913));
  EvS false ASrc (CbStopFilter);
  EvS false ASink (DAppend 2 true [(mkF 2 0 0 32212516913)]);
  EvS false ASink (RUnmap RdSink 1);
  EvS false ASink (RMapEnter RdSink);
  EvS false AFilt (Exit RFilt);
  EvS false ASink (RMap RdSink [(mkF 2 1 1 32212516913)]);
  EvS false ASink (DAppend 2 true [(mkF 2 1 1 32212516913)]);
  EvS false ASrc (Joined RFilt);
  EvS false ASrc (CbStopSink);
  EvS false ASink (RUnmap RdSink 1);
  EvS false ASink (RMapEnter RdSink);
  EvS false ASrc (DCamStop 1);
  EvS false ASink (RMap RdSink []);
  EvS false ASink (RUnmap RdSink 0);
  EvS false ASink (RMapEnter RdSink);
  EvS false ASrc (Exit RSrc);
  EvS false ASink (RMap RdSink []);
  EvS false ASink (RUnmap RdSink 0);
  EvS false ASink (DStoStop 2);
  EvS false ASink (Exit RSink);
  EvG GStopCall;
  EvS false ACli (Joined RSrc);
  EvS false ACli (Joined RSink);
  EvS false ACli (Accept true);
  EvG GStopRet;
  EvG (GState HArmed);
  EvG GShutdownCall;
  EvS false ACli (Accept false);
  EvS false ACli (Accept true);
  EvS false ACli (DCloseCam 1);
  EvS false ACli (DCloseSto 2);
  EvG GShutdownRet
].

(* harness program (start while running):
ring 600
filtring 600
seed 3
cam 0 w=4 h=3 type=1 trig=0 pace=1
init
cfg 0 cam=A sto=A n=1099511627776 avg=0 delay=0
configure
start
yield 20
start
state
stop
state
shutdown *)
Definition tr_restart : list event := [
  EvS false ACli (DOpenCam 1);
  EvS false ACli (DSetCam 1);
  EvS false ACli (DOpenSto 2);
  EvS false ACli (DSetSto 2);
  EvG (GConfigure true false 1099511627776 0);
  EvG GStartCall;
  EvS false ACli (DStoStart 2 true);
  EvS false ACli (Accept true);
  EvS false ACli (RMapEnter RdSink);
  EvS false ACli (RMap RdSink []);
  EvS false ACli (RUnmap RdSink 0);
  EvS false ACli (Spawn RSink);
  EvS false ASink (RMapEnter RdSink);
  EvS false ACli (Spawn RFilt);
  EvS false ASink (RMap RdSink []);
  EvS false ASink (RUnmap RdSink 0);
  EvS false ACli (DCamStart 1 true 2);
  EvS false ACli (Spawn RSrc);
  EvG (GStartRet true);
  EvS false ASink (RMapEnter RdSink);
  EvS false ASrc (WMapEnter);
  EvS false ASink (RMap RdSink []);
  EvS false ASink (RUnmap RdSink 0);
  EvS false ASrc (WMap true);
  EvS false ASink (RMapEnter RdSink);
  EvS false ASink (RMap RdSink []);
  EvS false ASink (RUnmap RdSink 0);
  EvS false ASink (RMapEnter RdSink);
  EvS false ASrc (DGetFrame 1 (Some (0, 2, 32212516913)));
  EvS false ASink (RMap RdSink []);
  EvS false ASink (RUnmap RdSink 0);
  EvS false ASink (RMapEnter RdSink);
  EvS false ASrc (Commit true (mkF 2 0 0 32212516913));
  EvS false ASrc (WMapEnter);
  EvS false ASink (RMap RdSink [(mkF 2 0 0 32212516913)]);
  EvS false ASink (DAppend 2 true [(mkF 2 0 0 32212516913)]);
  EvS false ASrc (WMap true);
  EvS false ASink (RUnmap RdSink 1);
  EvS false ASink (RMapEnter RdSink);
  EvS false ASink (RMap RdSink []);
  EvS false ASink (RUnmap RdSink 0);
  EvS false ASink (RMapEnter RdSink);
  EvS false ASink (RMap RdSink []);
  EvS false ASink (RUnmap RdSink 0);
  EvS false ASrc (DGetFrame 1 (Some (1, 2, 32212516913)));
  EvS false ASrc (Commit true (mkF 2 1 1 32212516913));
  EvS false ASrc (WMapEnter);
  EvS false ASrc (WMap true);
  EvS false ASink (RMapEnter RdSink);
  EvS false ASink (RMap RdSink [(mkF 2 1 1 32212516913)]);
  EvS false ASink (DAppend 2 true [(mkF 2 1 1 32212516913)]);
  EvS false ASink (RUnmap RdSink 1);
  EvS false ASink (RMapEnter RdSink);
  EvS false ASrc (DGetFrame 1 (Some (2, 2, 32212516913)));
  EvS false ASrc (Commit true (mkF 2 2 2 32212516913));
  EvS false ASrc (WMapEnter);
  EvS false ASink (RMap RdSink [(mkF 2 2 2 32212516913)]);
  EvS false ASrc (WMap true);
  EvS false ASink (DAppend 2 true [(mkF 2 2 2 32212516913)]);
  EvS false ASink (RUnmap RdSink 1);
  EvS false ASink (RMapEnter RdSink);
  EvS false ASink (RMap RdSink []);
  EvS false ASink (RUnmap RdSink 0);
  EvS false ASrc (DGetFrame 1 (Some (3, 2, 32212516913)));
  EvS false ASink (RMapEnter RdSink);
  EvG GStartCall;
  EvG GStartRefused;
  EvS false ASink (RMap RdSink []);
  EvS false ASink (RUnmap RdSink 0);
  EvS false ASink (RMapEnter RdSink);
  EvS false ASink (RMap RdSink []);
  EvS false ASink (RUnmap RdSink 0);
  EvS false ASrc (Commit true (mkF 2 3 3 32212516913));
  EvS false ASrc (CbStopFilter);
  EvS false ASink (RMapEnter RdSink);
  EvS false ASink (RMap RdSink [(mkF 2 3 3 32212516913)]);
  EvS false ASink (DAppend 2 true [(mkF 2 3 3 32212516913)]);
  EvS false ACli (Accept false);
  EvS false ACli (DTrigger 1);
  EvS false AFilt (Exit RFilt);
  EvS false ASink (RUnmap RdSink 1);
  EvS false ASink (RMapEnter RdSink);
  EvS false ASink (RMap RdSink []);
  EvS false ASink (RUnmap RdSink 0);
  EvS false ASink (RMapEnter RdSink);
  EvS false ASrc (Joined RFilt);
  EvS false ASrc (CbStopSink);
  EvS false ASink (RMap RdSink []);
  EvS false ASink (RUnmap RdSink 0);
  EvS false ASrc (DCamStop 1);
  EvS false ASrc (Exit RSrc);
  EvS false ACli (Joined RSrc);
  EvS false ASink (RMapEnter RdSink);
  EvS false ASink (RMap RdSink []);
  EvS false ASink (RUnmap RdSink 0);
  EvS false ASink (DStoStop 2);
  EvS false ASink (Exit RSink);
  EvS false ACli (Joined RSink);
  EvS false ACli (Accept true);
  EvG (GStartRet false);
  EvG (GState HAwait);
  EvG GStopCall;
  EvS false ACli (Accept true);
  EvG GStopRet;
  EvG (GState HArmed);
  EvG GShutdownCall;
  EvS false ACli (Accept false);
  EvS false ACli (Accept true);
  EvS false ACli (DCloseCam 1);
  EvS false ACli (DCloseSto 2);
  EvG GShutdownRet
].

Local Close Scope N_scope.
(* the state after the first n events of a trace (None if the model rejects one of them) *)
(* harness program (acquire_start on a camera, then on a storage device, that failed and was not configured since: refused
   before the device is touched; a configure re-arms it):
ring 600
filtring 600
seed 5
cam 0 w=4 h=3 type=1 trig=0 pace=1
init
cfg 0 cam=A sto=A n=4 avg=0 delay=0
configure
camfail 0 1
start
yield 60
stop
start
state
stofail 0 0
configure
start
yield 60
stop
start
state
configure
start
yield 60
stop
state
shutdown *)
Definition tr_unarmed : list event := [
  EvS false ACli (DOpenCam 1);
  EvS false ACli (DSetCam 1);
  EvS false ACli (DOpenSto 2);
  EvS false ACli (DSetSto 2);
  EvG (GConfigure true false 4 0);
  EvG GStartCall;
  EvS false ACli (DStoStart 2 true);
  EvS false ACli (Accept true);
  EvS false ACli (RMapEnter RdSink);
  EvS false ACli (RMap RdSink []);
  EvS false ACli (RUnmap RdSink 0);
  EvS false ACli (Spawn RSink);
  EvS false ASink (RMapEnter RdSink);
  EvS false ACli (Spawn RFilt);
  EvS false ACli (DCamStart 1 true 2);
  EvS false ACli (Spawn RSrc);
  EvG (GStartRet true);
  EvS false ASink (RMap RdSink []);
  EvS false ASink (RUnmap RdSink 0);
  EvS false ASrc (WMapEnter);
  EvS false ASrc (WMap true);
  EvS false ASrc (DGetFrame 1 (Some (0, 2, 32212516913)));
  EvS false ASink (RMapEnter RdSink);
  EvS false ASink (RMap RdSink []);
  EvS false ASink (RUnmap RdSink 0);
  EvS false ASink (RMapEnter RdSink);
  EvS false ASink (RMap RdSink []);
  EvS false ASink (RUnmap RdSink 0);
  EvS false ASink (RMapEnter RdSink);
  EvS false ASrc (Commit true (mkF 2 0 0 32212516913));
  EvS false ASrc (WMapEnter);
  EvS false ASrc (WMap true);
  EvS false ASink (RMap RdSink [(mkF 2 0 0 32212516913)]);
  EvS false ASrc (DGetFrame 1 None);
  EvS false ASink (DAppend 2 true [(mkF 2 0 0 32212516913)]);
  EvS false ASrc (DCamStop 1);
  EvS false ASrc (CbStopFilter);
  EvS false ASink (RUnmap RdSink 1);
  EvS false ASink (RMapEnter RdSink);
  EvS false ASink (RMap RdSink []);
  EvS false ASink (RUnmap RdSink 0);
  EvS false ASink (RMapEnter RdSink);
  EvS false ASink (RMap RdSink []);
  EvS false ASink (RUnmap RdSink 0);
  EvS false ASink (RMapEnter RdSink);
  EvS false AFilt (Exit RFilt);
  EvS false ASrc (Joined RFilt);
  EvS false ASrc (CbStopSink);
  EvS false ASrc (Exit RSrc);
  EvS false ASink (RMap RdSink []);
  EvS false ASink (RUnmap RdSink 0);
  EvS false ASink (RMapEnter RdSink);
  EvS false ASink (RMap RdSink []);
  EvS false ASink (RUnmap RdSink 0);
  EvS false ASink (DStoStop 2);
  EvS false ASink (Exit RSink);
  EvG GStopCall;
  EvS false ACli (Joined RSrc);
  EvS false ACli (Joined RSink);
  EvS false ACli (Accept true);
  EvG GStopRet;
  EvG GStartCall;
  EvS false ACli (DStoStart 2 true);
  EvS false ACli (Accept true);
  EvS false ACli (RMapEnter RdSink);
  EvS false ACli (RMap RdSink []);
  EvS false ACli (RUnmap RdSink 0);
  EvS false ACli (Spawn RSink);
  EvS false ASink (RMapEnter RdSink);
  EvS false ASink (RMap RdSink []);
  EvS false ASink (RUnmap RdSink 0);
  EvS false ASink (RMapEnter RdSink);
  EvS false ASink (RMap RdSink []);
  EvS false ASink (RUnmap RdSink 0);
  EvS false ACli (Spawn RFilt);
  EvS false ACli (StartRefused RSrc);
  EvS false ACli (Accept false);
  EvS false ASink (RMapEnter RdSink);
  EvS false ASink (RMap RdSink []);
  EvS false ASink (RUnmap RdSink 0);
  EvS false AFilt (Exit RFilt);
  EvS false ACli (Joined RFilt);
  EvS false ASink (DStoStop 2);
  EvS false ASink (Exit RSink);
  EvS false ACli (Joined RSink);
  EvS false ACli (Accept true);
  EvG (GStartRet false);
  EvG (GState HAwait);
  EvS false ACli (DSetCam 1);
  EvS false ACli (DSetSto 2);
  EvG (GConfigure true false 4 0);
  EvG GStartCall;
  EvS false ACli (DStoStart 2 true);
  EvS false ACli (Accept true);
  EvS false ACli (RMapEnter RdSink);
  EvS false ACli (RMap RdSink []);
  EvS false ACli (RUnmap RdSink 0);
  EvS false ACli (Spawn RSink);
  EvS false ASink (RMapEnter RdSink);
  EvS false ACli (Spawn RFilt);
  EvS false ACli (DCamStart 1 true 4);
  EvS false ACli (Spawn RSrc);
  EvG (GStartRet true);
  EvS false ASrc (WMapEnter);
  EvS false ASrc (WMap true);
  EvS false ASink (RMap RdSink []);
  EvS false ASink (RUnmap RdSink 0);
  EvS false ASink (RMapEnter RdSink);
  EvS false ASrc (DGetFrame 1 (Some (0, 4, 32212516913)));
  EvS false ASrc (Commit true (mkF 4 0 0 32212516913));
  EvS false ASrc (WMapEnter);
  EvS false ASink (RMap RdSink [(mkF 4 0 0 32212516913)]);
  EvS false ASink (DAppend 2 false [(mkF 4 0 0 32212516913)]);
  EvS false ASink (CbStopSource);
  EvS false ASrc (WMap true);
  EvS false ASink (Accept false);
  EvS false ASink (RUnmap RdSink 0);
  EvS false ASink (RMapEnter RdSink);
  EvS false ASrc (DGetFrame 1 (Some (1, 4, 32212516913)));
  EvS false ASrc (Commit false (mkF 4 1 1 32212516913));
  EvS false ASrc (CbStopFilter);
  EvS false ASink (RMap RdSink [(mkF 4 0 0 32212516913)]);
  EvS false ASink (RUnmap RdSink 1);
  EvS false ASink (RMapEnter RdSink);
  EvS false AFilt (Exit RFilt);
  EvS false ASink (RMap RdSink []);
  EvS false ASink (RUnmap RdSink 0);
  EvS false ASink (Exit RSink);
  EvS false ASrc (Joined RFilt);
  EvS false ASrc (CbStopSink);
  EvS false ASrc (DCamStop 1);
  EvS false ASrc (Exit RSrc);
  EvG GStopCall;
  EvS false ACli (Joined RSrc);
  EvS false ACli (Joined RSink);
  EvS false ACli (Accept true);
  EvG GStopRet;
  EvG GStartCall;
  EvS false ACli (StartRefused RSink);
  EvS false ACli (Accept false);
  EvS false ACli (Accept true);
  EvG (GStartRet false);
  EvG (GState HAwait);
  EvS false ACli (DSetCam 1);
  EvS false ACli (DSetSto 2);
  EvG (GConfigure true false 4 0);
  EvG GStartCall;
  EvS false ACli (DStoStart 2 true);
  EvS false ACli (Accept true);
  EvS false ACli (RMapEnter RdSink);
  EvS false ACli (RMap RdSink []);
  EvS false ACli (RUnmap RdSink 0);
  EvS false ACli (Spawn RSink);
  EvS false ACli (Spawn RFilt);
  EvS false ASink (RMapEnter RdSink);
  EvS false ACli (DCamStart 1 true 6);
  EvS false ACli (Spawn RSrc);
  EvG (GStartRet true);
  EvS false ASink (RMap RdSink []);
  EvS false ASink (RUnmap RdSink 0);
  EvS false ASink (RMapEnter RdSink);
  EvS false ASrc (WMapEnter);
  EvS false ASrc (WMap true);
  EvS false ASink (RMap RdSink []);
  EvS false ASink (RUnmap RdSink 0);
  EvS false ASrc (DGetFrame 1 (Some (0, 6, 32212516913)));
  EvS false ASink (RMapEnter RdSink);
  EvS false ASink (RMap RdSink []);
  EvS false ASink (RUnmap RdSink 0);
  EvS false ASrc (Commit true (mkF 6 0 0 32212516913));
  EvS false ASrc (WMapEnter);
  EvS false ASrc (WMap true);
  EvS false ASink (RMapEnter RdSink);
  EvS false ASink (RMap RdSink [(mkF 6 0 0 32212516913)]);
  EvS false ASink (DAppend 2 true [(mkF 6 0 0 32212516913)]);
  EvS false ASink (RUnmap RdSink 1);
  EvS false ASink (RMapEnter RdSink);
  EvS false ASink (RMap RdSink []);
  EvS false ASink (RUnmap RdSink 0);
  EvS false ASrc (DGetFrame 1 (Some (1, 6, 32212516913)));
  EvS false ASink (RMapEnter RdSink);
  EvS false ASink (RMap RdSink []);
  EvS false ASink (RUnmap RdSink 0);
  EvS false ASink (RMapEnter RdSink);
  EvS false ASink (RMap RdSink []);
  EvS false ASink (RUnmap RdSink 0);
  EvS false ASink (RMapEnter RdSink);
  EvS false ASink (RMap RdSink []);
  EvS false ASink (RUnmap RdSink 0);
  EvS false ASink (RMapEnter RdSink);
  EvS false ASink (RMap RdSink []);
  EvS false ASink (RUnmap RdSink 0);
  EvS false ASrc (Commit true (mkF 6 1 1 32212516913));
  EvS false ASrc (WMapEnter);
  EvS false ASink (RMapEnter RdSink);
  EvS false ASink (RMap RdSink [(mkF 6 1 1 32212516913)]);
  EvS false ASrc (WMap true);
  EvS false ASrc (DGetFrame 1 (Some (2, 6, 32212516913)));
  EvS false ASink (DAppend 2 true [(mkF 6 1 1 32212516913)]);
  EvS false ASink (RUnmap RdSink 1);
  EvS false ASink (RMapEnter RdSink);
  EvS false ASink (RMap RdSink []);
  EvS false ASink (RUnmap RdSink 0);
  EvS false ASrc (Commit true (mkF 6 2 2 32212516913));
  EvS false ASrc (WMapEnter);
  EvS false ASrc (WMap true);
  EvS false ASink (RMapEnter RdSink);
  EvS false ASink (RMap RdSink [(mkF 6 2 2 32212516913)]);
  EvS false ASink (DAppend 2 true [(mkF 6 2 2 32212516913)]);
  EvS false ASink (RUnmap RdSink 1);
  EvS false ASink (RMapEnter RdSink);
  EvS false ASrc (DGetFrame 1 (Some (3, 6, 32212516913)));
  EvS false ASrc (Commit true (mkF 6 3 3 32212516913));
  EvS false ASrc (CbStopFilter);
  EvS false ASink (RMap RdSink [(mkF 6 3 3 32212516913)]);
  EvS false ASink (DAppend 2 true [(mkF 6 3 3 32212516913)]);
  EvS false ASink (RUnmap RdSink 1);
  EvS false ASink (RMapEnter RdSink);
  EvS false ASink (RMap RdSink []);
  EvS false ASink (RUnmap RdSink 0);
  EvS false ASink (RMapEnter RdSink);
  EvS false ASink (RMap RdSink []);
  EvS false ASink (RUnmap RdSink 0);
  EvS false ASink (RMapEnter RdSink);
  EvS false ASink (RMap RdSink []);
  EvS false ASink (RUnmap RdSink 0);
  EvS false ASink (RMapEnter RdSink);
  EvS false ASink (RMap RdSink []);
  EvS false ASink (RUnmap RdSink 0);
  EvS false ASink (RMapEnter RdSink);
  EvS false AFilt (Exit RFilt);
  EvS false ASrc (Joined RFilt);
  EvS false ASrc (CbStopSink);
  EvS false ASink (RMap RdSink []);
  EvS false ASink (RUnmap RdSink 0);
  EvS false ASink (RMapEnter RdSink);
  EvS false ASrc (DCamStop 1);
  EvS false ASrc (Exit RSrc);
  EvS false ASink (RMap RdSink []);
  EvS false ASink (RUnmap RdSink 0);
  EvS false ASink (DStoStop 2);
  EvS false ASink (Exit RSink);
  EvG GStopCall;
  EvS false ACli (Joined RSrc);
  EvS false ACli (Joined RSink);
  EvS false ACli (Accept true);
  EvG GStopRet;
  EvG (GState HArmed);
  EvG GShutdownCall;
  EvS false ACli (Accept false);
  EvS false ACli (Accept true);
  EvS false ACli (DCloseCam 1);
  EvS false ACli (DCloseSto 2);
  EvG GShutdownRet
]%N.

(* harness program (a camera whose every second frame call returns no frame; 3 frames requested and stored):
ring 600
filtring 600
seed 7
cam 0 w=4 h=3 type=1 trig=0 pace=1
init
camempty 0 2
cfg 0 cam=A sto=A n=3 avg=0 delay=0
configure
start
yield 80
stop
state
shutdown *)
Definition tr_empty : list event := [
  EvS false ACli (DOpenCam 1);
  EvS false ACli (DSetCam 1);
  EvS false ACli (DOpenSto 2);
  EvS false ACli (DSetSto 2);
  EvG (GConfigure true false 3 0);
  EvG GStartCall;
  EvS false ACli (DStoStart 2 true);
  EvS false ACli (Accept true);
  EvS false ACli (RMapEnter RdSink);
  EvS false ACli (RMap RdSink []);
  EvS false ACli (RUnmap RdSink 0);
  EvS false ACli (Spawn RSink);
  EvS false ACli (Spawn RFilt);
  EvS false ACli (DCamStart 1 true 2);
  EvS false ACli (Spawn RSrc);
  EvG (GStartRet true);
  EvS false ASink (RMapEnter RdSink);
  EvS false ASrc (WMapEnter);
  EvS false ASink (RMap RdSink []);
  EvS false ASink (RUnmap RdSink 0);
  EvS false ASrc (WMap true);
  EvS false ASink (RMapEnter RdSink);
  EvS false ASink (RMap RdSink []);
  EvS false ASink (RUnmap RdSink 0);
  EvS false ASrc (DGetFrame 1 (Some (0, 2, 32212516913)));
  EvS false ASink (RMapEnter RdSink);
  EvS false ASrc (Commit true (mkF 2 0 0 32212516913));
  EvS false ASrc (WMapEnter);
  EvS false ASrc (WMap true);
  EvS false ASink (RMap RdSink [(mkF 2 0 0 32212516913)]);
  EvS false ASink (DAppend 2 true [(mkF 2 0 0 32212516913)]);
  EvS false ASink (RUnmap RdSink 1);
  EvS false ASink (RMapEnter RdSink);
  EvS false ASink (RMap RdSink []);
  EvS false ASink (RUnmap RdSink 0);
  EvS false ASink (RMapEnter RdSink);
  EvS false ASrc (DGetEmpty 1);
  EvS false ASink (RMap RdSink []);
  EvS false ASink (RUnmap RdSink 0);
  EvS false ASink (RMapEnter RdSink);
  EvS false ASink (RMap RdSink []);
  EvS false ASink (RUnmap RdSink 0);
  EvS false ASrc (WMapEnter);
  EvS false ASink (RMapEnter RdSink);
  EvS false ASrc (WMap true);
  EvS false ASink (RMap RdSink []);
  EvS false ASink (RUnmap RdSink 0);
  EvS false ASrc (DGetFrame 1 (Some (1, 2, 32212516913)));
  EvS false ASrc (Commit true (mkF 2 1 1 32212516913));
  EvS false ASrc (WMapEnter);
  EvS false ASrc (WMap true);
  EvS false ASink (RMapEnter RdSink);
  EvS false ASink (RMap RdSink [(mkF 2 1 1 32212516913)]);
  EvS false ASink (DAppend 2 true [(mkF 2 1 1 32212516913)]);
  EvS false ASink (RUnmap RdSink 1);
  EvS false ASink (RMapEnter RdSink);
  EvS false ASrc (DGetEmpty 1);
  EvS false ASrc (WMapEnter);
  EvS false ASrc (WMap true);
  EvS false ASink (RMap RdSink []);
  EvS false ASink (RUnmap RdSink 0);
  EvS false ASink (RMapEnter RdSink);
  EvS false ASink (RMap RdSink []);
  EvS false ASink (RUnmap RdSink 0);
  EvS false ASink (RMapEnter RdSink);
  EvS false ASink (RMap RdSink []);
  EvS false ASink (RUnmap RdSink 0);
  EvS false ASink (RMapEnter RdSink);
  EvS false ASink (RMap RdSink []);
  EvS false ASink (RUnmap RdSink 0);
  EvS false ASink (RMapEnter RdSink);
  EvS false ASink (RMap RdSink []);
  EvS false ASink (RUnmap RdSink 0);
  EvS false ASink (RMapEnter RdSink);
  EvS false ASink (RMap RdSink []);
  EvS false ASink (RUnmap RdSink 0);
  EvS false ASink (RMapEnter RdSink);
  EvS false ASink (RMap RdSink []);
  EvS false ASink (RUnmap RdSink 0);
  EvS false ASrc (DGetFrame 1 (Some (2, 2, 32212516913)));
  EvS false ASrc (Commit true (mkF 2 2 2 32212516913));
  EvS false ASrc (CbStopFilter);
  EvS false ASink (RMapEnter RdSink);
  EvS false ASink (RMap RdSink [(mkF 2 2 2 32212516913)]);
  EvS false ASink (DAppend 2 true [(mkF 2 2 2 32212516913)]);
  EvS false AFilt (Exit RFilt);
  EvS false ASink (RUnmap RdSink 1);
  EvS false ASink (RMapEnter RdSink);
  EvS false ASrc (Joined RFilt);
  EvS false ASrc (CbStopSink);
  EvS false ASrc (DCamStop 1);
  EvS false ASrc (Exit RSrc);
  EvS false ASink (RMap RdSink []);
  EvS false ASink (RUnmap RdSink 0);
  EvS false ASink (RMapEnter RdSink);
  EvS false ASink (RMap RdSink []);
  EvS false ASink (RUnmap RdSink 0);
  EvS false ASink (DStoStop 2);
  EvS false ASink (Exit RSink);
  EvG GStopCall;
  EvS false ACli (Joined RSrc);
  EvS false ACli (Joined RSink);
  EvS false ACli (Accept true);
  EvG GStopRet;
  EvG (GState HArmed);
  EvG GShutdownCall;
  EvS false ACli (Accept false);
  EvS false ACli (Accept true);
  EvS false ACli (DCloseCam 1);
  EvS false ACli (DCloseSto 2);
  EvG GShutdownRet
]%N.

Definition after (tr : list event) (n : nat) : option sys := accepts init_sys (firstn n tr).
Definition before_second_stop : nat := 236.
Definition before_abort_return : nat := 144.
Definition before_first_stop_f : nat := 65.
Definition before_second_stop_f : nat := 121.
Definition at_failing_append : nat := 43.
Definition after_abort_refusal : nat := 117.   (* tr_abort: the first 117 events, i.e. up to and including the client's Accept false *)
Definition before_start_refused : nat := 66.
Definition before_first_empty_poll : nat := 36.  (* tr_empty *)
Definition before_src_refused : nat := 75.     (* tr_unarmed: the camera failed in the first acquisition, no configure since *)
Definition before_sink_refused : nat := 138.   (* tr_unarmed: the storage failed in the second acquisition, no configure since *)
