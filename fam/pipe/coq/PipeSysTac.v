(* PipeSysTac.v -- tactics for the API bookkeeping lemmas. *)
From Coq Require Import List Bool Arith NArith Lia.
From RecordUpdate Require Import RecordSet.
From Pipe Require Import PipeModel PipeFacts PipeTac PipeInvDefs.
Import ListNotations RecordSetNotations.

Ltac sinv_open Hs s :=
  destruct Hs as ([] & [] & [] & []); destruct s; unfold begin_start, begin_stop, end_stop, fail_start, workers_idle, quiet in *;
  cbn in *.
Ltac sinv_tac :=
  match goal with |- SInv _ => split; [|split; [|split]] end; constructor;
  unfold quiet, workers_idle, mon_k, ncommitted in *; cbn in *; try reflexivity; try assumption; split_goal_ifs; fin.

