(* PipeRested.v -- a monitor reader that acquire_stop / acquire_abort has drained stays drained until the next acquisition's
   storage is started, whatever the client does in between: it is fresh (mon_fresh) in the next acquisition. *)
From Coq Require Import List Bool Arith NArith Lia.
From RecordUpdate Require Import RecordSet.
From Pipe Require Import PipeModel PipeFacts PipeTac PipeInvDefs PipeProps PipeStep PipeSysProps.
Import ListNotations RecordSetNotations.

Definition start_quiet (c : cstart) : bool := match c with TNone | TBegin | TDone | TFailed => true | _ => false end.

(* between acquisitions: registered monitor reader, nothing unread, no worker alive, the client not past storage_start *)
Definition Rested (s : stream) : Prop :=
  mon_reg s = true /\ mon_cur s = length (log s) /\ workers_idle s = true /\ start_quiet (c_start s) = true.

Definition is_sto_start (e : sev) : bool := match e with DStoStart _ true => true | _ => false end.

Lemma rested_step s a e s' :
  Inv1 s -> Rested s -> step_stream s a e = Some s' -> is_sto_start e = false -> Rested s'.
Proof.
  intros H1 (R1 & R2 & R3 & R4) H He.
  pose proof (i_moncur s H1) as Hmc. clear H1. unfold Rested, mon_k in *.
  step_cases s H; unfold sink_finish, workers_idle in *; cbn in *; subst; try discriminate; try congruence;
    split_goal_ifs; cbn in *; try discriminate; try congruence;
    try (repeat split; auto; fail).
  all: try (repeat split; auto; try lia; fail).
  all: try (match goal with
            | Hs : ?fs = seg ?l (length ?l) _ |- _ => apply seg_at_end in Hs; subst; cbn in *
            end; repeat split; auto; try lia; fail).
Qed.

Lemma rested_fail_start s : Rested s -> Rested (fail_start s).
Proof.
  intros (R1 & R2 & R3 & R4). destruct s; unfold Rested, fail_start, begin_stop, workers_idle in *; cbn in *.
  destruct valid; cbn; [|auto]. destruct src_running; cbn; repeat split; auto; destruct c_start; auto; discriminate.
Qed.

Definition is_sto_start_of (i : bool) (ev : event) : bool :=
  match ev with EvS j _ e => Bool.eqb i j && is_sto_start e | EvG _ => false end.

Lemma rested_sys_step y ev y' i :
  YInv y -> Rested (stream_of y i) -> step y ev = Some y' -> is_sto_start_of i ev = false -> Rested (stream_of y' i).
Proof.
  intros Hy Hr H He. destruct Hy as [(I0 & _) (I1 & _) _ _]. destruct ev as [j a e | g]; cbn in H.
  - destruct (j && _ && _); [discriminate|].
    destruct (step_stream (if j then st1 y else st0 y) a e) as [s'|] eqn:Es; [|discriminate].
    assert (Hs' : Bool.eqb i j = true -> Rested s').
    { intros Hij. apply eqb_prop in Hij. subst j. cbn in He. rewrite eqb_reflx in He. cbn in He.
      destruct i; cbn in Hr, Es; [exact (rested_step _ _ _ _ I1 Hr Es He) | exact (rested_step _ _ _ _ I0 Hr Es He)]. }
    destruct (is_start_failure e); inversion H; subst; clear H; destruct i, j; cbn in *;
      try (apply rested_fail_start); auto.
  - assert (Hbs : Rested (begin_start (stream_of y i))).
    { destruct Hr as (R1 & R2 & R3 & R4). unfold Rested, begin_start, workers_idle in *. destruct (stream_of y i); cbn in *. destruct valid; cbn; repeat split; auto. }
    assert (Hbp : forall ab, Rested (begin_stop ab (stream_of y i))).
    { intros ab. destruct Hr as (R1 & R2 & R3 & R4). unfold Rested, begin_stop, workers_idle in *. destruct (stream_of y i); cbn in *. destruct valid; cbn; repeat split; auto. }
    assert (Hes : Rested (end_stop (stream_of y i))).
    { destruct Hr as (R1 & R2 & R3 & R4). unfold Rested, end_stop, workers_idle in *. destruct (stream_of y i); cbn in *. repeat split; auto. }
    assert (Hcf : forall v n, Rested (stream_of y i <| valid := v |> <| maxn := n |>)).
    { intros v n. destruct Hr as (R1 & R2 & R3 & R4). unfold Rested, workers_idle in *. destruct (stream_of y i); cbn in *. repeat split; auto. }
    assert (Hrs : Rested (set c_start (fun _ => TNone) (stream_of y i))).
    { destruct Hr as (R1 & R2 & R3 & R4). unfold Rested, workers_idle in *. destruct (stream_of y i); cbn in *. repeat split; auto. }
    pose proof (rested_fail_start _ Hr) as Hfs.
    destruct y as [s0 s1 ap ic]. destruct g; cbn in H; cbv zeta in H; destruct ic; try discriminate H;
      repeat match type of H with
             | (if ?b then _ else _) = Some _ => destruct b
             | (match ?x with _ => _ end) = Some _ => destruct x
             end; try discriminate H; inversion H; subst; clear H; destruct i; cbn in *; auto.
Qed.

Lemma rested_run tr : forall y y' i,
  YInv y -> Rested (stream_of y i) -> accepts y tr = Some y' -> forallb (fun ev => negb (is_sto_start_of i ev)) tr = true ->
  Rested (stream_of y' i).
Proof.
  induction tr as [|ev tr IH]; intros y y' i Hy Hr Hacc Hn; cbn in *.
  - inversion Hacc; subst; exact Hr.
  - destruct (step y ev) as [y1|] eqn:Es; [|discriminate]. apply andb_true_iff in Hn. destruct Hn as [H1 H2].
    apply negb_true_iff in H1. eapply IH; [eapply yinv_step; eauto | eapply rested_sys_step; eauto | exact Hacc | exact H2].
Qed.

Lemma rested_start s n s' : Rested s -> step_stream s ACli (DStoStart n true) = Some s' -> mon_fresh s' = true.
Proof.
  intros (R1 & R2 & _ & _) H. cbn in H. apply guard_some in H. destruct H as [_ ->]. cbn. rewrite R1, R2, Nat.eqb_refl. reflexivity.
Qed.

Lemma step_stream_of y i a e y' :
  step y (EvS i a e) = Some y' -> is_start_failure e = false ->
  exists s', step_stream (stream_of y i) a e = Some s' /\ stream_of y' i = s'.
Proof.
  intros H Hf. unfold step in H. destruct (i && _ && _); [discriminate|].
  destruct (step_stream (if i then st1 y else st0 y) a e) as [s'|] eqn:Es; [|discriminate]. rewrite Hf in H.
  inversion H; subst; clear H. exists s'. destruct i; cbn; auto.
Qed.

(* the theorem: after stop / abort has returned, a registered monitor reader of a configured stream is fresh when the next
   acquisition's storage is started -- for every client program and schedule in between *)
Theorem fresh_in_next_acquisition y g y1 i tr y2 n y3 :
  reachable y -> (g = GStopRet \/ g = GAbortRet) -> step y (EvG g) = Some y1 ->
  valid (stream_of y1 i) = true -> mon_reg (stream_of y1 i) = true ->
  accepts y1 tr = Some y2 -> forallb (fun ev => negb (is_sto_start_of i ev)) tr = true ->
  step y2 (EvS i ACli (DStoStart n true)) = Some y3 ->
  mon_fresh (stream_of y3 i) = true.
Proof.
  intros Hr Hg Hs Hv Hm Hacc Hn Hstart.
  pose proof (reachable_step _ _ _ Hr Hs) as Hr1.
  assert (R1 : Rested (stream_of y1 i)).
  { destruct (monitor_flushed_at_return y g y1 i Hr Hg Hs Hv Hm) as (A & _).
    destruct (armed_after_return y g y1 Hr Hg Hs) as (_ & _ & B). destruct (B i) as (_ & C & D). destruct (D Hv) as (E & _).
    unfold Rested. rewrite C. auto. }
  pose proof (rested_run tr y1 y2 i (reachable_inv _ Hr1) R1 Hacc Hn) as R2.
  destruct (step_stream_of _ _ _ _ _ Hstart eq_refl) as (s' & Es & E). rewrite E.
  eapply rested_start; eauto.
Qed.
