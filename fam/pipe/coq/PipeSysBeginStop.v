(* PipeSysBeginStop.v -- one client-side bookkeeping step of the API preserves the stream invariant. *)
From Coq Require Import List Bool Arith NArith Lia.
From RecordUpdate Require Import RecordSet.
From Pipe Require Import PipeModel PipeFacts PipeTac PipeInvDefs PipeSysTac.
Import ListNotations RecordSetNotations.

Lemma sinv_begin_stop ab s :
  SInv s -> c_stop s = CNone -> (c_start s = TNone \/ c_start s = TDone \/ c_start s = TFailed) -> SInv (begin_stop ab s).
Proof. intros Hs Hc Ht. sinv_open Hs s. subst. destruct valid; [|sinv_tac]. destruct ab; destruct Ht as [Ht|[Ht|Ht]]; subst; sinv_tac; rewrite ?orb_false_r, ?orb_true_r in *; fin. Qed.

