(* PipeLiveSys.v -- the progress certificate of PipeLive / PipeLive2 for every reachable state of the two-stream system. *)
From Coq Require Import List Bool Arith NArith Lia.
From RecordUpdate Require Import RecordSet.
From Pipe Require Import PipeModel PipeFacts PipeTac PipeInvDefs PipeInv5Defs PipeStep PipeInv5Sys PipeSysProps PipeLive PipeLive2.
Import ListNotations RecordSetNotations.

Lemma reachable_inv5_stream y i : reachable y -> Inv5 (stream_of y i).
Proof. intros H. destruct (reachable_inv5 y H). destruct i; assumption. Qed.

(* acquire_abort's refusal of writes (and acquire_shutdown's, and the error path of acquire_start) starts the phase *)
Theorem abort_enters_phase s s' : step_stream s ACli (Accept false) = Some s' -> Ph s'.
Proof.
  cbn. intros H. apply guard_some in H. destruct H as [H ->]. unfold Ph; cbn. destruct (c_stop s); try discriminate H. auto.
Qed.

Theorem winddown_progress y i a e s' :
  reachable y -> let s := stream_of y i in
  Ph s -> step_stream s a e = Some s' -> a <> ACli -> measure s' < measure s \/ poll_event s a e = true.
Proof. intros Hr s Hp H Ha. destruct (reachable_sinv y i Hr) as (H1 & _). eapply progress_step; eauto. apply reachable_inv5_stream; assumption. Qed.

Theorem winddown_poll_bound y i a e s' :
  reachable y -> let s := stream_of y i in
  Ph s -> step_stream s a e = Some s' -> poll_event s a e = true -> measure s' <= measure s + 2.
Proof. intros Hr s Hp H Hq. destruct (reachable_sinv y i Hr) as (H1 & _). eapply poll_bound; eauto. Qed.

Theorem winddown_phase_stable y i a e s' :
  reachable y -> let s := stream_of y i in
  Ph s -> step_stream s a e = Some s' -> Ph s' \/ (a = ACli /\ e = Accept true).
Proof. intros Hr s Hp H. destruct (reachable_sinv y i Hr) as (H1 & _). eapply ph_step; eauto. Qed.

Theorem winddown_no_deadlock y i :
  reachable y -> let s := stream_of y i in
  Ph s -> workers_idle s = false ->
  exists a e s', a <> ACli /\ step_stream s a e = Some s' /\ measure s' < measure s.
Proof. intros Hr s Hp Hw. apply progress_enabled; auto. apply reachable_sinv; assumption. apply reachable_inv5_stream; assumption. Qed.

(* the client's own events do not change the measure while the phase lasts (they touch the monitor reader, the trigger and
   the stop request only) *)
Theorem winddown_client_neutral y i e s' :
  reachable y -> let s := stream_of y i in
  Ph s -> step_stream s ACli e = Some s' -> e <> Accept true -> measure s' = measure s.
Proof.
  intros Hr s (P1 & P2 & P3) H Hne. destruct (reachable_sinv y i Hr) as (H1 & _). fold s in H1.
  pose proof (i_cstop s H1) as Hcs. clear H1 Hr. unfold measure, sink_rank; unfold told.
  destruct s; cbn in *; subst. unfold step_stream in H. cbn in H.
  assert (Hph : start_pre_sink c_start = false /\ start_pre_src c_start = false) by (apply Hcs; discriminate). clear Hcs. destruct Hph as [Q1 Q2].
  destruct e; try discriminate H; cbn in H;
    repeat match type of H with
           | guard _ _ = Some _ => apply guard_some in H; destruct H as [? H]; subst
           | Some _ = Some _ => inversion H; subst; clear H
           | None = Some _ => discriminate H
           | context [match ?x with _ => _ end] => destruct x eqn:?
           | context [if ?x then _ else _] => destruct x eqn:?
           end; cbn; try reflexivity; try congruence; try discriminate;
    unfold quiet, workers_idle in *; cbn in *; bool_hyps; subst; cbn in *; try reflexivity; try discriminate; try congruence.
Qed.

(* ---- the same certificate for the whole time acquire_stop waits for the workers (PipeLiveG.v): plain stop included *)
From Pipe Require Import PipeLiveG.

Theorem stop_progress y i a e s' :
  reachable y -> let s := stream_of y i in
  Pg s -> step_stream s a e = Some s' -> a <> ACli -> gmeasure s' < gmeasure s \/ poll_event s a e = true.
Proof.
  intros Hr s Hp H Ha. destruct (reachable_sinv y i Hr) as (H1 & _ & H3 & _). eapply gprogress_step; eauto. apply reachable_inv5_stream; assumption.
Qed.

Theorem stop_poll_bound y i a e s' :
  reachable y -> let s := stream_of y i in
  Pg s -> step_stream s a e = Some s' -> poll_event s a e = true -> gmeasure s' <= gmeasure s + 20.
Proof. intros Hr s Hp H Hq. destruct (reachable_sinv y i Hr) as (H1 & _). eapply gpoll_bound; eauto. Qed.

Theorem stop_no_deadlock y i :
  reachable y -> let s := stream_of y i in
  Pg s -> workers_idle s = false ->
  exists a e s', a <> ACli /\ step_stream s a e = Some s' /\ gmeasure s' < gmeasure s.
Proof. intros Hr s Hp Hw. apply gprogress_enabled; auto. apply reachable_sinv; assumption. apply reachable_inv5_stream; assumption. Qed.
