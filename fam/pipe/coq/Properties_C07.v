(* Properties_C07.v -- C07: abort and stop leave a reusable runtime and return after finitely many steps of the workers
   (state part first; the progress certificate of the wind-down at the end).
   Model and reachability as in Properties_C04.v. *)
From Coq Require Import List Bool Arith NArith.
From Pipe Require Import PipeModel PipeInvDefs PipeStep PipeSysProps PipeLive PipeLiveG PipeLiveSys PipeExamples.
Import ListNotations.

(* when acquire_abort (or acquire_stop) returns: the runtime is Armed, no API call is in progress, and for every
   configured stream all three worker threads have exited, their running flags are clear, and neither the camera nor the
   storage is in the running state *)
Theorem C07_armed_after_return : forall y g y',
  reachable y -> (g = GStopRet \/ g = GAbortRet) -> step y (EvG g) = Some y' ->
  api y' = HArmed /\ in_call y' = InIdle /\
  forall i, let s := stream_of y' i in
    c_stop s = CNone /\ c_start s = TNone /\
    (valid s = true -> workers_idle s = true /\ cam_st s <> HRunning /\ sto_st s <> HRunning /\
                       src_running s = false /\ sink_running s = false /\ filt_running s = false).
Proof. exact armed_after_return. Qed.
Print Assumptions C07_armed_after_return.

(* at every moment, hence at the moment of an abort: storage holds a gap-free prefix of the delivered frames *)
Theorem C07_prefix_at_abort : forall y i, reachable y -> let s := stream_of y i in
  stored s = firstn (length (stored s)) (delivered s) /\
  (forall n f, nth_error (delivered s) n = Some f -> f_id f = N.of_nat n /\ f_hw f = N.of_nat n /\ f_tag f = cam_tag s).
Proof. exact prefix_always. Qed.
Print Assumptions C07_prefix_at_abort.

(* a later configure/start/stop is complete and correct whatever happened before (reachable covers every history, in
   particular histories with aborted acquisitions): all of its frames, only its frames (stored = this run's delivered) *)
Theorem C07_clean_restart : forall y y' i, reachable y -> step y (EvG GStopRet) = Some y' ->
  let s := stream_of y' i in
  valid s = true -> src_on s = true -> aborted s = false -> sto_failed s = false -> cam_failed s = false ->
  stored s = delivered s /\ N.of_nat (length (delivered s)) = goal s.
Proof. exact complete_after_stop. Qed.
Print Assumptions C07_clean_restart.

Example C07_example_abort :
  match after tr_abort before_abort_return with
  | Some y => match step y (EvG GAbortRet) with
              | Some y' => let s := st0 y' in valid s && aborted s && Nat.leb 1 (length (stored s)) && Nat.leb (length (stored s)) (length (delivered s))
              | None => false
              end
  | None => false
  end = true.
Proof. vm_compute. reflexivity. Qed.

(* ---- "returns after finitely many steps": the progress certificate of the wind-down (PipeLive.v).  Phase Ph: acquire_stop
   is waiting for the workers, writes are refused, the source has been told to stop or is gone -- entered by the refusal of
   writes that acquire_abort / acquire_shutdown / the error path of acquire_start issue (C07_abort_enters_phase); it lasts
   until the client re-enables writes after joining all three workers (C07_winddown_phase_stable).  During the phase every
   event of a worker thread strictly decreases `measure`, except the sink's polls of its queue while it has not been told to
   stop or while nothing mapped is old enough to be written, and the source's join marker (C07_winddown_progress); a poll
   adds at most 2 (C07_winddown_poll_bound); the client's own events leave it unchanged (C07_winddown_client_neutral); and
   while a worker is alive some worker event that decreases the measure is enabled: no deadlock (C07_winddown_no_deadlock).
   So the number of non-poll worker events of the phase is bounded by the measure at its start, and the polls end because
   the finitely many steps of source and filter raise the sink's stop flag.  Remaining assumptions: the OS schedules enabled
   threads (fairness), a blocked channel_write_map returns once writes are refused (C03), virtual time passes. *)
Theorem C07_abort_enters_phase : forall s s', step_stream s ACli (Accept false) = Some s' -> Ph s'.
Proof. exact abort_enters_phase. Qed.
Print Assumptions C07_abort_enters_phase.

Theorem C07_winddown_progress : forall y i a e s',
  reachable y -> let s := stream_of y i in
  Ph s -> step_stream s a e = Some s' -> a <> ACli -> measure s' < measure s \/ poll_event s a e = true.
Proof. exact winddown_progress. Qed.
Print Assumptions C07_winddown_progress.

Theorem C07_winddown_poll_bound : forall y i a e s',
  reachable y -> let s := stream_of y i in
  Ph s -> step_stream s a e = Some s' -> poll_event s a e = true -> measure s' <= measure s + 2.
Proof. exact winddown_poll_bound. Qed.
Print Assumptions C07_winddown_poll_bound.

Theorem C07_winddown_client_neutral : forall y i e s',
  reachable y -> let s := stream_of y i in
  Ph s -> step_stream s ACli e = Some s' -> e <> Accept true -> measure s' = measure s.
Proof. exact winddown_client_neutral. Qed.
Print Assumptions C07_winddown_client_neutral.

Theorem C07_winddown_phase_stable : forall y i a e s',
  reachable y -> let s := stream_of y i in
  Ph s -> step_stream s a e = Some s' -> Ph s' \/ (a = ACli /\ e = Accept true).
Proof. exact winddown_phase_stable. Qed.
Print Assumptions C07_winddown_phase_stable.

Theorem C07_winddown_no_deadlock : forall y i,
  reachable y -> let s := stream_of y i in
  Ph s -> workers_idle s = false ->
  exists a e s', a <> ACli /\ step_stream s a e = Some s' /\ measure s' < measure s.
Proof. exact winddown_no_deadlock. Qed.
Print Assumptions C07_winddown_no_deadlock.

(* ---- the same certificate for the whole time acquire_stop / acquire_abort wait for the workers (phase Pg: c_stop = CWaitJoin),
   whether or not writes were refused -- a plain acquire_stop of a finite acquisition included.  `gmeasure` additionally counts
   100 per frame the source may still deliver (max_frame_count - iframe while it is in its loop); an acquisition configured
   with a huge max_frame_count has a huge but finite measure (it is "unbounded" only in that nobody waits for it: DESIGN 6.8).
   A camera frame call that returns no frame (DGetEmpty) is a poll event here: the source goes back to its loop test without
   having used up a frame (+20 at most); in the wind-down phase Ph it strictly decreases `measure`.
   Not in the model, hence assumptions of "stop returns": the source is not blocked for ever on a full queue (C03: a writer
   resumes when readers consume; a registered monitor that has stopped consuming while frames remain stalls the writer by
   design and is excluded by the property's own hypothesis), fairness, time passes. *)
Theorem C07_stop_progress : forall y i a e s',
  reachable y -> let s := stream_of y i in
  Pg s -> step_stream s a e = Some s' -> a <> ACli -> gmeasure s' < gmeasure s \/ poll_event s a e = true.
Proof. exact stop_progress. Qed.
Print Assumptions C07_stop_progress.

Theorem C07_stop_poll_bound : forall y i a e s',
  reachable y -> let s := stream_of y i in
  Pg s -> step_stream s a e = Some s' -> poll_event s a e = true -> gmeasure s' <= gmeasure s + 20.
Proof. exact stop_poll_bound. Qed.
Print Assumptions C07_stop_poll_bound.

Theorem C07_stop_no_deadlock : forall y i,
  reachable y -> let s := stream_of y i in
  Pg s -> workers_idle s = false ->
  exists a e s', a <> ACli /\ step_stream s a e = Some s' /\ gmeasure s' < gmeasure s.
Proof. exact stop_no_deadlock. Qed.
Print Assumptions C07_stop_no_deadlock.

(* the phase is entered with live workers in the abort logged from the real runtime; the measure there lies between 1 and 200 *)
Example C07_example_phase :
  match after tr_abort after_abort_refusal with
  | Some y => let s := st0 y in
      (match c_stop s with CWaitJoin => true | _ => false end) && negb (accepting s) && src_stopping s && negb (workers_idle s)
      && Nat.leb 1 (measure s) && Nat.leb (measure s) 200
  | None => false
  end = true.
Proof. vm_compute. reflexivity. Qed.
