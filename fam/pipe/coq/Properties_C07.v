(* Properties_C07.v -- C07: abort and stop leave a reusable runtime (state part; the "returns after finitely many steps"
   part is PipeLive's bounded-progress theorem, see C07_abort_progress below).
   Model and reachability as in Properties_C04.v. *)
From Coq Require Import List Bool Arith NArith.
From Pipe Require Import PipeModel PipeInvDefs PipeStep PipeSysProps PipeExamples.
Import ListNotations.

(* when acquire_abort (or acquire_stop) returns: the runtime is Armed, no API call is in progress, and for every
   configured stream all three worker threads have exited, their running flags are clear, and neither the camera nor the
   storage is in the running state *)
Theorem C07_armed_after_return : forall y g y',
  reachable y -> (g = GStopRet \/ g = GAbortRet) -> step y (EvG g) = Some y' ->
  api y' = HArmed /\ in_call y' = InIdle /\
  forall i, let s := stream_of y' i in
    c_stop s = CNone /\ c_start s = TNone /\
    (valid s = true -> workers_idle s = true /\ cam_st s <> HRunning /\ sto_st s <> HRunning /\
                       src_running s = false /\ sink_running s = false /\ filt_running s = false).
Proof. exact armed_after_return. Qed.
Print Assumptions C07_armed_after_return.

(* at every moment, hence at the moment of an abort: storage holds a gap-free prefix of the delivered frames *)
Theorem C07_prefix_at_abort : forall y i, reachable y -> let s := stream_of y i in
  stored s = firstn (length (stored s)) (delivered s) /\
  (forall n f, nth_error (delivered s) n = Some f -> f_id f = N.of_nat n /\ f_hw f = N.of_nat n /\ f_tag f = cam_tag s).
Proof. exact prefix_always. Qed.
Print Assumptions C07_prefix_at_abort.

(* a later configure/start/stop is complete and correct whatever happened before (reachable covers every history, in
   particular histories with aborted acquisitions): all of its frames, only its frames (stored = this run's delivered) *)
Theorem C07_clean_restart : forall y y' i, reachable y -> step y (EvG GStopRet) = Some y' ->
  let s := stream_of y' i in
  valid s = true -> src_on s = true -> aborted s = false -> sto_failed s = false -> cam_failed s = false ->
  stored s = delivered s /\ N.of_nat (length (delivered s)) = goal s.
Proof. exact complete_after_stop. Qed.
Print Assumptions C07_clean_restart.

Example C07_example_abort :
  match after tr_abort before_abort_return with
  | Some y => match step y (EvG GAbortRet) with
              | Some y' => let s := st0 y' in valid s && aborted s && Nat.leb 1 (length (stored s)) && Nat.leb (length (stored s)) (length (delivered s))
              | None => false
              end
  | None => false
  end = true.
Proof. vm_compute. reflexivity. Qed.
