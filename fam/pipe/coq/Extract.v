From Coq Require Import ExtrOcamlBasic.
From Pipe Require Import PipeModel.
Extraction "pipemodel.ml" step init_sys run accepts.
