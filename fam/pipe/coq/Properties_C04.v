(* Properties_C04.v -- C04: every acquired frame reaches storage exactly once, in order, bit-exact.
   Statements only; every proof is `exact <lemma>`.  The model is Pipe.PipeModel (an event-labelled transition system whose
   accepted traces include every trace the harness logs from the real runtime -- checked on every run).  `reachable y` =
   y is the state after some accepted trace, of any length: any schedule of the source, sink, filter and client threads, any
   write delay (every non-empty frame-boundary prefix is a legal append), any device pacing, one or two streams.
   Frames are abstract values (camera run tag, frame id, hardware id, shape code); pixel bytes are a function of
   (camera, tag, hardware id) in the harness, which recovers the tag from the bytes it sees, so `f_tag`/`f_hw` equality is
   bit-exactness of the payload on the implementation side. *)
From Coq Require Import List Bool Arith NArith.
From Pipe Require Import PipeModel PipeInvDefs PipeStep PipeSysProps PipeGhost PipeExamples.
Import ListNotations.

(* safety, in every reachable state: what storage has received since it was started is a prefix -- in order, nothing
   skipped, nothing repeated, nothing from another run or stream -- of the frames the camera delivered in this run,
   and the n-th delivered frame carries frame id n, hardware id n and this run's tag *)
Theorem C04_prefix_always : forall y i, reachable y -> let s := stream_of y i in
  stored s = firstn (length (stored s)) (delivered s) /\
  (forall n f, nth_error (delivered s) n = Some f -> f_id f = N.of_nat n /\ f_hw f = N.of_nat n /\ f_tag f = cam_tag s).
Proof. exact prefix_always. Qed.
Print Assumptions C04_prefix_always.

(* ... position by position: the n-th frame storage received is the n-th frame the camera delivered, unchanged in every
   component (payload tag, frame id n, hardware id n, shape code: C05's "shape is the one the camera reported") *)
Theorem C04_stored_frames_unchanged : forall y i n f,
  reachable y -> nth_error (stored (stream_of y i)) n = Some f ->
  nth_error (delivered (stream_of y i)) n = Some f /\ f_id f = N.of_nat n /\ f_hw f = N.of_nat n /\ f_tag f = cam_tag (stream_of y i).
Proof. exact stored_frames_unchanged. Qed.
Print Assumptions C04_stored_frames_unchanged.

(* completeness: when acquire_stop returns for an acquisition whose source thread was created (start succeeded) and that
   was neither aborted nor hit by a camera or storage fault, storage has received exactly the frames the camera
   delivered, and there are max_frame_count of them *)
Theorem C04_complete_after_stop : forall y y' i, reachable y -> step y (EvG GStopRet) = Some y' ->
  let s := stream_of y' i in
  valid s = true -> src_on s = true -> aborted s = false -> sto_failed s = false -> cam_failed s = false ->
  stored s = delivered s /\ N.of_nat (length (delivered s)) = goal s.
Proof. exact complete_after_stop. Qed.
Print Assumptions C04_complete_after_stop.

Theorem C04_complete_when_workers_done : forall y i, reachable y -> let s := stream_of y i in
  s_pc s = SDone -> k_pc s = KDone -> src_on s = true -> aborted s = false -> sto_failed s = false -> cam_failed s = false ->
  stored s = delivered s /\ N.of_nat (length (delivered s)) = goal s.
Proof. exact complete_when_workers_done. Qed.
Print Assumptions C04_complete_when_workers_done.

(* the hypotheses of the completeness theorems are stated with ghost flags of the model (`src_on`, `aborted`, `sto_failed`,
   `cam_failed`); they carry no information of their own: a successful storage start clears them, and afterwards each is raised by
   exactly one kind of observable event -- the creation of the source thread, the client's refusal of writes (abort, shutdown, a
   failed start: also the API bookkeeping lemmas PipeGhost.ghost_begin_stop / ghost_fail_start), a failing append, a failing frame
   call.  So "not aborted, no fault" means: no such event since the storage was started. *)
Theorem C04_ghost_flags_are_events : forall s a e s',
  step_stream s a e = Some s' ->
  if ev_sto_started e
  then aborted s' = false /\ sto_failed s' = false /\ cam_failed s' = false /\ src_on s' = false /\ acq_on s' = false
  else aborted s' = (aborted s || ev_refuse a e) /\
       sto_failed s' = (sto_failed s || ev_append_failed e) /\
       cam_failed s' = (cam_failed s || ev_frame_failed e) /\
       src_on s' = (src_on s || ev_source_created e) /\
       acq_on s' = (acq_on s || ev_writes_enabled_at_start a e s).
Proof. exact ghost_step. Qed.
Print Assumptions C04_ghost_flags_are_events.

(* likewise the logs the theorems compare: `stored` grows by exactly the frames of each successful append and is cleared by a
   storage start, `delivered` grows by exactly the frame of each successful frame call (frame id = the source's counter) and is
   cleared by a camera start, `seen` grows by exactly the frames the monitor releases at an unmap, `log` (the queue) by exactly
   the committed frame *)
Theorem C04_logs_are_events : forall s a e s',
  step_stream s a e = Some s' ->
  stored s' = (match e with DStoStart _ true => [] | DAppend _ true fs => stored s ++ fs | _ => stored s end) /\
  delivered s' = (match e with
                  | DCamStart _ true _ => []
                  | DGetFrame _ (Some (hw, tag, sh)) => delivered s ++ [mkF tag (iframe s) hw sh]
                  | _ => delivered s
                  end) /\
  seen s' = (match a, e with
             | _, DStoStart _ true => []
             | ACli, RUnmap RdMon c => seen s ++ seg (log s) (mon_cur s) (Nat.min c (mon_k' s))
             | _, _ => seen s
             end) /\
  log s' = (match e with Commit true f => log s ++ [f] | _ => log s end).
Proof. exact logs_step. Qed.
Print Assumptions C04_logs_are_events.

(* "exactly the N frames the camera delivered": a frame call that returns NO frame (Device_Ok with zero bytes: the camera timed
   out) is not a frame -- it is made by the source thread on the running camera, consumes no frame id and no hardware id, and
   leaves the queue and every log untouched; the source asks again.  (With it, the theorems above count the frames the camera
   delivered, not the calls made to it.) *)
Theorem C04_empty_poll_is_no_frame : forall s a i s',
  step_stream s a (DGetEmpty i) = Some s' ->
  a = ASrc /\ cam s = Some i /\ cam_st s = HRunning /\ s_pc s' = SLoop /\
  iframe s' = iframe s /\ cam_next s' = cam_next s /\ log s' = log s /\ delivered s' = delivered s /\ stored s' = stored s /\
  dropped s' = dropped s.
Proof. exact empty_poll_neutral. Qed.
Print Assumptions C04_empty_poll_is_no_frame.

(* two streams never mix: an event of stream i leaves stream 1-i's state untouched; the one exception, a failing device
   start (acquire_start then aborts every stream), changes control flags only, never the other stream's queue, storage
   log, camera log, monitor log or cursors *)
Theorem C04_streams_independent : forall y i a e y',
  step y (EvS i a e) = Some y' -> is_start_failure e = false -> stream_of y' (negb i) = stream_of y (negb i).
Proof. exact stream_event_local. Qed.
Print Assumptions C04_streams_independent.

Theorem C04_streams_data_independent : forall y i a e y',
  step y (EvS i a e) = Some y' -> data_of (stream_of y' (negb i)) = data_of (stream_of y (negb i)).
Proof. exact stream_event_data_local. Qed.
Print Assumptions C04_streams_data_independent.

(* a monitoring client, whatever it does and however slow it is, changes nothing but its own reader *)
Theorem C04_monitor_independent : forall s e s',
  mon_event e = true -> step_stream s ACli e = Some s' -> non_monitor_part s' = non_monitor_part s.
Proof. exact monitor_independent. Qed.
Print Assumptions C04_monitor_independent.

(* ---- the hypotheses are met by a reachable, non-trivial state: the second acquire_stop of a run of the real runtime
   (3 then 4 frames, a monitoring client in both acquisitions) *)
Example C04_example_complete :
  match after tr_two_acqs before_second_stop with
  | Some y => match step y (EvG GStopRet) with
              | Some y' => let s := st0 y' in
                  valid s && src_on s && negb (aborted s) && negb (sto_failed s) && negb (cam_failed s)
                  && Nat.eqb (length (stored s)) 4 && N.eqb (goal s) 4
              | None => false
              end
  | None => false
  end = true.
Proof. vm_compute. reflexivity. Qed.
Example C04_example_traces_accepted :
  match accepts init_sys tr_two_acqs, accepts init_sys tr_abort, accepts init_sys tr_stofail with
  | Some _, Some _, Some _ => true | _, _, _ => false end = true.
Proof. vm_compute. reflexivity. Qed.

(* C04_empty_poll_is_no_frame is not vacuous: a trace logged from the REAL runtime with a camera whose every second frame call
   returns no frame (tr_empty: 3 frames requested; 2 empty polls at events 36 and 56) is accepted, the empty poll is enabled where the
   log has it, and storage ends with exactly the 3 delivered frames, ids 0,1,2 *)
Example C04_example_empty_polls :
  match after tr_empty before_first_empty_poll, accepts init_sys tr_empty with
  | Some y, Some yf =>
      (match step y (EvS false ASrc (DGetEmpty 1)) with Some y' => N.eqb (iframe (st0 y')) (iframe (st0 y)) | None => false end)
      && Nat.eqb (length (stored (st0 yf))) 3 && Nat.eqb (length (delivered (st0 yf))) 3
      && forallb (fun p => N.eqb (f_id (fst p)) (N.of_nat (snd p))) (combine (stored (st0 yf)) (seq 0 3))
      && Nat.eqb (length (filter (fun e => match e with EvS _ _ (DGetEmpty _) => true | _ => false end) tr_empty)) 2
  | _, _ => false
  end = true.
Proof. vm_compute. reflexivity. Qed.
