(* PipeSysEndStop.v -- one client-side bookkeeping step of the API preserves the stream invariant. *)
From Coq Require Import List Bool Arith NArith Lia.
From RecordUpdate Require Import RecordSet.
From Pipe Require Import PipeModel PipeFacts PipeTac PipeInvDefs PipeSysTac.
Import ListNotations RecordSetNotations.

Lemma sinv_end_stop s :
  SInv s -> (c_stop s = CStopped \/ c_stop s = CNone) ->
  (c_start s = TFailed -> cam_st s <> HRunning /\ sto_st s <> HRunning) ->
  (c_start s = TNone \/ c_start s = TDone \/ c_start s = TFailed) ->
  SInv (end_stop s).
Proof.
  intros Hs Hc Hd Ht. sinv_open Hs s. destruct Hc; destruct Ht as [Ht|[Ht|Ht]]; subst; sinv_tac.
Qed.

