(* Properties_C09.v -- C09: a failing camera or storage winds the acquisition down cleanly (state part; see PipeLive for
   the bounded-progress part).  Model and reachability as in Properties_C04.v.  Faults in the model: DGetFrame with no
   result (the camera's frame call failed), DAppend with ok = false (the append returned a non-running state), a failing
   device start. *)
From Coq Require Import List Bool Arith NArith.
From Pipe Require Import PipeModel PipeInvDefs PipeStep PipeSysProps PipeLive PipeLiveSys PipeExamples.
Import ListNotations.

(* an append is only ever issued to a running storage that has not failed since it was started; a failing append leaves
   the running state at once -- so nothing is appended after the failure *)
Theorem C09_nothing_appended_after_failure : forall y i a n ok fs y',
  reachable y -> step y (EvS i a (DAppend n ok fs)) = Some y' ->
  sto_failed (stream_of y i) = false /\ sto_st (stream_of y i) = HRunning.
Proof. exact nothing_appended_after_failure. Qed.
Print Assumptions C09_nothing_appended_after_failure.

Theorem C09_failed_append_leaves_running : forall s a n fs s',
  step_stream s a (DAppend n false fs) = Some s' -> sto_st s' = HAwait /\ sto_failed s' = true.
Proof. exact failed_append_leaves_running. Qed.
Print Assumptions C09_failed_append_leaves_running.

(* the camera is asked for frames only while running *)
Theorem C09_frames_only_while_running : forall y i a n r y',
  step y (EvS i a (DGetFrame n r)) = Some y' -> cam_st (stream_of y i) = HRunning.
Proof. exact frames_only_while_running. Qed.
Print Assumptions C09_frames_only_while_running.

(* when stop or abort returns, with or without a fault: workers exited, camera and storage stopped, Armed *)
Theorem C09_wound_down_at_return : forall y g y',
  reachable y -> (g = GStopRet \/ g = GAbortRet) -> step y (EvG g) = Some y' ->
  api y' = HArmed /\ in_call y' = InIdle /\
  forall i, let s := stream_of y' i in
    c_stop s = CNone /\ c_start s = TNone /\
    (valid s = true -> workers_idle s = true /\ cam_st s <> HRunning /\ sto_st s <> HRunning /\
                       src_running s = false /\ sink_running s = false /\ filt_running s = false).
Proof. exact armed_after_return. Qed.
Print Assumptions C09_wound_down_at_return.

(* the runtime reports Running only while a worker of a configured stream is alive *)
Theorem C09_running_report_means_alive : forall y y',
  step y (EvG (GState HRunning)) = Some y' -> (any_running (st0 y) || any_running (st1 y)) = true.
Proof. exact running_report_means_alive. Qed.
Print Assumptions C09_running_report_means_alive.

(* a later fault-free acquisition is complete and correct, whatever faults came before *)
Theorem C09_next_run_correct : forall y y' i, reachable y -> step y (EvG GStopRet) = Some y' ->
  let s := stream_of y' i in
  valid s = true -> src_on s = true -> aborted s = false -> sto_failed s = false -> cam_failed s = false ->
  stored s = delivered s /\ N.of_nat (length (delivered s)) = goal s.
Proof. exact complete_after_stop. Qed.
Print Assumptions C09_next_run_correct.

(* ---- the wind-down after a storage failure terminates: the sink's error path tells the source to stop and refuses writes
   (CbStopSource, Accept false); once the client is in acquire_stop / acquire_abort the stream is in phase Ph of PipeLive.v and
   the progress certificate of C07 applies: every worker event decreases the measure except polls, and some decreasing worker
   event is enabled while a worker is alive *)
Theorem C09_winddown_progress : forall y i a e s',
  reachable y -> let s := stream_of y i in
  Ph s -> step_stream s a e = Some s' -> a <> ACli -> measure s' < measure s \/ poll_event s a e = true.
Proof. exact winddown_progress. Qed.
Print Assumptions C09_winddown_progress.

Theorem C09_winddown_no_deadlock : forall y i,
  reachable y -> let s := stream_of y i in
  Ph s -> workers_idle s = false ->
  exists a e s', a <> ACli /\ step_stream s a e = Some s' /\ measure s' < measure s.
Proof. exact winddown_no_deadlock. Qed.
Print Assumptions C09_winddown_no_deadlock.


Example C09_example_fault_then_clean_run :
  match after tr_stofail at_failing_append, after tr_stofail before_first_stop_f, after tr_stofail before_second_stop_f with
  | Some y0, Some y1, Some y2 =>
      match step y0 (EvS false ASink (DAppend 2 false [mkF 1 1 1 32212516913])), step y2 (EvG GStopRet) with
      | Some y0', Some y2' =>
          sto_failed (st0 y0') && sto_failed (st0 y1) &&
          (let s := st0 y2' in valid s && src_on s && negb (aborted s) && negb (sto_failed s) && negb (cam_failed s) && Nat.eqb (length (stored s)) 2)
      | _, _ => false
      end
  | _, _, _ => false
  end = true.
Proof. vm_compute. reflexivity. Qed.
