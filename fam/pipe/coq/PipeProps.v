(* PipeProps.v -- consequences of the stream invariant that the property files state: what storage received is a prefix
   of what the camera delivered, completeness once both workers are done, what the monitor consumed, device states. *)
From Coq Require Import List Bool Arith NArith Lia.
From RecordUpdate Require Import RecordSet.
From Pipe Require Import PipeModel PipeFacts PipeTac PipeInvDefs.
Import ListNotations RecordSetNotations.

Lemma firstn_firstn_le {A} (l : list A) a b : a <= b -> firstn a (firstn b l) = firstn a l.
Proof. intros H. rewrite firstn_firstn. f_equal. lia. Qed.

Lemma seg_skipn (l : list frm) b p n : b <= p -> seg l p n = seg (skipn b l) (p - b) n.
Proof. intros H. unfold seg. rewrite skipn_skipn'. replace (b + (p - b)) with p by lia. reflexivity. Qed.

Lemma seg_firstn (l : list frm) m p n : p + n <= m -> seg (firstn m l) p n = seg l p n.
Proof.
  intros H. unfold seg. rewrite skipn_firstn_comm. rewrite firstn_firstn. f_equal. lia.
Qed.

(* ---- C04 safety: storage holds a prefix of the frames the camera delivered in this run *)
Lemma stored_le_committed s : Inv2 s -> length (stored s) <= ncommitted s.
Proof.
  intros [].
  assert (E : length (stored s) = length (seg (log s) (base s) (length (stored s)))) by (rewrite <- j_stored; reflexivity).
  rewrite seg_length in E. unfold ncommitted. lia.
Qed.

Lemma stored_prefix s : SInv s -> stored s = firstn (length (stored s)) (delivered s).
Proof.
  intros (H1 & H2 & H3 & H4). pose proof (stored_le_committed s H2) as Hle. destruct H2, H3.
  rewrite j_stored at 1. unfold seg. rewrite l_commit. apply firstn_firstn_le. exact Hle.
Qed.

Lemma delivered_ids s n f : SInv s -> nth_error (delivered s) n = Some f ->
  f_id f = N.of_nat n /\ f_hw f = N.of_nat n /\ f_tag f = cam_tag s.
Proof. intros (_ & _ & [] & _). apply l_deliv. Qed.

(* ---- C04 completeness: both workers of an acquisition that was neither aborted nor hit by a fault are done *)
Lemma complete_when_done s :
  SInv s -> s_pc s = SDone -> k_pc s = KDone -> src_on s = true ->
  aborted s = false -> sto_failed s = false -> cam_failed s = false ->
  stored s = delivered s /\ N.of_nat (length (delivered s)) = goal s.
Proof.
  intros Hs Hp Hk Hon Ha Hf Hc. pose proof (stored_prefix s Hs) as Hpre. destruct Hs as ([] & [] & [] & []).
  assert (Hd : dropped s = false).
  { destruct (dropped s) eqn:Ed; auto. destruct (l_dropc Hon eq_refl); congruence. }
  pose proof (l_count Hon Hd) as Hcnt. rewrite Hp in Hcnt. cbn in Hcnt.
  assert (Hx : (goal s <= iframe s)%N) by (apply l_exit; auto; rewrite Hp; reflexivity).
  pose proof (l_goal Hon) as Hg. pose proof (l_iframe Hon) as Hi.
  assert (Hdr : sink_cur s = length (log s)) by (apply j_drained; rewrite Hk; reflexivity).
  pose proof (j_pos Hf) as Hpos. rewrite Hk in Hpos. cbn in Hpos. unfold ncommitted in *.
  split.
  - rewrite Hpre. replace (length (stored s)) with (length (delivered s)) by lia. apply firstn_all.
  - lia.
Qed.

(* ---- C06: what a monitor that was registered and drained when the storage started has consumed since is a run of
   consecutive frames of this acquisition *)
Lemma seen_segment s :
  SInv s -> mon_fresh s = true ->
  seen s = seg (delivered s) (mon_cur s - length (seen s) - base s) (length (seen s)).
Proof.
  intros ([] & [] & [] & []) Hf. destruct m_seen as [Hs Hl]. specialize (m_fresh Hf).
  rewrite Hs at 1. rewrite (seg_skipn (log s) (base s)) by exact m_fresh. rewrite l_commit.
  apply seg_firstn. unfold ncommitted, mon_k in *. destruct (mon_map s); lia.
Qed.

Lemma seg_nth (l : list frm) p n k f : nth_error (seg l p n) k = Some f -> nth_error l (p + k) = Some f.
Proof.
  unfold seg. revert l p n. induction k as [|k IH]; intros l p n H.
  - destruct n; [discriminate|]. rewrite Nat.add_0_r. destruct (skipn p l) as [|x r] eqn:E; [discriminate|]. cbn in H. inversion H; subst.
    clear - E. revert l E. induction p as [|p IHp]; intros l E; cbn in *.
    + subst. reflexivity.
    + destruct l; [discriminate|]. apply IHp. exact E.
  - destruct n; [discriminate|]. destruct (skipn p l) as [|x r] eqn:E; [discriminate|]. cbn in H.
    replace (p + S k) with (S p + k) by lia. apply (IH l (S p) n).
    assert (Er : skipn (S p) l = r).
    { clear - E. revert l E. induction p as [|p IHp]; intros l E; cbn in *.
      - subst. reflexivity.
      - destruct l; [discriminate|]. apply IHp. exact E. }
    rewrite Er. exact H.
Qed.

Lemma seen_ids s k f :
  SInv s -> mon_fresh s = true -> nth_error (seen s) k = Some f ->
  f_id f = N.of_nat (mon_cur s - length (seen s) - base s + k) /\ f_tag f = cam_tag s.
Proof.
  intros Hs Hf Hn. rewrite (seen_segment s Hs Hf) in Hn. apply seg_nth in Hn.
  destruct (delivered_ids s _ f Hs Hn) as (A & _ & C). auto.
Qed.

(* ---- devices: once the workers are done and the client is not starting, nothing is running *)
Lemma devices_stopped_when_idle s :
  SInv s -> workers_idle s = true -> c_start s = TNone -> cam_st s <> HRunning /\ sto_st s <> HRunning.
Proof.
  intros (_ & _ & _ & []) Hi Hc. unfold workers_idle in Hi. apply andb_true_iff in Hi. destruct Hi as [Hi Hf]. apply andb_true_iff in Hi. destruct Hi as [Hsp Hk].
  split; intros Hr.
  - destruct (d_cam Hr) as [X|X]; [rewrite Hc in X; discriminate|]. destruct (s_pc s); discriminate.
  - destruct (d_sto Hr) as [X|X]; [rewrite Hc in X; discriminate|]. destruct (k_pc s); discriminate.
Qed.

(* ---- C09: nothing is appended once an append has failed (until the storage is started again) *)
Lemma append_needs_running s a i ok fs s' : step_stream s a (DAppend i ok fs) = Some s' -> sto_st s = HRunning.
Proof.
  intros H. unfold step_stream in H. destruct a; try discriminate H. destruct (k_pc s); try discriminate H;
    apply guard_some in H; destruct H as [H _]; bool_hyps; assumption.
Qed.

Lemma no_append_after_failure s a i ok fs s' :
  SInv s -> step_stream s a (DAppend i ok fs) = Some s' -> sto_failed s = false.
Proof. intros (_ & [] & _ & _) H. apply j_run. eapply append_needs_running; eauto. Qed.

Lemma getframe_needs_running s a i r s' : step_stream s a (DGetFrame i r) = Some s' -> cam_st s = HRunning.
Proof.
  intros H. unfold step_stream in H. destruct a; try discriminate H. destruct r as [[[hw tag] sh]|];
    apply guard_some in H; destruct H as [H _]; bool_hyps; assumption.
Qed.
