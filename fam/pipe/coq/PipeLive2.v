(* PipeLive2.v -- no deadlock during the wind-down: while a worker is alive, some worker event that strictly decreases
   the measure of PipeLive.v is enabled. *)
From Coq Require Import List Bool Arith NArith Lia.
From RecordUpdate Require Import RecordSet.
From Pipe Require Import PipeModel PipeFacts PipeTac PipeInvDefs PipeInv5Defs PipeLive.
Import ListNotations RecordSetNotations.

Lemma seg_one_length (l : list frm) c : c + 1 <= length l -> length (seg l c 1) = 1.
Proof. intros H. rewrite seg_length. lia. Qed.

Lemma read_ok_all l c : c <= length l -> read_ok l c (seg l c (length l - c)) = true.
Proof.
  intros H. unfold read_ok. rewrite seg_length. replace (Nat.min (length l - c) (length l - c)) with (length l - c) by lia.
  rewrite frms_eqb_refl. cbn. destruct (Nat.eqb (length l - c) 0) eqn:E; cbn; [|reflexivity].
  apply Nat.eqb_eq in E. apply Nat.eqb_eq. lia.
Qed.

Ltac witness a e := exists a, e; eexists; split; [discriminate|]; split; [cbn | ].
Ltac fin_m := unfold measure, sink_rank, told; cbn; lia.


(* a sink that has been told to stop (or whose storage no longer runs, or that is past its main loop) has an enabled event
   that decreases the measure *)
Lemma sink_progress s :
  Ph s -> SInv s -> Inv5 s -> kpc_idle (k_pc s) = false ->
  (sink_stopping s = true \/ sto_st s <> HRunning \/ post_main (k_pc s) = true) ->
  exists e s', step_stream s ASink e = Some s' /\ measure s' < measure s.
Proof.
  intros (P1 & P2 & P3) (H1 & H2 & H3 & H4) H5 Hk Ht.
  pose proof (d_stoopen s H4) as Hso. pose proof (n_pend s H5) as Hnp. pose proof (i_cur s H1) as Hcur.
  pose proof (i_pend s H1) as Hpend. pose proof (i_map s H1) as Hmap. pose proof (j_unreg s H2) as Hunreg. pose proof (n_sto s H5) as Hsto.
  destruct s; cbn in *; subst.
  assert (Hreg : sink_reg = true).
  { destruct sink_reg; auto. destruct (Hunreg eq_refl) as (_ & _ & X). subst. discriminate Hk. }
  subst.
  assert (Hopen : sto_st = HRunning -> exists i, sto = Some i).
  { intros Hr. destruct sto as [i|]; [eauto|]. specialize (Hso eq_refl). congruence. }
  destruct k_pc eqn:Ek; cbn in *; try discriminate Hk.
  - (* KTest *) specialize (Hsto eq_refl). subst. destruct Ht as [Ht|[Ht|Ht]]; [subst | congruence | discriminate].
    exists (RMapEnter RdSink); eexists; split; [cbn; reflexivity | fin_m].
  - (* KMainMapping *) specialize (Hsto eq_refl). subst. destruct Ht as [Ht|[Ht|Ht]]; [subst | congruence | discriminate].
    exists (RMap RdSink (seg log sink_cur (length log - sink_cur))); eexists; split.
    + cbn. rewrite read_ok_all by lia. cbn. reflexivity.
    + fin_m.
  - (* KMainMapped k *) specialize (Hsto eq_refl). subst. destruct Ht as [Ht|[Ht|Ht]]; [subst | congruence | discriminate].
    destruct (Hopen eq_refl) as [i ->]. destruct k as [|k].
    + exists (RUnmap RdSink 0); eexists; split; [cbn; reflexivity | fin_m].
    + exists (DAppend i true (seg log sink_cur 1)); eexists; split.
      * cbn. rewrite N.eqb_refl. rewrite seg_one_length by lia. cbn. rewrite frms_eqb_refl. reflexivity.
      * fin_m.
  - (* KMainAppended k j *) exists (RUnmap RdSink j); eexists; split; [cbn; rewrite Nat.eqb_refl; reflexivity|].
    unfold measure, sink_rank, told; cbn. destruct (sink_stopping || negb (hst_eqb sto_st HRunning)); lia.
  - (* KMainAgain *) specialize (Hsto eq_refl). subst. destruct Ht as [Ht|[Ht|Ht]]; [subst | congruence | discriminate].
    exists (RMapEnter RdSink); eexists; split; [cbn; reflexivity | fin_m].
  - (* KFlushMapping *) exists (RMap RdSink (seg log sink_cur (length log - sink_cur))); eexists; split.
    + cbn. rewrite read_ok_all by lia. cbn. reflexivity.
    + fin_m.
  - (* KFlushMapped k *) specialize (Hsto eq_refl). subst. destruct (Hopen eq_refl) as [i ->]. destruct k as [|k].
    + exists (RUnmap RdSink 0); eexists; split; [cbn; reflexivity | fin_m].
    + exists (DAppend i true (seg log sink_cur (S k))); eexists; split.
      * cbn [step_stream]. cbn. rewrite N.eqb_refl. rewrite seg_length_le by lia. cbn. rewrite Nat.eqb_refl, frms_eqb_refl. reflexivity.
      * fin_m.
  - (* KFlushAppended k *) exists (RUnmap RdSink k); eexists; split; [cbn; rewrite Nat.eqb_refl; reflexivity | fin_m].
  - (* KFlushAgain *) exists (RMapEnter RdSink); eexists; split; [cbn; reflexivity | fin_m].
  - (* KStop *) specialize (Hsto eq_refl). subst. destruct (Hopen eq_refl) as [i ->].
    exists (DStoStop i); eexists; split; [cbn; rewrite N.eqb_refl; reflexivity | fin_m].
  - (* KErrCb *) exists CbStopSource; eexists; split; [cbn; reflexivity | fin_m].
  - (* KErrAccept *) exists (Accept false); eexists; split; [cbn; reflexivity | fin_m].
  - (* KErrUnmap *) exists (RUnmap RdSink 0); eexists; split; [cbn; reflexivity | fin_m].
  - (* KDrainAgain *) exists (RMapEnter RdSink); eexists; split; [cbn; reflexivity | fin_m].
  - (* KDrainMapping *) exists (RMap RdSink (seg log sink_cur (length log - sink_cur))); eexists; split.
    + cbn. rewrite read_ok_all by lia. cbn. reflexivity.
    + fin_m.
  - (* KDrainMapped k *) exists (RUnmap RdSink k); eexists; split; [cbn; rewrite Nat.eqb_refl; reflexivity|].
    unfold measure, sink_rank, told, sink_finish; cbn. destruct k; cbn; [destruct sto_st; cbn; lia | lia].
  - (* KExiting *) exists (Exit RSink); eexists; split; [cbn; reflexivity | fin_m].
Qed.

Lemma progress_enabled s :
  Ph s -> SInv s -> Inv5 s -> workers_idle s = false ->
  exists a e s', a <> ACli /\ step_stream s a e = Some s' /\ measure s' < measure s.
Proof.
  intros (P1 & P2 & P3) (H1 & H2 & H3 & H4) H5 Hw.
  pose proof (sink_progress s (conj P1 (conj P2 P3)) (conj H1 (conj H2 (conj H3 H4))) H5) as Hsp.
  pose proof (l_alive s H3) as Halive. pose proof (d_camopen s H4) as Hco. pose proof (d_stoopen s H4) as Hso.
  pose proof (n_cam s H5) as Hnc. pose proof (n_filt s H5) as Hnf. pose proof (n_filt2 s H5) as Hnf2. pose proof (n_sink s H5) as Hns.
  pose proof (n_pend s H5) as Hnp. pose proof (i_cstop s H1) as Hcs. pose proof (j_main s H2) as Hjm. pose proof (i_cur s H1) as Hcur.
  pose proof (i_pend s H1) as Hpend. pose proof (i_map s H1) as Hmap. pose proof (j_unreg s H2) as Hunreg. pose proof (n_sto s H5) as Hsto.
  unfold fail_pending, sink_told in *.
  destruct s; cbn in *; subst. unfold workers_idle in Hw; cbn in Hw.
  assert (Hst : start_pre_src c_start = false).
  { assert (Hne : CWaitJoin <> CNone) by discriminate. destruct (Hcs Hne) as [_ X]. exact X. }
  destruct s_pc eqn:Esp; cbn in *.
  - (* SOff: the source is gone; filter, then sink *) destruct f_pc eqn:Ef; cbn in *.
    + destruct (kpc_idle k_pc) eqn:Ek; [cbn in Hw; discriminate Hw|].
      destruct (Hns eq_refl eq_refl Hst) as [[_ X]|[X|X]]; [discriminate X | congruence |].
      destruct (Hsp eq_refl X) as (e & s' & A & B).
      exists ASink, e, s'. split; [discriminate | auto].
    + destruct (Hnf2 eq_refl eq_refl Hst) as [[_ X]|[X _]]; [discriminate X|]. subst.
      witness AFilt (Exit RFilt); [reflexivity | fin_m].
    + destruct (kpc_idle k_pc) eqn:Ek; [cbn in Hw; discriminate Hw|].
      destruct (Hns eq_refl eq_refl Hst) as [[_ X]|[X|X]]; [discriminate X | congruence |].
      destruct (Hsp eq_refl X) as (e & s' & A & B).
      exists ASink, e, s'. split; [discriminate | auto].
  - (* SLoop *) destruct P3 as [P3|P3]; [subst|discriminate]. witness ASrc CbStopFilter; [reflexivity | fin_m].
  - (* SWMap *) witness ASrc (WMap false); [reflexivity | fin_m].
  - (* SMapped *) destruct (Halive eq_refl) as (_ & Hr & _). subst. destruct cam as [i|]; [|specialize (Hco eq_refl); discriminate].
    witness ASrc (DGetFrame i None); [rewrite N.eqb_refl; reflexivity | fin_m].
  - (* SGot *) witness ASrc (Commit false f); [rewrite frm_eqb_refl; reflexivity | fin_m].
  - (* SFailStop *) specialize (Hnc eq_refl). subst. destruct cam as [i|]; [|specialize (Hco eq_refl); discriminate].
    witness ASrc (DCamStop i); [rewrite N.eqb_refl; reflexivity | fin_m].
  - (* SLeave *) witness ASrc CbStopFilter; [reflexivity | fin_m].
  - (* SWind1 *) destruct f_pc eqn:Ef.
    + witness ASrc CbStopSink; [reflexivity|]. unfold measure, sink_rank, told; destruct cam_st; cbn; destruct sink_stopping; destruct (hst_eqb sto_st HRunning); destruct k_pc; cbn; lia.
    + specialize (Hnf eq_refl eq_refl). subst. witness AFilt (Exit RFilt); [reflexivity | fin_m].
    + witness ASrc CbStopSink; [reflexivity|]. unfold measure, sink_rank, told; destruct cam_st; cbn; destruct sink_stopping; destruct (hst_eqb sto_st HRunning); destruct k_pc; cbn; lia.
  - (* SWind2 *) specialize (Hnc eq_refl). subst. destruct cam as [i|]; [|specialize (Hco eq_refl); discriminate].
    witness ASrc (DCamStop i); [rewrite N.eqb_refl; reflexivity | fin_m].
  - (* SExiting *) witness ASrc (Exit RSrc); [reflexivity | fin_m].
  - (* SDone *) destruct f_pc eqn:Ef; cbn in *.
    + destruct (kpc_idle k_pc) eqn:Ek; [cbn in Hw; discriminate Hw|].
      destruct (Hns eq_refl eq_refl Hst) as [[_ X]|[X|X]]; [discriminate X | congruence |].
      destruct (Hsp eq_refl X) as (e & s' & A & B).
      exists ASink, e, s'. split; [discriminate | auto].
    + destruct (Hnf2 eq_refl eq_refl Hst) as [[_ X]|[X _]]; [discriminate X|]. subst.
      witness AFilt (Exit RFilt); [reflexivity | fin_m].
    + destruct (kpc_idle k_pc) eqn:Ek; [cbn in Hw; discriminate Hw|].
      destruct (Hns eq_refl eq_refl Hst) as [[_ X]|[X|X]]; [discriminate X | congruence |].
      destruct (Hsp eq_refl X) as (e & s' & A & B).
      exists ASink, e, s'. split; [discriminate | auto].
Qed.
