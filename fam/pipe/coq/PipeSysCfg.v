(* PipeSysCfg.v -- one client-side bookkeeping step of the API preserves the stream invariant. *)
From Coq Require Import List Bool Arith NArith Lia.
From RecordUpdate Require Import RecordSet.
From Pipe Require Import PipeModel PipeFacts PipeTac PipeInvDefs PipeSysTac.
Import ListNotations RecordSetNotations.

Lemma sinv_config s v n : SInv s -> workers_idle s = true -> SInv (s <| valid := v |> <| maxn := n |>).
Proof. intros Hs Hi. sinv_open Hs s. sinv_tac. Qed.

