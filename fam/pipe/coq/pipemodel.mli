
val negb : bool -> bool

type nat =
| O
| S of nat

val length : 'a1 list -> nat

val app : 'a1 list -> 'a1 list -> 'a1 list

type comparison =
| Eq
| Lt
| Gt

val add : nat -> nat -> nat

val eqb : bool -> bool -> bool

module Nat :
 sig
  val eqb : nat -> nat -> bool

  val leb : nat -> nat -> bool

  val min : nat -> nat -> nat
 end

val firstn : nat -> 'a1 list -> 'a1 list

val skipn : nat -> 'a1 list -> 'a1 list

type positive =
| XI of positive
| XO of positive
| XH

type n =
| N0
| Npos of positive

module Pos :
 sig
  val succ : positive -> positive

  val compare_cont : comparison -> positive -> positive -> comparison

  val compare : positive -> positive -> comparison

  val eqb : positive -> positive -> bool
 end

module N :
 sig
  val succ : n -> n

  val compare : n -> n -> comparison

  val eqb : n -> n -> bool

  val leb : n -> n -> bool

  val ltb : n -> n -> bool
 end

type ('r, 't) setter = ('t -> 't) -> 'r -> 'r

val set : ('a1 -> 'a2) -> ('a1, 'a2) setter -> ('a2 -> 'a2) -> 'a1 -> 'a1

type frm = { f_tag : n; f_id : n; f_hw : n; f_sh : n }

val frm_eqb : frm -> frm -> bool

val frms_eqb : frm list -> frm list -> bool

val find_idx : frm -> frm list -> nat

type hst =
| HAwait
| HArmed
| HRunning

val hst_eqb : hst -> hst -> bool

type actor =
| ACli
| ASrc
| ASink
| AFilt

type role =
| RSrc
| RSink
| RFilt

type rd =
| RdSink
| RdMon

val optN_eqb : n option -> n -> bool

type sev =
| DOpenCam of n
| DCloseCam of n
| DSetCam of n
| DOpenSto of n
| DCloseSto of n
| DSetSto of n
| DStoStart of n * bool
| DCamStart of n * bool * n
| DCamStop of n
| DStoStop of n
| DTrigger of n
| DGetFrame of n * ((n * n) * n) option
| DGetEmpty of n
| DAppend of n * bool * frm list
| WMapEnter
| WMap of bool
| Commit of bool * frm
| Accept of bool
| RMapEnter of rd
| RMap of rd * frm list
| RUnmap of rd * nat
| CbStopFilter
| CbStopSink
| CbStopSource
| Spawn of role
| Exit of role
| Joined of role
| MonMapRefused
| MonMapRet of bool
| StartRefused of role

type spc =
| SOff
| SLoop
| SWMap
| SMapped
| SGot of frm
| SFailStop
| SLeave
| SWind1
| SWind2
| SExiting
| SDone

type kpc =
| KOff
| KTest
| KMainMapping
| KMainMapped of nat
| KMainAppended of nat * nat
| KMainAgain
| KFlushMapping
| KFlushMapped of nat
| KFlushAppended of nat
| KFlushAgain
| KStop
| KErrCb of nat
| KErrAccept of nat
| KErrUnmap of nat
| KDrainAgain
| KDrainMapping
| KDrainMapped of nat
| KExiting
| KDone

type fpc =
| FOff
| FRun
| FDone

type cstart =
| TNone
| TBegin
| TStoStarted
| TAccepted
| TRegEnter
| TRegMapped
| TRegDone
| TSinkUp
| TFiltUp
| TCamStarted
| TDone
| TFailed

type cstop =
| CNone
| CWaitJoin
| CFlush0
| CFlush
| CFlushMapping
| CFlushMapped of nat
| CStopped

type stream = { valid : bool; maxn : n; cam : n option; cam_st : hst;
                sto : n option; sto_st : hst; cam_tag : n; cam_next : 
                n; log : frm list; accepting : bool; sink_reg : bool;
                sink_cur : nat; sink_map : nat option; mon_reg : bool;
                mon_cur : nat; mon_map : nat option; src_stopping : bool;
                abort_win : bool; sink_stopping : bool; filt_stopping : 
                bool; src_running : bool; sink_running : bool;
                filt_running : bool; s_pc : spc; k_pc : kpc; f_pc : fpc;
                c_stop : cstop; c_start : cstart; iframe : n; base : 
                nat; delivered : frm list; stored : frm list;
                sto_failed : bool; seen : frm list; aborted : bool;
                cam_failed : bool; acq_on : bool; src_on : bool; goal : 
                n; mon_fresh : bool; dropped : bool; cam_starts : nat;
                cam_stops : nat; sto_starts : nat; sto_stops : nat }

val init_stream : stream

val seg : frm list -> nat -> nat -> frm list

val spc_idle : spc -> bool

val kpc_idle : kpc -> bool

val fpc_idle : fpc -> bool

val workers_idle : stream -> bool

val quiet : stream -> bool

val guard : bool -> stream -> stream option

val sink_finish : stream -> stream

val read_ok : frm list -> nat -> frm list -> bool

val step_stream : stream -> actor -> sev -> stream option

type call =
| InIdle
| InStart
| InStartBusy
| InStartFail
| InStop
| InAbort
| InShutdown

type gev =
| GConfigure of bool * bool * n * n
| GStartCall
| GStartRet of bool
| GStartRefused
| GStopCall
| GStopRet
| GAbortCall
| GAbortRet
| GShutdownCall
| GShutdownRet
| GState of hst

type event =
| EvS of bool * actor * sev
| EvG of gev

type sys = { st0 : stream; st1 : stream; api : hst; in_call : call }

val init_sys : sys

val any_running : stream -> bool

val stopped_ok : stream -> bool

val begin_stop : bool -> stream -> stream

val end_stop : stream -> stream

val begin_start : stream -> stream

val started_ok : stream -> bool

val fail_start : stream -> stream

val is_start_failure : sev -> bool

val devs_stopped : stream -> bool

val all_closed : stream -> bool

val hmax : hst -> hst -> hst

val step : sys -> event -> sys option

val run : sys -> event list -> sys * nat

val accepts : sys -> event list -> sys option
