(* PipeInv3.v -- the source's side: what is committed is a prefix of what the camera delivered, frame identities,
   the loop-exit cause; the monitor reader; the devices as the HAL sees them. *)
From Coq Require Import List Bool Arith NArith Lia.
From RecordUpdate Require Import RecordSet.
From Pipe Require Import PipeModel PipeFacts PipeTac PipeInv1 PipeInv2.
Import ListNotations RecordSetNotations.

Definition src_has_cam (p : spc) : bool :=
  match p with SLoop | SWMap | SMapped | SGot _ | SFailStop | SWind1 | SWind2 => true | _ => false end.
Definition sink_has_sto (p : kpc) : bool :=
  match p with
  | KTest | KMainMapping | KMainMapped _ | KMainAppended _ _ | KMainAgain
  | KFlushMapping | KFlushMapped _ | KFlushAppended _ | KFlushAgain | KStop => true
  | _ => false
  end.
Definition in_flush_stop (c : cstop) : bool :=
  match c with CFlush0 | CFlush | CFlushMapping | CFlushMapped _ | CStopped => true | _ => false end.

Definition start_accepted (c : cstart) : bool :=
  match c with TAccepted | TRegEnter | TRegMapped | TRegDone | TSinkUp | TFiltUp | TCamStarted => true | _ => false end.

Record Inv3 (s : stream) : Prop := {
  l_next : cam_next s = N.of_nat (length (delivered s));
  l_deliv : forall n f, nth_error (delivered s) n = Some f ->
            f_id f = N.of_nat n /\ f_hw f = N.of_nat n /\ f_tag f = cam_tag s;
  l_iframe : src_on s = true -> iframe s = N.of_nat (length (delivered s));
  l_commit : skipn (base s) (log s) = firstn (ncommitted s) (delivered s);
  l_count : src_on s = true -> dropped s = false -> length (delivered s) = ncommitted s + gotbit (s_pc s);
  l_got : forall f, s_pc s = SGot f -> exists d, delivered s = d ++ [f];
  l_acc : acq_on s = true -> aborted s = false -> sto_failed s = false -> accepting s = true;
  l_drop : src_on s = true -> dropped s = true -> accepting s = false \/ src_in_loop (s_pc s) = false;
  l_dropc : src_on s = true -> dropped s = true -> aborted s = true \/ sto_failed s = true;
  l_camd : c_start s = TCamStarted -> delivered s = [];
  l_srcon : src_on s = true -> acq_on s = true /\ c_start s <> TCamStarted /\ start_sto_up (c_start s) = false /\
                               (c_start s = TFiltUp -> False) /\ (c_start s = TSinkUp -> False);
  l_alive : src_in_loop (s_pc s) = true -> src_on s = true /\ cam_st s = HRunning /\ maxn s = goal s;
  l_goal : src_on s = true -> (iframe s <= goal s)%N;
  l_exit : src_on s = true -> left_loop (s_pc s) = true -> aborted s = false -> sto_failed s = false -> cam_failed s = false ->
           (goal s <= iframe s)%N;
  l_sstop : src_on s = true -> src_stopping s = true -> aborted s = true \/ sto_failed s = true;
  l_win : src_on s = true -> abort_win s = true -> aborted s = true;
  l_leave : match s_pc s with SFailStop | SLeave => true | _ => false end = true -> cam_failed s = true;
  l_acqon : start_accepted (c_start s) = true -> acq_on s = true;
  l_noab : (start_accepted (c_start s) || match c_start s with TStoStarted => true | _ => false end) = true -> aborted s = false;
  l_lt : match s_pc s with SWMap | SMapped => true | _ => false end = true -> (iframe s < goal s)%N;
  l_le : ncommitted s <= length (delivered s);
  l_srcoff : src_on s = true -> s_pc s <> SOff
}.

Lemma inv3_init : Inv3 init_stream.
Proof.
  constructor; cbn; auto; try discriminate; try congruence; try lia; try (intuition discriminate).
  - intros n f H. destruct n; discriminate.
Qed.

Lemma inv3_step s a e s' : Inv1 s -> Inv2 s -> Inv3 s -> step_stream s a e = Some s' -> Inv3 s'.
Proof.
  intros [] [] [] H.
  step_cases s H; unfold quiet, workers_idle, sink_finish, mon_k, ncommitted in *; cbn in *; constructor; unfold quiet, workers_idle, mon_k, ncommitted; cbn;
    try reflexivity; try assumption; split_goal_ifs; fin.
  all: try (rewrite skipn_all, Nat.sub_diag; reflexivity).
  all: try (intros n0 f0 Hn; destruct n0; discriminate).
  all: try (rewrite app_length; cbn [length]; lia).
  all: try (intros; rewrite app_length; cbn [length]; intuition lia).
  (* DCamStart: nothing committed yet *)
  all: try match goal with
           | |- skipn _ _ = firstn _ [] =>
               rewrite firstn_nil; apply skipn_all2;
               repeat match goal with J : _ /\ _ |- _ => destruct J end; lia
           end.
  (* DGetFrame ok *)
  all: try match goal with
           | |- forall n f, nth_error (_ ++ [_]) n = Some f -> _ =>
               let n0 := fresh "n" in let f1 := fresh "f" in let Hn := fresh "Hn" in
               intros n0 f1 Hn; apply nth_error_snoc in Hn; destruct Hn as [[? Hn]|[? ?]];
               [ apply l_deliv0; exact Hn
               | subst; cbn; destruct l_alive0 as (Hs & _); rewrite (l_iframe0 Hs); repeat split; reflexivity ]
           end.
  all: try match goal with
           | |- skipn _ _ = firstn _ (_ ++ [_]) => rewrite firstn_app_le by exact l_le0; exact l_commit0
           end.
  all: try match goal with
           | |- forall f, SGot _ = SGot f -> exists d, _ =>
               let f1 := fresh "f" in let Hf := fresh "Hf" in intros f1 Hf; inversion Hf; subst; eexists; reflexivity
           end.
  all: try (intros; specialize (l_lt0 eq_refl); lia).
  (* Commit *)
  all: try match goal with
           | |- skipn _ (_ ++ [?f]) = firstn _ _ =>
               destruct l_alive0 as (Hs & _); destruct (l_got0 f eq_refl) as [d Hd];
               apply (commit_prefix _ _ d f); [lia | exact l_commit0 | exact Hd |];
               destruct dropped; [destruct (l_drop0 Hs eq_refl); discriminate | apply (l_count0 Hs eq_refl)]
           end.
  all: try match goal with
           | |- length (_ ++ [_]) - _ <= length _ =>
               destruct l_alive0 as (Hs & _); rewrite app_length; cbn [length];
               destruct dropped; [destruct (l_drop0 Hs eq_refl); discriminate | rewrite (l_count0 Hs eq_refl); lia]
           end.
  all: try match goal with
           | |- _ = true -> true = true -> ?a = true \/ ?b = true =>
               let Hs := fresh "Hs" in intros Hs _; destruct (l_srcon0 Hs) as [Ha _];
               destruct a, b; auto; exfalso; specialize (l_acc0 Ha eq_refl eq_refl); discriminate l_acc0
           end.
  all: try match goal with
           | H : _ || _ || (_ <=? _)%N = true |- _ = true -> true = true -> _ =>
               let Hs := fresh "Hs" in intros Hs _ ? ? ?;
               apply orb_true_iff in H; destruct H as [H|H];
               [ apply orb_true_iff in H; destruct H as [H|H];
                 [ destruct (l_sstop0 Hs H); congruence | specialize (l_win0 Hs H); congruence ]
               | apply N.leb_le in H; destruct l_alive0 as (_ & _ & Hg); rewrite <- Hg; exact H ]
           end.
  all: try (intros _ _; right; auto; match goal with J : true = true -> _ |- _ => apply J; reflexivity end).
Qed.
