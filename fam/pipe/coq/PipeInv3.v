(* PipeInv3.v -- preservation of invariant group 3 (the source side: committed is a prefix of delivered; exit causes). *)
From Coq Require Import List Bool Arith NArith Lia.
From RecordUpdate Require Import RecordSet.
From Pipe Require Import PipeModel PipeFacts PipeTac PipeInvDefs.
Import ListNotations RecordSetNotations.

Lemma inv3_init : Inv3 init_stream.
Proof.
  constructor; cbn; auto; try discriminate; try congruence; try lia; try (intuition discriminate).
  - intros n f H. destruct n; discriminate.
Qed.

Lemma inv3_step s a e s' : Inv1 s -> Inv2 s -> Inv3 s -> step_stream s a e = Some s' -> Inv3 s'.
Proof.
  intros [] [] [] H.
  step_cases s H; unfold quiet, workers_idle, sink_finish, mon_k, ncommitted in *; cbn in *; constructor; unfold quiet, workers_idle, mon_k, ncommitted; cbn;
    try reflexivity; try assumption; split_goal_ifs; fin.
  all: try (rewrite skipn_all, Nat.sub_diag; reflexivity).
  all: try (intros n0 f0 Hn; destruct n0; discriminate).
  all: try (rewrite app_length; cbn [length]; lia).
  all: try (intros; rewrite app_length; cbn [length]; intuition lia).
  (* DCamStart: nothing committed yet *)
  all: try match goal with
           | |- skipn _ _ = firstn _ [] =>
               rewrite firstn_nil; apply skipn_all2;
               repeat match goal with J : _ /\ _ |- _ => destruct J end; lia
           end.
  (* DGetFrame ok *)
  all: try match goal with
           | |- forall n f, nth_error (_ ++ [_]) n = Some f -> _ =>
               let n0 := fresh "n" in let f1 := fresh "f" in let Hn := fresh "Hn" in
               intros n0 f1 Hn; apply nth_error_snoc in Hn; destruct Hn as [[? Hn]|[? ?]];
               [ apply l_deliv; exact Hn
               | subst; cbn; destruct l_alive as (Hs & _); rewrite (l_iframe Hs); repeat split; reflexivity ]
           end.
  all: try match goal with
           | |- skipn _ _ = firstn _ (_ ++ [_]) => rewrite firstn_app_le by exact l_le; exact l_commit
           end.
  all: try match goal with
           | |- forall f, SGot _ = SGot f -> exists d, _ =>
               let f1 := fresh "f" in let Hf := fresh "Hf" in intros f1 Hf; inversion Hf; subst; eexists; reflexivity
           end.
  all: try (intros; specialize (l_lt eq_refl); lia).
  (* Commit *)
  all: try match goal with
           | |- skipn _ (_ ++ [?f]) = firstn _ _ =>
               destruct l_alive as (Hs & _); destruct (l_got f eq_refl) as [d Hd];
               apply (commit_prefix _ _ d f); [lia | exact l_commit | exact Hd |];
               destruct dropped; [destruct (l_drop Hs eq_refl); discriminate | apply (l_count Hs eq_refl)]
           end.
  all: try match goal with
           | |- length (_ ++ [_]) - _ <= length _ =>
               destruct l_alive as (Hs & _); rewrite app_length; cbn [length];
               destruct dropped; [destruct (l_drop Hs eq_refl); discriminate | rewrite (l_count Hs eq_refl); lia]
           end.
  all: try match goal with
           | |- _ = true -> true = true -> ?a = true \/ ?b = true =>
               let Hs := fresh "Hs" in intros Hs _; destruct (l_srcon Hs) as [Ha _];
               destruct a, b; auto; exfalso; specialize (l_acc Ha eq_refl eq_refl); discriminate l_acc
           end.
  all: try match goal with
           | H : _ || _ || (_ <=? _)%N = true |- _ = true -> true = true -> _ =>
               let Hs := fresh "Hs" in intros Hs _ ? ? ?;
               apply orb_true_iff in H; destruct H as [H|H];
               [ apply orb_true_iff in H; destruct H as [H|H];
                 [ destruct (l_sstop Hs H); congruence | specialize (l_win Hs H); congruence ]
               | apply N.leb_le in H; destruct l_alive as (_ & _ & Hg); rewrite <- Hg; exact H ]
           end.
  all: try (intros _ _; right; auto; match goal with J : true = true -> _ |- _ => apply J; reflexivity end).
Qed.
