(* PipeLiveG.v -- the progress certificate of PipeLive.v generalised to the whole time acquire_stop waits for the workers
   (c_stop = CWaitJoin), whether or not writes have been refused: a plain acquire_stop of a finite acquisition included.  The
   measure additionally counts the frames the source still has to produce (max_frame_count - iframe, while it is in its loop
   and has not been told to stop).  The model has no ring capacity: a source blocked on a full queue is C03's subject, and a
   monitor that has stopped consuming while frames remain is excluded by the property's own hypothesis. *)
From Coq Require Import List Bool Arith NArith Lia.
From RecordUpdate Require Import RecordSet.
From Pipe Require Import PipeModel PipeFacts PipeTac PipeInvDefs PipeInv5Defs PipeLive PipeLive2.
Import ListNotations RecordSetNotations.

Local Arguments Nat.mul : simpl never.
Local Arguments N.to_nat : simpl never.
Local Arguments N.sub : simpl never.
Local Arguments N.succ : simpl never.

Definition Pg (s : stream) : Prop := c_stop s = CWaitJoin.

Definition grank (s : stream) : nat :=
  match s_pc s with
  | SOff | SDone => 0 | SExiting => 1 | SWind2 => 2 | SWind1 => 3 | SLeave => 4 | SFailStop => 5
  | SGot _ => 6 | SMapped => 7 | SWMap => 8
  | SLoop => if src_stopping s then 4 else 9
  end.
(* frames the source may still deliver: those not yet asked for, plus the one in hand *)
Definition loop_left (s : stream) : nat :=
  if src_in_loop (s_pc s) then N.to_nat (maxn s - iframe s) + gotbit (s_pc s) else 0.
Definition gmeasure (s : stream) : nat :=
  100 * loop_left s + 10 * grank s + 10 * filt_m (f_pc s) + 10 * (length (log s) - sink_cur s) + sink_rank s.

Lemma gprogress_step s a e s' :
  Pg s -> Inv1 s -> Inv3 s -> Inv5 s -> step_stream s a e = Some s' -> a <> ACli ->
  gmeasure s' < gmeasure s \/ poll_event s a e = true.
Proof.
  intros P1 H1 H3 H5 H Ha. unfold Pg in P1.
  pose proof (i_cur s H1) as Hcur. pose proof (i_pend s H1) as Hpend. pose proof (n_pend s H5) as Hnp. pose proof (n_acc s H5) as Hacc.
  pose proof (l_lt s H3) as Hlt. pose proof (l_alive s H3) as Hal.
  clear H1 H3 H5.
  unfold gmeasure, grank, loop_left, sink_rank, poll_event; unfold told.
  step_cases s H; try (exfalso; apply Ha; reflexivity); unfold sink_finish; cbn in *; subst;
    try discriminate; try congruence;
    split_goal_ifs; cbn in *; try discriminate; try congruence; try (right; reflexivity);
    rewrite ?app_length; cbn [length];
    repeat match goal with J : true = true -> _ |- _ => specialize (J eq_refl) end;
    repeat match goal with J : _ /\ _ |- _ => destruct J end; subst;
    try (left; lia).
  all: try (destruct sink_stopping; destruct (hst_eqb sto_st HRunning); cbn in *; first [discriminate | right; reflexivity | left; lia]).
Qed.

Ltac fin_g := unfold gmeasure, grank, loop_left, sink_rank, told; cbn; try lia;
  repeat (match goal with
          | |- context [if ?b then _ else _] => destruct b
          | |- context [match ?x with _ => _ end] => is_var x; destruct x
          end; cbn); lia.

Lemma sink_progress_g s :
  SInv s -> Inv5 s -> kpc_idle (k_pc s) = false ->
  (sink_stopping s = true \/ sto_st s <> HRunning \/ post_main (k_pc s) = true) ->
  exists e s', step_stream s ASink e = Some s' /\ gmeasure s' < gmeasure s.
Proof.
  intros (H1 & H2 & H3 & H4) H5 Hk Ht.
  pose proof (d_stoopen s H4) as Hso. pose proof (n_pend s H5) as Hnp. pose proof (i_cur s H1) as Hcur.
  pose proof (i_pend s H1) as Hpend. pose proof (i_map s H1) as Hmap. pose proof (j_unreg s H2) as Hunreg. pose proof (n_sto s H5) as Hsto.
  destruct s; cbn in *; subst.
  assert (Hreg : sink_reg = true).
  { destruct sink_reg; auto. destruct (Hunreg eq_refl) as (_ & _ & X). subst. discriminate Hk. }
  subst.
  assert (Hopen : sto_st = HRunning -> exists i, sto = Some i).
  { intros Hr. destruct sto as [i|]; [eauto|]. specialize (Hso eq_refl). congruence. }
  destruct k_pc eqn:Ek; cbn in *; try discriminate Hk.
  - (* KTest *) specialize (Hsto eq_refl). subst. destruct Ht as [Ht|[Ht|Ht]]; [subst | congruence | discriminate].
    exists (RMapEnter RdSink); eexists; split; [cbn; reflexivity | fin_g].
  - (* KMainMapping *) specialize (Hsto eq_refl). subst. destruct Ht as [Ht|[Ht|Ht]]; [subst | congruence | discriminate].
    exists (RMap RdSink (seg log sink_cur (length log - sink_cur))); eexists; split.
    + cbn. rewrite read_ok_all by lia. cbn. reflexivity.
    + fin_g.
  - (* KMainMapped k *) specialize (Hsto eq_refl). subst. destruct Ht as [Ht|[Ht|Ht]]; [subst | congruence | discriminate].
    destruct (Hopen eq_refl) as [i ->]. destruct k as [|k].
    + exists (RUnmap RdSink 0); eexists; split; [cbn; reflexivity | fin_g].
    + exists (DAppend i true (seg log sink_cur 1)); eexists; split.
      * cbn. rewrite N.eqb_refl. rewrite seg_one_length by lia. cbn. rewrite frms_eqb_refl. reflexivity.
      * fin_g.
  - (* KMainAppended k j *) exists (RUnmap RdSink j); eexists; split; [cbn; rewrite Nat.eqb_refl; reflexivity|].
    unfold gmeasure, grank, loop_left, sink_rank, told; cbn. destruct (sink_stopping || negb (hst_eqb sto_st HRunning)); lia.
  - (* KMainAgain *) specialize (Hsto eq_refl). subst. destruct Ht as [Ht|[Ht|Ht]]; [subst | congruence | discriminate].
    exists (RMapEnter RdSink); eexists; split; [cbn; reflexivity | fin_g].
  - (* KFlushMapping *) exists (RMap RdSink (seg log sink_cur (length log - sink_cur))); eexists; split.
    + cbn. rewrite read_ok_all by lia. cbn. reflexivity.
    + fin_g.
  - (* KFlushMapped k *) specialize (Hsto eq_refl). subst. destruct (Hopen eq_refl) as [i ->]. destruct k as [|k].
    + exists (RUnmap RdSink 0); eexists; split; [cbn; reflexivity | fin_g].
    + exists (DAppend i true (seg log sink_cur (S k))); eexists; split.
      * cbn [step_stream]. cbn. rewrite N.eqb_refl. rewrite seg_length_le by lia. cbn. rewrite Nat.eqb_refl, frms_eqb_refl. reflexivity.
      * fin_g.
  - (* KFlushAppended k *) exists (RUnmap RdSink k); eexists; split; [cbn; rewrite Nat.eqb_refl; reflexivity | fin_g].
  - (* KFlushAgain *) exists (RMapEnter RdSink); eexists; split; [cbn; reflexivity | fin_g].
  - (* KStop *) specialize (Hsto eq_refl). subst. destruct (Hopen eq_refl) as [i ->].
    exists (DStoStop i); eexists; split; [cbn; rewrite N.eqb_refl; reflexivity | fin_g].
  - (* KErrCb *) exists CbStopSource; eexists; split; [cbn; reflexivity | fin_g].
  - (* KErrAccept *) exists (Accept false); eexists; split; [cbn; reflexivity | fin_g].
  - (* KErrUnmap *) exists (RUnmap RdSink 0); eexists; split; [cbn; reflexivity | fin_g].
  - (* KDrainAgain *) exists (RMapEnter RdSink); eexists; split; [cbn; reflexivity | fin_g].
  - (* KDrainMapping *) exists (RMap RdSink (seg log sink_cur (length log - sink_cur))); eexists; split.
    + cbn. rewrite read_ok_all by lia. cbn. reflexivity.
    + fin_g.
  - (* KDrainMapped k *) exists (RUnmap RdSink k); eexists; split; [cbn; rewrite Nat.eqb_refl; reflexivity|].
    unfold gmeasure, grank, loop_left, sink_rank, told, sink_finish; cbn. destruct k; cbn; [destruct sto_st; cbn; lia | lia].
  - (* KExiting *) exists (Exit RSink); eexists; split; [cbn; reflexivity | fin_g].
Qed.


Lemma gprogress_enabled s :
  Pg s -> SInv s -> Inv5 s -> workers_idle s = false ->
  exists a e s', a <> ACli /\ step_stream s a e = Some s' /\ gmeasure s' < gmeasure s.
Proof.
  intros P1 (H1 & H2 & H3 & H4) H5 Hw. unfold Pg in P1.
  pose proof (sink_progress_g s (conj H1 (conj H2 (conj H3 H4))) H5) as Hsp. pose proof (n_acc s H5) as Hacc. pose proof (l_lt s H3) as Hlt.
  pose proof (l_alive s H3) as Halive. pose proof (d_camopen s H4) as Hco. pose proof (d_stoopen s H4) as Hso.
  pose proof (n_cam s H5) as Hnc. pose proof (n_filt s H5) as Hnf. pose proof (n_filt2 s H5) as Hnf2. pose proof (n_sink s H5) as Hns.
  pose proof (n_pend s H5) as Hnp. pose proof (i_cstop s H1) as Hcs. pose proof (j_main s H2) as Hjm. pose proof (i_cur s H1) as Hcur.
  pose proof (i_pend s H1) as Hpend. pose proof (i_map s H1) as Hmap. pose proof (j_unreg s H2) as Hunreg. pose proof (n_sto s H5) as Hsto.
  unfold fail_pending, sink_told in *.
  destruct s; cbn in *; subst. unfold workers_idle in Hw; cbn in Hw.
  assert (Hst : start_pre_src c_start = false).
  { assert (Hne : CWaitJoin <> CNone) by discriminate. destruct (Hcs Hne) as [_ X]. exact X. }
  destruct s_pc eqn:Esp; cbn in *.
  - (* SOff: the source is gone; filter, then sink *) destruct f_pc eqn:Ef; cbn in *.
    + destruct (kpc_idle k_pc) eqn:Ek; [cbn in Hw; discriminate Hw|].
      destruct (Hns eq_refl eq_refl Hst) as [[_ X]|[X|X]]; [discriminate X | congruence |].
      destruct (Hsp eq_refl X) as (e & s' & A & B).
      exists ASink, e, s'. split; [discriminate | auto].
    + destruct (Hnf2 eq_refl eq_refl Hst) as [[_ X]|[X _]]; [discriminate X|]. subst.
      witness AFilt (Exit RFilt); [reflexivity | fin_g].
    + destruct (kpc_idle k_pc) eqn:Ek; [cbn in Hw; discriminate Hw|].
      destruct (Hns eq_refl eq_refl Hst) as [[_ X]|[X|X]]; [discriminate X | congruence |].
      destruct (Hsp eq_refl X) as (e & s' & A & B).
      exists ASink, e, s'. split; [discriminate | auto].
  - (* SLoop *) destruct src_stopping eqn:Ess.
    + witness ASrc CbStopFilter; [reflexivity | fin_g].
    + destruct (N.ltb iframe maxn) eqn:El.
      * witness ASrc WMapEnter; [rewrite El; reflexivity | fin_g].
      * witness ASrc CbStopFilter; [apply N.ltb_ge in El; apply N.leb_le in El; rewrite El, orb_true_r; reflexivity | fin_g].
  - (* SWMap *) destruct accepting eqn:Eacc.
    + witness ASrc (WMap true); [reflexivity | fin_g].
    + specialize (Hacc eq_refl eq_refl). subst. witness ASrc (WMap false); [reflexivity | fin_g].
  - (* SMapped *) destruct (Halive eq_refl) as (_ & Hr & _). subst. destruct cam as [i|]; [|specialize (Hco eq_refl); discriminate].
    witness ASrc (DGetFrame i None); [rewrite N.eqb_refl; reflexivity | fin_g].
  - (* SGot *) destruct accepting eqn:Eacc.
    + witness ASrc (Commit true f); [rewrite frm_eqb_refl; reflexivity|].
      unfold gmeasure, grank, loop_left, sink_rank, told; cbn. rewrite app_length; cbn [length]. destruct src_stopping; lia.
    + witness ASrc (Commit false f); [rewrite frm_eqb_refl; reflexivity|].
      unfold gmeasure, grank, loop_left, sink_rank, told; cbn. destruct src_stopping; lia.
  - (* SFailStop *) specialize (Hnc eq_refl). subst. destruct cam as [i|]; [|specialize (Hco eq_refl); discriminate].
    witness ASrc (DCamStop i); [rewrite N.eqb_refl; reflexivity | fin_g].
  - (* SLeave *) witness ASrc CbStopFilter; [reflexivity | fin_g].
  - (* SWind1 *) destruct f_pc eqn:Ef.
    + witness ASrc CbStopSink; [reflexivity|]. unfold gmeasure, grank, loop_left, sink_rank, told; destruct cam_st; cbn; destruct sink_stopping; destruct (hst_eqb sto_st HRunning); destruct k_pc; cbn; lia.
    + specialize (Hnf eq_refl eq_refl). subst. witness AFilt (Exit RFilt); [reflexivity | fin_g].
    + witness ASrc CbStopSink; [reflexivity|]. unfold gmeasure, grank, loop_left, sink_rank, told; destruct cam_st; cbn; destruct sink_stopping; destruct (hst_eqb sto_st HRunning); destruct k_pc; cbn; lia.
  - (* SWind2 *) specialize (Hnc eq_refl). subst. destruct cam as [i|]; [|specialize (Hco eq_refl); discriminate].
    witness ASrc (DCamStop i); [rewrite N.eqb_refl; reflexivity | fin_g].
  - (* SExiting *) witness ASrc (Exit RSrc); [reflexivity | fin_g].
  - (* SDone *) destruct f_pc eqn:Ef; cbn in *.
    + destruct (kpc_idle k_pc) eqn:Ek; [cbn in Hw; discriminate Hw|].
      destruct (Hns eq_refl eq_refl Hst) as [[_ X]|[X|X]]; [discriminate X | congruence |].
      destruct (Hsp eq_refl X) as (e & s' & A & B).
      exists ASink, e, s'. split; [discriminate | auto].
    + destruct (Hnf2 eq_refl eq_refl Hst) as [[_ X]|[X _]]; [discriminate X|]. subst.
      witness AFilt (Exit RFilt); [reflexivity | fin_g].
    + destruct (kpc_idle k_pc) eqn:Ek; [cbn in Hw; discriminate Hw|].
      destruct (Hns eq_refl eq_refl Hst) as [[_ X]|[X|X]]; [discriminate X | congruence |].
      destruct (Hsp eq_refl X) as (e & s' & A & B).
      exists ASink, e, s'. split; [discriminate | auto].
Qed.

Lemma gpoll_bound s a e s' :
  Pg s -> Inv1 s -> step_stream s a e = Some s' -> poll_event s a e = true -> gmeasure s' <= gmeasure s + 20.
Proof.
  intros P1 H1 H Hp. unfold Pg in P1.
  pose proof (i_cur s H1) as Hcur. clear H1.
  unfold gmeasure, grank, loop_left, sink_rank, poll_event in *; unfold told in *.
  step_cases s H; unfold sink_finish; cbn in *; subst; try discriminate; try congruence;
    split_goal_ifs; cbn in *; try discriminate; try congruence; try lia.
  all: try (destruct sink_stopping; destruct (hst_eqb sto_st HRunning); cbn in *; first [discriminate | lia]).
Qed.
