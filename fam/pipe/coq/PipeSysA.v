(* PipeSysA.v -- how one stream event moves the client-side counters (valid bit, c_stop, c_start); call_ok is preserved. *)
From Coq Require Import List Bool Arith NArith Lia.
From RecordUpdate Require Import RecordSet.
From Pipe Require Import PipeModel PipeFacts PipeTac PipeInvDefs.
Import ListNotations RecordSetNotations.

(* ---- facts about how one stream event moves the client-side counters *)
Lemma step_valid s a e s' : step_stream s a e = Some s' -> valid s' = valid s.
Proof. intros H. step_cases s H; unfold sink_finish; cbn; split_goal_ifs; reflexivity. Qed.

Lemma step_cstop_none s a e s' : step_stream s a e = Some s' -> c_stop s = CNone -> c_stop s' = CNone.
Proof. intros H Hc. step_cases s H; unfold sink_finish in *; cbn in *; subst; split_goal_ifs; try reflexivity; try discriminate; fin. Qed.

Lemma step_cstart_none s a e s' : step_stream s a e = Some s' -> c_start s = TNone -> c_start s' = TNone.
Proof. intros H Hc. step_cases s H; unfold sink_finish in *; cbn in *; subst; split_goal_ifs; try reflexivity; try discriminate; fin. Qed.

Lemma step_cstart_failed s a e s' :
  step_stream s a e = Some s' -> c_start s' = TFailed -> c_start s = TFailed \/ is_start_failure e = true.
Proof. intros H. step_cases s H; unfold sink_finish in *; cbn in *; subst; split_goal_ifs; cbn; auto; try (intros Hc; discriminate Hc). Qed.

Lemma step_cstart_done s a e s' :
  step_stream s a e = Some s' -> (c_start s = TDone \/ c_start s = TFailed \/ c_start s = TNone) ->
  c_start s' = c_start s.
Proof. intros H Hc. step_cases s H; unfold sink_finish in *; cbn in *; subst; split_goal_ifs; try reflexivity; intuition discriminate. Qed.

Lemma call_ok_step c s a e s' :
  step_stream s a e = Some s' -> is_start_failure e = false -> call_ok c s -> call_ok c s'.
Proof.
  intros H Hf Hc. pose proof (step_valid _ _ _ _ H) as Hv.
  destruct c; cbn in *.
  - destruct Hc as [H1 H2]. split; [eapply step_cstop_none | eapply step_cstart_none]; eassumption.
  - destruct Hc as (H1 & H2 & H3). split; [eapply step_cstop_none; eassumption|]. split.
    + intros Hx. destruct (step_cstart_failed _ _ _ _ H Hx) as [Hy|Hy]; [auto | congruence].
    + intros Hx. rewrite Hv in Hx. eapply step_cstart_none; eauto.
  - destruct Hc as [H1 H2]. split; [eapply step_cstop_none | eapply step_cstart_none]; eassumption.
  - destruct Hc as (H1 & H2). rewrite (step_cstart_done _ _ _ _ H H1). split; [exact H1|].
    intros Hx. rewrite Hv in Hx. destruct (H2 Hx) as [H3 H4]. split; [eapply step_cstop_none; eassumption | exact H4].
  - destruct Hc as (H1 & H2). split; [eapply step_cstart_none; eassumption|].
    intros Hx. rewrite Hv in Hx. eapply step_cstop_none; eauto.
  - destruct Hc as (H1 & H2). split; [eapply step_cstart_none; eassumption|].
    intros Hx. rewrite Hv in Hx. eapply step_cstop_none; eauto.
  - destruct Hc as (H1 & H2). split; [eapply step_cstart_none; eassumption|].
    intros Hx. rewrite Hv in Hx. eapply step_cstop_none; eauto.
Qed.
