
(** val negb : bool -> bool **)

let negb = function
| true -> false
| false -> true

type nat =
| O
| S of nat

(** val length : 'a1 list -> nat **)

let rec length = function
| [] -> O
| _ :: l' -> S (length l')

(** val app : 'a1 list -> 'a1 list -> 'a1 list **)

let rec app l m =
  match l with
  | [] -> m
  | a :: l1 -> a :: (app l1 m)

type comparison =
| Eq
| Lt
| Gt

(** val add : nat -> nat -> nat **)

let rec add n0 m =
  match n0 with
  | O -> m
  | S p -> S (add p m)

(** val eqb : bool -> bool -> bool **)

let eqb b1 b2 =
  if b1 then b2 else if b2 then false else true

module Nat =
 struct
  (** val eqb : nat -> nat -> bool **)

  let rec eqb n0 m =
    match n0 with
    | O -> (match m with
            | O -> true
            | S _ -> false)
    | S n' -> (match m with
               | O -> false
               | S m' -> eqb n' m')

  (** val leb : nat -> nat -> bool **)

  let rec leb n0 m =
    match n0 with
    | O -> true
    | S n' -> (match m with
               | O -> false
               | S m' -> leb n' m')

  (** val min : nat -> nat -> nat **)

  let rec min n0 m =
    match n0 with
    | O -> O
    | S n' -> (match m with
               | O -> O
               | S m' -> S (min n' m'))
 end

(** val firstn : nat -> 'a1 list -> 'a1 list **)

let rec firstn n0 l =
  match n0 with
  | O -> []
  | S n1 -> (match l with
             | [] -> []
             | a :: l0 -> a :: (firstn n1 l0))

(** val skipn : nat -> 'a1 list -> 'a1 list **)

let rec skipn n0 l =
  match n0 with
  | O -> l
  | S n1 -> (match l with
             | [] -> []
             | _ :: l0 -> skipn n1 l0)

type positive =
| XI of positive
| XO of positive
| XH

type n =
| N0
| Npos of positive

module Pos =
 struct
  (** val succ : positive -> positive **)

  let rec succ = function
  | XI p -> XO (succ p)
  | XO p -> XI p
  | XH -> XO XH

  (** val compare_cont : comparison -> positive -> positive -> comparison **)

  let rec compare_cont r x y =
    match x with
    | XI p ->
      (match y with
       | XI q -> compare_cont r p q
       | XO q -> compare_cont Gt p q
       | XH -> Gt)
    | XO p ->
      (match y with
       | XI q -> compare_cont Lt p q
       | XO q -> compare_cont r p q
       | XH -> Gt)
    | XH -> (match y with
             | XH -> r
             | _ -> Lt)

  (** val compare : positive -> positive -> comparison **)

  let compare =
    compare_cont Eq

  (** val eqb : positive -> positive -> bool **)

  let rec eqb p q =
    match p with
    | XI p0 -> (match q with
                | XI q0 -> eqb p0 q0
                | _ -> false)
    | XO p0 -> (match q with
                | XO q0 -> eqb p0 q0
                | _ -> false)
    | XH -> (match q with
             | XH -> true
             | _ -> false)
 end

module N =
 struct
  (** val succ : n -> n **)

  let succ = function
  | N0 -> Npos XH
  | Npos p -> Npos (Pos.succ p)

  (** val compare : n -> n -> comparison **)

  let compare n0 m =
    match n0 with
    | N0 -> (match m with
             | N0 -> Eq
             | Npos _ -> Lt)
    | Npos n' -> (match m with
                  | N0 -> Gt
                  | Npos m' -> Pos.compare n' m')

  (** val eqb : n -> n -> bool **)

  let eqb n0 m =
    match n0 with
    | N0 -> (match m with
             | N0 -> true
             | Npos _ -> false)
    | Npos p -> (match m with
                 | N0 -> false
                 | Npos q -> Pos.eqb p q)

  (** val leb : n -> n -> bool **)

  let leb x y =
    match compare x y with
    | Gt -> false
    | _ -> true

  (** val ltb : n -> n -> bool **)

  let ltb x y =
    match compare x y with
    | Lt -> true
    | _ -> false
 end

type ('r, 't) setter = ('t -> 't) -> 'r -> 'r

(** val set :
    ('a1 -> 'a2) -> ('a1, 'a2) setter -> ('a2 -> 'a2) -> 'a1 -> 'a1 **)

let set _ setter0 =
  setter0

type frm = { f_tag : n; f_id : n; f_hw : n; f_sh : n }

(** val frm_eqb : frm -> frm -> bool **)

let frm_eqb a b =
  (&&)
    ((&&) ((&&) (N.eqb a.f_tag b.f_tag) (N.eqb a.f_id b.f_id))
      (N.eqb a.f_hw b.f_hw)) (N.eqb a.f_sh b.f_sh)

(** val frms_eqb : frm list -> frm list -> bool **)

let rec frms_eqb l1 l2 =
  match l1 with
  | [] -> (match l2 with
           | [] -> true
           | _ :: _ -> false)
  | a :: l1' ->
    (match l2 with
     | [] -> false
     | b :: l2' -> (&&) (frm_eqb a b) (frms_eqb l1' l2'))

(** val find_idx : frm -> frm list -> nat **)

let rec find_idx f = function
| [] -> O
| a :: l' -> if frm_eqb f a then O else S (find_idx f l')

type hst =
| HAwait
| HArmed
| HRunning

(** val hst_eqb : hst -> hst -> bool **)

let hst_eqb a b =
  match a with
  | HAwait -> (match b with
               | HAwait -> true
               | _ -> false)
  | HArmed -> (match b with
               | HArmed -> true
               | _ -> false)
  | HRunning -> (match b with
                 | HRunning -> true
                 | _ -> false)

type actor =
| ACli
| ASrc
| ASink
| AFilt

type role =
| RSrc
| RSink
| RFilt

type rd =
| RdSink
| RdMon

(** val optN_eqb : n option -> n -> bool **)

let optN_eqb a b =
  match a with
  | Some x -> N.eqb x b
  | None -> false

type sev =
| DOpenCam of n
| DCloseCam of n
| DSetCam of n
| DOpenSto of n
| DCloseSto of n
| DSetSto of n
| DStoStart of n * bool
| DCamStart of n * bool * n
| DCamStop of n
| DStoStop of n
| DTrigger of n
| DGetFrame of n * ((n * n) * n) option
| DGetEmpty of n
| DAppend of n * bool * frm list
| WMapEnter
| WMap of bool
| Commit of bool * frm
| Accept of bool
| RMapEnter of rd
| RMap of rd * frm list
| RUnmap of rd * nat
| CbStopFilter
| CbStopSink
| CbStopSource
| Spawn of role
| Exit of role
| Joined of role
| MonMapRefused
| MonMapRet of bool
| StartRefused of role

type spc =
| SOff
| SLoop
| SWMap
| SMapped
| SGot of frm
| SFailStop
| SLeave
| SWind1
| SWind2
| SExiting
| SDone

type kpc =
| KOff
| KTest
| KMainMapping
| KMainMapped of nat
| KMainAppended of nat * nat
| KMainAgain
| KFlushMapping
| KFlushMapped of nat
| KFlushAppended of nat
| KFlushAgain
| KStop
| KErrCb of nat
| KErrAccept of nat
| KErrUnmap of nat
| KDrainAgain
| KDrainMapping
| KDrainMapped of nat
| KExiting
| KDone

type fpc =
| FOff
| FRun
| FDone

type cstart =
| TNone
| TBegin
| TStoStarted
| TAccepted
| TRegEnter
| TRegMapped
| TRegDone
| TSinkUp
| TFiltUp
| TCamStarted
| TDone
| TFailed

type cstop =
| CNone
| CWaitJoin
| CFlush0
| CFlush
| CFlushMapping
| CFlushMapped of nat
| CStopped

type stream = { valid : bool; maxn : n; cam : n option; cam_st : hst;
                sto : n option; sto_st : hst; cam_tag : n; cam_next : 
                n; log : frm list; accepting : bool; sink_reg : bool;
                sink_cur : nat; sink_map : nat option; mon_reg : bool;
                mon_cur : nat; mon_map : nat option; src_stopping : bool;
                abort_win : bool; sink_stopping : bool; filt_stopping : 
                bool; src_running : bool; sink_running : bool;
                filt_running : bool; s_pc : spc; k_pc : kpc; f_pc : fpc;
                c_stop : cstop; c_start : cstart; iframe : n; base : 
                nat; delivered : frm list; stored : frm list;
                sto_failed : bool; seen : frm list; aborted : bool;
                cam_failed : bool; acq_on : bool; src_on : bool; goal : 
                n; mon_fresh : bool; dropped : bool; cam_starts : nat;
                cam_stops : nat; sto_starts : nat; sto_stops : nat }

(** val init_stream : stream **)

let init_stream =
  { valid = false; maxn = N0; cam = None; cam_st = HAwait; sto = None;
    sto_st = HAwait; cam_tag = N0; cam_next = N0; log = []; accepting = true;
    sink_reg = false; sink_cur = O; sink_map = None; mon_reg = false;
    mon_cur = O; mon_map = None; src_stopping = false; abort_win = false;
    sink_stopping = false; filt_stopping = false; src_running = false;
    sink_running = false; filt_running = false; s_pc = SOff; k_pc = KOff;
    f_pc = FOff; c_stop = CNone; c_start = TNone; iframe = N0; base = O;
    delivered = []; stored = []; sto_failed = false; seen = []; aborted =
    false; cam_failed = false; acq_on = false; src_on = false; goal = N0;
    mon_fresh = false; dropped = false; cam_starts = O; cam_stops = O;
    sto_starts = O; sto_stops = O }

(** val seg : frm list -> nat -> nat -> frm list **)

let seg l from n0 =
  firstn n0 (skipn from l)

(** val spc_idle : spc -> bool **)

let spc_idle = function
| SOff -> true
| SDone -> true
| _ -> false

(** val kpc_idle : kpc -> bool **)

let kpc_idle = function
| KOff -> true
| KDone -> true
| _ -> false

(** val fpc_idle : fpc -> bool **)

let fpc_idle = function
| FRun -> false
| _ -> true

(** val workers_idle : stream -> bool **)

let workers_idle s =
  (&&) ((&&) (spc_idle s.s_pc) (kpc_idle s.k_pc)) (fpc_idle s.f_pc)

(** val quiet : stream -> bool **)

let quiet s =
  (&&) (workers_idle s) (match s.c_start with
                         | TNone -> true
                         | _ -> false)

(** val guard : bool -> stream -> stream option **)

let guard b s =
  if b then Some s else None

(** val sink_finish : stream -> stream **)

let sink_finish s =
  match s.sto_st with
  | HRunning ->
    set (fun s0 -> s0.k_pc) (fun f ->
      let k = fun r -> f r.k_pc in
      (fun x -> { valid = x.valid; maxn = x.maxn; cam = x.cam; cam_st =
      x.cam_st; sto = x.sto; sto_st = x.sto_st; cam_tag = x.cam_tag;
      cam_next = x.cam_next; log = x.log; accepting = x.accepting; sink_reg =
      x.sink_reg; sink_cur = x.sink_cur; sink_map = x.sink_map; mon_reg =
      x.mon_reg; mon_cur = x.mon_cur; mon_map = x.mon_map; src_stopping =
      x.src_stopping; abort_win = x.abort_win; sink_stopping =
      x.sink_stopping; filt_stopping = x.filt_stopping; src_running =
      x.src_running; sink_running = x.sink_running; filt_running =
      x.filt_running; s_pc = x.s_pc; k_pc = (k x); f_pc = x.f_pc; c_stop =
      x.c_stop; c_start = x.c_start; iframe = x.iframe; base = x.base;
      delivered = x.delivered; stored = x.stored; sto_failed = x.sto_failed;
      seen = x.seen; aborted = x.aborted; cam_failed = x.cam_failed; acq_on =
      x.acq_on; src_on = x.src_on; goal = x.goal; mon_fresh = x.mon_fresh;
      dropped = x.dropped; cam_starts = x.cam_starts; cam_stops =
      x.cam_stops; sto_starts = x.sto_starts; sto_stops = x.sto_stops }))
      (fun _ -> KStop) s
  | _ ->
    set (fun s0 -> s0.k_pc) (fun f ->
      let k = fun r -> f r.k_pc in
      (fun x -> { valid = x.valid; maxn = x.maxn; cam = x.cam; cam_st =
      x.cam_st; sto = x.sto; sto_st = x.sto_st; cam_tag = x.cam_tag;
      cam_next = x.cam_next; log = x.log; accepting = x.accepting; sink_reg =
      x.sink_reg; sink_cur = x.sink_cur; sink_map = x.sink_map; mon_reg =
      x.mon_reg; mon_cur = x.mon_cur; mon_map = x.mon_map; src_stopping =
      x.src_stopping; abort_win = x.abort_win; sink_stopping =
      x.sink_stopping; filt_stopping = x.filt_stopping; src_running =
      x.src_running; sink_running = x.sink_running; filt_running =
      x.filt_running; s_pc = x.s_pc; k_pc = (k x); f_pc = x.f_pc; c_stop =
      x.c_stop; c_start = x.c_start; iframe = x.iframe; base = x.base;
      delivered = x.delivered; stored = x.stored; sto_failed = x.sto_failed;
      seen = x.seen; aborted = x.aborted; cam_failed = x.cam_failed; acq_on =
      x.acq_on; src_on = x.src_on; goal = x.goal; mon_fresh = x.mon_fresh;
      dropped = x.dropped; cam_starts = x.cam_starts; cam_stops =
      x.cam_stops; sto_starts = x.sto_starts; sto_stops = x.sto_stops }))
      (fun _ -> KExiting)
      (set (fun s0 -> s0.sink_stopping) (fun f ->
        let b = fun r -> f r.sink_stopping in
        (fun x -> { valid = x.valid; maxn = x.maxn; cam = x.cam; cam_st =
        x.cam_st; sto = x.sto; sto_st = x.sto_st; cam_tag = x.cam_tag;
        cam_next = x.cam_next; log = x.log; accepting = x.accepting;
        sink_reg = x.sink_reg; sink_cur = x.sink_cur; sink_map = x.sink_map;
        mon_reg = x.mon_reg; mon_cur = x.mon_cur; mon_map = x.mon_map;
        src_stopping = x.src_stopping; abort_win = x.abort_win;
        sink_stopping = (b x); filt_stopping = x.filt_stopping; src_running =
        x.src_running; sink_running = x.sink_running; filt_running =
        x.filt_running; s_pc = x.s_pc; k_pc = x.k_pc; f_pc = x.f_pc; c_stop =
        x.c_stop; c_start = x.c_start; iframe = x.iframe; base = x.base;
        delivered = x.delivered; stored = x.stored; sto_failed =
        x.sto_failed; seen = x.seen; aborted = x.aborted; cam_failed =
        x.cam_failed; acq_on = x.acq_on; src_on = x.src_on; goal = x.goal;
        mon_fresh = x.mon_fresh; dropped = x.dropped; cam_starts =
        x.cam_starts; cam_stops = x.cam_stops; sto_starts = x.sto_starts;
        sto_stops = x.sto_stops })) (fun _ -> false)
        (set (fun s0 -> s0.sink_running) (fun f ->
          let b = fun r -> f r.sink_running in
          (fun x -> { valid = x.valid; maxn = x.maxn; cam = x.cam; cam_st =
          x.cam_st; sto = x.sto; sto_st = x.sto_st; cam_tag = x.cam_tag;
          cam_next = x.cam_next; log = x.log; accepting = x.accepting;
          sink_reg = x.sink_reg; sink_cur = x.sink_cur; sink_map =
          x.sink_map; mon_reg = x.mon_reg; mon_cur = x.mon_cur; mon_map =
          x.mon_map; src_stopping = x.src_stopping; abort_win = x.abort_win;
          sink_stopping = x.sink_stopping; filt_stopping = x.filt_stopping;
          src_running = x.src_running; sink_running = (b x); filt_running =
          x.filt_running; s_pc = x.s_pc; k_pc = x.k_pc; f_pc = x.f_pc;
          c_stop = x.c_stop; c_start = x.c_start; iframe = x.iframe; base =
          x.base; delivered = x.delivered; stored = x.stored; sto_failed =
          x.sto_failed; seen = x.seen; aborted = x.aborted; cam_failed =
          x.cam_failed; acq_on = x.acq_on; src_on = x.src_on; goal = x.goal;
          mon_fresh = x.mon_fresh; dropped = x.dropped; cam_starts =
          x.cam_starts; cam_stops = x.cam_stops; sto_starts = x.sto_starts;
          sto_stops = x.sto_stops })) (fun _ -> false) s))

(** val read_ok : frm list -> nat -> frm list -> bool **)

let read_ok l cur fs =
  (&&) (frms_eqb fs (seg l cur (length fs)))
    ((||) (negb (Nat.eqb (length fs) O)) (Nat.eqb cur (length l)))

(** val step_stream : stream -> actor -> sev -> stream option **)

let step_stream s a e =
  match a with
  | ACli ->
    (match e with
     | DOpenCam i ->
       guard
         ((&&) (match s.cam with
                | Some _ -> false
                | None -> true) (quiet s))
         (set (fun s0 -> s0.cam_st) (fun f ->
           let h = fun r -> f r.cam_st in
           (fun x -> { valid = x.valid; maxn = x.maxn; cam = x.cam; cam_st =
           (h x); sto = x.sto; sto_st = x.sto_st; cam_tag = x.cam_tag;
           cam_next = x.cam_next; log = x.log; accepting = x.accepting;
           sink_reg = x.sink_reg; sink_cur = x.sink_cur; sink_map =
           x.sink_map; mon_reg = x.mon_reg; mon_cur = x.mon_cur; mon_map =
           x.mon_map; src_stopping = x.src_stopping; abort_win = x.abort_win;
           sink_stopping = x.sink_stopping; filt_stopping = x.filt_stopping;
           src_running = x.src_running; sink_running = x.sink_running;
           filt_running = x.filt_running; s_pc = x.s_pc; k_pc = x.k_pc;
           f_pc = x.f_pc; c_stop = x.c_stop; c_start = x.c_start; iframe =
           x.iframe; base = x.base; delivered = x.delivered; stored =
           x.stored; sto_failed = x.sto_failed; seen = x.seen; aborted =
           x.aborted; cam_failed = x.cam_failed; acq_on = x.acq_on; src_on =
           x.src_on; goal = x.goal; mon_fresh = x.mon_fresh; dropped =
           x.dropped; cam_starts = x.cam_starts; cam_stops = x.cam_stops;
           sto_starts = x.sto_starts; sto_stops = x.sto_stops })) (fun _ ->
           HAwait)
           (set (fun s0 -> s0.cam) (fun f ->
             let o = fun r -> f r.cam in
             (fun x -> { valid = x.valid; maxn = x.maxn; cam = (o x);
             cam_st = x.cam_st; sto = x.sto; sto_st = x.sto_st; cam_tag =
             x.cam_tag; cam_next = x.cam_next; log = x.log; accepting =
             x.accepting; sink_reg = x.sink_reg; sink_cur = x.sink_cur;
             sink_map = x.sink_map; mon_reg = x.mon_reg; mon_cur = x.mon_cur;
             mon_map = x.mon_map; src_stopping = x.src_stopping; abort_win =
             x.abort_win; sink_stopping = x.sink_stopping; filt_stopping =
             x.filt_stopping; src_running = x.src_running; sink_running =
             x.sink_running; filt_running = x.filt_running; s_pc = x.s_pc;
             k_pc = x.k_pc; f_pc = x.f_pc; c_stop = x.c_stop; c_start =
             x.c_start; iframe = x.iframe; base = x.base; delivered =
             x.delivered; stored = x.stored; sto_failed = x.sto_failed;
             seen = x.seen; aborted = x.aborted; cam_failed = x.cam_failed;
             acq_on = x.acq_on; src_on = x.src_on; goal = x.goal; mon_fresh =
             x.mon_fresh; dropped = x.dropped; cam_starts = x.cam_starts;
             cam_stops = x.cam_stops; sto_starts = x.sto_starts; sto_stops =
             x.sto_stops })) (fun _ -> Some i) s))
     | DCloseCam i ->
       guard ((&&) (optN_eqb s.cam i) (quiet s))
         (set (fun s0 -> s0.cam_st) (fun f ->
           let h = fun r -> f r.cam_st in
           (fun x -> { valid = x.valid; maxn = x.maxn; cam = x.cam; cam_st =
           (h x); sto = x.sto; sto_st = x.sto_st; cam_tag = x.cam_tag;
           cam_next = x.cam_next; log = x.log; accepting = x.accepting;
           sink_reg = x.sink_reg; sink_cur = x.sink_cur; sink_map =
           x.sink_map; mon_reg = x.mon_reg; mon_cur = x.mon_cur; mon_map =
           x.mon_map; src_stopping = x.src_stopping; abort_win = x.abort_win;
           sink_stopping = x.sink_stopping; filt_stopping = x.filt_stopping;
           src_running = x.src_running; sink_running = x.sink_running;
           filt_running = x.filt_running; s_pc = x.s_pc; k_pc = x.k_pc;
           f_pc = x.f_pc; c_stop = x.c_stop; c_start = x.c_start; iframe =
           x.iframe; base = x.base; delivered = x.delivered; stored =
           x.stored; sto_failed = x.sto_failed; seen = x.seen; aborted =
           x.aborted; cam_failed = x.cam_failed; acq_on = x.acq_on; src_on =
           x.src_on; goal = x.goal; mon_fresh = x.mon_fresh; dropped =
           x.dropped; cam_starts = x.cam_starts; cam_stops = x.cam_stops;
           sto_starts = x.sto_starts; sto_stops = x.sto_stops })) (fun _ ->
           HAwait)
           (set (fun s0 -> s0.cam) (fun f ->
             let o = fun r -> f r.cam in
             (fun x -> { valid = x.valid; maxn = x.maxn; cam = (o x);
             cam_st = x.cam_st; sto = x.sto; sto_st = x.sto_st; cam_tag =
             x.cam_tag; cam_next = x.cam_next; log = x.log; accepting =
             x.accepting; sink_reg = x.sink_reg; sink_cur = x.sink_cur;
             sink_map = x.sink_map; mon_reg = x.mon_reg; mon_cur = x.mon_cur;
             mon_map = x.mon_map; src_stopping = x.src_stopping; abort_win =
             x.abort_win; sink_stopping = x.sink_stopping; filt_stopping =
             x.filt_stopping; src_running = x.src_running; sink_running =
             x.sink_running; filt_running = x.filt_running; s_pc = x.s_pc;
             k_pc = x.k_pc; f_pc = x.f_pc; c_stop = x.c_stop; c_start =
             x.c_start; iframe = x.iframe; base = x.base; delivered =
             x.delivered; stored = x.stored; sto_failed = x.sto_failed;
             seen = x.seen; aborted = x.aborted; cam_failed = x.cam_failed;
             acq_on = x.acq_on; src_on = x.src_on; goal = x.goal; mon_fresh =
             x.mon_fresh; dropped = x.dropped; cam_starts = x.cam_starts;
             cam_stops = x.cam_stops; sto_starts = x.sto_starts; sto_stops =
             x.sto_stops })) (fun _ -> None) s))
     | DSetCam i ->
       guard ((&&) (optN_eqb s.cam i) (quiet s))
         (set (fun s0 -> s0.cam_st) (fun f ->
           let h = fun r -> f r.cam_st in
           (fun x -> { valid = x.valid; maxn = x.maxn; cam = x.cam; cam_st =
           (h x); sto = x.sto; sto_st = x.sto_st; cam_tag = x.cam_tag;
           cam_next = x.cam_next; log = x.log; accepting = x.accepting;
           sink_reg = x.sink_reg; sink_cur = x.sink_cur; sink_map =
           x.sink_map; mon_reg = x.mon_reg; mon_cur = x.mon_cur; mon_map =
           x.mon_map; src_stopping = x.src_stopping; abort_win = x.abort_win;
           sink_stopping = x.sink_stopping; filt_stopping = x.filt_stopping;
           src_running = x.src_running; sink_running = x.sink_running;
           filt_running = x.filt_running; s_pc = x.s_pc; k_pc = x.k_pc;
           f_pc = x.f_pc; c_stop = x.c_stop; c_start = x.c_start; iframe =
           x.iframe; base = x.base; delivered = x.delivered; stored =
           x.stored; sto_failed = x.sto_failed; seen = x.seen; aborted =
           x.aborted; cam_failed = x.cam_failed; acq_on = x.acq_on; src_on =
           x.src_on; goal = x.goal; mon_fresh = x.mon_fresh; dropped =
           x.dropped; cam_starts = x.cam_starts; cam_stops = x.cam_stops;
           sto_starts = x.sto_starts; sto_stops = x.sto_stops })) (fun _ ->
           match s.cam_st with
           | HAwait -> HArmed
           | x -> x) s)
     | DOpenSto i ->
       guard
         ((&&) (match s.sto with
                | Some _ -> false
                | None -> true) (quiet s))
         (set (fun s0 -> s0.sto_st) (fun f ->
           let h = fun r -> f r.sto_st in
           (fun x -> { valid = x.valid; maxn = x.maxn; cam = x.cam; cam_st =
           x.cam_st; sto = x.sto; sto_st = (h x); cam_tag = x.cam_tag;
           cam_next = x.cam_next; log = x.log; accepting = x.accepting;
           sink_reg = x.sink_reg; sink_cur = x.sink_cur; sink_map =
           x.sink_map; mon_reg = x.mon_reg; mon_cur = x.mon_cur; mon_map =
           x.mon_map; src_stopping = x.src_stopping; abort_win = x.abort_win;
           sink_stopping = x.sink_stopping; filt_stopping = x.filt_stopping;
           src_running = x.src_running; sink_running = x.sink_running;
           filt_running = x.filt_running; s_pc = x.s_pc; k_pc = x.k_pc;
           f_pc = x.f_pc; c_stop = x.c_stop; c_start = x.c_start; iframe =
           x.iframe; base = x.base; delivered = x.delivered; stored =
           x.stored; sto_failed = x.sto_failed; seen = x.seen; aborted =
           x.aborted; cam_failed = x.cam_failed; acq_on = x.acq_on; src_on =
           x.src_on; goal = x.goal; mon_fresh = x.mon_fresh; dropped =
           x.dropped; cam_starts = x.cam_starts; cam_stops = x.cam_stops;
           sto_starts = x.sto_starts; sto_stops = x.sto_stops })) (fun _ ->
           HAwait)
           (set (fun s0 -> s0.sto) (fun f ->
             let o = fun r -> f r.sto in
             (fun x -> { valid = x.valid; maxn = x.maxn; cam = x.cam;
             cam_st = x.cam_st; sto = (o x); sto_st = x.sto_st; cam_tag =
             x.cam_tag; cam_next = x.cam_next; log = x.log; accepting =
             x.accepting; sink_reg = x.sink_reg; sink_cur = x.sink_cur;
             sink_map = x.sink_map; mon_reg = x.mon_reg; mon_cur = x.mon_cur;
             mon_map = x.mon_map; src_stopping = x.src_stopping; abort_win =
             x.abort_win; sink_stopping = x.sink_stopping; filt_stopping =
             x.filt_stopping; src_running = x.src_running; sink_running =
             x.sink_running; filt_running = x.filt_running; s_pc = x.s_pc;
             k_pc = x.k_pc; f_pc = x.f_pc; c_stop = x.c_stop; c_start =
             x.c_start; iframe = x.iframe; base = x.base; delivered =
             x.delivered; stored = x.stored; sto_failed = x.sto_failed;
             seen = x.seen; aborted = x.aborted; cam_failed = x.cam_failed;
             acq_on = x.acq_on; src_on = x.src_on; goal = x.goal; mon_fresh =
             x.mon_fresh; dropped = x.dropped; cam_starts = x.cam_starts;
             cam_stops = x.cam_stops; sto_starts = x.sto_starts; sto_stops =
             x.sto_stops })) (fun _ -> Some i) s))
     | DCloseSto i ->
       guard ((&&) (optN_eqb s.sto i) (quiet s))
         (set (fun s0 -> s0.sto_st) (fun f ->
           let h = fun r -> f r.sto_st in
           (fun x -> { valid = x.valid; maxn = x.maxn; cam = x.cam; cam_st =
           x.cam_st; sto = x.sto; sto_st = (h x); cam_tag = x.cam_tag;
           cam_next = x.cam_next; log = x.log; accepting = x.accepting;
           sink_reg = x.sink_reg; sink_cur = x.sink_cur; sink_map =
           x.sink_map; mon_reg = x.mon_reg; mon_cur = x.mon_cur; mon_map =
           x.mon_map; src_stopping = x.src_stopping; abort_win = x.abort_win;
           sink_stopping = x.sink_stopping; filt_stopping = x.filt_stopping;
           src_running = x.src_running; sink_running = x.sink_running;
           filt_running = x.filt_running; s_pc = x.s_pc; k_pc = x.k_pc;
           f_pc = x.f_pc; c_stop = x.c_stop; c_start = x.c_start; iframe =
           x.iframe; base = x.base; delivered = x.delivered; stored =
           x.stored; sto_failed = x.sto_failed; seen = x.seen; aborted =
           x.aborted; cam_failed = x.cam_failed; acq_on = x.acq_on; src_on =
           x.src_on; goal = x.goal; mon_fresh = x.mon_fresh; dropped =
           x.dropped; cam_starts = x.cam_starts; cam_stops = x.cam_stops;
           sto_starts = x.sto_starts; sto_stops = x.sto_stops })) (fun _ ->
           HAwait)
           (set (fun s0 -> s0.sto) (fun f ->
             let o = fun r -> f r.sto in
             (fun x -> { valid = x.valid; maxn = x.maxn; cam = x.cam;
             cam_st = x.cam_st; sto = (o x); sto_st = x.sto_st; cam_tag =
             x.cam_tag; cam_next = x.cam_next; log = x.log; accepting =
             x.accepting; sink_reg = x.sink_reg; sink_cur = x.sink_cur;
             sink_map = x.sink_map; mon_reg = x.mon_reg; mon_cur = x.mon_cur;
             mon_map = x.mon_map; src_stopping = x.src_stopping; abort_win =
             x.abort_win; sink_stopping = x.sink_stopping; filt_stopping =
             x.filt_stopping; src_running = x.src_running; sink_running =
             x.sink_running; filt_running = x.filt_running; s_pc = x.s_pc;
             k_pc = x.k_pc; f_pc = x.f_pc; c_stop = x.c_stop; c_start =
             x.c_start; iframe = x.iframe; base = x.base; delivered =
             x.delivered; stored = x.stored; sto_failed = x.sto_failed;
             seen = x.seen; aborted = x.aborted; cam_failed = x.cam_failed;
             acq_on = x.acq_on; src_on = x.src_on; goal = x.goal; mon_fresh =
             x.mon_fresh; dropped = x.dropped; cam_starts = x.cam_starts;
             cam_stops = x.cam_stops; sto_starts = x.sto_starts; sto_stops =
             x.sto_stops })) (fun _ -> None) s))
     | DSetSto i ->
       guard ((&&) (optN_eqb s.sto i) (quiet s))
         (set (fun s0 -> s0.sto_st) (fun f ->
           let h = fun r -> f r.sto_st in
           (fun x -> { valid = x.valid; maxn = x.maxn; cam = x.cam; cam_st =
           x.cam_st; sto = x.sto; sto_st = (h x); cam_tag = x.cam_tag;
           cam_next = x.cam_next; log = x.log; accepting = x.accepting;
           sink_reg = x.sink_reg; sink_cur = x.sink_cur; sink_map =
           x.sink_map; mon_reg = x.mon_reg; mon_cur = x.mon_cur; mon_map =
           x.mon_map; src_stopping = x.src_stopping; abort_win = x.abort_win;
           sink_stopping = x.sink_stopping; filt_stopping = x.filt_stopping;
           src_running = x.src_running; sink_running = x.sink_running;
           filt_running = x.filt_running; s_pc = x.s_pc; k_pc = x.k_pc;
           f_pc = x.f_pc; c_stop = x.c_stop; c_start = x.c_start; iframe =
           x.iframe; base = x.base; delivered = x.delivered; stored =
           x.stored; sto_failed = x.sto_failed; seen = x.seen; aborted =
           x.aborted; cam_failed = x.cam_failed; acq_on = x.acq_on; src_on =
           x.src_on; goal = x.goal; mon_fresh = x.mon_fresh; dropped =
           x.dropped; cam_starts = x.cam_starts; cam_stops = x.cam_stops;
           sto_starts = x.sto_starts; sto_stops = x.sto_stops })) (fun _ ->
           HArmed) s)
     | DStoStart (i, ok) ->
       guard
         ((&&)
           ((&&) ((&&) (optN_eqb s.sto i) (hst_eqb s.sto_st HArmed))
             (workers_idle s))
           (match s.c_start with
            | TBegin -> true
            | _ -> false))
         (if ok
          then set (fun s0 -> s0.c_start) (fun f ->
                 let c = fun r -> f r.c_start in
                 (fun x -> { valid = x.valid; maxn = x.maxn; cam = x.cam;
                 cam_st = x.cam_st; sto = x.sto; sto_st = x.sto_st; cam_tag =
                 x.cam_tag; cam_next = x.cam_next; log = x.log; accepting =
                 x.accepting; sink_reg = x.sink_reg; sink_cur = x.sink_cur;
                 sink_map = x.sink_map; mon_reg = x.mon_reg; mon_cur =
                 x.mon_cur; mon_map = x.mon_map; src_stopping =
                 x.src_stopping; abort_win = x.abort_win; sink_stopping =
                 x.sink_stopping; filt_stopping = x.filt_stopping;
                 src_running = x.src_running; sink_running = x.sink_running;
                 filt_running = x.filt_running; s_pc = x.s_pc; k_pc = x.k_pc;
                 f_pc = x.f_pc; c_stop = x.c_stop; c_start = (c x); iframe =
                 x.iframe; base = x.base; delivered = x.delivered; stored =
                 x.stored; sto_failed = x.sto_failed; seen = x.seen;
                 aborted = x.aborted; cam_failed = x.cam_failed; acq_on =
                 x.acq_on; src_on = x.src_on; goal = x.goal; mon_fresh =
                 x.mon_fresh; dropped = x.dropped; cam_starts = x.cam_starts;
                 cam_stops = x.cam_stops; sto_starts = x.sto_starts;
                 sto_stops = x.sto_stops })) (fun _ -> TStoStarted)
                 (set (fun s0 -> s0.sto_starts) (fun f ->
                   let n0 = fun r -> f r.sto_starts in
                   (fun x -> { valid = x.valid; maxn = x.maxn; cam = x.cam;
                   cam_st = x.cam_st; sto = x.sto; sto_st = x.sto_st;
                   cam_tag = x.cam_tag; cam_next = x.cam_next; log = x.log;
                   accepting = x.accepting; sink_reg = x.sink_reg; sink_cur =
                   x.sink_cur; sink_map = x.sink_map; mon_reg = x.mon_reg;
                   mon_cur = x.mon_cur; mon_map = x.mon_map; src_stopping =
                   x.src_stopping; abort_win = x.abort_win; sink_stopping =
                   x.sink_stopping; filt_stopping = x.filt_stopping;
                   src_running = x.src_running; sink_running =
                   x.sink_running; filt_running = x.filt_running; s_pc =
                   x.s_pc; k_pc = x.k_pc; f_pc = x.f_pc; c_stop = x.c_stop;
                   c_start = x.c_start; iframe = x.iframe; base = x.base;
                   delivered = x.delivered; stored = x.stored; sto_failed =
                   x.sto_failed; seen = x.seen; aborted = x.aborted;
                   cam_failed = x.cam_failed; acq_on = x.acq_on; src_on =
                   x.src_on; goal = x.goal; mon_fresh = x.mon_fresh;
                   dropped = x.dropped; cam_starts = x.cam_starts;
                   cam_stops = x.cam_stops; sto_starts = (n0 x); sto_stops =
                   x.sto_stops })) (fun x -> S x)
                   (set (fun s0 -> s0.mon_fresh) (fun f ->
                     let b = fun r -> f r.mon_fresh in
                     (fun x -> { valid = x.valid; maxn = x.maxn; cam = x.cam;
                     cam_st = x.cam_st; sto = x.sto; sto_st = x.sto_st;
                     cam_tag = x.cam_tag; cam_next = x.cam_next; log = x.log;
                     accepting = x.accepting; sink_reg = x.sink_reg;
                     sink_cur = x.sink_cur; sink_map = x.sink_map; mon_reg =
                     x.mon_reg; mon_cur = x.mon_cur; mon_map = x.mon_map;
                     src_stopping = x.src_stopping; abort_win = x.abort_win;
                     sink_stopping = x.sink_stopping; filt_stopping =
                     x.filt_stopping; src_running = x.src_running;
                     sink_running = x.sink_running; filt_running =
                     x.filt_running; s_pc = x.s_pc; k_pc = x.k_pc; f_pc =
                     x.f_pc; c_stop = x.c_stop; c_start = x.c_start; iframe =
                     x.iframe; base = x.base; delivered = x.delivered;
                     stored = x.stored; sto_failed = x.sto_failed; seen =
                     x.seen; aborted = x.aborted; cam_failed = x.cam_failed;
                     acq_on = x.acq_on; src_on = x.src_on; goal = x.goal;
                     mon_fresh = (b x); dropped = x.dropped; cam_starts =
                     x.cam_starts; cam_stops = x.cam_stops; sto_starts =
                     x.sto_starts; sto_stops = x.sto_stops })) (fun _ ->
                     (&&) s.mon_reg (Nat.eqb s.mon_cur (length s.log)))
                     (set (fun s0 -> s0.src_on) (fun f ->
                       let b = fun r -> f r.src_on in
                       (fun x -> { valid = x.valid; maxn = x.maxn; cam =
                       x.cam; cam_st = x.cam_st; sto = x.sto; sto_st =
                       x.sto_st; cam_tag = x.cam_tag; cam_next = x.cam_next;
                       log = x.log; accepting = x.accepting; sink_reg =
                       x.sink_reg; sink_cur = x.sink_cur; sink_map =
                       x.sink_map; mon_reg = x.mon_reg; mon_cur = x.mon_cur;
                       mon_map = x.mon_map; src_stopping = x.src_stopping;
                       abort_win = x.abort_win; sink_stopping =
                       x.sink_stopping; filt_stopping = x.filt_stopping;
                       src_running = x.src_running; sink_running =
                       x.sink_running; filt_running = x.filt_running; s_pc =
                       x.s_pc; k_pc = x.k_pc; f_pc = x.f_pc; c_stop =
                       x.c_stop; c_start = x.c_start; iframe = x.iframe;
                       base = x.base; delivered = x.delivered; stored =
                       x.stored; sto_failed = x.sto_failed; seen = x.seen;
                       aborted = x.aborted; cam_failed = x.cam_failed;
                       acq_on = x.acq_on; src_on = (b x); goal = x.goal;
                       mon_fresh = x.mon_fresh; dropped = x.dropped;
                       cam_starts = x.cam_starts; cam_stops = x.cam_stops;
                       sto_starts = x.sto_starts; sto_stops = x.sto_stops }))
                       (fun _ -> false)
                       (set (fun s0 -> s0.acq_on) (fun f ->
                         let b = fun r -> f r.acq_on in
                         (fun x -> { valid = x.valid; maxn = x.maxn; cam =
                         x.cam; cam_st = x.cam_st; sto = x.sto; sto_st =
                         x.sto_st; cam_tag = x.cam_tag; cam_next =
                         x.cam_next; log = x.log; accepting = x.accepting;
                         sink_reg = x.sink_reg; sink_cur = x.sink_cur;
                         sink_map = x.sink_map; mon_reg = x.mon_reg;
                         mon_cur = x.mon_cur; mon_map = x.mon_map;
                         src_stopping = x.src_stopping; abort_win =
                         x.abort_win; sink_stopping = x.sink_stopping;
                         filt_stopping = x.filt_stopping; src_running =
                         x.src_running; sink_running = x.sink_running;
                         filt_running = x.filt_running; s_pc = x.s_pc; k_pc =
                         x.k_pc; f_pc = x.f_pc; c_stop = x.c_stop; c_start =
                         x.c_start; iframe = x.iframe; base = x.base;
                         delivered = x.delivered; stored = x.stored;
                         sto_failed = x.sto_failed; seen = x.seen; aborted =
                         x.aborted; cam_failed = x.cam_failed; acq_on =
                         (b x); src_on = x.src_on; goal = x.goal; mon_fresh =
                         x.mon_fresh; dropped = x.dropped; cam_starts =
                         x.cam_starts; cam_stops = x.cam_stops; sto_starts =
                         x.sto_starts; sto_stops = x.sto_stops })) (fun _ ->
                         false)
                         (set (fun s0 -> s0.cam_failed) (fun f ->
                           let b = fun r -> f r.cam_failed in
                           (fun x -> { valid = x.valid; maxn = x.maxn; cam =
                           x.cam; cam_st = x.cam_st; sto = x.sto; sto_st =
                           x.sto_st; cam_tag = x.cam_tag; cam_next =
                           x.cam_next; log = x.log; accepting = x.accepting;
                           sink_reg = x.sink_reg; sink_cur = x.sink_cur;
                           sink_map = x.sink_map; mon_reg = x.mon_reg;
                           mon_cur = x.mon_cur; mon_map = x.mon_map;
                           src_stopping = x.src_stopping; abort_win =
                           x.abort_win; sink_stopping = x.sink_stopping;
                           filt_stopping = x.filt_stopping; src_running =
                           x.src_running; sink_running = x.sink_running;
                           filt_running = x.filt_running; s_pc = x.s_pc;
                           k_pc = x.k_pc; f_pc = x.f_pc; c_stop = x.c_stop;
                           c_start = x.c_start; iframe = x.iframe; base =
                           x.base; delivered = x.delivered; stored =
                           x.stored; sto_failed = x.sto_failed; seen =
                           x.seen; aborted = x.aborted; cam_failed = 
                           (b x); acq_on = x.acq_on; src_on = x.src_on;
                           goal = x.goal; mon_fresh = x.mon_fresh; dropped =
                           x.dropped; cam_starts = x.cam_starts; cam_stops =
                           x.cam_stops; sto_starts = x.sto_starts;
                           sto_stops = x.sto_stops })) (fun _ -> false)
                           (set (fun s0 -> s0.aborted) (fun f ->
                             let b = fun r -> f r.aborted in
                             (fun x -> { valid = x.valid; maxn = x.maxn;
                             cam = x.cam; cam_st = x.cam_st; sto = x.sto;
                             sto_st = x.sto_st; cam_tag = x.cam_tag;
                             cam_next = x.cam_next; log = x.log; accepting =
                             x.accepting; sink_reg = x.sink_reg; sink_cur =
                             x.sink_cur; sink_map = x.sink_map; mon_reg =
                             x.mon_reg; mon_cur = x.mon_cur; mon_map =
                             x.mon_map; src_stopping = x.src_stopping;
                             abort_win = x.abort_win; sink_stopping =
                             x.sink_stopping; filt_stopping =
                             x.filt_stopping; src_running = x.src_running;
                             sink_running = x.sink_running; filt_running =
                             x.filt_running; s_pc = x.s_pc; k_pc = x.k_pc;
                             f_pc = x.f_pc; c_stop = x.c_stop; c_start =
                             x.c_start; iframe = x.iframe; base = x.base;
                             delivered = x.delivered; stored = x.stored;
                             sto_failed = x.sto_failed; seen = x.seen;
                             aborted = (b x); cam_failed = x.cam_failed;
                             acq_on = x.acq_on; src_on = x.src_on; goal =
                             x.goal; mon_fresh = x.mon_fresh; dropped =
                             x.dropped; cam_starts = x.cam_starts;
                             cam_stops = x.cam_stops; sto_starts =
                             x.sto_starts; sto_stops = x.sto_stops }))
                             (fun _ -> false)
                             (set (fun s0 -> s0.sto_failed) (fun f ->
                               let b = fun r -> f r.sto_failed in
                               (fun x -> { valid = x.valid; maxn = x.maxn;
                               cam = x.cam; cam_st = x.cam_st; sto = x.sto;
                               sto_st = x.sto_st; cam_tag = x.cam_tag;
                               cam_next = x.cam_next; log = x.log;
                               accepting = x.accepting; sink_reg =
                               x.sink_reg; sink_cur = x.sink_cur; sink_map =
                               x.sink_map; mon_reg = x.mon_reg; mon_cur =
                               x.mon_cur; mon_map = x.mon_map; src_stopping =
                               x.src_stopping; abort_win = x.abort_win;
                               sink_stopping = x.sink_stopping;
                               filt_stopping = x.filt_stopping; src_running =
                               x.src_running; sink_running = x.sink_running;
                               filt_running = x.filt_running; s_pc = x.s_pc;
                               k_pc = x.k_pc; f_pc = x.f_pc; c_stop =
                               x.c_stop; c_start = x.c_start; iframe =
                               x.iframe; base = x.base; delivered =
                               x.delivered; stored = x.stored; sto_failed =
                               (b x); seen = x.seen; aborted = x.aborted;
                               cam_failed = x.cam_failed; acq_on = x.acq_on;
                               src_on = x.src_on; goal = x.goal; mon_fresh =
                               x.mon_fresh; dropped = x.dropped; cam_starts =
                               x.cam_starts; cam_stops = x.cam_stops;
                               sto_starts = x.sto_starts; sto_stops =
                               x.sto_stops })) (fun _ -> false)
                               (set (fun s0 -> s0.seen) (fun f ->
                                 let l = fun r -> f r.seen in
                                 (fun x -> { valid = x.valid; maxn = x.maxn;
                                 cam = x.cam; cam_st = x.cam_st; sto = x.sto;
                                 sto_st = x.sto_st; cam_tag = x.cam_tag;
                                 cam_next = x.cam_next; log = x.log;
                                 accepting = x.accepting; sink_reg =
                                 x.sink_reg; sink_cur = x.sink_cur;
                                 sink_map = x.sink_map; mon_reg = x.mon_reg;
                                 mon_cur = x.mon_cur; mon_map = x.mon_map;
                                 src_stopping = x.src_stopping; abort_win =
                                 x.abort_win; sink_stopping =
                                 x.sink_stopping; filt_stopping =
                                 x.filt_stopping; src_running =
                                 x.src_running; sink_running =
                                 x.sink_running; filt_running =
                                 x.filt_running; s_pc = x.s_pc; k_pc =
                                 x.k_pc; f_pc = x.f_pc; c_stop = x.c_stop;
                                 c_start = x.c_start; iframe = x.iframe;
                                 base = x.base; delivered = x.delivered;
                                 stored = x.stored; sto_failed =
                                 x.sto_failed; seen = (l x); aborted =
                                 x.aborted; cam_failed = x.cam_failed;
                                 acq_on = x.acq_on; src_on = x.src_on; goal =
                                 x.goal; mon_fresh = x.mon_fresh; dropped =
                                 x.dropped; cam_starts = x.cam_starts;
                                 cam_stops = x.cam_stops; sto_starts =
                                 x.sto_starts; sto_stops = x.sto_stops }))
                                 (fun _ -> [])
                                 (set (fun s0 -> s0.stored) (fun f ->
                                   let l = fun r -> f r.stored in
                                   (fun x -> { valid = x.valid; maxn =
                                   x.maxn; cam = x.cam; cam_st = x.cam_st;
                                   sto = x.sto; sto_st = x.sto_st; cam_tag =
                                   x.cam_tag; cam_next = x.cam_next; log =
                                   x.log; accepting = x.accepting; sink_reg =
                                   x.sink_reg; sink_cur = x.sink_cur;
                                   sink_map = x.sink_map; mon_reg =
                                   x.mon_reg; mon_cur = x.mon_cur; mon_map =
                                   x.mon_map; src_stopping = x.src_stopping;
                                   abort_win = x.abort_win; sink_stopping =
                                   x.sink_stopping; filt_stopping =
                                   x.filt_stopping; src_running =
                                   x.src_running; sink_running =
                                   x.sink_running; filt_running =
                                   x.filt_running; s_pc = x.s_pc; k_pc =
                                   x.k_pc; f_pc = x.f_pc; c_stop = x.c_stop;
                                   c_start = x.c_start; iframe = x.iframe;
                                   base = x.base; delivered = x.delivered;
                                   stored = (l x); sto_failed = x.sto_failed;
                                   seen = x.seen; aborted = x.aborted;
                                   cam_failed = x.cam_failed; acq_on =
                                   x.acq_on; src_on = x.src_on; goal =
                                   x.goal; mon_fresh = x.mon_fresh; dropped =
                                   x.dropped; cam_starts = x.cam_starts;
                                   cam_stops = x.cam_stops; sto_starts =
                                   x.sto_starts; sto_stops = x.sto_stops }))
                                   (fun _ -> [])
                                   (set (fun s0 -> s0.base) (fun f ->
                                     let n0 = fun r -> f r.base in
                                     (fun x -> { valid = x.valid; maxn =
                                     x.maxn; cam = x.cam; cam_st = x.cam_st;
                                     sto = x.sto; sto_st = x.sto_st;
                                     cam_tag = x.cam_tag; cam_next =
                                     x.cam_next; log = x.log; accepting =
                                     x.accepting; sink_reg = x.sink_reg;
                                     sink_cur = x.sink_cur; sink_map =
                                     x.sink_map; mon_reg = x.mon_reg;
                                     mon_cur = x.mon_cur; mon_map =
                                     x.mon_map; src_stopping =
                                     x.src_stopping; abort_win = x.abort_win;
                                     sink_stopping = x.sink_stopping;
                                     filt_stopping = x.filt_stopping;
                                     src_running = x.src_running;
                                     sink_running = x.sink_running;
                                     filt_running = x.filt_running; s_pc =
                                     x.s_pc; k_pc = x.k_pc; f_pc = x.f_pc;
                                     c_stop = x.c_stop; c_start = x.c_start;
                                     iframe = x.iframe; base = (n0 x);
                                     delivered = x.delivered; stored =
                                     x.stored; sto_failed = x.sto_failed;
                                     seen = x.seen; aborted = x.aborted;
                                     cam_failed = x.cam_failed; acq_on =
                                     x.acq_on; src_on = x.src_on; goal =
                                     x.goal; mon_fresh = x.mon_fresh;
                                     dropped = x.dropped; cam_starts =
                                     x.cam_starts; cam_stops = x.cam_stops;
                                     sto_starts = x.sto_starts; sto_stops =
                                     x.sto_stops })) (fun _ -> length s.log)
                                     (set (fun s0 -> s0.sto_st) (fun f ->
                                       let h = fun r -> f r.sto_st in
                                       (fun x -> { valid = x.valid; maxn =
                                       x.maxn; cam = x.cam; cam_st =
                                       x.cam_st; sto = x.sto; sto_st = 
                                       (h x); cam_tag = x.cam_tag; cam_next =
                                       x.cam_next; log = x.log; accepting =
                                       x.accepting; sink_reg = x.sink_reg;
                                       sink_cur = x.sink_cur; sink_map =
                                       x.sink_map; mon_reg = x.mon_reg;
                                       mon_cur = x.mon_cur; mon_map =
                                       x.mon_map; src_stopping =
                                       x.src_stopping; abort_win =
                                       x.abort_win; sink_stopping =
                                       x.sink_stopping; filt_stopping =
                                       x.filt_stopping; src_running =
                                       x.src_running; sink_running =
                                       x.sink_running; filt_running =
                                       x.filt_running; s_pc = x.s_pc; k_pc =
                                       x.k_pc; f_pc = x.f_pc; c_stop =
                                       x.c_stop; c_start = x.c_start;
                                       iframe = x.iframe; base = x.base;
                                       delivered = x.delivered; stored =
                                       x.stored; sto_failed = x.sto_failed;
                                       seen = x.seen; aborted = x.aborted;
                                       cam_failed = x.cam_failed; acq_on =
                                       x.acq_on; src_on = x.src_on; goal =
                                       x.goal; mon_fresh = x.mon_fresh;
                                       dropped = x.dropped; cam_starts =
                                       x.cam_starts; cam_stops = x.cam_stops;
                                       sto_starts = x.sto_starts; sto_stops =
                                       x.sto_stops })) (fun _ -> HRunning) s)))))))))))
          else set (fun s0 -> s0.c_start) (fun f ->
                 let c = fun r -> f r.c_start in
                 (fun x -> { valid = x.valid; maxn = x.maxn; cam = x.cam;
                 cam_st = x.cam_st; sto = x.sto; sto_st = x.sto_st; cam_tag =
                 x.cam_tag; cam_next = x.cam_next; log = x.log; accepting =
                 x.accepting; sink_reg = x.sink_reg; sink_cur = x.sink_cur;
                 sink_map = x.sink_map; mon_reg = x.mon_reg; mon_cur =
                 x.mon_cur; mon_map = x.mon_map; src_stopping =
                 x.src_stopping; abort_win = x.abort_win; sink_stopping =
                 x.sink_stopping; filt_stopping = x.filt_stopping;
                 src_running = x.src_running; sink_running = x.sink_running;
                 filt_running = x.filt_running; s_pc = x.s_pc; k_pc = x.k_pc;
                 f_pc = x.f_pc; c_stop = x.c_stop; c_start = (c x); iframe =
                 x.iframe; base = x.base; delivered = x.delivered; stored =
                 x.stored; sto_failed = x.sto_failed; seen = x.seen;
                 aborted = x.aborted; cam_failed = x.cam_failed; acq_on =
                 x.acq_on; src_on = x.src_on; goal = x.goal; mon_fresh =
                 x.mon_fresh; dropped = x.dropped; cam_starts = x.cam_starts;
                 cam_stops = x.cam_stops; sto_starts = x.sto_starts;
                 sto_stops = x.sto_stops })) (fun _ -> TFailed)
                 (set (fun s0 -> s0.sto_st) (fun f ->
                   let h = fun r -> f r.sto_st in
                   (fun x -> { valid = x.valid; maxn = x.maxn; cam = x.cam;
                   cam_st = x.cam_st; sto = x.sto; sto_st = (h x); cam_tag =
                   x.cam_tag; cam_next = x.cam_next; log = x.log; accepting =
                   x.accepting; sink_reg = x.sink_reg; sink_cur = x.sink_cur;
                   sink_map = x.sink_map; mon_reg = x.mon_reg; mon_cur =
                   x.mon_cur; mon_map = x.mon_map; src_stopping =
                   x.src_stopping; abort_win = x.abort_win; sink_stopping =
                   x.sink_stopping; filt_stopping = x.filt_stopping;
                   src_running = x.src_running; sink_running =
                   x.sink_running; filt_running = x.filt_running; s_pc =
                   x.s_pc; k_pc = x.k_pc; f_pc = x.f_pc; c_stop = x.c_stop;
                   c_start = x.c_start; iframe = x.iframe; base = x.base;
                   delivered = x.delivered; stored = x.stored; sto_failed =
                   x.sto_failed; seen = x.seen; aborted = x.aborted;
                   cam_failed = x.cam_failed; acq_on = x.acq_on; src_on =
                   x.src_on; goal = x.goal; mon_fresh = x.mon_fresh;
                   dropped = x.dropped; cam_starts = x.cam_starts;
                   cam_stops = x.cam_stops; sto_starts = x.sto_starts;
                   sto_stops = x.sto_stops })) (fun _ -> HAwait) s))
     | DCamStart (i, ok, tag) ->
       guard
         ((&&)
           ((&&) ((&&) (optN_eqb s.cam i) (hst_eqb s.cam_st HArmed))
             (spc_idle s.s_pc))
           (match s.c_start with
            | TFiltUp -> true
            | _ -> false))
         (if ok
          then set (fun s0 -> s0.c_start) (fun f ->
                 let c = fun r -> f r.c_start in
                 (fun x -> { valid = x.valid; maxn = x.maxn; cam = x.cam;
                 cam_st = x.cam_st; sto = x.sto; sto_st = x.sto_st; cam_tag =
                 x.cam_tag; cam_next = x.cam_next; log = x.log; accepting =
                 x.accepting; sink_reg = x.sink_reg; sink_cur = x.sink_cur;
                 sink_map = x.sink_map; mon_reg = x.mon_reg; mon_cur =
                 x.mon_cur; mon_map = x.mon_map; src_stopping =
                 x.src_stopping; abort_win = x.abort_win; sink_stopping =
                 x.sink_stopping; filt_stopping = x.filt_stopping;
                 src_running = x.src_running; sink_running = x.sink_running;
                 filt_running = x.filt_running; s_pc = x.s_pc; k_pc = x.k_pc;
                 f_pc = x.f_pc; c_stop = x.c_stop; c_start = (c x); iframe =
                 x.iframe; base = x.base; delivered = x.delivered; stored =
                 x.stored; sto_failed = x.sto_failed; seen = x.seen;
                 aborted = x.aborted; cam_failed = x.cam_failed; acq_on =
                 x.acq_on; src_on = x.src_on; goal = x.goal; mon_fresh =
                 x.mon_fresh; dropped = x.dropped; cam_starts = x.cam_starts;
                 cam_stops = x.cam_stops; sto_starts = x.sto_starts;
                 sto_stops = x.sto_stops })) (fun _ -> TCamStarted)
                 (set (fun s0 -> s0.cam_starts) (fun f ->
                   let n0 = fun r -> f r.cam_starts in
                   (fun x -> { valid = x.valid; maxn = x.maxn; cam = x.cam;
                   cam_st = x.cam_st; sto = x.sto; sto_st = x.sto_st;
                   cam_tag = x.cam_tag; cam_next = x.cam_next; log = x.log;
                   accepting = x.accepting; sink_reg = x.sink_reg; sink_cur =
                   x.sink_cur; sink_map = x.sink_map; mon_reg = x.mon_reg;
                   mon_cur = x.mon_cur; mon_map = x.mon_map; src_stopping =
                   x.src_stopping; abort_win = x.abort_win; sink_stopping =
                   x.sink_stopping; filt_stopping = x.filt_stopping;
                   src_running = x.src_running; sink_running =
                   x.sink_running; filt_running = x.filt_running; s_pc =
                   x.s_pc; k_pc = x.k_pc; f_pc = x.f_pc; c_stop = x.c_stop;
                   c_start = x.c_start; iframe = x.iframe; base = x.base;
                   delivered = x.delivered; stored = x.stored; sto_failed =
                   x.sto_failed; seen = x.seen; aborted = x.aborted;
                   cam_failed = x.cam_failed; acq_on = x.acq_on; src_on =
                   x.src_on; goal = x.goal; mon_fresh = x.mon_fresh;
                   dropped = x.dropped; cam_starts = (n0 x); cam_stops =
                   x.cam_stops; sto_starts = x.sto_starts; sto_stops =
                   x.sto_stops })) (fun x -> S x)
                   (set (fun s0 -> s0.delivered) (fun f ->
                     let l = fun r -> f r.delivered in
                     (fun x -> { valid = x.valid; maxn = x.maxn; cam = x.cam;
                     cam_st = x.cam_st; sto = x.sto; sto_st = x.sto_st;
                     cam_tag = x.cam_tag; cam_next = x.cam_next; log = x.log;
                     accepting = x.accepting; sink_reg = x.sink_reg;
                     sink_cur = x.sink_cur; sink_map = x.sink_map; mon_reg =
                     x.mon_reg; mon_cur = x.mon_cur; mon_map = x.mon_map;
                     src_stopping = x.src_stopping; abort_win = x.abort_win;
                     sink_stopping = x.sink_stopping; filt_stopping =
                     x.filt_stopping; src_running = x.src_running;
                     sink_running = x.sink_running; filt_running =
                     x.filt_running; s_pc = x.s_pc; k_pc = x.k_pc; f_pc =
                     x.f_pc; c_stop = x.c_stop; c_start = x.c_start; iframe =
                     x.iframe; base = x.base; delivered = (l x); stored =
                     x.stored; sto_failed = x.sto_failed; seen = x.seen;
                     aborted = x.aborted; cam_failed = x.cam_failed; acq_on =
                     x.acq_on; src_on = x.src_on; goal = x.goal; mon_fresh =
                     x.mon_fresh; dropped = x.dropped; cam_starts =
                     x.cam_starts; cam_stops = x.cam_stops; sto_starts =
                     x.sto_starts; sto_stops = x.sto_stops })) (fun _ -> [])
                     (set (fun s0 -> s0.cam_next) (fun f ->
                       let n0 = fun r -> f r.cam_next in
                       (fun x -> { valid = x.valid; maxn = x.maxn; cam =
                       x.cam; cam_st = x.cam_st; sto = x.sto; sto_st =
                       x.sto_st; cam_tag = x.cam_tag; cam_next = (n0 x);
                       log = x.log; accepting = x.accepting; sink_reg =
                       x.sink_reg; sink_cur = x.sink_cur; sink_map =
                       x.sink_map; mon_reg = x.mon_reg; mon_cur = x.mon_cur;
                       mon_map = x.mon_map; src_stopping = x.src_stopping;
                       abort_win = x.abort_win; sink_stopping =
                       x.sink_stopping; filt_stopping = x.filt_stopping;
                       src_running = x.src_running; sink_running =
                       x.sink_running; filt_running = x.filt_running; s_pc =
                       x.s_pc; k_pc = x.k_pc; f_pc = x.f_pc; c_stop =
                       x.c_stop; c_start = x.c_start; iframe = x.iframe;
                       base = x.base; delivered = x.delivered; stored =
                       x.stored; sto_failed = x.sto_failed; seen = x.seen;
                       aborted = x.aborted; cam_failed = x.cam_failed;
                       acq_on = x.acq_on; src_on = x.src_on; goal = x.goal;
                       mon_fresh = x.mon_fresh; dropped = x.dropped;
                       cam_starts = x.cam_starts; cam_stops = x.cam_stops;
                       sto_starts = x.sto_starts; sto_stops = x.sto_stops }))
                       (fun _ -> N0)
                       (set (fun s0 -> s0.cam_tag) (fun f ->
                         let n0 = fun r -> f r.cam_tag in
                         (fun x -> { valid = x.valid; maxn = x.maxn; cam =
                         x.cam; cam_st = x.cam_st; sto = x.sto; sto_st =
                         x.sto_st; cam_tag = (n0 x); cam_next = x.cam_next;
                         log = x.log; accepting = x.accepting; sink_reg =
                         x.sink_reg; sink_cur = x.sink_cur; sink_map =
                         x.sink_map; mon_reg = x.mon_reg; mon_cur =
                         x.mon_cur; mon_map = x.mon_map; src_stopping =
                         x.src_stopping; abort_win = x.abort_win;
                         sink_stopping = x.sink_stopping; filt_stopping =
                         x.filt_stopping; src_running = x.src_running;
                         sink_running = x.sink_running; filt_running =
                         x.filt_running; s_pc = x.s_pc; k_pc = x.k_pc; f_pc =
                         x.f_pc; c_stop = x.c_stop; c_start = x.c_start;
                         iframe = x.iframe; base = x.base; delivered =
                         x.delivered; stored = x.stored; sto_failed =
                         x.sto_failed; seen = x.seen; aborted = x.aborted;
                         cam_failed = x.cam_failed; acq_on = x.acq_on;
                         src_on = x.src_on; goal = x.goal; mon_fresh =
                         x.mon_fresh; dropped = x.dropped; cam_starts =
                         x.cam_starts; cam_stops = x.cam_stops; sto_starts =
                         x.sto_starts; sto_stops = x.sto_stops })) (fun _ ->
                         tag)
                         (set (fun s0 -> s0.cam_st) (fun f ->
                           let h = fun r -> f r.cam_st in
                           (fun x -> { valid = x.valid; maxn = x.maxn; cam =
                           x.cam; cam_st = (h x); sto = x.sto; sto_st =
                           x.sto_st; cam_tag = x.cam_tag; cam_next =
                           x.cam_next; log = x.log; accepting = x.accepting;
                           sink_reg = x.sink_reg; sink_cur = x.sink_cur;
                           sink_map = x.sink_map; mon_reg = x.mon_reg;
                           mon_cur = x.mon_cur; mon_map = x.mon_map;
                           src_stopping = x.src_stopping; abort_win =
                           x.abort_win; sink_stopping = x.sink_stopping;
                           filt_stopping = x.filt_stopping; src_running =
                           x.src_running; sink_running = x.sink_running;
                           filt_running = x.filt_running; s_pc = x.s_pc;
                           k_pc = x.k_pc; f_pc = x.f_pc; c_stop = x.c_stop;
                           c_start = x.c_start; iframe = x.iframe; base =
                           x.base; delivered = x.delivered; stored =
                           x.stored; sto_failed = x.sto_failed; seen =
                           x.seen; aborted = x.aborted; cam_failed =
                           x.cam_failed; acq_on = x.acq_on; src_on =
                           x.src_on; goal = x.goal; mon_fresh = x.mon_fresh;
                           dropped = x.dropped; cam_starts = x.cam_starts;
                           cam_stops = x.cam_stops; sto_starts =
                           x.sto_starts; sto_stops = x.sto_stops }))
                           (fun _ -> HRunning) s)))))
          else set (fun s0 -> s0.c_start) (fun f ->
                 let c = fun r -> f r.c_start in
                 (fun x -> { valid = x.valid; maxn = x.maxn; cam = x.cam;
                 cam_st = x.cam_st; sto = x.sto; sto_st = x.sto_st; cam_tag =
                 x.cam_tag; cam_next = x.cam_next; log = x.log; accepting =
                 x.accepting; sink_reg = x.sink_reg; sink_cur = x.sink_cur;
                 sink_map = x.sink_map; mon_reg = x.mon_reg; mon_cur =
                 x.mon_cur; mon_map = x.mon_map; src_stopping =
                 x.src_stopping; abort_win = x.abort_win; sink_stopping =
                 x.sink_stopping; filt_stopping = x.filt_stopping;
                 src_running = x.src_running; sink_running = x.sink_running;
                 filt_running = x.filt_running; s_pc = x.s_pc; k_pc = x.k_pc;
                 f_pc = x.f_pc; c_stop = x.c_stop; c_start = (c x); iframe =
                 x.iframe; base = x.base; delivered = x.delivered; stored =
                 x.stored; sto_failed = x.sto_failed; seen = x.seen;
                 aborted = x.aborted; cam_failed = x.cam_failed; acq_on =
                 x.acq_on; src_on = x.src_on; goal = x.goal; mon_fresh =
                 x.mon_fresh; dropped = x.dropped; cam_starts = x.cam_starts;
                 cam_stops = x.cam_stops; sto_starts = x.sto_starts;
                 sto_stops = x.sto_stops })) (fun _ -> TFailed)
                 (set (fun s0 -> s0.cam_st) (fun f ->
                   let h = fun r -> f r.cam_st in
                   (fun x -> { valid = x.valid; maxn = x.maxn; cam = x.cam;
                   cam_st = (h x); sto = x.sto; sto_st = x.sto_st; cam_tag =
                   x.cam_tag; cam_next = x.cam_next; log = x.log; accepting =
                   x.accepting; sink_reg = x.sink_reg; sink_cur = x.sink_cur;
                   sink_map = x.sink_map; mon_reg = x.mon_reg; mon_cur =
                   x.mon_cur; mon_map = x.mon_map; src_stopping =
                   x.src_stopping; abort_win = x.abort_win; sink_stopping =
                   x.sink_stopping; filt_stopping = x.filt_stopping;
                   src_running = x.src_running; sink_running =
                   x.sink_running; filt_running = x.filt_running; s_pc =
                   x.s_pc; k_pc = x.k_pc; f_pc = x.f_pc; c_stop = x.c_stop;
                   c_start = x.c_start; iframe = x.iframe; base = x.base;
                   delivered = x.delivered; stored = x.stored; sto_failed =
                   x.sto_failed; seen = x.seen; aborted = x.aborted;
                   cam_failed = x.cam_failed; acq_on = x.acq_on; src_on =
                   x.src_on; goal = x.goal; mon_fresh = x.mon_fresh;
                   dropped = x.dropped; cam_starts = x.cam_starts;
                   cam_stops = x.cam_stops; sto_starts = x.sto_starts;
                   sto_stops = x.sto_stops })) (fun _ -> HAwait) s))
     | DCamStop i ->
       guard
         ((&&) ((&&) (optN_eqb s.cam i) (hst_eqb s.cam_st HRunning))
           (spc_idle s.s_pc))
         (set (fun s0 -> s0.cam_stops) (fun f ->
           let n0 = fun r -> f r.cam_stops in
           (fun x -> { valid = x.valid; maxn = x.maxn; cam = x.cam; cam_st =
           x.cam_st; sto = x.sto; sto_st = x.sto_st; cam_tag = x.cam_tag;
           cam_next = x.cam_next; log = x.log; accepting = x.accepting;
           sink_reg = x.sink_reg; sink_cur = x.sink_cur; sink_map =
           x.sink_map; mon_reg = x.mon_reg; mon_cur = x.mon_cur; mon_map =
           x.mon_map; src_stopping = x.src_stopping; abort_win = x.abort_win;
           sink_stopping = x.sink_stopping; filt_stopping = x.filt_stopping;
           src_running = x.src_running; sink_running = x.sink_running;
           filt_running = x.filt_running; s_pc = x.s_pc; k_pc = x.k_pc;
           f_pc = x.f_pc; c_stop = x.c_stop; c_start = x.c_start; iframe =
           x.iframe; base = x.base; delivered = x.delivered; stored =
           x.stored; sto_failed = x.sto_failed; seen = x.seen; aborted =
           x.aborted; cam_failed = x.cam_failed; acq_on = x.acq_on; src_on =
           x.src_on; goal = x.goal; mon_fresh = x.mon_fresh; dropped =
           x.dropped; cam_starts = x.cam_starts; cam_stops = (n0 x);
           sto_starts = x.sto_starts; sto_stops = x.sto_stops })) (fun x -> S
           x)
           (set (fun s0 -> s0.cam_st) (fun f ->
             let h = fun r -> f r.cam_st in
             (fun x -> { valid = x.valid; maxn = x.maxn; cam = x.cam;
             cam_st = (h x); sto = x.sto; sto_st = x.sto_st; cam_tag =
             x.cam_tag; cam_next = x.cam_next; log = x.log; accepting =
             x.accepting; sink_reg = x.sink_reg; sink_cur = x.sink_cur;
             sink_map = x.sink_map; mon_reg = x.mon_reg; mon_cur = x.mon_cur;
             mon_map = x.mon_map; src_stopping = x.src_stopping; abort_win =
             x.abort_win; sink_stopping = x.sink_stopping; filt_stopping =
             x.filt_stopping; src_running = x.src_running; sink_running =
             x.sink_running; filt_running = x.filt_running; s_pc = x.s_pc;
             k_pc = x.k_pc; f_pc = x.f_pc; c_stop = x.c_stop; c_start =
             x.c_start; iframe = x.iframe; base = x.base; delivered =
             x.delivered; stored = x.stored; sto_failed = x.sto_failed;
             seen = x.seen; aborted = x.aborted; cam_failed = x.cam_failed;
             acq_on = x.acq_on; src_on = x.src_on; goal = x.goal; mon_fresh =
             x.mon_fresh; dropped = x.dropped; cam_starts = x.cam_starts;
             cam_stops = x.cam_stops; sto_starts = x.sto_starts; sto_stops =
             x.sto_stops })) (fun _ -> HArmed) s))
     | DStoStop i ->
       guard
         ((&&) ((&&) (optN_eqb s.sto i) (hst_eqb s.sto_st HRunning))
           (quiet s))
         (set (fun s0 -> s0.sto_stops) (fun f ->
           let n0 = fun r -> f r.sto_stops in
           (fun x -> { valid = x.valid; maxn = x.maxn; cam = x.cam; cam_st =
           x.cam_st; sto = x.sto; sto_st = x.sto_st; cam_tag = x.cam_tag;
           cam_next = x.cam_next; log = x.log; accepting = x.accepting;
           sink_reg = x.sink_reg; sink_cur = x.sink_cur; sink_map =
           x.sink_map; mon_reg = x.mon_reg; mon_cur = x.mon_cur; mon_map =
           x.mon_map; src_stopping = x.src_stopping; abort_win = x.abort_win;
           sink_stopping = x.sink_stopping; filt_stopping = x.filt_stopping;
           src_running = x.src_running; sink_running = x.sink_running;
           filt_running = x.filt_running; s_pc = x.s_pc; k_pc = x.k_pc;
           f_pc = x.f_pc; c_stop = x.c_stop; c_start = x.c_start; iframe =
           x.iframe; base = x.base; delivered = x.delivered; stored =
           x.stored; sto_failed = x.sto_failed; seen = x.seen; aborted =
           x.aborted; cam_failed = x.cam_failed; acq_on = x.acq_on; src_on =
           x.src_on; goal = x.goal; mon_fresh = x.mon_fresh; dropped =
           x.dropped; cam_starts = x.cam_starts; cam_stops = x.cam_stops;
           sto_starts = x.sto_starts; sto_stops = (n0 x) })) (fun x -> S x)
           (set (fun s0 -> s0.sto_st) (fun f ->
             let h = fun r -> f r.sto_st in
             (fun x -> { valid = x.valid; maxn = x.maxn; cam = x.cam;
             cam_st = x.cam_st; sto = x.sto; sto_st = (h x); cam_tag =
             x.cam_tag; cam_next = x.cam_next; log = x.log; accepting =
             x.accepting; sink_reg = x.sink_reg; sink_cur = x.sink_cur;
             sink_map = x.sink_map; mon_reg = x.mon_reg; mon_cur = x.mon_cur;
             mon_map = x.mon_map; src_stopping = x.src_stopping; abort_win =
             x.abort_win; sink_stopping = x.sink_stopping; filt_stopping =
             x.filt_stopping; src_running = x.src_running; sink_running =
             x.sink_running; filt_running = x.filt_running; s_pc = x.s_pc;
             k_pc = x.k_pc; f_pc = x.f_pc; c_stop = x.c_stop; c_start =
             x.c_start; iframe = x.iframe; base = x.base; delivered =
             x.delivered; stored = x.stored; sto_failed = x.sto_failed;
             seen = x.seen; aborted = x.aborted; cam_failed = x.cam_failed;
             acq_on = x.acq_on; src_on = x.src_on; goal = x.goal; mon_fresh =
             x.mon_fresh; dropped = x.dropped; cam_starts = x.cam_starts;
             cam_stops = x.cam_stops; sto_starts = x.sto_starts; sto_stops =
             x.sto_stops })) (fun _ -> HArmed) s))
     | DTrigger i ->
       guard ((&&) (optN_eqb s.cam i) (hst_eqb s.cam_st HRunning)) s
     | Accept b ->
       if b
       then (match s.c_stop with
             | CNone ->
               (match s.c_start with
                | TStoStarted ->
                  Some
                    (set (fun s0 -> s0.c_start) (fun f ->
                      let c = fun r -> f r.c_start in
                      (fun x -> { valid = x.valid; maxn = x.maxn; cam =
                      x.cam; cam_st = x.cam_st; sto = x.sto; sto_st =
                      x.sto_st; cam_tag = x.cam_tag; cam_next = x.cam_next;
                      log = x.log; accepting = x.accepting; sink_reg =
                      x.sink_reg; sink_cur = x.sink_cur; sink_map =
                      x.sink_map; mon_reg = x.mon_reg; mon_cur = x.mon_cur;
                      mon_map = x.mon_map; src_stopping = x.src_stopping;
                      abort_win = x.abort_win; sink_stopping =
                      x.sink_stopping; filt_stopping = x.filt_stopping;
                      src_running = x.src_running; sink_running =
                      x.sink_running; filt_running = x.filt_running; s_pc =
                      x.s_pc; k_pc = x.k_pc; f_pc = x.f_pc; c_stop =
                      x.c_stop; c_start = (c x); iframe = x.iframe; base =
                      x.base; delivered = x.delivered; stored = x.stored;
                      sto_failed = x.sto_failed; seen = x.seen; aborted =
                      x.aborted; cam_failed = x.cam_failed; acq_on =
                      x.acq_on; src_on = x.src_on; goal = x.goal; mon_fresh =
                      x.mon_fresh; dropped = x.dropped; cam_starts =
                      x.cam_starts; cam_stops = x.cam_stops; sto_starts =
                      x.sto_starts; sto_stops = x.sto_stops })) (fun _ ->
                      TAccepted)
                      (set (fun s0 -> s0.acq_on) (fun f ->
                        let b0 = fun r -> f r.acq_on in
                        (fun x -> { valid = x.valid; maxn = x.maxn; cam =
                        x.cam; cam_st = x.cam_st; sto = x.sto; sto_st =
                        x.sto_st; cam_tag = x.cam_tag; cam_next = x.cam_next;
                        log = x.log; accepting = x.accepting; sink_reg =
                        x.sink_reg; sink_cur = x.sink_cur; sink_map =
                        x.sink_map; mon_reg = x.mon_reg; mon_cur = x.mon_cur;
                        mon_map = x.mon_map; src_stopping = x.src_stopping;
                        abort_win = x.abort_win; sink_stopping =
                        x.sink_stopping; filt_stopping = x.filt_stopping;
                        src_running = x.src_running; sink_running =
                        x.sink_running; filt_running = x.filt_running; s_pc =
                        x.s_pc; k_pc = x.k_pc; f_pc = x.f_pc; c_stop =
                        x.c_stop; c_start = x.c_start; iframe = x.iframe;
                        base = x.base; delivered = x.delivered; stored =
                        x.stored; sto_failed = x.sto_failed; seen = x.seen;
                        aborted = x.aborted; cam_failed = x.cam_failed;
                        acq_on = (b0 x); src_on = x.src_on; goal = x.goal;
                        mon_fresh = x.mon_fresh; dropped = x.dropped;
                        cam_starts = x.cam_starts; cam_stops = x.cam_stops;
                        sto_starts = x.sto_starts; sto_stops = x.sto_stops }))
                        (fun _ -> true)
                        (set (fun s0 -> s0.accepting) (fun f ->
                          let b0 = fun r -> f r.accepting in
                          (fun x -> { valid = x.valid; maxn = x.maxn; cam =
                          x.cam; cam_st = x.cam_st; sto = x.sto; sto_st =
                          x.sto_st; cam_tag = x.cam_tag; cam_next =
                          x.cam_next; log = x.log; accepting = (b0 x);
                          sink_reg = x.sink_reg; sink_cur = x.sink_cur;
                          sink_map = x.sink_map; mon_reg = x.mon_reg;
                          mon_cur = x.mon_cur; mon_map = x.mon_map;
                          src_stopping = x.src_stopping; abort_win =
                          x.abort_win; sink_stopping = x.sink_stopping;
                          filt_stopping = x.filt_stopping; src_running =
                          x.src_running; sink_running = x.sink_running;
                          filt_running = x.filt_running; s_pc = x.s_pc;
                          k_pc = x.k_pc; f_pc = x.f_pc; c_stop = x.c_stop;
                          c_start = x.c_start; iframe = x.iframe; base =
                          x.base; delivered = x.delivered; stored = x.stored;
                          sto_failed = x.sto_failed; seen = x.seen; aborted =
                          x.aborted; cam_failed = x.cam_failed; acq_on =
                          x.acq_on; src_on = x.src_on; goal = x.goal;
                          mon_fresh = x.mon_fresh; dropped = x.dropped;
                          cam_starts = x.cam_starts; cam_stops = x.cam_stops;
                          sto_starts = x.sto_starts; sto_stops =
                          x.sto_stops })) (fun _ -> true) s)))
                | _ -> None)
             | CWaitJoin ->
               guard (workers_idle s)
                 (set (fun s0 -> s0.c_stop) (fun f ->
                   let c = fun r -> f r.c_stop in
                   (fun x -> { valid = x.valid; maxn = x.maxn; cam = x.cam;
                   cam_st = x.cam_st; sto = x.sto; sto_st = x.sto_st;
                   cam_tag = x.cam_tag; cam_next = x.cam_next; log = x.log;
                   accepting = x.accepting; sink_reg = x.sink_reg; sink_cur =
                   x.sink_cur; sink_map = x.sink_map; mon_reg = x.mon_reg;
                   mon_cur = x.mon_cur; mon_map = x.mon_map; src_stopping =
                   x.src_stopping; abort_win = x.abort_win; sink_stopping =
                   x.sink_stopping; filt_stopping = x.filt_stopping;
                   src_running = x.src_running; sink_running =
                   x.sink_running; filt_running = x.filt_running; s_pc =
                   x.s_pc; k_pc = x.k_pc; f_pc = x.f_pc; c_stop = (c x);
                   c_start = x.c_start; iframe = x.iframe; base = x.base;
                   delivered = x.delivered; stored = x.stored; sto_failed =
                   x.sto_failed; seen = x.seen; aborted = x.aborted;
                   cam_failed = x.cam_failed; acq_on = x.acq_on; src_on =
                   x.src_on; goal = x.goal; mon_fresh = x.mon_fresh;
                   dropped = x.dropped; cam_starts = x.cam_starts;
                   cam_stops = x.cam_stops; sto_starts = x.sto_starts;
                   sto_stops = x.sto_stops })) (fun _ ->
                   if s.mon_reg then CFlush0 else CStopped)
                   (set (fun s0 -> s0.accepting) (fun f ->
                     let b0 = fun r -> f r.accepting in
                     (fun x -> { valid = x.valid; maxn = x.maxn; cam = x.cam;
                     cam_st = x.cam_st; sto = x.sto; sto_st = x.sto_st;
                     cam_tag = x.cam_tag; cam_next = x.cam_next; log = x.log;
                     accepting = (b0 x); sink_reg = x.sink_reg; sink_cur =
                     x.sink_cur; sink_map = x.sink_map; mon_reg = x.mon_reg;
                     mon_cur = x.mon_cur; mon_map = x.mon_map; src_stopping =
                     x.src_stopping; abort_win = x.abort_win; sink_stopping =
                     x.sink_stopping; filt_stopping = x.filt_stopping;
                     src_running = x.src_running; sink_running =
                     x.sink_running; filt_running = x.filt_running; s_pc =
                     x.s_pc; k_pc = x.k_pc; f_pc = x.f_pc; c_stop = x.c_stop;
                     c_start = x.c_start; iframe = x.iframe; base = x.base;
                     delivered = x.delivered; stored = x.stored; sto_failed =
                     x.sto_failed; seen = x.seen; aborted = x.aborted;
                     cam_failed = x.cam_failed; acq_on = x.acq_on; src_on =
                     x.src_on; goal = x.goal; mon_fresh = x.mon_fresh;
                     dropped = x.dropped; cam_starts = x.cam_starts;
                     cam_stops = x.cam_stops; sto_starts = x.sto_starts;
                     sto_stops = x.sto_stops })) (fun _ -> true) s))
             | _ -> None)
       else guard (match s.c_stop with
                   | CWaitJoin -> true
                   | _ -> false)
              (set (fun s0 -> s0.aborted) (fun f ->
                let b0 = fun r -> f r.aborted in
                (fun x -> { valid = x.valid; maxn = x.maxn; cam = x.cam;
                cam_st = x.cam_st; sto = x.sto; sto_st = x.sto_st; cam_tag =
                x.cam_tag; cam_next = x.cam_next; log = x.log; accepting =
                x.accepting; sink_reg = x.sink_reg; sink_cur = x.sink_cur;
                sink_map = x.sink_map; mon_reg = x.mon_reg; mon_cur =
                x.mon_cur; mon_map = x.mon_map; src_stopping =
                x.src_stopping; abort_win = x.abort_win; sink_stopping =
                x.sink_stopping; filt_stopping = x.filt_stopping;
                src_running = x.src_running; sink_running = x.sink_running;
                filt_running = x.filt_running; s_pc = x.s_pc; k_pc = x.k_pc;
                f_pc = x.f_pc; c_stop = x.c_stop; c_start = x.c_start;
                iframe = x.iframe; base = x.base; delivered = x.delivered;
                stored = x.stored; sto_failed = x.sto_failed; seen = x.seen;
                aborted = (b0 x); cam_failed = x.cam_failed; acq_on =
                x.acq_on; src_on = x.src_on; goal = x.goal; mon_fresh =
                x.mon_fresh; dropped = x.dropped; cam_starts = x.cam_starts;
                cam_stops = x.cam_stops; sto_starts = x.sto_starts;
                sto_stops = x.sto_stops })) (fun _ -> true)
                (set (fun s0 -> s0.abort_win) (fun f ->
                  let b0 = fun r -> f r.abort_win in
                  (fun x -> { valid = x.valid; maxn = x.maxn; cam = x.cam;
                  cam_st = x.cam_st; sto = x.sto; sto_st = x.sto_st;
                  cam_tag = x.cam_tag; cam_next = x.cam_next; log = x.log;
                  accepting = x.accepting; sink_reg = x.sink_reg; sink_cur =
                  x.sink_cur; sink_map = x.sink_map; mon_reg = x.mon_reg;
                  mon_cur = x.mon_cur; mon_map = x.mon_map; src_stopping =
                  x.src_stopping; abort_win = (b0 x); sink_stopping =
                  x.sink_stopping; filt_stopping = x.filt_stopping;
                  src_running = x.src_running; sink_running = x.sink_running;
                  filt_running = x.filt_running; s_pc = x.s_pc; k_pc =
                  x.k_pc; f_pc = x.f_pc; c_stop = x.c_stop; c_start =
                  x.c_start; iframe = x.iframe; base = x.base; delivered =
                  x.delivered; stored = x.stored; sto_failed = x.sto_failed;
                  seen = x.seen; aborted = x.aborted; cam_failed =
                  x.cam_failed; acq_on = x.acq_on; src_on = x.src_on; goal =
                  x.goal; mon_fresh = x.mon_fresh; dropped = x.dropped;
                  cam_starts = x.cam_starts; cam_stops = x.cam_stops;
                  sto_starts = x.sto_starts; sto_stops = x.sto_stops }))
                  (fun _ -> false)
                  (set (fun s0 -> s0.src_stopping) (fun f ->
                    let b0 = fun r -> f r.src_stopping in
                    (fun x -> { valid = x.valid; maxn = x.maxn; cam = x.cam;
                    cam_st = x.cam_st; sto = x.sto; sto_st = x.sto_st;
                    cam_tag = x.cam_tag; cam_next = x.cam_next; log = x.log;
                    accepting = x.accepting; sink_reg = x.sink_reg;
                    sink_cur = x.sink_cur; sink_map = x.sink_map; mon_reg =
                    x.mon_reg; mon_cur = x.mon_cur; mon_map = x.mon_map;
                    src_stopping = (b0 x); abort_win = x.abort_win;
                    sink_stopping = x.sink_stopping; filt_stopping =
                    x.filt_stopping; src_running = x.src_running;
                    sink_running = x.sink_running; filt_running =
                    x.filt_running; s_pc = x.s_pc; k_pc = x.k_pc; f_pc =
                    x.f_pc; c_stop = x.c_stop; c_start = x.c_start; iframe =
                    x.iframe; base = x.base; delivered = x.delivered;
                    stored = x.stored; sto_failed = x.sto_failed; seen =
                    x.seen; aborted = x.aborted; cam_failed = x.cam_failed;
                    acq_on = x.acq_on; src_on = x.src_on; goal = x.goal;
                    mon_fresh = x.mon_fresh; dropped = x.dropped;
                    cam_starts = x.cam_starts; cam_stops = x.cam_stops;
                    sto_starts = x.sto_starts; sto_stops = x.sto_stops }))
                    (fun _ -> true)
                    (set (fun s0 -> s0.accepting) (fun f ->
                      let b0 = fun r -> f r.accepting in
                      (fun x -> { valid = x.valid; maxn = x.maxn; cam =
                      x.cam; cam_st = x.cam_st; sto = x.sto; sto_st =
                      x.sto_st; cam_tag = x.cam_tag; cam_next = x.cam_next;
                      log = x.log; accepting = (b0 x); sink_reg = x.sink_reg;
                      sink_cur = x.sink_cur; sink_map = x.sink_map; mon_reg =
                      x.mon_reg; mon_cur = x.mon_cur; mon_map = x.mon_map;
                      src_stopping = x.src_stopping; abort_win = x.abort_win;
                      sink_stopping = x.sink_stopping; filt_stopping =
                      x.filt_stopping; src_running = x.src_running;
                      sink_running = x.sink_running; filt_running =
                      x.filt_running; s_pc = x.s_pc; k_pc = x.k_pc; f_pc =
                      x.f_pc; c_stop = x.c_stop; c_start = x.c_start;
                      iframe = x.iframe; base = x.base; delivered =
                      x.delivered; stored = x.stored; sto_failed =
                      x.sto_failed; seen = x.seen; aborted = x.aborted;
                      cam_failed = x.cam_failed; acq_on = x.acq_on; src_on =
                      x.src_on; goal = x.goal; mon_fresh = x.mon_fresh;
                      dropped = x.dropped; cam_starts = x.cam_starts;
                      cam_stops = x.cam_stops; sto_starts = x.sto_starts;
                      sto_stops = x.sto_stops })) (fun _ -> false) s))))
     | RMapEnter r ->
       (match r with
        | RdSink ->
          guard (match s.c_start with
                 | TAccepted -> true
                 | _ -> false)
            (set (fun s0 -> s0.c_start) (fun f ->
              let c = fun r0 -> f r0.c_start in
              (fun x -> { valid = x.valid; maxn = x.maxn; cam = x.cam;
              cam_st = x.cam_st; sto = x.sto; sto_st = x.sto_st; cam_tag =
              x.cam_tag; cam_next = x.cam_next; log = x.log; accepting =
              x.accepting; sink_reg = x.sink_reg; sink_cur = x.sink_cur;
              sink_map = x.sink_map; mon_reg = x.mon_reg; mon_cur =
              x.mon_cur; mon_map = x.mon_map; src_stopping = x.src_stopping;
              abort_win = x.abort_win; sink_stopping = x.sink_stopping;
              filt_stopping = x.filt_stopping; src_running = x.src_running;
              sink_running = x.sink_running; filt_running = x.filt_running;
              s_pc = x.s_pc; k_pc = x.k_pc; f_pc = x.f_pc; c_stop = x.c_stop;
              c_start = (c x); iframe = x.iframe; base = x.base; delivered =
              x.delivered; stored = x.stored; sto_failed = x.sto_failed;
              seen = x.seen; aborted = x.aborted; cam_failed = x.cam_failed;
              acq_on = x.acq_on; src_on = x.src_on; goal = x.goal;
              mon_fresh = x.mon_fresh; dropped = x.dropped; cam_starts =
              x.cam_starts; cam_stops = x.cam_stops; sto_starts =
              x.sto_starts; sto_stops = x.sto_stops })) (fun _ -> TRegEnter)
              s)
        | RdMon ->
          (match s.c_stop with
           | CNone ->
             guard (match s.mon_map with
                    | Some _ -> false
                    | None -> true) s
           | CFlush ->
             Some
               (set (fun s0 -> s0.c_stop) (fun f ->
                 let c = fun r0 -> f r0.c_stop in
                 (fun x -> { valid = x.valid; maxn = x.maxn; cam = x.cam;
                 cam_st = x.cam_st; sto = x.sto; sto_st = x.sto_st; cam_tag =
                 x.cam_tag; cam_next = x.cam_next; log = x.log; accepting =
                 x.accepting; sink_reg = x.sink_reg; sink_cur = x.sink_cur;
                 sink_map = x.sink_map; mon_reg = x.mon_reg; mon_cur =
                 x.mon_cur; mon_map = x.mon_map; src_stopping =
                 x.src_stopping; abort_win = x.abort_win; sink_stopping =
                 x.sink_stopping; filt_stopping = x.filt_stopping;
                 src_running = x.src_running; sink_running = x.sink_running;
                 filt_running = x.filt_running; s_pc = x.s_pc; k_pc = x.k_pc;
                 f_pc = x.f_pc; c_stop = (c x); c_start = x.c_start; iframe =
                 x.iframe; base = x.base; delivered = x.delivered; stored =
                 x.stored; sto_failed = x.sto_failed; seen = x.seen;
                 aborted = x.aborted; cam_failed = x.cam_failed; acq_on =
                 x.acq_on; src_on = x.src_on; goal = x.goal; mon_fresh =
                 x.mon_fresh; dropped = x.dropped; cam_starts = x.cam_starts;
                 cam_stops = x.cam_stops; sto_starts = x.sto_starts;
                 sto_stops = x.sto_stops })) (fun _ -> CFlushMapping) s)
           | _ -> None))
     | RMap (r, fs) ->
       (match r with
        | RdSink ->
          let j =
            if s.sink_reg
            then s.sink_cur
            else (match fs with
                  | [] -> length s.log
                  | f :: _ -> find_idx f s.log)
          in
          guard
            ((&&)
              ((&&) (match s.c_start with
                     | TRegEnter -> true
                     | _ -> false) (read_ok s.log j fs))
              (match s.sink_map with
               | Some _ -> false
               | None -> true))
            (set (fun s0 -> s0.c_start) (fun f ->
              let c = fun r0 -> f r0.c_start in
              (fun x -> { valid = x.valid; maxn = x.maxn; cam = x.cam;
              cam_st = x.cam_st; sto = x.sto; sto_st = x.sto_st; cam_tag =
              x.cam_tag; cam_next = x.cam_next; log = x.log; accepting =
              x.accepting; sink_reg = x.sink_reg; sink_cur = x.sink_cur;
              sink_map = x.sink_map; mon_reg = x.mon_reg; mon_cur =
              x.mon_cur; mon_map = x.mon_map; src_stopping = x.src_stopping;
              abort_win = x.abort_win; sink_stopping = x.sink_stopping;
              filt_stopping = x.filt_stopping; src_running = x.src_running;
              sink_running = x.sink_running; filt_running = x.filt_running;
              s_pc = x.s_pc; k_pc = x.k_pc; f_pc = x.f_pc; c_stop = x.c_stop;
              c_start = (c x); iframe = x.iframe; base = x.base; delivered =
              x.delivered; stored = x.stored; sto_failed = x.sto_failed;
              seen = x.seen; aborted = x.aborted; cam_failed = x.cam_failed;
              acq_on = x.acq_on; src_on = x.src_on; goal = x.goal;
              mon_fresh = x.mon_fresh; dropped = x.dropped; cam_starts =
              x.cam_starts; cam_stops = x.cam_stops; sto_starts =
              x.sto_starts; sto_stops = x.sto_stops })) (fun _ -> TRegMapped)
              (set (fun s0 -> s0.sink_cur) (fun f ->
                let n0 = fun r0 -> f r0.sink_cur in
                (fun x -> { valid = x.valid; maxn = x.maxn; cam = x.cam;
                cam_st = x.cam_st; sto = x.sto; sto_st = x.sto_st; cam_tag =
                x.cam_tag; cam_next = x.cam_next; log = x.log; accepting =
                x.accepting; sink_reg = x.sink_reg; sink_cur = (n0 x);
                sink_map = x.sink_map; mon_reg = x.mon_reg; mon_cur =
                x.mon_cur; mon_map = x.mon_map; src_stopping =
                x.src_stopping; abort_win = x.abort_win; sink_stopping =
                x.sink_stopping; filt_stopping = x.filt_stopping;
                src_running = x.src_running; sink_running = x.sink_running;
                filt_running = x.filt_running; s_pc = x.s_pc; k_pc = x.k_pc;
                f_pc = x.f_pc; c_stop = x.c_stop; c_start = x.c_start;
                iframe = x.iframe; base = x.base; delivered = x.delivered;
                stored = x.stored; sto_failed = x.sto_failed; seen = x.seen;
                aborted = x.aborted; cam_failed = x.cam_failed; acq_on =
                x.acq_on; src_on = x.src_on; goal = x.goal; mon_fresh =
                x.mon_fresh; dropped = x.dropped; cam_starts = x.cam_starts;
                cam_stops = x.cam_stops; sto_starts = x.sto_starts;
                sto_stops = x.sto_stops })) (fun _ -> j)
                (set (fun s0 -> s0.sink_reg) (fun f ->
                  let b = fun r0 -> f r0.sink_reg in
                  (fun x -> { valid = x.valid; maxn = x.maxn; cam = x.cam;
                  cam_st = x.cam_st; sto = x.sto; sto_st = x.sto_st;
                  cam_tag = x.cam_tag; cam_next = x.cam_next; log = x.log;
                  accepting = x.accepting; sink_reg = (b x); sink_cur =
                  x.sink_cur; sink_map = x.sink_map; mon_reg = x.mon_reg;
                  mon_cur = x.mon_cur; mon_map = x.mon_map; src_stopping =
                  x.src_stopping; abort_win = x.abort_win; sink_stopping =
                  x.sink_stopping; filt_stopping = x.filt_stopping;
                  src_running = x.src_running; sink_running = x.sink_running;
                  filt_running = x.filt_running; s_pc = x.s_pc; k_pc =
                  x.k_pc; f_pc = x.f_pc; c_stop = x.c_stop; c_start =
                  x.c_start; iframe = x.iframe; base = x.base; delivered =
                  x.delivered; stored = x.stored; sto_failed = x.sto_failed;
                  seen = x.seen; aborted = x.aborted; cam_failed =
                  x.cam_failed; acq_on = x.acq_on; src_on = x.src_on; goal =
                  x.goal; mon_fresh = x.mon_fresh; dropped = x.dropped;
                  cam_starts = x.cam_starts; cam_stops = x.cam_stops;
                  sto_starts = x.sto_starts; sto_stops = x.sto_stops }))
                  (fun _ -> true) s)))
        | RdMon ->
          let k = length fs in
          let j =
            if s.mon_reg
            then s.mon_cur
            else (match fs with
                  | [] -> length s.log
                  | f :: _ -> find_idx f s.log)
          in
          (match s.c_stop with
           | CNone ->
             (match s.mon_map with
              | Some _ -> None
              | None ->
                guard (read_ok s.log j fs)
                  (set (fun s0 -> s0.c_stop) (fun f ->
                    let c = fun r0 -> f r0.c_stop in
                    (fun x -> { valid = x.valid; maxn = x.maxn; cam = x.cam;
                    cam_st = x.cam_st; sto = x.sto; sto_st = x.sto_st;
                    cam_tag = x.cam_tag; cam_next = x.cam_next; log = x.log;
                    accepting = x.accepting; sink_reg = x.sink_reg;
                    sink_cur = x.sink_cur; sink_map = x.sink_map; mon_reg =
                    x.mon_reg; mon_cur = x.mon_cur; mon_map = x.mon_map;
                    src_stopping = x.src_stopping; abort_win = x.abort_win;
                    sink_stopping = x.sink_stopping; filt_stopping =
                    x.filt_stopping; src_running = x.src_running;
                    sink_running = x.sink_running; filt_running =
                    x.filt_running; s_pc = x.s_pc; k_pc = x.k_pc; f_pc =
                    x.f_pc; c_stop = (c x); c_start = x.c_start; iframe =
                    x.iframe; base = x.base; delivered = x.delivered;
                    stored = x.stored; sto_failed = x.sto_failed; seen =
                    x.seen; aborted = x.aborted; cam_failed = x.cam_failed;
                    acq_on = x.acq_on; src_on = x.src_on; goal = x.goal;
                    mon_fresh = x.mon_fresh; dropped = x.dropped;
                    cam_starts = x.cam_starts; cam_stops = x.cam_stops;
                    sto_starts = x.sto_starts; sto_stops = x.sto_stops }))
                    (fun _ ->
                    match s.c_stop with
                    | CFlushMapping -> CFlushMapped k
                    | x -> x)
                    (set (fun s0 -> s0.mon_map) (fun f ->
                      let o = fun r0 -> f r0.mon_map in
                      (fun x -> { valid = x.valid; maxn = x.maxn; cam =
                      x.cam; cam_st = x.cam_st; sto = x.sto; sto_st =
                      x.sto_st; cam_tag = x.cam_tag; cam_next = x.cam_next;
                      log = x.log; accepting = x.accepting; sink_reg =
                      x.sink_reg; sink_cur = x.sink_cur; sink_map =
                      x.sink_map; mon_reg = x.mon_reg; mon_cur = x.mon_cur;
                      mon_map = (o x); src_stopping = x.src_stopping;
                      abort_win = x.abort_win; sink_stopping =
                      x.sink_stopping; filt_stopping = x.filt_stopping;
                      src_running = x.src_running; sink_running =
                      x.sink_running; filt_running = x.filt_running; s_pc =
                      x.s_pc; k_pc = x.k_pc; f_pc = x.f_pc; c_stop =
                      x.c_stop; c_start = x.c_start; iframe = x.iframe;
                      base = x.base; delivered = x.delivered; stored =
                      x.stored; sto_failed = x.sto_failed; seen = x.seen;
                      aborted = x.aborted; cam_failed = x.cam_failed;
                      acq_on = x.acq_on; src_on = x.src_on; goal = x.goal;
                      mon_fresh = x.mon_fresh; dropped = x.dropped;
                      cam_starts = x.cam_starts; cam_stops = x.cam_stops;
                      sto_starts = x.sto_starts; sto_stops = x.sto_stops }))
                      (fun _ -> if Nat.eqb k O then None else Some k)
                      (set (fun s0 -> s0.mon_cur) (fun f ->
                        let n0 = fun r0 -> f r0.mon_cur in
                        (fun x -> { valid = x.valid; maxn = x.maxn; cam =
                        x.cam; cam_st = x.cam_st; sto = x.sto; sto_st =
                        x.sto_st; cam_tag = x.cam_tag; cam_next = x.cam_next;
                        log = x.log; accepting = x.accepting; sink_reg =
                        x.sink_reg; sink_cur = x.sink_cur; sink_map =
                        x.sink_map; mon_reg = x.mon_reg; mon_cur = (n0 x);
                        mon_map = x.mon_map; src_stopping = x.src_stopping;
                        abort_win = x.abort_win; sink_stopping =
                        x.sink_stopping; filt_stopping = x.filt_stopping;
                        src_running = x.src_running; sink_running =
                        x.sink_running; filt_running = x.filt_running; s_pc =
                        x.s_pc; k_pc = x.k_pc; f_pc = x.f_pc; c_stop =
                        x.c_stop; c_start = x.c_start; iframe = x.iframe;
                        base = x.base; delivered = x.delivered; stored =
                        x.stored; sto_failed = x.sto_failed; seen = x.seen;
                        aborted = x.aborted; cam_failed = x.cam_failed;
                        acq_on = x.acq_on; src_on = x.src_on; goal = x.goal;
                        mon_fresh = x.mon_fresh; dropped = x.dropped;
                        cam_starts = x.cam_starts; cam_stops = x.cam_stops;
                        sto_starts = x.sto_starts; sto_stops = x.sto_stops }))
                        (fun _ -> j)
                        (set (fun s0 -> s0.mon_reg) (fun f ->
                          let b = fun r0 -> f r0.mon_reg in
                          (fun x -> { valid = x.valid; maxn = x.maxn; cam =
                          x.cam; cam_st = x.cam_st; sto = x.sto; sto_st =
                          x.sto_st; cam_tag = x.cam_tag; cam_next =
                          x.cam_next; log = x.log; accepting = x.accepting;
                          sink_reg = x.sink_reg; sink_cur = x.sink_cur;
                          sink_map = x.sink_map; mon_reg = (b x); mon_cur =
                          x.mon_cur; mon_map = x.mon_map; src_stopping =
                          x.src_stopping; abort_win = x.abort_win;
                          sink_stopping = x.sink_stopping; filt_stopping =
                          x.filt_stopping; src_running = x.src_running;
                          sink_running = x.sink_running; filt_running =
                          x.filt_running; s_pc = x.s_pc; k_pc = x.k_pc;
                          f_pc = x.f_pc; c_stop = x.c_stop; c_start =
                          x.c_start; iframe = x.iframe; base = x.base;
                          delivered = x.delivered; stored = x.stored;
                          sto_failed = x.sto_failed; seen = x.seen; aborted =
                          x.aborted; cam_failed = x.cam_failed; acq_on =
                          x.acq_on; src_on = x.src_on; goal = x.goal;
                          mon_fresh = x.mon_fresh; dropped = x.dropped;
                          cam_starts = x.cam_starts; cam_stops = x.cam_stops;
                          sto_starts = x.sto_starts; sto_stops =
                          x.sto_stops })) (fun _ -> true) s)))))
           | CFlushMapping ->
             (match s.mon_map with
              | Some _ -> None
              | None ->
                guard (read_ok s.log j fs)
                  (set (fun s0 -> s0.c_stop) (fun f ->
                    let c = fun r0 -> f r0.c_stop in
                    (fun x -> { valid = x.valid; maxn = x.maxn; cam = x.cam;
                    cam_st = x.cam_st; sto = x.sto; sto_st = x.sto_st;
                    cam_tag = x.cam_tag; cam_next = x.cam_next; log = x.log;
                    accepting = x.accepting; sink_reg = x.sink_reg;
                    sink_cur = x.sink_cur; sink_map = x.sink_map; mon_reg =
                    x.mon_reg; mon_cur = x.mon_cur; mon_map = x.mon_map;
                    src_stopping = x.src_stopping; abort_win = x.abort_win;
                    sink_stopping = x.sink_stopping; filt_stopping =
                    x.filt_stopping; src_running = x.src_running;
                    sink_running = x.sink_running; filt_running =
                    x.filt_running; s_pc = x.s_pc; k_pc = x.k_pc; f_pc =
                    x.f_pc; c_stop = (c x); c_start = x.c_start; iframe =
                    x.iframe; base = x.base; delivered = x.delivered;
                    stored = x.stored; sto_failed = x.sto_failed; seen =
                    x.seen; aborted = x.aborted; cam_failed = x.cam_failed;
                    acq_on = x.acq_on; src_on = x.src_on; goal = x.goal;
                    mon_fresh = x.mon_fresh; dropped = x.dropped;
                    cam_starts = x.cam_starts; cam_stops = x.cam_stops;
                    sto_starts = x.sto_starts; sto_stops = x.sto_stops }))
                    (fun _ ->
                    match s.c_stop with
                    | CFlushMapping -> CFlushMapped k
                    | x -> x)
                    (set (fun s0 -> s0.mon_map) (fun f ->
                      let o = fun r0 -> f r0.mon_map in
                      (fun x -> { valid = x.valid; maxn = x.maxn; cam =
                      x.cam; cam_st = x.cam_st; sto = x.sto; sto_st =
                      x.sto_st; cam_tag = x.cam_tag; cam_next = x.cam_next;
                      log = x.log; accepting = x.accepting; sink_reg =
                      x.sink_reg; sink_cur = x.sink_cur; sink_map =
                      x.sink_map; mon_reg = x.mon_reg; mon_cur = x.mon_cur;
                      mon_map = (o x); src_stopping = x.src_stopping;
                      abort_win = x.abort_win; sink_stopping =
                      x.sink_stopping; filt_stopping = x.filt_stopping;
                      src_running = x.src_running; sink_running =
                      x.sink_running; filt_running = x.filt_running; s_pc =
                      x.s_pc; k_pc = x.k_pc; f_pc = x.f_pc; c_stop =
                      x.c_stop; c_start = x.c_start; iframe = x.iframe;
                      base = x.base; delivered = x.delivered; stored =
                      x.stored; sto_failed = x.sto_failed; seen = x.seen;
                      aborted = x.aborted; cam_failed = x.cam_failed;
                      acq_on = x.acq_on; src_on = x.src_on; goal = x.goal;
                      mon_fresh = x.mon_fresh; dropped = x.dropped;
                      cam_starts = x.cam_starts; cam_stops = x.cam_stops;
                      sto_starts = x.sto_starts; sto_stops = x.sto_stops }))
                      (fun _ -> if Nat.eqb k O then None else Some k)
                      (set (fun s0 -> s0.mon_cur) (fun f ->
                        let n0 = fun r0 -> f r0.mon_cur in
                        (fun x -> { valid = x.valid; maxn = x.maxn; cam =
                        x.cam; cam_st = x.cam_st; sto = x.sto; sto_st =
                        x.sto_st; cam_tag = x.cam_tag; cam_next = x.cam_next;
                        log = x.log; accepting = x.accepting; sink_reg =
                        x.sink_reg; sink_cur = x.sink_cur; sink_map =
                        x.sink_map; mon_reg = x.mon_reg; mon_cur = (n0 x);
                        mon_map = x.mon_map; src_stopping = x.src_stopping;
                        abort_win = x.abort_win; sink_stopping =
                        x.sink_stopping; filt_stopping = x.filt_stopping;
                        src_running = x.src_running; sink_running =
                        x.sink_running; filt_running = x.filt_running; s_pc =
                        x.s_pc; k_pc = x.k_pc; f_pc = x.f_pc; c_stop =
                        x.c_stop; c_start = x.c_start; iframe = x.iframe;
                        base = x.base; delivered = x.delivered; stored =
                        x.stored; sto_failed = x.sto_failed; seen = x.seen;
                        aborted = x.aborted; cam_failed = x.cam_failed;
                        acq_on = x.acq_on; src_on = x.src_on; goal = x.goal;
                        mon_fresh = x.mon_fresh; dropped = x.dropped;
                        cam_starts = x.cam_starts; cam_stops = x.cam_stops;
                        sto_starts = x.sto_starts; sto_stops = x.sto_stops }))
                        (fun _ -> j)
                        (set (fun s0 -> s0.mon_reg) (fun f ->
                          let b = fun r0 -> f r0.mon_reg in
                          (fun x -> { valid = x.valid; maxn = x.maxn; cam =
                          x.cam; cam_st = x.cam_st; sto = x.sto; sto_st =
                          x.sto_st; cam_tag = x.cam_tag; cam_next =
                          x.cam_next; log = x.log; accepting = x.accepting;
                          sink_reg = x.sink_reg; sink_cur = x.sink_cur;
                          sink_map = x.sink_map; mon_reg = (b x); mon_cur =
                          x.mon_cur; mon_map = x.mon_map; src_stopping =
                          x.src_stopping; abort_win = x.abort_win;
                          sink_stopping = x.sink_stopping; filt_stopping =
                          x.filt_stopping; src_running = x.src_running;
                          sink_running = x.sink_running; filt_running =
                          x.filt_running; s_pc = x.s_pc; k_pc = x.k_pc;
                          f_pc = x.f_pc; c_stop = x.c_stop; c_start =
                          x.c_start; iframe = x.iframe; base = x.base;
                          delivered = x.delivered; stored = x.stored;
                          sto_failed = x.sto_failed; seen = x.seen; aborted =
                          x.aborted; cam_failed = x.cam_failed; acq_on =
                          x.acq_on; src_on = x.src_on; goal = x.goal;
                          mon_fresh = x.mon_fresh; dropped = x.dropped;
                          cam_starts = x.cam_starts; cam_stops = x.cam_stops;
                          sto_starts = x.sto_starts; sto_stops =
                          x.sto_stops })) (fun _ -> true) s)))))
           | _ -> None))
     | RUnmap (r, c) ->
       (match r with
        | RdSink ->
          guard
            ((&&) (match s.c_start with
                   | TRegMapped -> true
                   | _ -> false) (Nat.eqb c O))
            (set (fun s0 -> s0.c_start) (fun f ->
              let c0 = fun r0 -> f r0.c_start in
              (fun x -> { valid = x.valid; maxn = x.maxn; cam = x.cam;
              cam_st = x.cam_st; sto = x.sto; sto_st = x.sto_st; cam_tag =
              x.cam_tag; cam_next = x.cam_next; log = x.log; accepting =
              x.accepting; sink_reg = x.sink_reg; sink_cur = x.sink_cur;
              sink_map = x.sink_map; mon_reg = x.mon_reg; mon_cur =
              x.mon_cur; mon_map = x.mon_map; src_stopping = x.src_stopping;
              abort_win = x.abort_win; sink_stopping = x.sink_stopping;
              filt_stopping = x.filt_stopping; src_running = x.src_running;
              sink_running = x.sink_running; filt_running = x.filt_running;
              s_pc = x.s_pc; k_pc = x.k_pc; f_pc = x.f_pc; c_stop = x.c_stop;
              c_start = (c0 x); iframe = x.iframe; base = x.base; delivered =
              x.delivered; stored = x.stored; sto_failed = x.sto_failed;
              seen = x.seen; aborted = x.aborted; cam_failed = x.cam_failed;
              acq_on = x.acq_on; src_on = x.src_on; goal = x.goal;
              mon_fresh = x.mon_fresh; dropped = x.dropped; cam_starts =
              x.cam_starts; cam_stops = x.cam_stops; sto_starts =
              x.sto_starts; sto_stops = x.sto_stops })) (fun _ -> TRegDone) s)
        | RdMon ->
          let k = match s.mon_map with
                  | Some k -> k
                  | None -> O in
          let c' = Nat.min c k in
          let s' =
            set (fun s0 -> s0.mon_map) (fun f ->
              let o = fun r0 -> f r0.mon_map in
              (fun x -> { valid = x.valid; maxn = x.maxn; cam = x.cam;
              cam_st = x.cam_st; sto = x.sto; sto_st = x.sto_st; cam_tag =
              x.cam_tag; cam_next = x.cam_next; log = x.log; accepting =
              x.accepting; sink_reg = x.sink_reg; sink_cur = x.sink_cur;
              sink_map = x.sink_map; mon_reg = x.mon_reg; mon_cur =
              x.mon_cur; mon_map = (o x); src_stopping = x.src_stopping;
              abort_win = x.abort_win; sink_stopping = x.sink_stopping;
              filt_stopping = x.filt_stopping; src_running = x.src_running;
              sink_running = x.sink_running; filt_running = x.filt_running;
              s_pc = x.s_pc; k_pc = x.k_pc; f_pc = x.f_pc; c_stop = x.c_stop;
              c_start = x.c_start; iframe = x.iframe; base = x.base;
              delivered = x.delivered; stored = x.stored; sto_failed =
              x.sto_failed; seen = x.seen; aborted = x.aborted; cam_failed =
              x.cam_failed; acq_on = x.acq_on; src_on = x.src_on; goal =
              x.goal; mon_fresh = x.mon_fresh; dropped = x.dropped;
              cam_starts = x.cam_starts; cam_stops = x.cam_stops;
              sto_starts = x.sto_starts; sto_stops = x.sto_stops }))
              (fun _ -> None)
              (set (fun s0 -> s0.seen) (fun f ->
                let l = fun r0 -> f r0.seen in
                (fun x -> { valid = x.valid; maxn = x.maxn; cam = x.cam;
                cam_st = x.cam_st; sto = x.sto; sto_st = x.sto_st; cam_tag =
                x.cam_tag; cam_next = x.cam_next; log = x.log; accepting =
                x.accepting; sink_reg = x.sink_reg; sink_cur = x.sink_cur;
                sink_map = x.sink_map; mon_reg = x.mon_reg; mon_cur =
                x.mon_cur; mon_map = x.mon_map; src_stopping =
                x.src_stopping; abort_win = x.abort_win; sink_stopping =
                x.sink_stopping; filt_stopping = x.filt_stopping;
                src_running = x.src_running; sink_running = x.sink_running;
                filt_running = x.filt_running; s_pc = x.s_pc; k_pc = x.k_pc;
                f_pc = x.f_pc; c_stop = x.c_stop; c_start = x.c_start;
                iframe = x.iframe; base = x.base; delivered = x.delivered;
                stored = x.stored; sto_failed = x.sto_failed; seen = 
                (l x); aborted = x.aborted; cam_failed = x.cam_failed;
                acq_on = x.acq_on; src_on = x.src_on; goal = x.goal;
                mon_fresh = x.mon_fresh; dropped = x.dropped; cam_starts =
                x.cam_starts; cam_stops = x.cam_stops; sto_starts =
                x.sto_starts; sto_stops = x.sto_stops })) (fun _ ->
                app s.seen (seg s.log s.mon_cur c'))
                (set (fun s0 -> s0.mon_cur) (fun f ->
                  let n0 = fun r0 -> f r0.mon_cur in
                  (fun x -> { valid = x.valid; maxn = x.maxn; cam = x.cam;
                  cam_st = x.cam_st; sto = x.sto; sto_st = x.sto_st;
                  cam_tag = x.cam_tag; cam_next = x.cam_next; log = x.log;
                  accepting = x.accepting; sink_reg = x.sink_reg; sink_cur =
                  x.sink_cur; sink_map = x.sink_map; mon_reg = x.mon_reg;
                  mon_cur = (n0 x); mon_map = x.mon_map; src_stopping =
                  x.src_stopping; abort_win = x.abort_win; sink_stopping =
                  x.sink_stopping; filt_stopping = x.filt_stopping;
                  src_running = x.src_running; sink_running = x.sink_running;
                  filt_running = x.filt_running; s_pc = x.s_pc; k_pc =
                  x.k_pc; f_pc = x.f_pc; c_stop = x.c_stop; c_start =
                  x.c_start; iframe = x.iframe; base = x.base; delivered =
                  x.delivered; stored = x.stored; sto_failed = x.sto_failed;
                  seen = x.seen; aborted = x.aborted; cam_failed =
                  x.cam_failed; acq_on = x.acq_on; src_on = x.src_on; goal =
                  x.goal; mon_fresh = x.mon_fresh; dropped = x.dropped;
                  cam_starts = x.cam_starts; cam_stops = x.cam_stops;
                  sto_starts = x.sto_starts; sto_stops = x.sto_stops }))
                  (fun _ -> add s.mon_cur c') s))
          in
          (match s.c_stop with
           | CNone -> Some s'
           | CFlush0 ->
             guard (Nat.leb k c)
               (set (fun s0 -> s0.c_stop) (fun f ->
                 let c0 = fun r0 -> f r0.c_stop in
                 (fun x -> { valid = x.valid; maxn = x.maxn; cam = x.cam;
                 cam_st = x.cam_st; sto = x.sto; sto_st = x.sto_st; cam_tag =
                 x.cam_tag; cam_next = x.cam_next; log = x.log; accepting =
                 x.accepting; sink_reg = x.sink_reg; sink_cur = x.sink_cur;
                 sink_map = x.sink_map; mon_reg = x.mon_reg; mon_cur =
                 x.mon_cur; mon_map = x.mon_map; src_stopping =
                 x.src_stopping; abort_win = x.abort_win; sink_stopping =
                 x.sink_stopping; filt_stopping = x.filt_stopping;
                 src_running = x.src_running; sink_running = x.sink_running;
                 filt_running = x.filt_running; s_pc = x.s_pc; k_pc = x.k_pc;
                 f_pc = x.f_pc; c_stop = (c0 x); c_start = x.c_start;
                 iframe = x.iframe; base = x.base; delivered = x.delivered;
                 stored = x.stored; sto_failed = x.sto_failed; seen = x.seen;
                 aborted = x.aborted; cam_failed = x.cam_failed; acq_on =
                 x.acq_on; src_on = x.src_on; goal = x.goal; mon_fresh =
                 x.mon_fresh; dropped = x.dropped; cam_starts = x.cam_starts;
                 cam_stops = x.cam_stops; sto_starts = x.sto_starts;
                 sto_stops = x.sto_stops })) (fun _ -> CFlush) s')
           | CFlushMapped k' ->
             guard (Nat.leb k c)
               (set (fun s0 -> s0.c_stop) (fun f ->
                 let c0 = fun r0 -> f r0.c_stop in
                 (fun x -> { valid = x.valid; maxn = x.maxn; cam = x.cam;
                 cam_st = x.cam_st; sto = x.sto; sto_st = x.sto_st; cam_tag =
                 x.cam_tag; cam_next = x.cam_next; log = x.log; accepting =
                 x.accepting; sink_reg = x.sink_reg; sink_cur = x.sink_cur;
                 sink_map = x.sink_map; mon_reg = x.mon_reg; mon_cur =
                 x.mon_cur; mon_map = x.mon_map; src_stopping =
                 x.src_stopping; abort_win = x.abort_win; sink_stopping =
                 x.sink_stopping; filt_stopping = x.filt_stopping;
                 src_running = x.src_running; sink_running = x.sink_running;
                 filt_running = x.filt_running; s_pc = x.s_pc; k_pc = x.k_pc;
                 f_pc = x.f_pc; c_stop = (c0 x); c_start = x.c_start;
                 iframe = x.iframe; base = x.base; delivered = x.delivered;
                 stored = x.stored; sto_failed = x.sto_failed; seen = x.seen;
                 aborted = x.aborted; cam_failed = x.cam_failed; acq_on =
                 x.acq_on; src_on = x.src_on; goal = x.goal; mon_fresh =
                 x.mon_fresh; dropped = x.dropped; cam_starts = x.cam_starts;
                 cam_stops = x.cam_stops; sto_starts = x.sto_starts;
                 sto_stops = x.sto_stops })) (fun _ ->
                 if Nat.eqb k' O then CStopped else CFlush) s')
           | _ -> None))
     | Spawn w ->
       (match w with
        | RSrc ->
          guard
            ((&&) ((&&) (spc_idle s.s_pc) (hst_eqb s.cam_st HRunning))
              (match s.c_start with
               | TCamStarted -> true
               | _ -> false))
            (set (fun s0 -> s0.c_start) (fun f ->
              let c = fun r -> f r.c_start in
              (fun x -> { valid = x.valid; maxn = x.maxn; cam = x.cam;
              cam_st = x.cam_st; sto = x.sto; sto_st = x.sto_st; cam_tag =
              x.cam_tag; cam_next = x.cam_next; log = x.log; accepting =
              x.accepting; sink_reg = x.sink_reg; sink_cur = x.sink_cur;
              sink_map = x.sink_map; mon_reg = x.mon_reg; mon_cur =
              x.mon_cur; mon_map = x.mon_map; src_stopping = x.src_stopping;
              abort_win = x.abort_win; sink_stopping = x.sink_stopping;
              filt_stopping = x.filt_stopping; src_running = x.src_running;
              sink_running = x.sink_running; filt_running = x.filt_running;
              s_pc = x.s_pc; k_pc = x.k_pc; f_pc = x.f_pc; c_stop = x.c_stop;
              c_start = (c x); iframe = x.iframe; base = x.base; delivered =
              x.delivered; stored = x.stored; sto_failed = x.sto_failed;
              seen = x.seen; aborted = x.aborted; cam_failed = x.cam_failed;
              acq_on = x.acq_on; src_on = x.src_on; goal = x.goal;
              mon_fresh = x.mon_fresh; dropped = x.dropped; cam_starts =
              x.cam_starts; cam_stops = x.cam_stops; sto_starts =
              x.sto_starts; sto_stops = x.sto_stops })) (fun _ -> TDone)
              (set (fun s0 -> s0.dropped) (fun f ->
                let b = fun r -> f r.dropped in
                (fun x -> { valid = x.valid; maxn = x.maxn; cam = x.cam;
                cam_st = x.cam_st; sto = x.sto; sto_st = x.sto_st; cam_tag =
                x.cam_tag; cam_next = x.cam_next; log = x.log; accepting =
                x.accepting; sink_reg = x.sink_reg; sink_cur = x.sink_cur;
                sink_map = x.sink_map; mon_reg = x.mon_reg; mon_cur =
                x.mon_cur; mon_map = x.mon_map; src_stopping =
                x.src_stopping; abort_win = x.abort_win; sink_stopping =
                x.sink_stopping; filt_stopping = x.filt_stopping;
                src_running = x.src_running; sink_running = x.sink_running;
                filt_running = x.filt_running; s_pc = x.s_pc; k_pc = x.k_pc;
                f_pc = x.f_pc; c_stop = x.c_stop; c_start = x.c_start;
                iframe = x.iframe; base = x.base; delivered = x.delivered;
                stored = x.stored; sto_failed = x.sto_failed; seen = x.seen;
                aborted = x.aborted; cam_failed = x.cam_failed; acq_on =
                x.acq_on; src_on = x.src_on; goal = x.goal; mon_fresh =
                x.mon_fresh; dropped = (b x); cam_starts = x.cam_starts;
                cam_stops = x.cam_stops; sto_starts = x.sto_starts;
                sto_stops = x.sto_stops })) (fun _ -> false)
                (set (fun s0 -> s0.goal) (fun f ->
                  let n0 = fun r -> f r.goal in
                  (fun x -> { valid = x.valid; maxn = x.maxn; cam = x.cam;
                  cam_st = x.cam_st; sto = x.sto; sto_st = x.sto_st;
                  cam_tag = x.cam_tag; cam_next = x.cam_next; log = x.log;
                  accepting = x.accepting; sink_reg = x.sink_reg; sink_cur =
                  x.sink_cur; sink_map = x.sink_map; mon_reg = x.mon_reg;
                  mon_cur = x.mon_cur; mon_map = x.mon_map; src_stopping =
                  x.src_stopping; abort_win = x.abort_win; sink_stopping =
                  x.sink_stopping; filt_stopping = x.filt_stopping;
                  src_running = x.src_running; sink_running = x.sink_running;
                  filt_running = x.filt_running; s_pc = x.s_pc; k_pc =
                  x.k_pc; f_pc = x.f_pc; c_stop = x.c_stop; c_start =
                  x.c_start; iframe = x.iframe; base = x.base; delivered =
                  x.delivered; stored = x.stored; sto_failed = x.sto_failed;
                  seen = x.seen; aborted = x.aborted; cam_failed =
                  x.cam_failed; acq_on = x.acq_on; src_on = x.src_on; goal =
                  (n0 x); mon_fresh = x.mon_fresh; dropped = x.dropped;
                  cam_starts = x.cam_starts; cam_stops = x.cam_stops;
                  sto_starts = x.sto_starts; sto_stops = x.sto_stops }))
                  (fun _ -> s.maxn)
                  (set (fun s0 -> s0.src_on) (fun f ->
                    let b = fun r -> f r.src_on in
                    (fun x -> { valid = x.valid; maxn = x.maxn; cam = x.cam;
                    cam_st = x.cam_st; sto = x.sto; sto_st = x.sto_st;
                    cam_tag = x.cam_tag; cam_next = x.cam_next; log = x.log;
                    accepting = x.accepting; sink_reg = x.sink_reg;
                    sink_cur = x.sink_cur; sink_map = x.sink_map; mon_reg =
                    x.mon_reg; mon_cur = x.mon_cur; mon_map = x.mon_map;
                    src_stopping = x.src_stopping; abort_win = x.abort_win;
                    sink_stopping = x.sink_stopping; filt_stopping =
                    x.filt_stopping; src_running = x.src_running;
                    sink_running = x.sink_running; filt_running =
                    x.filt_running; s_pc = x.s_pc; k_pc = x.k_pc; f_pc =
                    x.f_pc; c_stop = x.c_stop; c_start = x.c_start; iframe =
                    x.iframe; base = x.base; delivered = x.delivered;
                    stored = x.stored; sto_failed = x.sto_failed; seen =
                    x.seen; aborted = x.aborted; cam_failed = x.cam_failed;
                    acq_on = x.acq_on; src_on = (b x); goal = x.goal;
                    mon_fresh = x.mon_fresh; dropped = x.dropped;
                    cam_starts = x.cam_starts; cam_stops = x.cam_stops;
                    sto_starts = x.sto_starts; sto_stops = x.sto_stops }))
                    (fun _ -> true)
                    (set (fun s0 -> s0.iframe) (fun f ->
                      let n0 = fun r -> f r.iframe in
                      (fun x -> { valid = x.valid; maxn = x.maxn; cam =
                      x.cam; cam_st = x.cam_st; sto = x.sto; sto_st =
                      x.sto_st; cam_tag = x.cam_tag; cam_next = x.cam_next;
                      log = x.log; accepting = x.accepting; sink_reg =
                      x.sink_reg; sink_cur = x.sink_cur; sink_map =
                      x.sink_map; mon_reg = x.mon_reg; mon_cur = x.mon_cur;
                      mon_map = x.mon_map; src_stopping = x.src_stopping;
                      abort_win = x.abort_win; sink_stopping =
                      x.sink_stopping; filt_stopping = x.filt_stopping;
                      src_running = x.src_running; sink_running =
                      x.sink_running; filt_running = x.filt_running; s_pc =
                      x.s_pc; k_pc = x.k_pc; f_pc = x.f_pc; c_stop =
                      x.c_stop; c_start = x.c_start; iframe = (n0 x); base =
                      x.base; delivered = x.delivered; stored = x.stored;
                      sto_failed = x.sto_failed; seen = x.seen; aborted =
                      x.aborted; cam_failed = x.cam_failed; acq_on =
                      x.acq_on; src_on = x.src_on; goal = x.goal; mon_fresh =
                      x.mon_fresh; dropped = x.dropped; cam_starts =
                      x.cam_starts; cam_stops = x.cam_stops; sto_starts =
                      x.sto_starts; sto_stops = x.sto_stops })) (fun _ -> N0)
                      (set (fun s0 -> s0.s_pc) (fun f ->
                        let s0 = fun r -> f r.s_pc in
                        (fun x -> { valid = x.valid; maxn = x.maxn; cam =
                        x.cam; cam_st = x.cam_st; sto = x.sto; sto_st =
                        x.sto_st; cam_tag = x.cam_tag; cam_next = x.cam_next;
                        log = x.log; accepting = x.accepting; sink_reg =
                        x.sink_reg; sink_cur = x.sink_cur; sink_map =
                        x.sink_map; mon_reg = x.mon_reg; mon_cur = x.mon_cur;
                        mon_map = x.mon_map; src_stopping = x.src_stopping;
                        abort_win = x.abort_win; sink_stopping =
                        x.sink_stopping; filt_stopping = x.filt_stopping;
                        src_running = x.src_running; sink_running =
                        x.sink_running; filt_running = x.filt_running; s_pc =
                        (s0 x); k_pc = x.k_pc; f_pc = x.f_pc; c_stop =
                        x.c_stop; c_start = x.c_start; iframe = x.iframe;
                        base = x.base; delivered = x.delivered; stored =
                        x.stored; sto_failed = x.sto_failed; seen = x.seen;
                        aborted = x.aborted; cam_failed = x.cam_failed;
                        acq_on = x.acq_on; src_on = x.src_on; goal = x.goal;
                        mon_fresh = x.mon_fresh; dropped = x.dropped;
                        cam_starts = x.cam_starts; cam_stops = x.cam_stops;
                        sto_starts = x.sto_starts; sto_stops = x.sto_stops }))
                        (fun _ -> SLoop)
                        (set (fun s0 -> s0.src_running) (fun f ->
                          let b = fun r -> f r.src_running in
                          (fun x -> { valid = x.valid; maxn = x.maxn; cam =
                          x.cam; cam_st = x.cam_st; sto = x.sto; sto_st =
                          x.sto_st; cam_tag = x.cam_tag; cam_next =
                          x.cam_next; log = x.log; accepting = x.accepting;
                          sink_reg = x.sink_reg; sink_cur = x.sink_cur;
                          sink_map = x.sink_map; mon_reg = x.mon_reg;
                          mon_cur = x.mon_cur; mon_map = x.mon_map;
                          src_stopping = x.src_stopping; abort_win =
                          x.abort_win; sink_stopping = x.sink_stopping;
                          filt_stopping = x.filt_stopping; src_running =
                          (b x); sink_running = x.sink_running;
                          filt_running = x.filt_running; s_pc = x.s_pc;
                          k_pc = x.k_pc; f_pc = x.f_pc; c_stop = x.c_stop;
                          c_start = x.c_start; iframe = x.iframe; base =
                          x.base; delivered = x.delivered; stored = x.stored;
                          sto_failed = x.sto_failed; seen = x.seen; aborted =
                          x.aborted; cam_failed = x.cam_failed; acq_on =
                          x.acq_on; src_on = x.src_on; goal = x.goal;
                          mon_fresh = x.mon_fresh; dropped = x.dropped;
                          cam_starts = x.cam_starts; cam_stops = x.cam_stops;
                          sto_starts = x.sto_starts; sto_stops =
                          x.sto_stops })) (fun _ -> true)
                          (set (fun s0 -> s0.abort_win) (fun f ->
                            let b = fun r -> f r.abort_win in
                            (fun x -> { valid = x.valid; maxn = x.maxn; cam =
                            x.cam; cam_st = x.cam_st; sto = x.sto; sto_st =
                            x.sto_st; cam_tag = x.cam_tag; cam_next =
                            x.cam_next; log = x.log; accepting = x.accepting;
                            sink_reg = x.sink_reg; sink_cur = x.sink_cur;
                            sink_map = x.sink_map; mon_reg = x.mon_reg;
                            mon_cur = x.mon_cur; mon_map = x.mon_map;
                            src_stopping = x.src_stopping; abort_win = 
                            (b x); sink_stopping = x.sink_stopping;
                            filt_stopping = x.filt_stopping; src_running =
                            x.src_running; sink_running = x.sink_running;
                            filt_running = x.filt_running; s_pc = x.s_pc;
                            k_pc = x.k_pc; f_pc = x.f_pc; c_stop = x.c_stop;
                            c_start = x.c_start; iframe = x.iframe; base =
                            x.base; delivered = x.delivered; stored =
                            x.stored; sto_failed = x.sto_failed; seen =
                            x.seen; aborted = x.aborted; cam_failed =
                            x.cam_failed; acq_on = x.acq_on; src_on =
                            x.src_on; goal = x.goal; mon_fresh = x.mon_fresh;
                            dropped = x.dropped; cam_starts = x.cam_starts;
                            cam_stops = x.cam_stops; sto_starts =
                            x.sto_starts; sto_stops = x.sto_stops }))
                            (fun _ -> false)
                            (set (fun s0 -> s0.src_stopping) (fun f ->
                              let b = fun r -> f r.src_stopping in
                              (fun x -> { valid = x.valid; maxn = x.maxn;
                              cam = x.cam; cam_st = x.cam_st; sto = x.sto;
                              sto_st = x.sto_st; cam_tag = x.cam_tag;
                              cam_next = x.cam_next; log = x.log; accepting =
                              x.accepting; sink_reg = x.sink_reg; sink_cur =
                              x.sink_cur; sink_map = x.sink_map; mon_reg =
                              x.mon_reg; mon_cur = x.mon_cur; mon_map =
                              x.mon_map; src_stopping = (b x); abort_win =
                              x.abort_win; sink_stopping = x.sink_stopping;
                              filt_stopping = x.filt_stopping; src_running =
                              x.src_running; sink_running = x.sink_running;
                              filt_running = x.filt_running; s_pc = x.s_pc;
                              k_pc = x.k_pc; f_pc = x.f_pc; c_stop =
                              x.c_stop; c_start = x.c_start; iframe =
                              x.iframe; base = x.base; delivered =
                              x.delivered; stored = x.stored; sto_failed =
                              x.sto_failed; seen = x.seen; aborted =
                              x.aborted; cam_failed = x.cam_failed; acq_on =
                              x.acq_on; src_on = x.src_on; goal = x.goal;
                              mon_fresh = x.mon_fresh; dropped = x.dropped;
                              cam_starts = x.cam_starts; cam_stops =
                              x.cam_stops; sto_starts = x.sto_starts;
                              sto_stops = x.sto_stops })) (fun _ -> false) s)))))))))
        | RSink ->
          guard
            ((&&) ((&&) (kpc_idle s.k_pc) (hst_eqb s.sto_st HRunning))
              (match s.c_start with
               | TRegDone -> true
               | _ -> false))
            (set (fun s0 -> s0.c_start) (fun f ->
              let c = fun r -> f r.c_start in
              (fun x -> { valid = x.valid; maxn = x.maxn; cam = x.cam;
              cam_st = x.cam_st; sto = x.sto; sto_st = x.sto_st; cam_tag =
              x.cam_tag; cam_next = x.cam_next; log = x.log; accepting =
              x.accepting; sink_reg = x.sink_reg; sink_cur = x.sink_cur;
              sink_map = x.sink_map; mon_reg = x.mon_reg; mon_cur =
              x.mon_cur; mon_map = x.mon_map; src_stopping = x.src_stopping;
              abort_win = x.abort_win; sink_stopping = x.sink_stopping;
              filt_stopping = x.filt_stopping; src_running = x.src_running;
              sink_running = x.sink_running; filt_running = x.filt_running;
              s_pc = x.s_pc; k_pc = x.k_pc; f_pc = x.f_pc; c_stop = x.c_stop;
              c_start = (c x); iframe = x.iframe; base = x.base; delivered =
              x.delivered; stored = x.stored; sto_failed = x.sto_failed;
              seen = x.seen; aborted = x.aborted; cam_failed = x.cam_failed;
              acq_on = x.acq_on; src_on = x.src_on; goal = x.goal;
              mon_fresh = x.mon_fresh; dropped = x.dropped; cam_starts =
              x.cam_starts; cam_stops = x.cam_stops; sto_starts =
              x.sto_starts; sto_stops = x.sto_stops })) (fun _ -> TSinkUp)
              (set (fun s0 -> s0.k_pc) (fun f ->
                let k = fun r -> f r.k_pc in
                (fun x -> { valid = x.valid; maxn = x.maxn; cam = x.cam;
                cam_st = x.cam_st; sto = x.sto; sto_st = x.sto_st; cam_tag =
                x.cam_tag; cam_next = x.cam_next; log = x.log; accepting =
                x.accepting; sink_reg = x.sink_reg; sink_cur = x.sink_cur;
                sink_map = x.sink_map; mon_reg = x.mon_reg; mon_cur =
                x.mon_cur; mon_map = x.mon_map; src_stopping =
                x.src_stopping; abort_win = x.abort_win; sink_stopping =
                x.sink_stopping; filt_stopping = x.filt_stopping;
                src_running = x.src_running; sink_running = x.sink_running;
                filt_running = x.filt_running; s_pc = x.s_pc; k_pc = 
                (k x); f_pc = x.f_pc; c_stop = x.c_stop; c_start = x.c_start;
                iframe = x.iframe; base = x.base; delivered = x.delivered;
                stored = x.stored; sto_failed = x.sto_failed; seen = x.seen;
                aborted = x.aborted; cam_failed = x.cam_failed; acq_on =
                x.acq_on; src_on = x.src_on; goal = x.goal; mon_fresh =
                x.mon_fresh; dropped = x.dropped; cam_starts = x.cam_starts;
                cam_stops = x.cam_stops; sto_starts = x.sto_starts;
                sto_stops = x.sto_stops })) (fun _ -> KTest)
                (set (fun s0 -> s0.sink_running) (fun f ->
                  let b = fun r -> f r.sink_running in
                  (fun x -> { valid = x.valid; maxn = x.maxn; cam = x.cam;
                  cam_st = x.cam_st; sto = x.sto; sto_st = x.sto_st;
                  cam_tag = x.cam_tag; cam_next = x.cam_next; log = x.log;
                  accepting = x.accepting; sink_reg = x.sink_reg; sink_cur =
                  x.sink_cur; sink_map = x.sink_map; mon_reg = x.mon_reg;
                  mon_cur = x.mon_cur; mon_map = x.mon_map; src_stopping =
                  x.src_stopping; abort_win = x.abort_win; sink_stopping =
                  x.sink_stopping; filt_stopping = x.filt_stopping;
                  src_running = x.src_running; sink_running = (b x);
                  filt_running = x.filt_running; s_pc = x.s_pc; k_pc =
                  x.k_pc; f_pc = x.f_pc; c_stop = x.c_stop; c_start =
                  x.c_start; iframe = x.iframe; base = x.base; delivered =
                  x.delivered; stored = x.stored; sto_failed = x.sto_failed;
                  seen = x.seen; aborted = x.aborted; cam_failed =
                  x.cam_failed; acq_on = x.acq_on; src_on = x.src_on; goal =
                  x.goal; mon_fresh = x.mon_fresh; dropped = x.dropped;
                  cam_starts = x.cam_starts; cam_stops = x.cam_stops;
                  sto_starts = x.sto_starts; sto_stops = x.sto_stops }))
                  (fun _ -> true)
                  (set (fun s0 -> s0.sink_stopping) (fun f ->
                    let b = fun r -> f r.sink_stopping in
                    (fun x -> { valid = x.valid; maxn = x.maxn; cam = x.cam;
                    cam_st = x.cam_st; sto = x.sto; sto_st = x.sto_st;
                    cam_tag = x.cam_tag; cam_next = x.cam_next; log = x.log;
                    accepting = x.accepting; sink_reg = x.sink_reg;
                    sink_cur = x.sink_cur; sink_map = x.sink_map; mon_reg =
                    x.mon_reg; mon_cur = x.mon_cur; mon_map = x.mon_map;
                    src_stopping = x.src_stopping; abort_win = x.abort_win;
                    sink_stopping = (b x); filt_stopping = x.filt_stopping;
                    src_running = x.src_running; sink_running =
                    x.sink_running; filt_running = x.filt_running; s_pc =
                    x.s_pc; k_pc = x.k_pc; f_pc = x.f_pc; c_stop = x.c_stop;
                    c_start = x.c_start; iframe = x.iframe; base = x.base;
                    delivered = x.delivered; stored = x.stored; sto_failed =
                    x.sto_failed; seen = x.seen; aborted = x.aborted;
                    cam_failed = x.cam_failed; acq_on = x.acq_on; src_on =
                    x.src_on; goal = x.goal; mon_fresh = x.mon_fresh;
                    dropped = x.dropped; cam_starts = x.cam_starts;
                    cam_stops = x.cam_stops; sto_starts = x.sto_starts;
                    sto_stops = x.sto_stops })) (fun _ -> false) s))))
        | RFilt ->
          guard
            ((&&) (fpc_idle s.f_pc)
              (match s.c_start with
               | TSinkUp -> true
               | _ -> false))
            (set (fun s0 -> s0.c_start) (fun f ->
              let c = fun r -> f r.c_start in
              (fun x -> { valid = x.valid; maxn = x.maxn; cam = x.cam;
              cam_st = x.cam_st; sto = x.sto; sto_st = x.sto_st; cam_tag =
              x.cam_tag; cam_next = x.cam_next; log = x.log; accepting =
              x.accepting; sink_reg = x.sink_reg; sink_cur = x.sink_cur;
              sink_map = x.sink_map; mon_reg = x.mon_reg; mon_cur =
              x.mon_cur; mon_map = x.mon_map; src_stopping = x.src_stopping;
              abort_win = x.abort_win; sink_stopping = x.sink_stopping;
              filt_stopping = x.filt_stopping; src_running = x.src_running;
              sink_running = x.sink_running; filt_running = x.filt_running;
              s_pc = x.s_pc; k_pc = x.k_pc; f_pc = x.f_pc; c_stop = x.c_stop;
              c_start = (c x); iframe = x.iframe; base = x.base; delivered =
              x.delivered; stored = x.stored; sto_failed = x.sto_failed;
              seen = x.seen; aborted = x.aborted; cam_failed = x.cam_failed;
              acq_on = x.acq_on; src_on = x.src_on; goal = x.goal;
              mon_fresh = x.mon_fresh; dropped = x.dropped; cam_starts =
              x.cam_starts; cam_stops = x.cam_stops; sto_starts =
              x.sto_starts; sto_stops = x.sto_stops })) (fun _ -> TFiltUp)
              (set (fun s0 -> s0.f_pc) (fun f ->
                let f0 = fun r -> f r.f_pc in
                (fun x -> { valid = x.valid; maxn = x.maxn; cam = x.cam;
                cam_st = x.cam_st; sto = x.sto; sto_st = x.sto_st; cam_tag =
                x.cam_tag; cam_next = x.cam_next; log = x.log; accepting =
                x.accepting; sink_reg = x.sink_reg; sink_cur = x.sink_cur;
                sink_map = x.sink_map; mon_reg = x.mon_reg; mon_cur =
                x.mon_cur; mon_map = x.mon_map; src_stopping =
                x.src_stopping; abort_win = x.abort_win; sink_stopping =
                x.sink_stopping; filt_stopping = x.filt_stopping;
                src_running = x.src_running; sink_running = x.sink_running;
                filt_running = x.filt_running; s_pc = x.s_pc; k_pc = x.k_pc;
                f_pc = (f0 x); c_stop = x.c_stop; c_start = x.c_start;
                iframe = x.iframe; base = x.base; delivered = x.delivered;
                stored = x.stored; sto_failed = x.sto_failed; seen = x.seen;
                aborted = x.aborted; cam_failed = x.cam_failed; acq_on =
                x.acq_on; src_on = x.src_on; goal = x.goal; mon_fresh =
                x.mon_fresh; dropped = x.dropped; cam_starts = x.cam_starts;
                cam_stops = x.cam_stops; sto_starts = x.sto_starts;
                sto_stops = x.sto_stops })) (fun _ -> FRun)
                (set (fun s0 -> s0.filt_running) (fun f ->
                  let b = fun r -> f r.filt_running in
                  (fun x -> { valid = x.valid; maxn = x.maxn; cam = x.cam;
                  cam_st = x.cam_st; sto = x.sto; sto_st = x.sto_st;
                  cam_tag = x.cam_tag; cam_next = x.cam_next; log = x.log;
                  accepting = x.accepting; sink_reg = x.sink_reg; sink_cur =
                  x.sink_cur; sink_map = x.sink_map; mon_reg = x.mon_reg;
                  mon_cur = x.mon_cur; mon_map = x.mon_map; src_stopping =
                  x.src_stopping; abort_win = x.abort_win; sink_stopping =
                  x.sink_stopping; filt_stopping = x.filt_stopping;
                  src_running = x.src_running; sink_running = x.sink_running;
                  filt_running = (b x); s_pc = x.s_pc; k_pc = x.k_pc; f_pc =
                  x.f_pc; c_stop = x.c_stop; c_start = x.c_start; iframe =
                  x.iframe; base = x.base; delivered = x.delivered; stored =
                  x.stored; sto_failed = x.sto_failed; seen = x.seen;
                  aborted = x.aborted; cam_failed = x.cam_failed; acq_on =
                  x.acq_on; src_on = x.src_on; goal = x.goal; mon_fresh =
                  x.mon_fresh; dropped = x.dropped; cam_starts =
                  x.cam_starts; cam_stops = x.cam_stops; sto_starts =
                  x.sto_starts; sto_stops = x.sto_stops })) (fun _ -> true)
                  (set (fun s0 -> s0.filt_stopping) (fun f ->
                    let b = fun r -> f r.filt_stopping in
                    (fun x -> { valid = x.valid; maxn = x.maxn; cam = x.cam;
                    cam_st = x.cam_st; sto = x.sto; sto_st = x.sto_st;
                    cam_tag = x.cam_tag; cam_next = x.cam_next; log = x.log;
                    accepting = x.accepting; sink_reg = x.sink_reg;
                    sink_cur = x.sink_cur; sink_map = x.sink_map; mon_reg =
                    x.mon_reg; mon_cur = x.mon_cur; mon_map = x.mon_map;
                    src_stopping = x.src_stopping; abort_win = x.abort_win;
                    sink_stopping = x.sink_stopping; filt_stopping = 
                    (b x); src_running = x.src_running; sink_running =
                    x.sink_running; filt_running = x.filt_running; s_pc =
                    x.s_pc; k_pc = x.k_pc; f_pc = x.f_pc; c_stop = x.c_stop;
                    c_start = x.c_start; iframe = x.iframe; base = x.base;
                    delivered = x.delivered; stored = x.stored; sto_failed =
                    x.sto_failed; seen = x.seen; aborted = x.aborted;
                    cam_failed = x.cam_failed; acq_on = x.acq_on; src_on =
                    x.src_on; goal = x.goal; mon_fresh = x.mon_fresh;
                    dropped = x.dropped; cam_starts = x.cam_starts;
                    cam_stops = x.cam_stops; sto_starts = x.sto_starts;
                    sto_stops = x.sto_stops })) (fun _ -> false) s)))))
     | Joined w ->
       guard
         (match w with
          | RSrc -> spc_idle s.s_pc
          | RSink -> kpc_idle s.k_pc
          | RFilt -> fpc_idle s.f_pc) s
     | MonMapRefused ->
       guard
         ((&&) (match s.mon_map with
                | Some _ -> true
                | None -> false)
           (match s.c_stop with
            | CNone -> true
            | _ -> false)) s
     | MonMapRet ok ->
       guard ((&&) ok (match s.c_stop with
                       | CNone -> true
                       | _ -> false)) s
     | StartRefused w ->
       (match w with
        | RSrc ->
          guard
            ((&&)
              ((&&) ((&&) (spc_idle s.s_pc) (negb (hst_eqb s.cam_st HArmed)))
                (negb (hst_eqb s.cam_st HRunning)))
              (match s.c_start with
               | TFiltUp -> true
               | _ -> false))
            (set (fun s0 -> s0.c_start) (fun f ->
              let c = fun r -> f r.c_start in
              (fun x -> { valid = x.valid; maxn = x.maxn; cam = x.cam;
              cam_st = x.cam_st; sto = x.sto; sto_st = x.sto_st; cam_tag =
              x.cam_tag; cam_next = x.cam_next; log = x.log; accepting =
              x.accepting; sink_reg = x.sink_reg; sink_cur = x.sink_cur;
              sink_map = x.sink_map; mon_reg = x.mon_reg; mon_cur =
              x.mon_cur; mon_map = x.mon_map; src_stopping = x.src_stopping;
              abort_win = x.abort_win; sink_stopping = x.sink_stopping;
              filt_stopping = x.filt_stopping; src_running = x.src_running;
              sink_running = x.sink_running; filt_running = x.filt_running;
              s_pc = x.s_pc; k_pc = x.k_pc; f_pc = x.f_pc; c_stop = x.c_stop;
              c_start = (c x); iframe = x.iframe; base = x.base; delivered =
              x.delivered; stored = x.stored; sto_failed = x.sto_failed;
              seen = x.seen; aborted = x.aborted; cam_failed = x.cam_failed;
              acq_on = x.acq_on; src_on = x.src_on; goal = x.goal;
              mon_fresh = x.mon_fresh; dropped = x.dropped; cam_starts =
              x.cam_starts; cam_stops = x.cam_stops; sto_starts =
              x.sto_starts; sto_stops = x.sto_stops })) (fun _ -> TFailed) s)
        | RSink ->
          guard
            ((&&)
              ((&&) ((&&) (workers_idle s) (negb (hst_eqb s.sto_st HArmed)))
                (negb (hst_eqb s.sto_st HRunning)))
              (match s.c_start with
               | TBegin -> true
               | _ -> false))
            (set (fun s0 -> s0.c_start) (fun f ->
              let c = fun r -> f r.c_start in
              (fun x -> { valid = x.valid; maxn = x.maxn; cam = x.cam;
              cam_st = x.cam_st; sto = x.sto; sto_st = x.sto_st; cam_tag =
              x.cam_tag; cam_next = x.cam_next; log = x.log; accepting =
              x.accepting; sink_reg = x.sink_reg; sink_cur = x.sink_cur;
              sink_map = x.sink_map; mon_reg = x.mon_reg; mon_cur =
              x.mon_cur; mon_map = x.mon_map; src_stopping = x.src_stopping;
              abort_win = x.abort_win; sink_stopping = x.sink_stopping;
              filt_stopping = x.filt_stopping; src_running = x.src_running;
              sink_running = x.sink_running; filt_running = x.filt_running;
              s_pc = x.s_pc; k_pc = x.k_pc; f_pc = x.f_pc; c_stop = x.c_stop;
              c_start = (c x); iframe = x.iframe; base = x.base; delivered =
              x.delivered; stored = x.stored; sto_failed = x.sto_failed;
              seen = x.seen; aborted = x.aborted; cam_failed = x.cam_failed;
              acq_on = x.acq_on; src_on = x.src_on; goal = x.goal;
              mon_fresh = x.mon_fresh; dropped = x.dropped; cam_starts =
              x.cam_starts; cam_stops = x.cam_stops; sto_starts =
              x.sto_starts; sto_stops = x.sto_stops })) (fun _ -> TFailed) s)
        | RFilt -> None)
     | _ -> None)
  | ASrc ->
    (match e with
     | DCamStop i ->
       (match s.s_pc with
        | SFailStop ->
          guard ((&&) (optN_eqb s.cam i) (hst_eqb s.cam_st HRunning))
            (set (fun s0 -> s0.cam_stops) (fun f ->
              let n0 = fun r -> f r.cam_stops in
              (fun x -> { valid = x.valid; maxn = x.maxn; cam = x.cam;
              cam_st = x.cam_st; sto = x.sto; sto_st = x.sto_st; cam_tag =
              x.cam_tag; cam_next = x.cam_next; log = x.log; accepting =
              x.accepting; sink_reg = x.sink_reg; sink_cur = x.sink_cur;
              sink_map = x.sink_map; mon_reg = x.mon_reg; mon_cur =
              x.mon_cur; mon_map = x.mon_map; src_stopping = x.src_stopping;
              abort_win = x.abort_win; sink_stopping = x.sink_stopping;
              filt_stopping = x.filt_stopping; src_running = x.src_running;
              sink_running = x.sink_running; filt_running = x.filt_running;
              s_pc = x.s_pc; k_pc = x.k_pc; f_pc = x.f_pc; c_stop = x.c_stop;
              c_start = x.c_start; iframe = x.iframe; base = x.base;
              delivered = x.delivered; stored = x.stored; sto_failed =
              x.sto_failed; seen = x.seen; aborted = x.aborted; cam_failed =
              x.cam_failed; acq_on = x.acq_on; src_on = x.src_on; goal =
              x.goal; mon_fresh = x.mon_fresh; dropped = x.dropped;
              cam_starts = x.cam_starts; cam_stops = (n0 x); sto_starts =
              x.sto_starts; sto_stops = x.sto_stops })) (fun x -> S x)
              (set (fun s0 -> s0.s_pc) (fun f ->
                let s0 = fun r -> f r.s_pc in
                (fun x -> { valid = x.valid; maxn = x.maxn; cam = x.cam;
                cam_st = x.cam_st; sto = x.sto; sto_st = x.sto_st; cam_tag =
                x.cam_tag; cam_next = x.cam_next; log = x.log; accepting =
                x.accepting; sink_reg = x.sink_reg; sink_cur = x.sink_cur;
                sink_map = x.sink_map; mon_reg = x.mon_reg; mon_cur =
                x.mon_cur; mon_map = x.mon_map; src_stopping =
                x.src_stopping; abort_win = x.abort_win; sink_stopping =
                x.sink_stopping; filt_stopping = x.filt_stopping;
                src_running = x.src_running; sink_running = x.sink_running;
                filt_running = x.filt_running; s_pc = (s0 x); k_pc = x.k_pc;
                f_pc = x.f_pc; c_stop = x.c_stop; c_start = x.c_start;
                iframe = x.iframe; base = x.base; delivered = x.delivered;
                stored = x.stored; sto_failed = x.sto_failed; seen = x.seen;
                aborted = x.aborted; cam_failed = x.cam_failed; acq_on =
                x.acq_on; src_on = x.src_on; goal = x.goal; mon_fresh =
                x.mon_fresh; dropped = x.dropped; cam_starts = x.cam_starts;
                cam_stops = x.cam_stops; sto_starts = x.sto_starts;
                sto_stops = x.sto_stops })) (fun _ -> SLeave)
                (set (fun s0 -> s0.cam_st) (fun f ->
                  let h = fun r -> f r.cam_st in
                  (fun x -> { valid = x.valid; maxn = x.maxn; cam = x.cam;
                  cam_st = (h x); sto = x.sto; sto_st = x.sto_st; cam_tag =
                  x.cam_tag; cam_next = x.cam_next; log = x.log; accepting =
                  x.accepting; sink_reg = x.sink_reg; sink_cur = x.sink_cur;
                  sink_map = x.sink_map; mon_reg = x.mon_reg; mon_cur =
                  x.mon_cur; mon_map = x.mon_map; src_stopping =
                  x.src_stopping; abort_win = x.abort_win; sink_stopping =
                  x.sink_stopping; filt_stopping = x.filt_stopping;
                  src_running = x.src_running; sink_running = x.sink_running;
                  filt_running = x.filt_running; s_pc = x.s_pc; k_pc =
                  x.k_pc; f_pc = x.f_pc; c_stop = x.c_stop; c_start =
                  x.c_start; iframe = x.iframe; base = x.base; delivered =
                  x.delivered; stored = x.stored; sto_failed = x.sto_failed;
                  seen = x.seen; aborted = x.aborted; cam_failed =
                  x.cam_failed; acq_on = x.acq_on; src_on = x.src_on; goal =
                  x.goal; mon_fresh = x.mon_fresh; dropped = x.dropped;
                  cam_starts = x.cam_starts; cam_stops = x.cam_stops;
                  sto_starts = x.sto_starts; sto_stops = x.sto_stops }))
                  (fun _ -> HAwait) s)))
        | SWind2 ->
          guard ((&&) (optN_eqb s.cam i) (hst_eqb s.cam_st HRunning))
            (set (fun s0 -> s0.cam_stops) (fun f ->
              let n0 = fun r -> f r.cam_stops in
              (fun x -> { valid = x.valid; maxn = x.maxn; cam = x.cam;
              cam_st = x.cam_st; sto = x.sto; sto_st = x.sto_st; cam_tag =
              x.cam_tag; cam_next = x.cam_next; log = x.log; accepting =
              x.accepting; sink_reg = x.sink_reg; sink_cur = x.sink_cur;
              sink_map = x.sink_map; mon_reg = x.mon_reg; mon_cur =
              x.mon_cur; mon_map = x.mon_map; src_stopping = x.src_stopping;
              abort_win = x.abort_win; sink_stopping = x.sink_stopping;
              filt_stopping = x.filt_stopping; src_running = x.src_running;
              sink_running = x.sink_running; filt_running = x.filt_running;
              s_pc = x.s_pc; k_pc = x.k_pc; f_pc = x.f_pc; c_stop = x.c_stop;
              c_start = x.c_start; iframe = x.iframe; base = x.base;
              delivered = x.delivered; stored = x.stored; sto_failed =
              x.sto_failed; seen = x.seen; aborted = x.aborted; cam_failed =
              x.cam_failed; acq_on = x.acq_on; src_on = x.src_on; goal =
              x.goal; mon_fresh = x.mon_fresh; dropped = x.dropped;
              cam_starts = x.cam_starts; cam_stops = (n0 x); sto_starts =
              x.sto_starts; sto_stops = x.sto_stops })) (fun x -> S x)
              (set (fun s0 -> s0.s_pc) (fun f ->
                let s0 = fun r -> f r.s_pc in
                (fun x -> { valid = x.valid; maxn = x.maxn; cam = x.cam;
                cam_st = x.cam_st; sto = x.sto; sto_st = x.sto_st; cam_tag =
                x.cam_tag; cam_next = x.cam_next; log = x.log; accepting =
                x.accepting; sink_reg = x.sink_reg; sink_cur = x.sink_cur;
                sink_map = x.sink_map; mon_reg = x.mon_reg; mon_cur =
                x.mon_cur; mon_map = x.mon_map; src_stopping =
                x.src_stopping; abort_win = x.abort_win; sink_stopping =
                x.sink_stopping; filt_stopping = x.filt_stopping;
                src_running = x.src_running; sink_running = x.sink_running;
                filt_running = x.filt_running; s_pc = (s0 x); k_pc = x.k_pc;
                f_pc = x.f_pc; c_stop = x.c_stop; c_start = x.c_start;
                iframe = x.iframe; base = x.base; delivered = x.delivered;
                stored = x.stored; sto_failed = x.sto_failed; seen = x.seen;
                aborted = x.aborted; cam_failed = x.cam_failed; acq_on =
                x.acq_on; src_on = x.src_on; goal = x.goal; mon_fresh =
                x.mon_fresh; dropped = x.dropped; cam_starts = x.cam_starts;
                cam_stops = x.cam_stops; sto_starts = x.sto_starts;
                sto_stops = x.sto_stops })) (fun _ -> SExiting)
                (set (fun s0 -> s0.src_running) (fun f ->
                  let b = fun r -> f r.src_running in
                  (fun x -> { valid = x.valid; maxn = x.maxn; cam = x.cam;
                  cam_st = x.cam_st; sto = x.sto; sto_st = x.sto_st;
                  cam_tag = x.cam_tag; cam_next = x.cam_next; log = x.log;
                  accepting = x.accepting; sink_reg = x.sink_reg; sink_cur =
                  x.sink_cur; sink_map = x.sink_map; mon_reg = x.mon_reg;
                  mon_cur = x.mon_cur; mon_map = x.mon_map; src_stopping =
                  x.src_stopping; abort_win = x.abort_win; sink_stopping =
                  x.sink_stopping; filt_stopping = x.filt_stopping;
                  src_running = (b x); sink_running = x.sink_running;
                  filt_running = x.filt_running; s_pc = x.s_pc; k_pc =
                  x.k_pc; f_pc = x.f_pc; c_stop = x.c_stop; c_start =
                  x.c_start; iframe = x.iframe; base = x.base; delivered =
                  x.delivered; stored = x.stored; sto_failed = x.sto_failed;
                  seen = x.seen; aborted = x.aborted; cam_failed =
                  x.cam_failed; acq_on = x.acq_on; src_on = x.src_on; goal =
                  x.goal; mon_fresh = x.mon_fresh; dropped = x.dropped;
                  cam_starts = x.cam_starts; cam_stops = x.cam_stops;
                  sto_starts = x.sto_starts; sto_stops = x.sto_stops }))
                  (fun _ -> false)
                  (set (fun s0 -> s0.src_stopping) (fun f ->
                    let b = fun r -> f r.src_stopping in
                    (fun x -> { valid = x.valid; maxn = x.maxn; cam = x.cam;
                    cam_st = x.cam_st; sto = x.sto; sto_st = x.sto_st;
                    cam_tag = x.cam_tag; cam_next = x.cam_next; log = x.log;
                    accepting = x.accepting; sink_reg = x.sink_reg;
                    sink_cur = x.sink_cur; sink_map = x.sink_map; mon_reg =
                    x.mon_reg; mon_cur = x.mon_cur; mon_map = x.mon_map;
                    src_stopping = (b x); abort_win = x.abort_win;
                    sink_stopping = x.sink_stopping; filt_stopping =
                    x.filt_stopping; src_running = x.src_running;
                    sink_running = x.sink_running; filt_running =
                    x.filt_running; s_pc = x.s_pc; k_pc = x.k_pc; f_pc =
                    x.f_pc; c_stop = x.c_stop; c_start = x.c_start; iframe =
                    x.iframe; base = x.base; delivered = x.delivered;
                    stored = x.stored; sto_failed = x.sto_failed; seen =
                    x.seen; aborted = x.aborted; cam_failed = x.cam_failed;
                    acq_on = x.acq_on; src_on = x.src_on; goal = x.goal;
                    mon_fresh = x.mon_fresh; dropped = x.dropped;
                    cam_starts = x.cam_starts; cam_stops = x.cam_stops;
                    sto_starts = x.sto_starts; sto_stops = x.sto_stops }))
                    (fun _ -> false)
                    (set (fun s0 -> s0.cam_st) (fun f ->
                      let h = fun r -> f r.cam_st in
                      (fun x -> { valid = x.valid; maxn = x.maxn; cam =
                      x.cam; cam_st = (h x); sto = x.sto; sto_st = x.sto_st;
                      cam_tag = x.cam_tag; cam_next = x.cam_next; log =
                      x.log; accepting = x.accepting; sink_reg = x.sink_reg;
                      sink_cur = x.sink_cur; sink_map = x.sink_map; mon_reg =
                      x.mon_reg; mon_cur = x.mon_cur; mon_map = x.mon_map;
                      src_stopping = x.src_stopping; abort_win = x.abort_win;
                      sink_stopping = x.sink_stopping; filt_stopping =
                      x.filt_stopping; src_running = x.src_running;
                      sink_running = x.sink_running; filt_running =
                      x.filt_running; s_pc = x.s_pc; k_pc = x.k_pc; f_pc =
                      x.f_pc; c_stop = x.c_stop; c_start = x.c_start;
                      iframe = x.iframe; base = x.base; delivered =
                      x.delivered; stored = x.stored; sto_failed =
                      x.sto_failed; seen = x.seen; aborted = x.aborted;
                      cam_failed = x.cam_failed; acq_on = x.acq_on; src_on =
                      x.src_on; goal = x.goal; mon_fresh = x.mon_fresh;
                      dropped = x.dropped; cam_starts = x.cam_starts;
                      cam_stops = x.cam_stops; sto_starts = x.sto_starts;
                      sto_stops = x.sto_stops })) (fun _ -> HArmed) s)))))
        | _ -> None)
     | DGetFrame (i, res) ->
       (match res with
        | Some p ->
          let (p0, sh) = p in
          let (hw, tag) = p0 in
          guard
            ((&&)
              ((&&)
                ((&&)
                  ((&&) (match s.s_pc with
                         | SMapped -> true
                         | _ -> false) (optN_eqb s.cam i))
                  (hst_eqb s.cam_st HRunning)) (N.eqb hw s.cam_next))
              (N.eqb tag s.cam_tag))
            (let f = { f_tag = tag; f_id = s.iframe; f_hw = hw; f_sh = sh }
             in
             set (fun s0 -> s0.iframe) (fun f0 ->
               let n0 = fun r -> f0 r.iframe in
               (fun x -> { valid = x.valid; maxn = x.maxn; cam = x.cam;
               cam_st = x.cam_st; sto = x.sto; sto_st = x.sto_st; cam_tag =
               x.cam_tag; cam_next = x.cam_next; log = x.log; accepting =
               x.accepting; sink_reg = x.sink_reg; sink_cur = x.sink_cur;
               sink_map = x.sink_map; mon_reg = x.mon_reg; mon_cur =
               x.mon_cur; mon_map = x.mon_map; src_stopping = x.src_stopping;
               abort_win = x.abort_win; sink_stopping = x.sink_stopping;
               filt_stopping = x.filt_stopping; src_running = x.src_running;
               sink_running = x.sink_running; filt_running = x.filt_running;
               s_pc = x.s_pc; k_pc = x.k_pc; f_pc = x.f_pc; c_stop =
               x.c_stop; c_start = x.c_start; iframe = (n0 x); base = x.base;
               delivered = x.delivered; stored = x.stored; sto_failed =
               x.sto_failed; seen = x.seen; aborted = x.aborted; cam_failed =
               x.cam_failed; acq_on = x.acq_on; src_on = x.src_on; goal =
               x.goal; mon_fresh = x.mon_fresh; dropped = x.dropped;
               cam_starts = x.cam_starts; cam_stops = x.cam_stops;
               sto_starts = x.sto_starts; sto_stops = x.sto_stops }))
               (fun _ -> N.succ s.iframe)
               (set (fun s0 -> s0.s_pc) (fun f0 ->
                 let s0 = fun r -> f0 r.s_pc in
                 (fun x -> { valid = x.valid; maxn = x.maxn; cam = x.cam;
                 cam_st = x.cam_st; sto = x.sto; sto_st = x.sto_st; cam_tag =
                 x.cam_tag; cam_next = x.cam_next; log = x.log; accepting =
                 x.accepting; sink_reg = x.sink_reg; sink_cur = x.sink_cur;
                 sink_map = x.sink_map; mon_reg = x.mon_reg; mon_cur =
                 x.mon_cur; mon_map = x.mon_map; src_stopping =
                 x.src_stopping; abort_win = x.abort_win; sink_stopping =
                 x.sink_stopping; filt_stopping = x.filt_stopping;
                 src_running = x.src_running; sink_running = x.sink_running;
                 filt_running = x.filt_running; s_pc = (s0 x); k_pc = x.k_pc;
                 f_pc = x.f_pc; c_stop = x.c_stop; c_start = x.c_start;
                 iframe = x.iframe; base = x.base; delivered = x.delivered;
                 stored = x.stored; sto_failed = x.sto_failed; seen = x.seen;
                 aborted = x.aborted; cam_failed = x.cam_failed; acq_on =
                 x.acq_on; src_on = x.src_on; goal = x.goal; mon_fresh =
                 x.mon_fresh; dropped = x.dropped; cam_starts = x.cam_starts;
                 cam_stops = x.cam_stops; sto_starts = x.sto_starts;
                 sto_stops = x.sto_stops })) (fun _ -> SGot f)
                 (set (fun s0 -> s0.delivered) (fun f0 ->
                   let l = fun r -> f0 r.delivered in
                   (fun x -> { valid = x.valid; maxn = x.maxn; cam = x.cam;
                   cam_st = x.cam_st; sto = x.sto; sto_st = x.sto_st;
                   cam_tag = x.cam_tag; cam_next = x.cam_next; log = x.log;
                   accepting = x.accepting; sink_reg = x.sink_reg; sink_cur =
                   x.sink_cur; sink_map = x.sink_map; mon_reg = x.mon_reg;
                   mon_cur = x.mon_cur; mon_map = x.mon_map; src_stopping =
                   x.src_stopping; abort_win = x.abort_win; sink_stopping =
                   x.sink_stopping; filt_stopping = x.filt_stopping;
                   src_running = x.src_running; sink_running =
                   x.sink_running; filt_running = x.filt_running; s_pc =
                   x.s_pc; k_pc = x.k_pc; f_pc = x.f_pc; c_stop = x.c_stop;
                   c_start = x.c_start; iframe = x.iframe; base = x.base;
                   delivered = (l x); stored = x.stored; sto_failed =
                   x.sto_failed; seen = x.seen; aborted = x.aborted;
                   cam_failed = x.cam_failed; acq_on = x.acq_on; src_on =
                   x.src_on; goal = x.goal; mon_fresh = x.mon_fresh;
                   dropped = x.dropped; cam_starts = x.cam_starts;
                   cam_stops = x.cam_stops; sto_starts = x.sto_starts;
                   sto_stops = x.sto_stops })) (fun _ ->
                   app s.delivered (f :: []))
                   (set (fun s0 -> s0.cam_next) (fun f0 ->
                     let n0 = fun r -> f0 r.cam_next in
                     (fun x -> { valid = x.valid; maxn = x.maxn; cam = x.cam;
                     cam_st = x.cam_st; sto = x.sto; sto_st = x.sto_st;
                     cam_tag = x.cam_tag; cam_next = (n0 x); log = x.log;
                     accepting = x.accepting; sink_reg = x.sink_reg;
                     sink_cur = x.sink_cur; sink_map = x.sink_map; mon_reg =
                     x.mon_reg; mon_cur = x.mon_cur; mon_map = x.mon_map;
                     src_stopping = x.src_stopping; abort_win = x.abort_win;
                     sink_stopping = x.sink_stopping; filt_stopping =
                     x.filt_stopping; src_running = x.src_running;
                     sink_running = x.sink_running; filt_running =
                     x.filt_running; s_pc = x.s_pc; k_pc = x.k_pc; f_pc =
                     x.f_pc; c_stop = x.c_stop; c_start = x.c_start; iframe =
                     x.iframe; base = x.base; delivered = x.delivered;
                     stored = x.stored; sto_failed = x.sto_failed; seen =
                     x.seen; aborted = x.aborted; cam_failed = x.cam_failed;
                     acq_on = x.acq_on; src_on = x.src_on; goal = x.goal;
                     mon_fresh = x.mon_fresh; dropped = x.dropped;
                     cam_starts = x.cam_starts; cam_stops = x.cam_stops;
                     sto_starts = x.sto_starts; sto_stops = x.sto_stops }))
                     (fun _ -> N.succ s.cam_next) s))))
        | None ->
          guard
            ((&&)
              ((&&) (match s.s_pc with
                     | SMapped -> true
                     | _ -> false) (optN_eqb s.cam i))
              (hst_eqb s.cam_st HRunning))
            (set (fun s0 -> s0.cam_failed) (fun f ->
              let b = fun r -> f r.cam_failed in
              (fun x -> { valid = x.valid; maxn = x.maxn; cam = x.cam;
              cam_st = x.cam_st; sto = x.sto; sto_st = x.sto_st; cam_tag =
              x.cam_tag; cam_next = x.cam_next; log = x.log; accepting =
              x.accepting; sink_reg = x.sink_reg; sink_cur = x.sink_cur;
              sink_map = x.sink_map; mon_reg = x.mon_reg; mon_cur =
              x.mon_cur; mon_map = x.mon_map; src_stopping = x.src_stopping;
              abort_win = x.abort_win; sink_stopping = x.sink_stopping;
              filt_stopping = x.filt_stopping; src_running = x.src_running;
              sink_running = x.sink_running; filt_running = x.filt_running;
              s_pc = x.s_pc; k_pc = x.k_pc; f_pc = x.f_pc; c_stop = x.c_stop;
              c_start = x.c_start; iframe = x.iframe; base = x.base;
              delivered = x.delivered; stored = x.stored; sto_failed =
              x.sto_failed; seen = x.seen; aborted = x.aborted; cam_failed =
              (b x); acq_on = x.acq_on; src_on = x.src_on; goal = x.goal;
              mon_fresh = x.mon_fresh; dropped = x.dropped; cam_starts =
              x.cam_starts; cam_stops = x.cam_stops; sto_starts =
              x.sto_starts; sto_stops = x.sto_stops })) (fun _ -> true)
              (set (fun s0 -> s0.s_pc) (fun f ->
                let s0 = fun r -> f r.s_pc in
                (fun x -> { valid = x.valid; maxn = x.maxn; cam = x.cam;
                cam_st = x.cam_st; sto = x.sto; sto_st = x.sto_st; cam_tag =
                x.cam_tag; cam_next = x.cam_next; log = x.log; accepting =
                x.accepting; sink_reg = x.sink_reg; sink_cur = x.sink_cur;
                sink_map = x.sink_map; mon_reg = x.mon_reg; mon_cur =
                x.mon_cur; mon_map = x.mon_map; src_stopping =
                x.src_stopping; abort_win = x.abort_win; sink_stopping =
                x.sink_stopping; filt_stopping = x.filt_stopping;
                src_running = x.src_running; sink_running = x.sink_running;
                filt_running = x.filt_running; s_pc = (s0 x); k_pc = x.k_pc;
                f_pc = x.f_pc; c_stop = x.c_stop; c_start = x.c_start;
                iframe = x.iframe; base = x.base; delivered = x.delivered;
                stored = x.stored; sto_failed = x.sto_failed; seen = x.seen;
                aborted = x.aborted; cam_failed = x.cam_failed; acq_on =
                x.acq_on; src_on = x.src_on; goal = x.goal; mon_fresh =
                x.mon_fresh; dropped = x.dropped; cam_starts = x.cam_starts;
                cam_stops = x.cam_stops; sto_starts = x.sto_starts;
                sto_stops = x.sto_stops })) (fun _ -> SFailStop) s)))
     | DGetEmpty i ->
       guard
         ((&&)
           ((&&) (match s.s_pc with
                  | SMapped -> true
                  | _ -> false) (optN_eqb s.cam i))
           (hst_eqb s.cam_st HRunning))
         (set (fun s0 -> s0.s_pc) (fun f ->
           let s0 = fun r -> f r.s_pc in
           (fun x -> { valid = x.valid; maxn = x.maxn; cam = x.cam; cam_st =
           x.cam_st; sto = x.sto; sto_st = x.sto_st; cam_tag = x.cam_tag;
           cam_next = x.cam_next; log = x.log; accepting = x.accepting;
           sink_reg = x.sink_reg; sink_cur = x.sink_cur; sink_map =
           x.sink_map; mon_reg = x.mon_reg; mon_cur = x.mon_cur; mon_map =
           x.mon_map; src_stopping = x.src_stopping; abort_win = x.abort_win;
           sink_stopping = x.sink_stopping; filt_stopping = x.filt_stopping;
           src_running = x.src_running; sink_running = x.sink_running;
           filt_running = x.filt_running; s_pc = (s0 x); k_pc = x.k_pc;
           f_pc = x.f_pc; c_stop = x.c_stop; c_start = x.c_start; iframe =
           x.iframe; base = x.base; delivered = x.delivered; stored =
           x.stored; sto_failed = x.sto_failed; seen = x.seen; aborted =
           x.aborted; cam_failed = x.cam_failed; acq_on = x.acq_on; src_on =
           x.src_on; goal = x.goal; mon_fresh = x.mon_fresh; dropped =
           x.dropped; cam_starts = x.cam_starts; cam_stops = x.cam_stops;
           sto_starts = x.sto_starts; sto_stops = x.sto_stops })) (fun _ ->
           SLoop) s)
     | WMapEnter ->
       guard
         ((&&)
           ((&&) (match s.s_pc with
                  | SLoop -> true
                  | _ -> false) (negb s.src_stopping))
           (N.ltb s.iframe s.maxn))
         (set (fun s0 -> s0.s_pc) (fun f ->
           let s0 = fun r -> f r.s_pc in
           (fun x -> { valid = x.valid; maxn = x.maxn; cam = x.cam; cam_st =
           x.cam_st; sto = x.sto; sto_st = x.sto_st; cam_tag = x.cam_tag;
           cam_next = x.cam_next; log = x.log; accepting = x.accepting;
           sink_reg = x.sink_reg; sink_cur = x.sink_cur; sink_map =
           x.sink_map; mon_reg = x.mon_reg; mon_cur = x.mon_cur; mon_map =
           x.mon_map; src_stopping = x.src_stopping; abort_win = x.abort_win;
           sink_stopping = x.sink_stopping; filt_stopping = x.filt_stopping;
           src_running = x.src_running; sink_running = x.sink_running;
           filt_running = x.filt_running; s_pc = (s0 x); k_pc = x.k_pc;
           f_pc = x.f_pc; c_stop = x.c_stop; c_start = x.c_start; iframe =
           x.iframe; base = x.base; delivered = x.delivered; stored =
           x.stored; sto_failed = x.sto_failed; seen = x.seen; aborted =
           x.aborted; cam_failed = x.cam_failed; acq_on = x.acq_on; src_on =
           x.src_on; goal = x.goal; mon_fresh = x.mon_fresh; dropped =
           x.dropped; cam_starts = x.cam_starts; cam_stops = x.cam_stops;
           sto_starts = x.sto_starts; sto_stops = x.sto_stops })) (fun _ ->
           SWMap) s)
     | WMap ok ->
       guard
         ((&&) (match s.s_pc with
                | SWMap -> true
                | _ -> false) (eqb ok s.accepting))
         (set (fun s0 -> s0.s_pc) (fun f ->
           let s0 = fun r -> f r.s_pc in
           (fun x -> { valid = x.valid; maxn = x.maxn; cam = x.cam; cam_st =
           x.cam_st; sto = x.sto; sto_st = x.sto_st; cam_tag = x.cam_tag;
           cam_next = x.cam_next; log = x.log; accepting = x.accepting;
           sink_reg = x.sink_reg; sink_cur = x.sink_cur; sink_map =
           x.sink_map; mon_reg = x.mon_reg; mon_cur = x.mon_cur; mon_map =
           x.mon_map; src_stopping = x.src_stopping; abort_win = x.abort_win;
           sink_stopping = x.sink_stopping; filt_stopping = x.filt_stopping;
           src_running = x.src_running; sink_running = x.sink_running;
           filt_running = x.filt_running; s_pc = (s0 x); k_pc = x.k_pc;
           f_pc = x.f_pc; c_stop = x.c_stop; c_start = x.c_start; iframe =
           x.iframe; base = x.base; delivered = x.delivered; stored =
           x.stored; sto_failed = x.sto_failed; seen = x.seen; aborted =
           x.aborted; cam_failed = x.cam_failed; acq_on = x.acq_on; src_on =
           x.src_on; goal = x.goal; mon_fresh = x.mon_fresh; dropped =
           x.dropped; cam_starts = x.cam_starts; cam_stops = x.cam_stops;
           sto_starts = x.sto_starts; sto_stops = x.sto_stops })) (fun _ ->
           if ok then SMapped else SLoop) s)
     | Commit (ok, f) ->
       guard
         ((&&) (match s.s_pc with
                | SGot f' -> frm_eqb f f'
                | _ -> false) (eqb ok s.accepting))
         (if ok
          then set (fun s0 -> s0.s_pc) (fun f0 ->
                 let s0 = fun r -> f0 r.s_pc in
                 (fun x -> { valid = x.valid; maxn = x.maxn; cam = x.cam;
                 cam_st = x.cam_st; sto = x.sto; sto_st = x.sto_st; cam_tag =
                 x.cam_tag; cam_next = x.cam_next; log = x.log; accepting =
                 x.accepting; sink_reg = x.sink_reg; sink_cur = x.sink_cur;
                 sink_map = x.sink_map; mon_reg = x.mon_reg; mon_cur =
                 x.mon_cur; mon_map = x.mon_map; src_stopping =
                 x.src_stopping; abort_win = x.abort_win; sink_stopping =
                 x.sink_stopping; filt_stopping = x.filt_stopping;
                 src_running = x.src_running; sink_running = x.sink_running;
                 filt_running = x.filt_running; s_pc = (s0 x); k_pc = x.k_pc;
                 f_pc = x.f_pc; c_stop = x.c_stop; c_start = x.c_start;
                 iframe = x.iframe; base = x.base; delivered = x.delivered;
                 stored = x.stored; sto_failed = x.sto_failed; seen = x.seen;
                 aborted = x.aborted; cam_failed = x.cam_failed; acq_on =
                 x.acq_on; src_on = x.src_on; goal = x.goal; mon_fresh =
                 x.mon_fresh; dropped = x.dropped; cam_starts = x.cam_starts;
                 cam_stops = x.cam_stops; sto_starts = x.sto_starts;
                 sto_stops = x.sto_stops })) (fun _ -> SLoop)
                 (set (fun s0 -> s0.log) (fun f0 ->
                   let l = fun r -> f0 r.log in
                   (fun x -> { valid = x.valid; maxn = x.maxn; cam = x.cam;
                   cam_st = x.cam_st; sto = x.sto; sto_st = x.sto_st;
                   cam_tag = x.cam_tag; cam_next = x.cam_next; log = 
                   (l x); accepting = x.accepting; sink_reg = x.sink_reg;
                   sink_cur = x.sink_cur; sink_map = x.sink_map; mon_reg =
                   x.mon_reg; mon_cur = x.mon_cur; mon_map = x.mon_map;
                   src_stopping = x.src_stopping; abort_win = x.abort_win;
                   sink_stopping = x.sink_stopping; filt_stopping =
                   x.filt_stopping; src_running = x.src_running;
                   sink_running = x.sink_running; filt_running =
                   x.filt_running; s_pc = x.s_pc; k_pc = x.k_pc; f_pc =
                   x.f_pc; c_stop = x.c_stop; c_start = x.c_start; iframe =
                   x.iframe; base = x.base; delivered = x.delivered; stored =
                   x.stored; sto_failed = x.sto_failed; seen = x.seen;
                   aborted = x.aborted; cam_failed = x.cam_failed; acq_on =
                   x.acq_on; src_on = x.src_on; goal = x.goal; mon_fresh =
                   x.mon_fresh; dropped = x.dropped; cam_starts =
                   x.cam_starts; cam_stops = x.cam_stops; sto_starts =
                   x.sto_starts; sto_stops = x.sto_stops })) (fun _ ->
                   app s.log (f :: [])) s)
          else set (fun s0 -> s0.s_pc) (fun f0 ->
                 let s0 = fun r -> f0 r.s_pc in
                 (fun x -> { valid = x.valid; maxn = x.maxn; cam = x.cam;
                 cam_st = x.cam_st; sto = x.sto; sto_st = x.sto_st; cam_tag =
                 x.cam_tag; cam_next = x.cam_next; log = x.log; accepting =
                 x.accepting; sink_reg = x.sink_reg; sink_cur = x.sink_cur;
                 sink_map = x.sink_map; mon_reg = x.mon_reg; mon_cur =
                 x.mon_cur; mon_map = x.mon_map; src_stopping =
                 x.src_stopping; abort_win = x.abort_win; sink_stopping =
                 x.sink_stopping; filt_stopping = x.filt_stopping;
                 src_running = x.src_running; sink_running = x.sink_running;
                 filt_running = x.filt_running; s_pc = (s0 x); k_pc = x.k_pc;
                 f_pc = x.f_pc; c_stop = x.c_stop; c_start = x.c_start;
                 iframe = x.iframe; base = x.base; delivered = x.delivered;
                 stored = x.stored; sto_failed = x.sto_failed; seen = x.seen;
                 aborted = x.aborted; cam_failed = x.cam_failed; acq_on =
                 x.acq_on; src_on = x.src_on; goal = x.goal; mon_fresh =
                 x.mon_fresh; dropped = x.dropped; cam_starts = x.cam_starts;
                 cam_stops = x.cam_stops; sto_starts = x.sto_starts;
                 sto_stops = x.sto_stops })) (fun _ -> SLoop)
                 (set (fun s0 -> s0.dropped) (fun f0 ->
                   let b = fun r -> f0 r.dropped in
                   (fun x -> { valid = x.valid; maxn = x.maxn; cam = x.cam;
                   cam_st = x.cam_st; sto = x.sto; sto_st = x.sto_st;
                   cam_tag = x.cam_tag; cam_next = x.cam_next; log = x.log;
                   accepting = x.accepting; sink_reg = x.sink_reg; sink_cur =
                   x.sink_cur; sink_map = x.sink_map; mon_reg = x.mon_reg;
                   mon_cur = x.mon_cur; mon_map = x.mon_map; src_stopping =
                   x.src_stopping; abort_win = x.abort_win; sink_stopping =
                   x.sink_stopping; filt_stopping = x.filt_stopping;
                   src_running = x.src_running; sink_running =
                   x.sink_running; filt_running = x.filt_running; s_pc =
                   x.s_pc; k_pc = x.k_pc; f_pc = x.f_pc; c_stop = x.c_stop;
                   c_start = x.c_start; iframe = x.iframe; base = x.base;
                   delivered = x.delivered; stored = x.stored; sto_failed =
                   x.sto_failed; seen = x.seen; aborted = x.aborted;
                   cam_failed = x.cam_failed; acq_on = x.acq_on; src_on =
                   x.src_on; goal = x.goal; mon_fresh = x.mon_fresh;
                   dropped = (b x); cam_starts = x.cam_starts; cam_stops =
                   x.cam_stops; sto_starts = x.sto_starts; sto_stops =
                   x.sto_stops })) (fun _ -> true) s))
     | CbStopFilter ->
       guard
         (match s.s_pc with
          | SLoop ->
            (||) ((||) s.src_stopping s.abort_win) (N.leb s.maxn s.iframe)
          | SMapped -> negb (hst_eqb s.cam_st HRunning)
          | SLeave -> true
          | _ -> false)
         (set (fun s0 -> s0.s_pc) (fun f ->
           let s0 = fun r -> f r.s_pc in
           (fun x -> { valid = x.valid; maxn = x.maxn; cam = x.cam; cam_st =
           x.cam_st; sto = x.sto; sto_st = x.sto_st; cam_tag = x.cam_tag;
           cam_next = x.cam_next; log = x.log; accepting = x.accepting;
           sink_reg = x.sink_reg; sink_cur = x.sink_cur; sink_map =
           x.sink_map; mon_reg = x.mon_reg; mon_cur = x.mon_cur; mon_map =
           x.mon_map; src_stopping = x.src_stopping; abort_win = x.abort_win;
           sink_stopping = x.sink_stopping; filt_stopping = x.filt_stopping;
           src_running = x.src_running; sink_running = x.sink_running;
           filt_running = x.filt_running; s_pc = (s0 x); k_pc = x.k_pc;
           f_pc = x.f_pc; c_stop = x.c_stop; c_start = x.c_start; iframe =
           x.iframe; base = x.base; delivered = x.delivered; stored =
           x.stored; sto_failed = x.sto_failed; seen = x.seen; aborted =
           x.aborted; cam_failed = x.cam_failed; acq_on = x.acq_on; src_on =
           x.src_on; goal = x.goal; mon_fresh = x.mon_fresh; dropped =
           x.dropped; cam_starts = x.cam_starts; cam_stops = x.cam_stops;
           sto_starts = x.sto_starts; sto_stops = x.sto_stops })) (fun _ ->
           SWind1)
           (set (fun s0 -> s0.filt_stopping) (fun f ->
             let b = fun r -> f r.filt_stopping in
             (fun x -> { valid = x.valid; maxn = x.maxn; cam = x.cam;
             cam_st = x.cam_st; sto = x.sto; sto_st = x.sto_st; cam_tag =
             x.cam_tag; cam_next = x.cam_next; log = x.log; accepting =
             x.accepting; sink_reg = x.sink_reg; sink_cur = x.sink_cur;
             sink_map = x.sink_map; mon_reg = x.mon_reg; mon_cur = x.mon_cur;
             mon_map = x.mon_map; src_stopping = x.src_stopping; abort_win =
             x.abort_win; sink_stopping = x.sink_stopping; filt_stopping =
             (b x); src_running = x.src_running; sink_running =
             x.sink_running; filt_running = x.filt_running; s_pc = x.s_pc;
             k_pc = x.k_pc; f_pc = x.f_pc; c_stop = x.c_stop; c_start =
             x.c_start; iframe = x.iframe; base = x.base; delivered =
             x.delivered; stored = x.stored; sto_failed = x.sto_failed;
             seen = x.seen; aborted = x.aborted; cam_failed = x.cam_failed;
             acq_on = x.acq_on; src_on = x.src_on; goal = x.goal; mon_fresh =
             x.mon_fresh; dropped = x.dropped; cam_starts = x.cam_starts;
             cam_stops = x.cam_stops; sto_starts = x.sto_starts; sto_stops =
             x.sto_stops })) (fun _ -> true) s))
     | CbStopSink ->
       guard
         ((&&) (match s.s_pc with
                | SWind1 -> true
                | _ -> false) (match s.f_pc with
                               | FRun -> false
                               | _ -> true))
         (match s.cam_st with
          | HRunning ->
            set (fun s0 -> s0.s_pc) (fun f ->
              let s0 = fun r -> f r.s_pc in
              (fun x -> { valid = x.valid; maxn = x.maxn; cam = x.cam;
              cam_st = x.cam_st; sto = x.sto; sto_st = x.sto_st; cam_tag =
              x.cam_tag; cam_next = x.cam_next; log = x.log; accepting =
              x.accepting; sink_reg = x.sink_reg; sink_cur = x.sink_cur;
              sink_map = x.sink_map; mon_reg = x.mon_reg; mon_cur =
              x.mon_cur; mon_map = x.mon_map; src_stopping = x.src_stopping;
              abort_win = x.abort_win; sink_stopping = x.sink_stopping;
              filt_stopping = x.filt_stopping; src_running = x.src_running;
              sink_running = x.sink_running; filt_running = x.filt_running;
              s_pc = (s0 x); k_pc = x.k_pc; f_pc = x.f_pc; c_stop = x.c_stop;
              c_start = x.c_start; iframe = x.iframe; base = x.base;
              delivered = x.delivered; stored = x.stored; sto_failed =
              x.sto_failed; seen = x.seen; aborted = x.aborted; cam_failed =
              x.cam_failed; acq_on = x.acq_on; src_on = x.src_on; goal =
              x.goal; mon_fresh = x.mon_fresh; dropped = x.dropped;
              cam_starts = x.cam_starts; cam_stops = x.cam_stops;
              sto_starts = x.sto_starts; sto_stops = x.sto_stops }))
              (fun _ -> SWind2)
              (set (fun s0 -> s0.sink_stopping) (fun f ->
                let b = fun r -> f r.sink_stopping in
                (fun x -> { valid = x.valid; maxn = x.maxn; cam = x.cam;
                cam_st = x.cam_st; sto = x.sto; sto_st = x.sto_st; cam_tag =
                x.cam_tag; cam_next = x.cam_next; log = x.log; accepting =
                x.accepting; sink_reg = x.sink_reg; sink_cur = x.sink_cur;
                sink_map = x.sink_map; mon_reg = x.mon_reg; mon_cur =
                x.mon_cur; mon_map = x.mon_map; src_stopping =
                x.src_stopping; abort_win = x.abort_win; sink_stopping =
                (b x); filt_stopping = x.filt_stopping; src_running =
                x.src_running; sink_running = x.sink_running; filt_running =
                x.filt_running; s_pc = x.s_pc; k_pc = x.k_pc; f_pc = x.f_pc;
                c_stop = x.c_stop; c_start = x.c_start; iframe = x.iframe;
                base = x.base; delivered = x.delivered; stored = x.stored;
                sto_failed = x.sto_failed; seen = x.seen; aborted =
                x.aborted; cam_failed = x.cam_failed; acq_on = x.acq_on;
                src_on = x.src_on; goal = x.goal; mon_fresh = x.mon_fresh;
                dropped = x.dropped; cam_starts = x.cam_starts; cam_stops =
                x.cam_stops; sto_starts = x.sto_starts; sto_stops =
                x.sto_stops })) (fun _ -> true) s)
          | _ ->
            set (fun s0 -> s0.s_pc) (fun f ->
              let s0 = fun r -> f r.s_pc in
              (fun x -> { valid = x.valid; maxn = x.maxn; cam = x.cam;
              cam_st = x.cam_st; sto = x.sto; sto_st = x.sto_st; cam_tag =
              x.cam_tag; cam_next = x.cam_next; log = x.log; accepting =
              x.accepting; sink_reg = x.sink_reg; sink_cur = x.sink_cur;
              sink_map = x.sink_map; mon_reg = x.mon_reg; mon_cur =
              x.mon_cur; mon_map = x.mon_map; src_stopping = x.src_stopping;
              abort_win = x.abort_win; sink_stopping = x.sink_stopping;
              filt_stopping = x.filt_stopping; src_running = x.src_running;
              sink_running = x.sink_running; filt_running = x.filt_running;
              s_pc = (s0 x); k_pc = x.k_pc; f_pc = x.f_pc; c_stop = x.c_stop;
              c_start = x.c_start; iframe = x.iframe; base = x.base;
              delivered = x.delivered; stored = x.stored; sto_failed =
              x.sto_failed; seen = x.seen; aborted = x.aborted; cam_failed =
              x.cam_failed; acq_on = x.acq_on; src_on = x.src_on; goal =
              x.goal; mon_fresh = x.mon_fresh; dropped = x.dropped;
              cam_starts = x.cam_starts; cam_stops = x.cam_stops;
              sto_starts = x.sto_starts; sto_stops = x.sto_stops }))
              (fun _ -> SExiting)
              (set (fun s0 -> s0.src_running) (fun f ->
                let b = fun r -> f r.src_running in
                (fun x -> { valid = x.valid; maxn = x.maxn; cam = x.cam;
                cam_st = x.cam_st; sto = x.sto; sto_st = x.sto_st; cam_tag =
                x.cam_tag; cam_next = x.cam_next; log = x.log; accepting =
                x.accepting; sink_reg = x.sink_reg; sink_cur = x.sink_cur;
                sink_map = x.sink_map; mon_reg = x.mon_reg; mon_cur =
                x.mon_cur; mon_map = x.mon_map; src_stopping =
                x.src_stopping; abort_win = x.abort_win; sink_stopping =
                x.sink_stopping; filt_stopping = x.filt_stopping;
                src_running = (b x); sink_running = x.sink_running;
                filt_running = x.filt_running; s_pc = x.s_pc; k_pc = x.k_pc;
                f_pc = x.f_pc; c_stop = x.c_stop; c_start = x.c_start;
                iframe = x.iframe; base = x.base; delivered = x.delivered;
                stored = x.stored; sto_failed = x.sto_failed; seen = x.seen;
                aborted = x.aborted; cam_failed = x.cam_failed; acq_on =
                x.acq_on; src_on = x.src_on; goal = x.goal; mon_fresh =
                x.mon_fresh; dropped = x.dropped; cam_starts = x.cam_starts;
                cam_stops = x.cam_stops; sto_starts = x.sto_starts;
                sto_stops = x.sto_stops })) (fun _ -> false)
                (set (fun s0 -> s0.src_stopping) (fun f ->
                  let b = fun r -> f r.src_stopping in
                  (fun x -> { valid = x.valid; maxn = x.maxn; cam = x.cam;
                  cam_st = x.cam_st; sto = x.sto; sto_st = x.sto_st;
                  cam_tag = x.cam_tag; cam_next = x.cam_next; log = x.log;
                  accepting = x.accepting; sink_reg = x.sink_reg; sink_cur =
                  x.sink_cur; sink_map = x.sink_map; mon_reg = x.mon_reg;
                  mon_cur = x.mon_cur; mon_map = x.mon_map; src_stopping =
                  (b x); abort_win = x.abort_win; sink_stopping =
                  x.sink_stopping; filt_stopping = x.filt_stopping;
                  src_running = x.src_running; sink_running = x.sink_running;
                  filt_running = x.filt_running; s_pc = x.s_pc; k_pc =
                  x.k_pc; f_pc = x.f_pc; c_stop = x.c_stop; c_start =
                  x.c_start; iframe = x.iframe; base = x.base; delivered =
                  x.delivered; stored = x.stored; sto_failed = x.sto_failed;
                  seen = x.seen; aborted = x.aborted; cam_failed =
                  x.cam_failed; acq_on = x.acq_on; src_on = x.src_on; goal =
                  x.goal; mon_fresh = x.mon_fresh; dropped = x.dropped;
                  cam_starts = x.cam_starts; cam_stops = x.cam_stops;
                  sto_starts = x.sto_starts; sto_stops = x.sto_stops }))
                  (fun _ -> false)
                  (set (fun s0 -> s0.sink_stopping) (fun f ->
                    let b = fun r -> f r.sink_stopping in
                    (fun x -> { valid = x.valid; maxn = x.maxn; cam = x.cam;
                    cam_st = x.cam_st; sto = x.sto; sto_st = x.sto_st;
                    cam_tag = x.cam_tag; cam_next = x.cam_next; log = x.log;
                    accepting = x.accepting; sink_reg = x.sink_reg;
                    sink_cur = x.sink_cur; sink_map = x.sink_map; mon_reg =
                    x.mon_reg; mon_cur = x.mon_cur; mon_map = x.mon_map;
                    src_stopping = x.src_stopping; abort_win = x.abort_win;
                    sink_stopping = (b x); filt_stopping = x.filt_stopping;
                    src_running = x.src_running; sink_running =
                    x.sink_running; filt_running = x.filt_running; s_pc =
                    x.s_pc; k_pc = x.k_pc; f_pc = x.f_pc; c_stop = x.c_stop;
                    c_start = x.c_start; iframe = x.iframe; base = x.base;
                    delivered = x.delivered; stored = x.stored; sto_failed =
                    x.sto_failed; seen = x.seen; aborted = x.aborted;
                    cam_failed = x.cam_failed; acq_on = x.acq_on; src_on =
                    x.src_on; goal = x.goal; mon_fresh = x.mon_fresh;
                    dropped = x.dropped; cam_starts = x.cam_starts;
                    cam_stops = x.cam_stops; sto_starts = x.sto_starts;
                    sto_stops = x.sto_stops })) (fun _ -> true) s))))
     | Exit w ->
       (match w with
        | RSrc ->
          guard (match s.s_pc with
                 | SExiting -> true
                 | _ -> false)
            (set (fun s0 -> s0.s_pc) (fun f ->
              let s0 = fun r -> f r.s_pc in
              (fun x -> { valid = x.valid; maxn = x.maxn; cam = x.cam;
              cam_st = x.cam_st; sto = x.sto; sto_st = x.sto_st; cam_tag =
              x.cam_tag; cam_next = x.cam_next; log = x.log; accepting =
              x.accepting; sink_reg = x.sink_reg; sink_cur = x.sink_cur;
              sink_map = x.sink_map; mon_reg = x.mon_reg; mon_cur =
              x.mon_cur; mon_map = x.mon_map; src_stopping = x.src_stopping;
              abort_win = x.abort_win; sink_stopping = x.sink_stopping;
              filt_stopping = x.filt_stopping; src_running = x.src_running;
              sink_running = x.sink_running; filt_running = x.filt_running;
              s_pc = (s0 x); k_pc = x.k_pc; f_pc = x.f_pc; c_stop = x.c_stop;
              c_start = x.c_start; iframe = x.iframe; base = x.base;
              delivered = x.delivered; stored = x.stored; sto_failed =
              x.sto_failed; seen = x.seen; aborted = x.aborted; cam_failed =
              x.cam_failed; acq_on = x.acq_on; src_on = x.src_on; goal =
              x.goal; mon_fresh = x.mon_fresh; dropped = x.dropped;
              cam_starts = x.cam_starts; cam_stops = x.cam_stops;
              sto_starts = x.sto_starts; sto_stops = x.sto_stops }))
              (fun _ -> SDone) s)
        | _ -> None)
     | Joined w ->
       (match w with
        | RFilt ->
          guard
            ((&&) (fpc_idle s.f_pc)
              (match s.s_pc with
               | SWind1 -> true
               | _ -> false)) s
        | _ -> None)
     | _ -> None)
  | ASink ->
    (match e with
     | DStoStop i ->
       guard
         ((&&)
           ((&&) (match s.k_pc with
                  | KStop -> true
                  | _ -> false) (optN_eqb s.sto i))
           (hst_eqb s.sto_st HRunning))
         (set (fun s0 -> s0.sto_stops) (fun f ->
           let n0 = fun r -> f r.sto_stops in
           (fun x -> { valid = x.valid; maxn = x.maxn; cam = x.cam; cam_st =
           x.cam_st; sto = x.sto; sto_st = x.sto_st; cam_tag = x.cam_tag;
           cam_next = x.cam_next; log = x.log; accepting = x.accepting;
           sink_reg = x.sink_reg; sink_cur = x.sink_cur; sink_map =
           x.sink_map; mon_reg = x.mon_reg; mon_cur = x.mon_cur; mon_map =
           x.mon_map; src_stopping = x.src_stopping; abort_win = x.abort_win;
           sink_stopping = x.sink_stopping; filt_stopping = x.filt_stopping;
           src_running = x.src_running; sink_running = x.sink_running;
           filt_running = x.filt_running; s_pc = x.s_pc; k_pc = x.k_pc;
           f_pc = x.f_pc; c_stop = x.c_stop; c_start = x.c_start; iframe =
           x.iframe; base = x.base; delivered = x.delivered; stored =
           x.stored; sto_failed = x.sto_failed; seen = x.seen; aborted =
           x.aborted; cam_failed = x.cam_failed; acq_on = x.acq_on; src_on =
           x.src_on; goal = x.goal; mon_fresh = x.mon_fresh; dropped =
           x.dropped; cam_starts = x.cam_starts; cam_stops = x.cam_stops;
           sto_starts = x.sto_starts; sto_stops = (n0 x) })) (fun x -> S x)
           (set (fun s0 -> s0.k_pc) (fun f ->
             let k = fun r -> f r.k_pc in
             (fun x -> { valid = x.valid; maxn = x.maxn; cam = x.cam;
             cam_st = x.cam_st; sto = x.sto; sto_st = x.sto_st; cam_tag =
             x.cam_tag; cam_next = x.cam_next; log = x.log; accepting =
             x.accepting; sink_reg = x.sink_reg; sink_cur = x.sink_cur;
             sink_map = x.sink_map; mon_reg = x.mon_reg; mon_cur = x.mon_cur;
             mon_map = x.mon_map; src_stopping = x.src_stopping; abort_win =
             x.abort_win; sink_stopping = x.sink_stopping; filt_stopping =
             x.filt_stopping; src_running = x.src_running; sink_running =
             x.sink_running; filt_running = x.filt_running; s_pc = x.s_pc;
             k_pc = (k x); f_pc = x.f_pc; c_stop = x.c_stop; c_start =
             x.c_start; iframe = x.iframe; base = x.base; delivered =
             x.delivered; stored = x.stored; sto_failed = x.sto_failed;
             seen = x.seen; aborted = x.aborted; cam_failed = x.cam_failed;
             acq_on = x.acq_on; src_on = x.src_on; goal = x.goal; mon_fresh =
             x.mon_fresh; dropped = x.dropped; cam_starts = x.cam_starts;
             cam_stops = x.cam_stops; sto_starts = x.sto_starts; sto_stops =
             x.sto_stops })) (fun _ -> KExiting)
             (set (fun s0 -> s0.sink_stopping) (fun f ->
               let b = fun r -> f r.sink_stopping in
               (fun x -> { valid = x.valid; maxn = x.maxn; cam = x.cam;
               cam_st = x.cam_st; sto = x.sto; sto_st = x.sto_st; cam_tag =
               x.cam_tag; cam_next = x.cam_next; log = x.log; accepting =
               x.accepting; sink_reg = x.sink_reg; sink_cur = x.sink_cur;
               sink_map = x.sink_map; mon_reg = x.mon_reg; mon_cur =
               x.mon_cur; mon_map = x.mon_map; src_stopping = x.src_stopping;
               abort_win = x.abort_win; sink_stopping = (b x);
               filt_stopping = x.filt_stopping; src_running = x.src_running;
               sink_running = x.sink_running; filt_running = x.filt_running;
               s_pc = x.s_pc; k_pc = x.k_pc; f_pc = x.f_pc; c_stop =
               x.c_stop; c_start = x.c_start; iframe = x.iframe; base =
               x.base; delivered = x.delivered; stored = x.stored;
               sto_failed = x.sto_failed; seen = x.seen; aborted = x.aborted;
               cam_failed = x.cam_failed; acq_on = x.acq_on; src_on =
               x.src_on; goal = x.goal; mon_fresh = x.mon_fresh; dropped =
               x.dropped; cam_starts = x.cam_starts; cam_stops = x.cam_stops;
               sto_starts = x.sto_starts; sto_stops = x.sto_stops }))
               (fun _ -> false)
               (set (fun s0 -> s0.sink_running) (fun f ->
                 let b = fun r -> f r.sink_running in
                 (fun x -> { valid = x.valid; maxn = x.maxn; cam = x.cam;
                 cam_st = x.cam_st; sto = x.sto; sto_st = x.sto_st; cam_tag =
                 x.cam_tag; cam_next = x.cam_next; log = x.log; accepting =
                 x.accepting; sink_reg = x.sink_reg; sink_cur = x.sink_cur;
                 sink_map = x.sink_map; mon_reg = x.mon_reg; mon_cur =
                 x.mon_cur; mon_map = x.mon_map; src_stopping =
                 x.src_stopping; abort_win = x.abort_win; sink_stopping =
                 x.sink_stopping; filt_stopping = x.filt_stopping;
                 src_running = x.src_running; sink_running = (b x);
                 filt_running = x.filt_running; s_pc = x.s_pc; k_pc = x.k_pc;
                 f_pc = x.f_pc; c_stop = x.c_stop; c_start = x.c_start;
                 iframe = x.iframe; base = x.base; delivered = x.delivered;
                 stored = x.stored; sto_failed = x.sto_failed; seen = x.seen;
                 aborted = x.aborted; cam_failed = x.cam_failed; acq_on =
                 x.acq_on; src_on = x.src_on; goal = x.goal; mon_fresh =
                 x.mon_fresh; dropped = x.dropped; cam_starts = x.cam_starts;
                 cam_stops = x.cam_stops; sto_starts = x.sto_starts;
                 sto_stops = x.sto_stops })) (fun _ -> false)
                 (set (fun s0 -> s0.sto_st) (fun f ->
                   let h = fun r -> f r.sto_st in
                   (fun x -> { valid = x.valid; maxn = x.maxn; cam = x.cam;
                   cam_st = x.cam_st; sto = x.sto; sto_st = (h x); cam_tag =
                   x.cam_tag; cam_next = x.cam_next; log = x.log; accepting =
                   x.accepting; sink_reg = x.sink_reg; sink_cur = x.sink_cur;
                   sink_map = x.sink_map; mon_reg = x.mon_reg; mon_cur =
                   x.mon_cur; mon_map = x.mon_map; src_stopping =
                   x.src_stopping; abort_win = x.abort_win; sink_stopping =
                   x.sink_stopping; filt_stopping = x.filt_stopping;
                   src_running = x.src_running; sink_running =
                   x.sink_running; filt_running = x.filt_running; s_pc =
                   x.s_pc; k_pc = x.k_pc; f_pc = x.f_pc; c_stop = x.c_stop;
                   c_start = x.c_start; iframe = x.iframe; base = x.base;
                   delivered = x.delivered; stored = x.stored; sto_failed =
                   x.sto_failed; seen = x.seen; aborted = x.aborted;
                   cam_failed = x.cam_failed; acq_on = x.acq_on; src_on =
                   x.src_on; goal = x.goal; mon_fresh = x.mon_fresh;
                   dropped = x.dropped; cam_starts = x.cam_starts;
                   cam_stops = x.cam_stops; sto_starts = x.sto_starts;
                   sto_stops = x.sto_stops })) (fun _ -> HArmed) s)))))
     | DAppend (i, ok, fs) ->
       let j = length fs in
       (match s.k_pc with
        | KMainMapped k ->
          guard
            ((&&)
              ((&&)
                ((&&) ((&&) (optN_eqb s.sto i) (hst_eqb s.sto_st HRunning))
                  (negb (Nat.eqb j O))) (Nat.leb j k))
              (frms_eqb fs (seg s.log s.sink_cur j)))
            (if ok
             then set (fun s0 -> s0.k_pc) (fun f ->
                    let k0 = fun r -> f r.k_pc in
                    (fun x -> { valid = x.valid; maxn = x.maxn; cam = x.cam;
                    cam_st = x.cam_st; sto = x.sto; sto_st = x.sto_st;
                    cam_tag = x.cam_tag; cam_next = x.cam_next; log = x.log;
                    accepting = x.accepting; sink_reg = x.sink_reg;
                    sink_cur = x.sink_cur; sink_map = x.sink_map; mon_reg =
                    x.mon_reg; mon_cur = x.mon_cur; mon_map = x.mon_map;
                    src_stopping = x.src_stopping; abort_win = x.abort_win;
                    sink_stopping = x.sink_stopping; filt_stopping =
                    x.filt_stopping; src_running = x.src_running;
                    sink_running = x.sink_running; filt_running =
                    x.filt_running; s_pc = x.s_pc; k_pc = (k0 x); f_pc =
                    x.f_pc; c_stop = x.c_stop; c_start = x.c_start; iframe =
                    x.iframe; base = x.base; delivered = x.delivered;
                    stored = x.stored; sto_failed = x.sto_failed; seen =
                    x.seen; aborted = x.aborted; cam_failed = x.cam_failed;
                    acq_on = x.acq_on; src_on = x.src_on; goal = x.goal;
                    mon_fresh = x.mon_fresh; dropped = x.dropped;
                    cam_starts = x.cam_starts; cam_stops = x.cam_stops;
                    sto_starts = x.sto_starts; sto_stops = x.sto_stops }))
                    (fun _ -> KMainAppended (k, j))
                    (set (fun s0 -> s0.stored) (fun f ->
                      let l = fun r -> f r.stored in
                      (fun x -> { valid = x.valid; maxn = x.maxn; cam =
                      x.cam; cam_st = x.cam_st; sto = x.sto; sto_st =
                      x.sto_st; cam_tag = x.cam_tag; cam_next = x.cam_next;
                      log = x.log; accepting = x.accepting; sink_reg =
                      x.sink_reg; sink_cur = x.sink_cur; sink_map =
                      x.sink_map; mon_reg = x.mon_reg; mon_cur = x.mon_cur;
                      mon_map = x.mon_map; src_stopping = x.src_stopping;
                      abort_win = x.abort_win; sink_stopping =
                      x.sink_stopping; filt_stopping = x.filt_stopping;
                      src_running = x.src_running; sink_running =
                      x.sink_running; filt_running = x.filt_running; s_pc =
                      x.s_pc; k_pc = x.k_pc; f_pc = x.f_pc; c_stop =
                      x.c_stop; c_start = x.c_start; iframe = x.iframe;
                      base = x.base; delivered = x.delivered; stored = 
                      (l x); sto_failed = x.sto_failed; seen = x.seen;
                      aborted = x.aborted; cam_failed = x.cam_failed;
                      acq_on = x.acq_on; src_on = x.src_on; goal = x.goal;
                      mon_fresh = x.mon_fresh; dropped = x.dropped;
                      cam_starts = x.cam_starts; cam_stops = x.cam_stops;
                      sto_starts = x.sto_starts; sto_stops = x.sto_stops }))
                      (fun _ -> app s.stored fs) s)
             else set (fun s0 -> s0.k_pc) (fun f ->
                    let k0 = fun r -> f r.k_pc in
                    (fun x -> { valid = x.valid; maxn = x.maxn; cam = x.cam;
                    cam_st = x.cam_st; sto = x.sto; sto_st = x.sto_st;
                    cam_tag = x.cam_tag; cam_next = x.cam_next; log = x.log;
                    accepting = x.accepting; sink_reg = x.sink_reg;
                    sink_cur = x.sink_cur; sink_map = x.sink_map; mon_reg =
                    x.mon_reg; mon_cur = x.mon_cur; mon_map = x.mon_map;
                    src_stopping = x.src_stopping; abort_win = x.abort_win;
                    sink_stopping = x.sink_stopping; filt_stopping =
                    x.filt_stopping; src_running = x.src_running;
                    sink_running = x.sink_running; filt_running =
                    x.filt_running; s_pc = x.s_pc; k_pc = (k0 x); f_pc =
                    x.f_pc; c_stop = x.c_stop; c_start = x.c_start; iframe =
                    x.iframe; base = x.base; delivered = x.delivered;
                    stored = x.stored; sto_failed = x.sto_failed; seen =
                    x.seen; aborted = x.aborted; cam_failed = x.cam_failed;
                    acq_on = x.acq_on; src_on = x.src_on; goal = x.goal;
                    mon_fresh = x.mon_fresh; dropped = x.dropped;
                    cam_starts = x.cam_starts; cam_stops = x.cam_stops;
                    sto_starts = x.sto_starts; sto_stops = x.sto_stops }))
                    (fun _ -> KErrCb k)
                    (set (fun s0 -> s0.sto_failed) (fun f ->
                      let b = fun r -> f r.sto_failed in
                      (fun x -> { valid = x.valid; maxn = x.maxn; cam =
                      x.cam; cam_st = x.cam_st; sto = x.sto; sto_st =
                      x.sto_st; cam_tag = x.cam_tag; cam_next = x.cam_next;
                      log = x.log; accepting = x.accepting; sink_reg =
                      x.sink_reg; sink_cur = x.sink_cur; sink_map =
                      x.sink_map; mon_reg = x.mon_reg; mon_cur = x.mon_cur;
                      mon_map = x.mon_map; src_stopping = x.src_stopping;
                      abort_win = x.abort_win; sink_stopping =
                      x.sink_stopping; filt_stopping = x.filt_stopping;
                      src_running = x.src_running; sink_running =
                      x.sink_running; filt_running = x.filt_running; s_pc =
                      x.s_pc; k_pc = x.k_pc; f_pc = x.f_pc; c_stop =
                      x.c_stop; c_start = x.c_start; iframe = x.iframe;
                      base = x.base; delivered = x.delivered; stored =
                      x.stored; sto_failed = (b x); seen = x.seen; aborted =
                      x.aborted; cam_failed = x.cam_failed; acq_on =
                      x.acq_on; src_on = x.src_on; goal = x.goal; mon_fresh =
                      x.mon_fresh; dropped = x.dropped; cam_starts =
                      x.cam_starts; cam_stops = x.cam_stops; sto_starts =
                      x.sto_starts; sto_stops = x.sto_stops })) (fun _ ->
                      true)
                      (set (fun s0 -> s0.sto_st) (fun f ->
                        let h = fun r -> f r.sto_st in
                        (fun x -> { valid = x.valid; maxn = x.maxn; cam =
                        x.cam; cam_st = x.cam_st; sto = x.sto; sto_st =
                        (h x); cam_tag = x.cam_tag; cam_next = x.cam_next;
                        log = x.log; accepting = x.accepting; sink_reg =
                        x.sink_reg; sink_cur = x.sink_cur; sink_map =
                        x.sink_map; mon_reg = x.mon_reg; mon_cur = x.mon_cur;
                        mon_map = x.mon_map; src_stopping = x.src_stopping;
                        abort_win = x.abort_win; sink_stopping =
                        x.sink_stopping; filt_stopping = x.filt_stopping;
                        src_running = x.src_running; sink_running =
                        x.sink_running; filt_running = x.filt_running; s_pc =
                        x.s_pc; k_pc = x.k_pc; f_pc = x.f_pc; c_stop =
                        x.c_stop; c_start = x.c_start; iframe = x.iframe;
                        base = x.base; delivered = x.delivered; stored =
                        x.stored; sto_failed = x.sto_failed; seen = x.seen;
                        aborted = x.aborted; cam_failed = x.cam_failed;
                        acq_on = x.acq_on; src_on = x.src_on; goal = x.goal;
                        mon_fresh = x.mon_fresh; dropped = x.dropped;
                        cam_starts = x.cam_starts; cam_stops = x.cam_stops;
                        sto_starts = x.sto_starts; sto_stops = x.sto_stops }))
                        (fun _ -> HAwait) s)))
        | KFlushMapped k ->
          guard
            ((&&)
              ((&&)
                ((&&) ((&&) (optN_eqb s.sto i) (hst_eqb s.sto_st HRunning))
                  (negb (Nat.eqb j O))) (Nat.eqb j k))
              (frms_eqb fs (seg s.log s.sink_cur j)))
            (if ok
             then set (fun s0 -> s0.k_pc) (fun f ->
                    let k0 = fun r -> f r.k_pc in
                    (fun x -> { valid = x.valid; maxn = x.maxn; cam = x.cam;
                    cam_st = x.cam_st; sto = x.sto; sto_st = x.sto_st;
                    cam_tag = x.cam_tag; cam_next = x.cam_next; log = x.log;
                    accepting = x.accepting; sink_reg = x.sink_reg;
                    sink_cur = x.sink_cur; sink_map = x.sink_map; mon_reg =
                    x.mon_reg; mon_cur = x.mon_cur; mon_map = x.mon_map;
                    src_stopping = x.src_stopping; abort_win = x.abort_win;
                    sink_stopping = x.sink_stopping; filt_stopping =
                    x.filt_stopping; src_running = x.src_running;
                    sink_running = x.sink_running; filt_running =
                    x.filt_running; s_pc = x.s_pc; k_pc = (k0 x); f_pc =
                    x.f_pc; c_stop = x.c_stop; c_start = x.c_start; iframe =
                    x.iframe; base = x.base; delivered = x.delivered;
                    stored = x.stored; sto_failed = x.sto_failed; seen =
                    x.seen; aborted = x.aborted; cam_failed = x.cam_failed;
                    acq_on = x.acq_on; src_on = x.src_on; goal = x.goal;
                    mon_fresh = x.mon_fresh; dropped = x.dropped;
                    cam_starts = x.cam_starts; cam_stops = x.cam_stops;
                    sto_starts = x.sto_starts; sto_stops = x.sto_stops }))
                    (fun _ -> KFlushAppended k)
                    (set (fun s0 -> s0.stored) (fun f ->
                      let l = fun r -> f r.stored in
                      (fun x -> { valid = x.valid; maxn = x.maxn; cam =
                      x.cam; cam_st = x.cam_st; sto = x.sto; sto_st =
                      x.sto_st; cam_tag = x.cam_tag; cam_next = x.cam_next;
                      log = x.log; accepting = x.accepting; sink_reg =
                      x.sink_reg; sink_cur = x.sink_cur; sink_map =
                      x.sink_map; mon_reg = x.mon_reg; mon_cur = x.mon_cur;
                      mon_map = x.mon_map; src_stopping = x.src_stopping;
                      abort_win = x.abort_win; sink_stopping =
                      x.sink_stopping; filt_stopping = x.filt_stopping;
                      src_running = x.src_running; sink_running =
                      x.sink_running; filt_running = x.filt_running; s_pc =
                      x.s_pc; k_pc = x.k_pc; f_pc = x.f_pc; c_stop =
                      x.c_stop; c_start = x.c_start; iframe = x.iframe;
                      base = x.base; delivered = x.delivered; stored = 
                      (l x); sto_failed = x.sto_failed; seen = x.seen;
                      aborted = x.aborted; cam_failed = x.cam_failed;
                      acq_on = x.acq_on; src_on = x.src_on; goal = x.goal;
                      mon_fresh = x.mon_fresh; dropped = x.dropped;
                      cam_starts = x.cam_starts; cam_stops = x.cam_stops;
                      sto_starts = x.sto_starts; sto_stops = x.sto_stops }))
                      (fun _ -> app s.stored fs) s)
             else set (fun s0 -> s0.k_pc) (fun f ->
                    let k0 = fun r -> f r.k_pc in
                    (fun x -> { valid = x.valid; maxn = x.maxn; cam = x.cam;
                    cam_st = x.cam_st; sto = x.sto; sto_st = x.sto_st;
                    cam_tag = x.cam_tag; cam_next = x.cam_next; log = x.log;
                    accepting = x.accepting; sink_reg = x.sink_reg;
                    sink_cur = x.sink_cur; sink_map = x.sink_map; mon_reg =
                    x.mon_reg; mon_cur = x.mon_cur; mon_map = x.mon_map;
                    src_stopping = x.src_stopping; abort_win = x.abort_win;
                    sink_stopping = x.sink_stopping; filt_stopping =
                    x.filt_stopping; src_running = x.src_running;
                    sink_running = x.sink_running; filt_running =
                    x.filt_running; s_pc = x.s_pc; k_pc = (k0 x); f_pc =
                    x.f_pc; c_stop = x.c_stop; c_start = x.c_start; iframe =
                    x.iframe; base = x.base; delivered = x.delivered;
                    stored = x.stored; sto_failed = x.sto_failed; seen =
                    x.seen; aborted = x.aborted; cam_failed = x.cam_failed;
                    acq_on = x.acq_on; src_on = x.src_on; goal = x.goal;
                    mon_fresh = x.mon_fresh; dropped = x.dropped;
                    cam_starts = x.cam_starts; cam_stops = x.cam_stops;
                    sto_starts = x.sto_starts; sto_stops = x.sto_stops }))
                    (fun _ -> KErrCb k)
                    (set (fun s0 -> s0.sto_failed) (fun f ->
                      let b = fun r -> f r.sto_failed in
                      (fun x -> { valid = x.valid; maxn = x.maxn; cam =
                      x.cam; cam_st = x.cam_st; sto = x.sto; sto_st =
                      x.sto_st; cam_tag = x.cam_tag; cam_next = x.cam_next;
                      log = x.log; accepting = x.accepting; sink_reg =
                      x.sink_reg; sink_cur = x.sink_cur; sink_map =
                      x.sink_map; mon_reg = x.mon_reg; mon_cur = x.mon_cur;
                      mon_map = x.mon_map; src_stopping = x.src_stopping;
                      abort_win = x.abort_win; sink_stopping =
                      x.sink_stopping; filt_stopping = x.filt_stopping;
                      src_running = x.src_running; sink_running =
                      x.sink_running; filt_running = x.filt_running; s_pc =
                      x.s_pc; k_pc = x.k_pc; f_pc = x.f_pc; c_stop =
                      x.c_stop; c_start = x.c_start; iframe = x.iframe;
                      base = x.base; delivered = x.delivered; stored =
                      x.stored; sto_failed = (b x); seen = x.seen; aborted =
                      x.aborted; cam_failed = x.cam_failed; acq_on =
                      x.acq_on; src_on = x.src_on; goal = x.goal; mon_fresh =
                      x.mon_fresh; dropped = x.dropped; cam_starts =
                      x.cam_starts; cam_stops = x.cam_stops; sto_starts =
                      x.sto_starts; sto_stops = x.sto_stops })) (fun _ ->
                      true)
                      (set (fun s0 -> s0.sto_st) (fun f ->
                        let h = fun r -> f r.sto_st in
                        (fun x -> { valid = x.valid; maxn = x.maxn; cam =
                        x.cam; cam_st = x.cam_st; sto = x.sto; sto_st =
                        (h x); cam_tag = x.cam_tag; cam_next = x.cam_next;
                        log = x.log; accepting = x.accepting; sink_reg =
                        x.sink_reg; sink_cur = x.sink_cur; sink_map =
                        x.sink_map; mon_reg = x.mon_reg; mon_cur = x.mon_cur;
                        mon_map = x.mon_map; src_stopping = x.src_stopping;
                        abort_win = x.abort_win; sink_stopping =
                        x.sink_stopping; filt_stopping = x.filt_stopping;
                        src_running = x.src_running; sink_running =
                        x.sink_running; filt_running = x.filt_running; s_pc =
                        x.s_pc; k_pc = x.k_pc; f_pc = x.f_pc; c_stop =
                        x.c_stop; c_start = x.c_start; iframe = x.iframe;
                        base = x.base; delivered = x.delivered; stored =
                        x.stored; sto_failed = x.sto_failed; seen = x.seen;
                        aborted = x.aborted; cam_failed = x.cam_failed;
                        acq_on = x.acq_on; src_on = x.src_on; goal = x.goal;
                        mon_fresh = x.mon_fresh; dropped = x.dropped;
                        cam_starts = x.cam_starts; cam_stops = x.cam_stops;
                        sto_starts = x.sto_starts; sto_stops = x.sto_stops }))
                        (fun _ -> HAwait) s)))
        | _ -> None)
     | Accept b ->
       guard
         ((&&) (match s.k_pc with
                | KErrAccept _ -> true
                | _ -> false) (negb b))
         (set (fun s0 -> s0.k_pc) (fun f ->
           let k = fun r -> f r.k_pc in
           (fun x -> { valid = x.valid; maxn = x.maxn; cam = x.cam; cam_st =
           x.cam_st; sto = x.sto; sto_st = x.sto_st; cam_tag = x.cam_tag;
           cam_next = x.cam_next; log = x.log; accepting = x.accepting;
           sink_reg = x.sink_reg; sink_cur = x.sink_cur; sink_map =
           x.sink_map; mon_reg = x.mon_reg; mon_cur = x.mon_cur; mon_map =
           x.mon_map; src_stopping = x.src_stopping; abort_win = x.abort_win;
           sink_stopping = x.sink_stopping; filt_stopping = x.filt_stopping;
           src_running = x.src_running; sink_running = x.sink_running;
           filt_running = x.filt_running; s_pc = x.s_pc; k_pc = (k x); f_pc =
           x.f_pc; c_stop = x.c_stop; c_start = x.c_start; iframe = x.iframe;
           base = x.base; delivered = x.delivered; stored = x.stored;
           sto_failed = x.sto_failed; seen = x.seen; aborted = x.aborted;
           cam_failed = x.cam_failed; acq_on = x.acq_on; src_on = x.src_on;
           goal = x.goal; mon_fresh = x.mon_fresh; dropped = x.dropped;
           cam_starts = x.cam_starts; cam_stops = x.cam_stops; sto_starts =
           x.sto_starts; sto_stops = x.sto_stops })) (fun _ ->
           match s.k_pc with
           | KErrAccept k -> KErrUnmap k
           | x -> x)
           (set (fun s0 -> s0.accepting) (fun f ->
             let b0 = fun r -> f r.accepting in
             (fun x -> { valid = x.valid; maxn = x.maxn; cam = x.cam;
             cam_st = x.cam_st; sto = x.sto; sto_st = x.sto_st; cam_tag =
             x.cam_tag; cam_next = x.cam_next; log = x.log; accepting =
             (b0 x); sink_reg = x.sink_reg; sink_cur = x.sink_cur; sink_map =
             x.sink_map; mon_reg = x.mon_reg; mon_cur = x.mon_cur; mon_map =
             x.mon_map; src_stopping = x.src_stopping; abort_win =
             x.abort_win; sink_stopping = x.sink_stopping; filt_stopping =
             x.filt_stopping; src_running = x.src_running; sink_running =
             x.sink_running; filt_running = x.filt_running; s_pc = x.s_pc;
             k_pc = x.k_pc; f_pc = x.f_pc; c_stop = x.c_stop; c_start =
             x.c_start; iframe = x.iframe; base = x.base; delivered =
             x.delivered; stored = x.stored; sto_failed = x.sto_failed;
             seen = x.seen; aborted = x.aborted; cam_failed = x.cam_failed;
             acq_on = x.acq_on; src_on = x.src_on; goal = x.goal; mon_fresh =
             x.mon_fresh; dropped = x.dropped; cam_starts = x.cam_starts;
             cam_stops = x.cam_stops; sto_starts = x.sto_starts; sto_stops =
             x.sto_stops })) (fun _ -> false) s))
     | RMapEnter r ->
       (match r with
        | RdSink ->
          (match s.k_pc with
           | KTest ->
             Some
               (set (fun s0 -> s0.k_pc) (fun f ->
                 let k = fun r0 -> f r0.k_pc in
                 (fun x -> { valid = x.valid; maxn = x.maxn; cam = x.cam;
                 cam_st = x.cam_st; sto = x.sto; sto_st = x.sto_st; cam_tag =
                 x.cam_tag; cam_next = x.cam_next; log = x.log; accepting =
                 x.accepting; sink_reg = x.sink_reg; sink_cur = x.sink_cur;
                 sink_map = x.sink_map; mon_reg = x.mon_reg; mon_cur =
                 x.mon_cur; mon_map = x.mon_map; src_stopping =
                 x.src_stopping; abort_win = x.abort_win; sink_stopping =
                 x.sink_stopping; filt_stopping = x.filt_stopping;
                 src_running = x.src_running; sink_running = x.sink_running;
                 filt_running = x.filt_running; s_pc = x.s_pc; k_pc = 
                 (k x); f_pc = x.f_pc; c_stop = x.c_stop; c_start =
                 x.c_start; iframe = x.iframe; base = x.base; delivered =
                 x.delivered; stored = x.stored; sto_failed = x.sto_failed;
                 seen = x.seen; aborted = x.aborted; cam_failed =
                 x.cam_failed; acq_on = x.acq_on; src_on = x.src_on; goal =
                 x.goal; mon_fresh = x.mon_fresh; dropped = x.dropped;
                 cam_starts = x.cam_starts; cam_stops = x.cam_stops;
                 sto_starts = x.sto_starts; sto_stops = x.sto_stops }))
                 (fun _ ->
                 if (&&) (negb s.sink_stopping) (hst_eqb s.sto_st HRunning)
                 then KMainMapping
                 else KFlushMapping) s)
           | KMainAgain ->
             Some
               (set (fun s0 -> s0.k_pc) (fun f ->
                 let k = fun r0 -> f r0.k_pc in
                 (fun x -> { valid = x.valid; maxn = x.maxn; cam = x.cam;
                 cam_st = x.cam_st; sto = x.sto; sto_st = x.sto_st; cam_tag =
                 x.cam_tag; cam_next = x.cam_next; log = x.log; accepting =
                 x.accepting; sink_reg = x.sink_reg; sink_cur = x.sink_cur;
                 sink_map = x.sink_map; mon_reg = x.mon_reg; mon_cur =
                 x.mon_cur; mon_map = x.mon_map; src_stopping =
                 x.src_stopping; abort_win = x.abort_win; sink_stopping =
                 x.sink_stopping; filt_stopping = x.filt_stopping;
                 src_running = x.src_running; sink_running = x.sink_running;
                 filt_running = x.filt_running; s_pc = x.s_pc; k_pc = 
                 (k x); f_pc = x.f_pc; c_stop = x.c_stop; c_start =
                 x.c_start; iframe = x.iframe; base = x.base; delivered =
                 x.delivered; stored = x.stored; sto_failed = x.sto_failed;
                 seen = x.seen; aborted = x.aborted; cam_failed =
                 x.cam_failed; acq_on = x.acq_on; src_on = x.src_on; goal =
                 x.goal; mon_fresh = x.mon_fresh; dropped = x.dropped;
                 cam_starts = x.cam_starts; cam_stops = x.cam_stops;
                 sto_starts = x.sto_starts; sto_stops = x.sto_stops }))
                 (fun _ -> KMainMapping) s)
           | KFlushAgain ->
             Some
               (set (fun s0 -> s0.k_pc) (fun f ->
                 let k = fun r0 -> f r0.k_pc in
                 (fun x -> { valid = x.valid; maxn = x.maxn; cam = x.cam;
                 cam_st = x.cam_st; sto = x.sto; sto_st = x.sto_st; cam_tag =
                 x.cam_tag; cam_next = x.cam_next; log = x.log; accepting =
                 x.accepting; sink_reg = x.sink_reg; sink_cur = x.sink_cur;
                 sink_map = x.sink_map; mon_reg = x.mon_reg; mon_cur =
                 x.mon_cur; mon_map = x.mon_map; src_stopping =
                 x.src_stopping; abort_win = x.abort_win; sink_stopping =
                 x.sink_stopping; filt_stopping = x.filt_stopping;
                 src_running = x.src_running; sink_running = x.sink_running;
                 filt_running = x.filt_running; s_pc = x.s_pc; k_pc = 
                 (k x); f_pc = x.f_pc; c_stop = x.c_stop; c_start =
                 x.c_start; iframe = x.iframe; base = x.base; delivered =
                 x.delivered; stored = x.stored; sto_failed = x.sto_failed;
                 seen = x.seen; aborted = x.aborted; cam_failed =
                 x.cam_failed; acq_on = x.acq_on; src_on = x.src_on; goal =
                 x.goal; mon_fresh = x.mon_fresh; dropped = x.dropped;
                 cam_starts = x.cam_starts; cam_stops = x.cam_stops;
                 sto_starts = x.sto_starts; sto_stops = x.sto_stops }))
                 (fun _ -> KFlushMapping) s)
           | KDrainAgain ->
             Some
               (set (fun s0 -> s0.k_pc) (fun f ->
                 let k = fun r0 -> f r0.k_pc in
                 (fun x -> { valid = x.valid; maxn = x.maxn; cam = x.cam;
                 cam_st = x.cam_st; sto = x.sto; sto_st = x.sto_st; cam_tag =
                 x.cam_tag; cam_next = x.cam_next; log = x.log; accepting =
                 x.accepting; sink_reg = x.sink_reg; sink_cur = x.sink_cur;
                 sink_map = x.sink_map; mon_reg = x.mon_reg; mon_cur =
                 x.mon_cur; mon_map = x.mon_map; src_stopping =
                 x.src_stopping; abort_win = x.abort_win; sink_stopping =
                 x.sink_stopping; filt_stopping = x.filt_stopping;
                 src_running = x.src_running; sink_running = x.sink_running;
                 filt_running = x.filt_running; s_pc = x.s_pc; k_pc = 
                 (k x); f_pc = x.f_pc; c_stop = x.c_stop; c_start =
                 x.c_start; iframe = x.iframe; base = x.base; delivered =
                 x.delivered; stored = x.stored; sto_failed = x.sto_failed;
                 seen = x.seen; aborted = x.aborted; cam_failed =
                 x.cam_failed; acq_on = x.acq_on; src_on = x.src_on; goal =
                 x.goal; mon_fresh = x.mon_fresh; dropped = x.dropped;
                 cam_starts = x.cam_starts; cam_stops = x.cam_stops;
                 sto_starts = x.sto_starts; sto_stops = x.sto_stops }))
                 (fun _ -> KDrainMapping) s)
           | _ -> None)
        | RdMon -> None)
     | RMap (r, fs) ->
       (match r with
        | RdSink ->
          let k = length fs in
          (match s.k_pc with
           | KMainMapping ->
             guard
               ((&&) ((&&) s.sink_reg (read_ok s.log s.sink_cur fs))
                 (match s.sink_map with
                  | Some _ -> false
                  | None -> true))
               (set (fun s0 -> s0.k_pc) (fun f ->
                 let k0 = fun r0 -> f r0.k_pc in
                 (fun x -> { valid = x.valid; maxn = x.maxn; cam = x.cam;
                 cam_st = x.cam_st; sto = x.sto; sto_st = x.sto_st; cam_tag =
                 x.cam_tag; cam_next = x.cam_next; log = x.log; accepting =
                 x.accepting; sink_reg = x.sink_reg; sink_cur = x.sink_cur;
                 sink_map = x.sink_map; mon_reg = x.mon_reg; mon_cur =
                 x.mon_cur; mon_map = x.mon_map; src_stopping =
                 x.src_stopping; abort_win = x.abort_win; sink_stopping =
                 x.sink_stopping; filt_stopping = x.filt_stopping;
                 src_running = x.src_running; sink_running = x.sink_running;
                 filt_running = x.filt_running; s_pc = x.s_pc; k_pc = 
                 (k0 x); f_pc = x.f_pc; c_stop = x.c_stop; c_start =
                 x.c_start; iframe = x.iframe; base = x.base; delivered =
                 x.delivered; stored = x.stored; sto_failed = x.sto_failed;
                 seen = x.seen; aborted = x.aborted; cam_failed =
                 x.cam_failed; acq_on = x.acq_on; src_on = x.src_on; goal =
                 x.goal; mon_fresh = x.mon_fresh; dropped = x.dropped;
                 cam_starts = x.cam_starts; cam_stops = x.cam_stops;
                 sto_starts = x.sto_starts; sto_stops = x.sto_stops }))
                 (fun _ ->
                 match s.k_pc with
                 | KMainMapping -> KMainMapped k
                 | KFlushMapping -> KFlushMapped k
                 | _ -> KDrainMapped k)
                 (set (fun s0 -> s0.sink_map) (fun f ->
                   let o = fun r0 -> f r0.sink_map in
                   (fun x -> { valid = x.valid; maxn = x.maxn; cam = x.cam;
                   cam_st = x.cam_st; sto = x.sto; sto_st = x.sto_st;
                   cam_tag = x.cam_tag; cam_next = x.cam_next; log = x.log;
                   accepting = x.accepting; sink_reg = x.sink_reg; sink_cur =
                   x.sink_cur; sink_map = (o x); mon_reg = x.mon_reg;
                   mon_cur = x.mon_cur; mon_map = x.mon_map; src_stopping =
                   x.src_stopping; abort_win = x.abort_win; sink_stopping =
                   x.sink_stopping; filt_stopping = x.filt_stopping;
                   src_running = x.src_running; sink_running =
                   x.sink_running; filt_running = x.filt_running; s_pc =
                   x.s_pc; k_pc = x.k_pc; f_pc = x.f_pc; c_stop = x.c_stop;
                   c_start = x.c_start; iframe = x.iframe; base = x.base;
                   delivered = x.delivered; stored = x.stored; sto_failed =
                   x.sto_failed; seen = x.seen; aborted = x.aborted;
                   cam_failed = x.cam_failed; acq_on = x.acq_on; src_on =
                   x.src_on; goal = x.goal; mon_fresh = x.mon_fresh;
                   dropped = x.dropped; cam_starts = x.cam_starts;
                   cam_stops = x.cam_stops; sto_starts = x.sto_starts;
                   sto_stops = x.sto_stops })) (fun _ ->
                   if Nat.eqb k O then None else Some k) s))
           | KFlushMapping ->
             guard
               ((&&) ((&&) s.sink_reg (read_ok s.log s.sink_cur fs))
                 (match s.sink_map with
                  | Some _ -> false
                  | None -> true))
               (set (fun s0 -> s0.k_pc) (fun f ->
                 let k0 = fun r0 -> f r0.k_pc in
                 (fun x -> { valid = x.valid; maxn = x.maxn; cam = x.cam;
                 cam_st = x.cam_st; sto = x.sto; sto_st = x.sto_st; cam_tag =
                 x.cam_tag; cam_next = x.cam_next; log = x.log; accepting =
                 x.accepting; sink_reg = x.sink_reg; sink_cur = x.sink_cur;
                 sink_map = x.sink_map; mon_reg = x.mon_reg; mon_cur =
                 x.mon_cur; mon_map = x.mon_map; src_stopping =
                 x.src_stopping; abort_win = x.abort_win; sink_stopping =
                 x.sink_stopping; filt_stopping = x.filt_stopping;
                 src_running = x.src_running; sink_running = x.sink_running;
                 filt_running = x.filt_running; s_pc = x.s_pc; k_pc = 
                 (k0 x); f_pc = x.f_pc; c_stop = x.c_stop; c_start =
                 x.c_start; iframe = x.iframe; base = x.base; delivered =
                 x.delivered; stored = x.stored; sto_failed = x.sto_failed;
                 seen = x.seen; aborted = x.aborted; cam_failed =
                 x.cam_failed; acq_on = x.acq_on; src_on = x.src_on; goal =
                 x.goal; mon_fresh = x.mon_fresh; dropped = x.dropped;
                 cam_starts = x.cam_starts; cam_stops = x.cam_stops;
                 sto_starts = x.sto_starts; sto_stops = x.sto_stops }))
                 (fun _ ->
                 match s.k_pc with
                 | KMainMapping -> KMainMapped k
                 | KFlushMapping -> KFlushMapped k
                 | _ -> KDrainMapped k)
                 (set (fun s0 -> s0.sink_map) (fun f ->
                   let o = fun r0 -> f r0.sink_map in
                   (fun x -> { valid = x.valid; maxn = x.maxn; cam = x.cam;
                   cam_st = x.cam_st; sto = x.sto; sto_st = x.sto_st;
                   cam_tag = x.cam_tag; cam_next = x.cam_next; log = x.log;
                   accepting = x.accepting; sink_reg = x.sink_reg; sink_cur =
                   x.sink_cur; sink_map = (o x); mon_reg = x.mon_reg;
                   mon_cur = x.mon_cur; mon_map = x.mon_map; src_stopping =
                   x.src_stopping; abort_win = x.abort_win; sink_stopping =
                   x.sink_stopping; filt_stopping = x.filt_stopping;
                   src_running = x.src_running; sink_running =
                   x.sink_running; filt_running = x.filt_running; s_pc =
                   x.s_pc; k_pc = x.k_pc; f_pc = x.f_pc; c_stop = x.c_stop;
                   c_start = x.c_start; iframe = x.iframe; base = x.base;
                   delivered = x.delivered; stored = x.stored; sto_failed =
                   x.sto_failed; seen = x.seen; aborted = x.aborted;
                   cam_failed = x.cam_failed; acq_on = x.acq_on; src_on =
                   x.src_on; goal = x.goal; mon_fresh = x.mon_fresh;
                   dropped = x.dropped; cam_starts = x.cam_starts;
                   cam_stops = x.cam_stops; sto_starts = x.sto_starts;
                   sto_stops = x.sto_stops })) (fun _ ->
                   if Nat.eqb k O then None else Some k) s))
           | KDrainMapping ->
             guard
               ((&&) ((&&) s.sink_reg (read_ok s.log s.sink_cur fs))
                 (match s.sink_map with
                  | Some _ -> false
                  | None -> true))
               (set (fun s0 -> s0.k_pc) (fun f ->
                 let k0 = fun r0 -> f r0.k_pc in
                 (fun x -> { valid = x.valid; maxn = x.maxn; cam = x.cam;
                 cam_st = x.cam_st; sto = x.sto; sto_st = x.sto_st; cam_tag =
                 x.cam_tag; cam_next = x.cam_next; log = x.log; accepting =
                 x.accepting; sink_reg = x.sink_reg; sink_cur = x.sink_cur;
                 sink_map = x.sink_map; mon_reg = x.mon_reg; mon_cur =
                 x.mon_cur; mon_map = x.mon_map; src_stopping =
                 x.src_stopping; abort_win = x.abort_win; sink_stopping =
                 x.sink_stopping; filt_stopping = x.filt_stopping;
                 src_running = x.src_running; sink_running = x.sink_running;
                 filt_running = x.filt_running; s_pc = x.s_pc; k_pc = 
                 (k0 x); f_pc = x.f_pc; c_stop = x.c_stop; c_start =
                 x.c_start; iframe = x.iframe; base = x.base; delivered =
                 x.delivered; stored = x.stored; sto_failed = x.sto_failed;
                 seen = x.seen; aborted = x.aborted; cam_failed =
                 x.cam_failed; acq_on = x.acq_on; src_on = x.src_on; goal =
                 x.goal; mon_fresh = x.mon_fresh; dropped = x.dropped;
                 cam_starts = x.cam_starts; cam_stops = x.cam_stops;
                 sto_starts = x.sto_starts; sto_stops = x.sto_stops }))
                 (fun _ ->
                 match s.k_pc with
                 | KMainMapping -> KMainMapped k
                 | KFlushMapping -> KFlushMapped k
                 | _ -> KDrainMapped k)
                 (set (fun s0 -> s0.sink_map) (fun f ->
                   let o = fun r0 -> f r0.sink_map in
                   (fun x -> { valid = x.valid; maxn = x.maxn; cam = x.cam;
                   cam_st = x.cam_st; sto = x.sto; sto_st = x.sto_st;
                   cam_tag = x.cam_tag; cam_next = x.cam_next; log = x.log;
                   accepting = x.accepting; sink_reg = x.sink_reg; sink_cur =
                   x.sink_cur; sink_map = (o x); mon_reg = x.mon_reg;
                   mon_cur = x.mon_cur; mon_map = x.mon_map; src_stopping =
                   x.src_stopping; abort_win = x.abort_win; sink_stopping =
                   x.sink_stopping; filt_stopping = x.filt_stopping;
                   src_running = x.src_running; sink_running =
                   x.sink_running; filt_running = x.filt_running; s_pc =
                   x.s_pc; k_pc = x.k_pc; f_pc = x.f_pc; c_stop = x.c_stop;
                   c_start = x.c_start; iframe = x.iframe; base = x.base;
                   delivered = x.delivered; stored = x.stored; sto_failed =
                   x.sto_failed; seen = x.seen; aborted = x.aborted;
                   cam_failed = x.cam_failed; acq_on = x.acq_on; src_on =
                   x.src_on; goal = x.goal; mon_fresh = x.mon_fresh;
                   dropped = x.dropped; cam_starts = x.cam_starts;
                   cam_stops = x.cam_stops; sto_starts = x.sto_starts;
                   sto_stops = x.sto_stops })) (fun _ ->
                   if Nat.eqb k O then None else Some k) s))
           | _ -> None)
        | RdMon -> None)
     | RUnmap (r, c) ->
       (match r with
        | RdSink ->
          (match s.k_pc with
           | KMainMapped k ->
             guard (Nat.eqb c O)
               (set (fun s0 -> s0.k_pc) (fun f ->
                 let k0 = fun r0 -> f r0.k_pc in
                 (fun x -> { valid = x.valid; maxn = x.maxn; cam = x.cam;
                 cam_st = x.cam_st; sto = x.sto; sto_st = x.sto_st; cam_tag =
                 x.cam_tag; cam_next = x.cam_next; log = x.log; accepting =
                 x.accepting; sink_reg = x.sink_reg; sink_cur = x.sink_cur;
                 sink_map = x.sink_map; mon_reg = x.mon_reg; mon_cur =
                 x.mon_cur; mon_map = x.mon_map; src_stopping =
                 x.src_stopping; abort_win = x.abort_win; sink_stopping =
                 x.sink_stopping; filt_stopping = x.filt_stopping;
                 src_running = x.src_running; sink_running = x.sink_running;
                 filt_running = x.filt_running; s_pc = x.s_pc; k_pc = 
                 (k0 x); f_pc = x.f_pc; c_stop = x.c_stop; c_start =
                 x.c_start; iframe = x.iframe; base = x.base; delivered =
                 x.delivered; stored = x.stored; sto_failed = x.sto_failed;
                 seen = x.seen; aborted = x.aborted; cam_failed =
                 x.cam_failed; acq_on = x.acq_on; src_on = x.src_on; goal =
                 x.goal; mon_fresh = x.mon_fresh; dropped = x.dropped;
                 cam_starts = x.cam_starts; cam_stops = x.cam_stops;
                 sto_starts = x.sto_starts; sto_stops = x.sto_stops }))
                 (fun _ -> if Nat.eqb k O then KTest else KMainAgain)
                 (set (fun s0 -> s0.sink_map) (fun f ->
                   let o = fun r0 -> f r0.sink_map in
                   (fun x -> { valid = x.valid; maxn = x.maxn; cam = x.cam;
                   cam_st = x.cam_st; sto = x.sto; sto_st = x.sto_st;
                   cam_tag = x.cam_tag; cam_next = x.cam_next; log = x.log;
                   accepting = x.accepting; sink_reg = x.sink_reg; sink_cur =
                   x.sink_cur; sink_map = (o x); mon_reg = x.mon_reg;
                   mon_cur = x.mon_cur; mon_map = x.mon_map; src_stopping =
                   x.src_stopping; abort_win = x.abort_win; sink_stopping =
                   x.sink_stopping; filt_stopping = x.filt_stopping;
                   src_running = x.src_running; sink_running =
                   x.sink_running; filt_running = x.filt_running; s_pc =
                   x.s_pc; k_pc = x.k_pc; f_pc = x.f_pc; c_stop = x.c_stop;
                   c_start = x.c_start; iframe = x.iframe; base = x.base;
                   delivered = x.delivered; stored = x.stored; sto_failed =
                   x.sto_failed; seen = x.seen; aborted = x.aborted;
                   cam_failed = x.cam_failed; acq_on = x.acq_on; src_on =
                   x.src_on; goal = x.goal; mon_fresh = x.mon_fresh;
                   dropped = x.dropped; cam_starts = x.cam_starts;
                   cam_stops = x.cam_stops; sto_starts = x.sto_starts;
                   sto_stops = x.sto_stops })) (fun _ -> None) s))
           | KMainAppended (_, j) ->
             guard (Nat.eqb c j)
               (set (fun s0 -> s0.k_pc) (fun f ->
                 let k = fun r0 -> f r0.k_pc in
                 (fun x -> { valid = x.valid; maxn = x.maxn; cam = x.cam;
                 cam_st = x.cam_st; sto = x.sto; sto_st = x.sto_st; cam_tag =
                 x.cam_tag; cam_next = x.cam_next; log = x.log; accepting =
                 x.accepting; sink_reg = x.sink_reg; sink_cur = x.sink_cur;
                 sink_map = x.sink_map; mon_reg = x.mon_reg; mon_cur =
                 x.mon_cur; mon_map = x.mon_map; src_stopping =
                 x.src_stopping; abort_win = x.abort_win; sink_stopping =
                 x.sink_stopping; filt_stopping = x.filt_stopping;
                 src_running = x.src_running; sink_running = x.sink_running;
                 filt_running = x.filt_running; s_pc = x.s_pc; k_pc = 
                 (k x); f_pc = x.f_pc; c_stop = x.c_stop; c_start =
                 x.c_start; iframe = x.iframe; base = x.base; delivered =
                 x.delivered; stored = x.stored; sto_failed = x.sto_failed;
                 seen = x.seen; aborted = x.aborted; cam_failed =
                 x.cam_failed; acq_on = x.acq_on; src_on = x.src_on; goal =
                 x.goal; mon_fresh = x.mon_fresh; dropped = x.dropped;
                 cam_starts = x.cam_starts; cam_stops = x.cam_stops;
                 sto_starts = x.sto_starts; sto_stops = x.sto_stops }))
                 (fun _ -> KMainAgain)
                 (set (fun s0 -> s0.sink_map) (fun f ->
                   let o = fun r0 -> f r0.sink_map in
                   (fun x -> { valid = x.valid; maxn = x.maxn; cam = x.cam;
                   cam_st = x.cam_st; sto = x.sto; sto_st = x.sto_st;
                   cam_tag = x.cam_tag; cam_next = x.cam_next; log = x.log;
                   accepting = x.accepting; sink_reg = x.sink_reg; sink_cur =
                   x.sink_cur; sink_map = (o x); mon_reg = x.mon_reg;
                   mon_cur = x.mon_cur; mon_map = x.mon_map; src_stopping =
                   x.src_stopping; abort_win = x.abort_win; sink_stopping =
                   x.sink_stopping; filt_stopping = x.filt_stopping;
                   src_running = x.src_running; sink_running =
                   x.sink_running; filt_running = x.filt_running; s_pc =
                   x.s_pc; k_pc = x.k_pc; f_pc = x.f_pc; c_stop = x.c_stop;
                   c_start = x.c_start; iframe = x.iframe; base = x.base;
                   delivered = x.delivered; stored = x.stored; sto_failed =
                   x.sto_failed; seen = x.seen; aborted = x.aborted;
                   cam_failed = x.cam_failed; acq_on = x.acq_on; src_on =
                   x.src_on; goal = x.goal; mon_fresh = x.mon_fresh;
                   dropped = x.dropped; cam_starts = x.cam_starts;
                   cam_stops = x.cam_stops; sto_starts = x.sto_starts;
                   sto_stops = x.sto_stops })) (fun _ -> None)
                   (set (fun s0 -> s0.sink_cur) (fun f ->
                     let n0 = fun r0 -> f r0.sink_cur in
                     (fun x -> { valid = x.valid; maxn = x.maxn; cam = x.cam;
                     cam_st = x.cam_st; sto = x.sto; sto_st = x.sto_st;
                     cam_tag = x.cam_tag; cam_next = x.cam_next; log = x.log;
                     accepting = x.accepting; sink_reg = x.sink_reg;
                     sink_cur = (n0 x); sink_map = x.sink_map; mon_reg =
                     x.mon_reg; mon_cur = x.mon_cur; mon_map = x.mon_map;
                     src_stopping = x.src_stopping; abort_win = x.abort_win;
                     sink_stopping = x.sink_stopping; filt_stopping =
                     x.filt_stopping; src_running = x.src_running;
                     sink_running = x.sink_running; filt_running =
                     x.filt_running; s_pc = x.s_pc; k_pc = x.k_pc; f_pc =
                     x.f_pc; c_stop = x.c_stop; c_start = x.c_start; iframe =
                     x.iframe; base = x.base; delivered = x.delivered;
                     stored = x.stored; sto_failed = x.sto_failed; seen =
                     x.seen; aborted = x.aborted; cam_failed = x.cam_failed;
                     acq_on = x.acq_on; src_on = x.src_on; goal = x.goal;
                     mon_fresh = x.mon_fresh; dropped = x.dropped;
                     cam_starts = x.cam_starts; cam_stops = x.cam_stops;
                     sto_starts = x.sto_starts; sto_stops = x.sto_stops }))
                     (fun _ -> add s.sink_cur j) s)))
           | KFlushMapped k ->
             guard
               ((&&) ((&&) (Nat.eqb k O) (Nat.eqb c O))
                 (hst_eqb s.sto_st HRunning))
               (sink_finish
                 (set (fun s0 -> s0.sink_map) (fun f ->
                   let o = fun r0 -> f r0.sink_map in
                   (fun x -> { valid = x.valid; maxn = x.maxn; cam = x.cam;
                   cam_st = x.cam_st; sto = x.sto; sto_st = x.sto_st;
                   cam_tag = x.cam_tag; cam_next = x.cam_next; log = x.log;
                   accepting = x.accepting; sink_reg = x.sink_reg; sink_cur =
                   x.sink_cur; sink_map = (o x); mon_reg = x.mon_reg;
                   mon_cur = x.mon_cur; mon_map = x.mon_map; src_stopping =
                   x.src_stopping; abort_win = x.abort_win; sink_stopping =
                   x.sink_stopping; filt_stopping = x.filt_stopping;
                   src_running = x.src_running; sink_running =
                   x.sink_running; filt_running = x.filt_running; s_pc =
                   x.s_pc; k_pc = x.k_pc; f_pc = x.f_pc; c_stop = x.c_stop;
                   c_start = x.c_start; iframe = x.iframe; base = x.base;
                   delivered = x.delivered; stored = x.stored; sto_failed =
                   x.sto_failed; seen = x.seen; aborted = x.aborted;
                   cam_failed = x.cam_failed; acq_on = x.acq_on; src_on =
                   x.src_on; goal = x.goal; mon_fresh = x.mon_fresh;
                   dropped = x.dropped; cam_starts = x.cam_starts;
                   cam_stops = x.cam_stops; sto_starts = x.sto_starts;
                   sto_stops = x.sto_stops })) (fun _ -> None) s))
           | KFlushAppended k ->
             guard (Nat.eqb c k)
               (set (fun s0 -> s0.k_pc) (fun f ->
                 let k0 = fun r0 -> f r0.k_pc in
                 (fun x -> { valid = x.valid; maxn = x.maxn; cam = x.cam;
                 cam_st = x.cam_st; sto = x.sto; sto_st = x.sto_st; cam_tag =
                 x.cam_tag; cam_next = x.cam_next; log = x.log; accepting =
                 x.accepting; sink_reg = x.sink_reg; sink_cur = x.sink_cur;
                 sink_map = x.sink_map; mon_reg = x.mon_reg; mon_cur =
                 x.mon_cur; mon_map = x.mon_map; src_stopping =
                 x.src_stopping; abort_win = x.abort_win; sink_stopping =
                 x.sink_stopping; filt_stopping = x.filt_stopping;
                 src_running = x.src_running; sink_running = x.sink_running;
                 filt_running = x.filt_running; s_pc = x.s_pc; k_pc = 
                 (k0 x); f_pc = x.f_pc; c_stop = x.c_stop; c_start =
                 x.c_start; iframe = x.iframe; base = x.base; delivered =
                 x.delivered; stored = x.stored; sto_failed = x.sto_failed;
                 seen = x.seen; aborted = x.aborted; cam_failed =
                 x.cam_failed; acq_on = x.acq_on; src_on = x.src_on; goal =
                 x.goal; mon_fresh = x.mon_fresh; dropped = x.dropped;
                 cam_starts = x.cam_starts; cam_stops = x.cam_stops;
                 sto_starts = x.sto_starts; sto_stops = x.sto_stops }))
                 (fun _ -> KFlushAgain)
                 (set (fun s0 -> s0.sink_map) (fun f ->
                   let o = fun r0 -> f r0.sink_map in
                   (fun x -> { valid = x.valid; maxn = x.maxn; cam = x.cam;
                   cam_st = x.cam_st; sto = x.sto; sto_st = x.sto_st;
                   cam_tag = x.cam_tag; cam_next = x.cam_next; log = x.log;
                   accepting = x.accepting; sink_reg = x.sink_reg; sink_cur =
                   x.sink_cur; sink_map = (o x); mon_reg = x.mon_reg;
                   mon_cur = x.mon_cur; mon_map = x.mon_map; src_stopping =
                   x.src_stopping; abort_win = x.abort_win; sink_stopping =
                   x.sink_stopping; filt_stopping = x.filt_stopping;
                   src_running = x.src_running; sink_running =
                   x.sink_running; filt_running = x.filt_running; s_pc =
                   x.s_pc; k_pc = x.k_pc; f_pc = x.f_pc; c_stop = x.c_stop;
                   c_start = x.c_start; iframe = x.iframe; base = x.base;
                   delivered = x.delivered; stored = x.stored; sto_failed =
                   x.sto_failed; seen = x.seen; aborted = x.aborted;
                   cam_failed = x.cam_failed; acq_on = x.acq_on; src_on =
                   x.src_on; goal = x.goal; mon_fresh = x.mon_fresh;
                   dropped = x.dropped; cam_starts = x.cam_starts;
                   cam_stops = x.cam_stops; sto_starts = x.sto_starts;
                   sto_stops = x.sto_stops })) (fun _ -> None)
                   (set (fun s0 -> s0.sink_cur) (fun f ->
                     let n0 = fun r0 -> f r0.sink_cur in
                     (fun x -> { valid = x.valid; maxn = x.maxn; cam = x.cam;
                     cam_st = x.cam_st; sto = x.sto; sto_st = x.sto_st;
                     cam_tag = x.cam_tag; cam_next = x.cam_next; log = x.log;
                     accepting = x.accepting; sink_reg = x.sink_reg;
                     sink_cur = (n0 x); sink_map = x.sink_map; mon_reg =
                     x.mon_reg; mon_cur = x.mon_cur; mon_map = x.mon_map;
                     src_stopping = x.src_stopping; abort_win = x.abort_win;
                     sink_stopping = x.sink_stopping; filt_stopping =
                     x.filt_stopping; src_running = x.src_running;
                     sink_running = x.sink_running; filt_running =
                     x.filt_running; s_pc = x.s_pc; k_pc = x.k_pc; f_pc =
                     x.f_pc; c_stop = x.c_stop; c_start = x.c_start; iframe =
                     x.iframe; base = x.base; delivered = x.delivered;
                     stored = x.stored; sto_failed = x.sto_failed; seen =
                     x.seen; aborted = x.aborted; cam_failed = x.cam_failed;
                     acq_on = x.acq_on; src_on = x.src_on; goal = x.goal;
                     mon_fresh = x.mon_fresh; dropped = x.dropped;
                     cam_starts = x.cam_starts; cam_stops = x.cam_stops;
                     sto_starts = x.sto_starts; sto_stops = x.sto_stops }))
                     (fun _ -> add s.sink_cur k) s)))
           | KErrUnmap _ ->
             guard (Nat.eqb c O)
               (set (fun s0 -> s0.k_pc) (fun f ->
                 let k = fun r0 -> f r0.k_pc in
                 (fun x -> { valid = x.valid; maxn = x.maxn; cam = x.cam;
                 cam_st = x.cam_st; sto = x.sto; sto_st = x.sto_st; cam_tag =
                 x.cam_tag; cam_next = x.cam_next; log = x.log; accepting =
                 x.accepting; sink_reg = x.sink_reg; sink_cur = x.sink_cur;
                 sink_map = x.sink_map; mon_reg = x.mon_reg; mon_cur =
                 x.mon_cur; mon_map = x.mon_map; src_stopping =
                 x.src_stopping; abort_win = x.abort_win; sink_stopping =
                 x.sink_stopping; filt_stopping = x.filt_stopping;
                 src_running = x.src_running; sink_running = x.sink_running;
                 filt_running = x.filt_running; s_pc = x.s_pc; k_pc = 
                 (k x); f_pc = x.f_pc; c_stop = x.c_stop; c_start =
                 x.c_start; iframe = x.iframe; base = x.base; delivered =
                 x.delivered; stored = x.stored; sto_failed = x.sto_failed;
                 seen = x.seen; aborted = x.aborted; cam_failed =
                 x.cam_failed; acq_on = x.acq_on; src_on = x.src_on; goal =
                 x.goal; mon_fresh = x.mon_fresh; dropped = x.dropped;
                 cam_starts = x.cam_starts; cam_stops = x.cam_stops;
                 sto_starts = x.sto_starts; sto_stops = x.sto_stops }))
                 (fun _ -> KDrainAgain)
                 (set (fun s0 -> s0.sink_map) (fun f ->
                   let o = fun r0 -> f r0.sink_map in
                   (fun x -> { valid = x.valid; maxn = x.maxn; cam = x.cam;
                   cam_st = x.cam_st; sto = x.sto; sto_st = x.sto_st;
                   cam_tag = x.cam_tag; cam_next = x.cam_next; log = x.log;
                   accepting = x.accepting; sink_reg = x.sink_reg; sink_cur =
                   x.sink_cur; sink_map = (o x); mon_reg = x.mon_reg;
                   mon_cur = x.mon_cur; mon_map = x.mon_map; src_stopping =
                   x.src_stopping; abort_win = x.abort_win; sink_stopping =
                   x.sink_stopping; filt_stopping = x.filt_stopping;
                   src_running = x.src_running; sink_running =
                   x.sink_running; filt_running = x.filt_running; s_pc =
                   x.s_pc; k_pc = x.k_pc; f_pc = x.f_pc; c_stop = x.c_stop;
                   c_start = x.c_start; iframe = x.iframe; base = x.base;
                   delivered = x.delivered; stored = x.stored; sto_failed =
                   x.sto_failed; seen = x.seen; aborted = x.aborted;
                   cam_failed = x.cam_failed; acq_on = x.acq_on; src_on =
                   x.src_on; goal = x.goal; mon_fresh = x.mon_fresh;
                   dropped = x.dropped; cam_starts = x.cam_starts;
                   cam_stops = x.cam_stops; sto_starts = x.sto_starts;
                   sto_stops = x.sto_stops })) (fun _ -> None) s))
           | KDrainMapped k ->
             guard (Nat.eqb c k)
               (if Nat.eqb k O
                then sink_finish
                       (set (fun s0 -> s0.sink_map) (fun f ->
                         let o = fun r0 -> f r0.sink_map in
                         (fun x -> { valid = x.valid; maxn = x.maxn; cam =
                         x.cam; cam_st = x.cam_st; sto = x.sto; sto_st =
                         x.sto_st; cam_tag = x.cam_tag; cam_next =
                         x.cam_next; log = x.log; accepting = x.accepting;
                         sink_reg = x.sink_reg; sink_cur = x.sink_cur;
                         sink_map = (o x); mon_reg = x.mon_reg; mon_cur =
                         x.mon_cur; mon_map = x.mon_map; src_stopping =
                         x.src_stopping; abort_win = x.abort_win;
                         sink_stopping = x.sink_stopping; filt_stopping =
                         x.filt_stopping; src_running = x.src_running;
                         sink_running = x.sink_running; filt_running =
                         x.filt_running; s_pc = x.s_pc; k_pc = x.k_pc; f_pc =
                         x.f_pc; c_stop = x.c_stop; c_start = x.c_start;
                         iframe = x.iframe; base = x.base; delivered =
                         x.delivered; stored = x.stored; sto_failed =
                         x.sto_failed; seen = x.seen; aborted = x.aborted;
                         cam_failed = x.cam_failed; acq_on = x.acq_on;
                         src_on = x.src_on; goal = x.goal; mon_fresh =
                         x.mon_fresh; dropped = x.dropped; cam_starts =
                         x.cam_starts; cam_stops = x.cam_stops; sto_starts =
                         x.sto_starts; sto_stops = x.sto_stops })) (fun _ ->
                         None) s)
                else set (fun s0 -> s0.k_pc) (fun f ->
                       let k0 = fun r0 -> f r0.k_pc in
                       (fun x -> { valid = x.valid; maxn = x.maxn; cam =
                       x.cam; cam_st = x.cam_st; sto = x.sto; sto_st =
                       x.sto_st; cam_tag = x.cam_tag; cam_next = x.cam_next;
                       log = x.log; accepting = x.accepting; sink_reg =
                       x.sink_reg; sink_cur = x.sink_cur; sink_map =
                       x.sink_map; mon_reg = x.mon_reg; mon_cur = x.mon_cur;
                       mon_map = x.mon_map; src_stopping = x.src_stopping;
                       abort_win = x.abort_win; sink_stopping =
                       x.sink_stopping; filt_stopping = x.filt_stopping;
                       src_running = x.src_running; sink_running =
                       x.sink_running; filt_running = x.filt_running; s_pc =
                       x.s_pc; k_pc = (k0 x); f_pc = x.f_pc; c_stop =
                       x.c_stop; c_start = x.c_start; iframe = x.iframe;
                       base = x.base; delivered = x.delivered; stored =
                       x.stored; sto_failed = x.sto_failed; seen = x.seen;
                       aborted = x.aborted; cam_failed = x.cam_failed;
                       acq_on = x.acq_on; src_on = x.src_on; goal = x.goal;
                       mon_fresh = x.mon_fresh; dropped = x.dropped;
                       cam_starts = x.cam_starts; cam_stops = x.cam_stops;
                       sto_starts = x.sto_starts; sto_stops = x.sto_stops }))
                       (fun _ -> KDrainAgain)
                       (set (fun s0 -> s0.sink_map) (fun f ->
                         let o = fun r0 -> f r0.sink_map in
                         (fun x -> { valid = x.valid; maxn = x.maxn; cam =
                         x.cam; cam_st = x.cam_st; sto = x.sto; sto_st =
                         x.sto_st; cam_tag = x.cam_tag; cam_next =
                         x.cam_next; log = x.log; accepting = x.accepting;
                         sink_reg = x.sink_reg; sink_cur = x.sink_cur;
                         sink_map = (o x); mon_reg = x.mon_reg; mon_cur =
                         x.mon_cur; mon_map = x.mon_map; src_stopping =
                         x.src_stopping; abort_win = x.abort_win;
                         sink_stopping = x.sink_stopping; filt_stopping =
                         x.filt_stopping; src_running = x.src_running;
                         sink_running = x.sink_running; filt_running =
                         x.filt_running; s_pc = x.s_pc; k_pc = x.k_pc; f_pc =
                         x.f_pc; c_stop = x.c_stop; c_start = x.c_start;
                         iframe = x.iframe; base = x.base; delivered =
                         x.delivered; stored = x.stored; sto_failed =
                         x.sto_failed; seen = x.seen; aborted = x.aborted;
                         cam_failed = x.cam_failed; acq_on = x.acq_on;
                         src_on = x.src_on; goal = x.goal; mon_fresh =
                         x.mon_fresh; dropped = x.dropped; cam_starts =
                         x.cam_starts; cam_stops = x.cam_stops; sto_starts =
                         x.sto_starts; sto_stops = x.sto_stops })) (fun _ ->
                         None)
                         (set (fun s0 -> s0.sink_cur) (fun f ->
                           let n0 = fun r0 -> f r0.sink_cur in
                           (fun x -> { valid = x.valid; maxn = x.maxn; cam =
                           x.cam; cam_st = x.cam_st; sto = x.sto; sto_st =
                           x.sto_st; cam_tag = x.cam_tag; cam_next =
                           x.cam_next; log = x.log; accepting = x.accepting;
                           sink_reg = x.sink_reg; sink_cur = (n0 x);
                           sink_map = x.sink_map; mon_reg = x.mon_reg;
                           mon_cur = x.mon_cur; mon_map = x.mon_map;
                           src_stopping = x.src_stopping; abort_win =
                           x.abort_win; sink_stopping = x.sink_stopping;
                           filt_stopping = x.filt_stopping; src_running =
                           x.src_running; sink_running = x.sink_running;
                           filt_running = x.filt_running; s_pc = x.s_pc;
                           k_pc = x.k_pc; f_pc = x.f_pc; c_stop = x.c_stop;
                           c_start = x.c_start; iframe = x.iframe; base =
                           x.base; delivered = x.delivered; stored =
                           x.stored; sto_failed = x.sto_failed; seen =
                           x.seen; aborted = x.aborted; cam_failed =
                           x.cam_failed; acq_on = x.acq_on; src_on =
                           x.src_on; goal = x.goal; mon_fresh = x.mon_fresh;
                           dropped = x.dropped; cam_starts = x.cam_starts;
                           cam_stops = x.cam_stops; sto_starts =
                           x.sto_starts; sto_stops = x.sto_stops }))
                           (fun _ -> add s.sink_cur k) s)))
           | _ -> None)
        | RdMon -> None)
     | CbStopSource ->
       (match s.k_pc with
        | KErrCb k ->
          Some
            (set (fun s0 -> s0.k_pc) (fun f ->
              let k0 = fun r -> f r.k_pc in
              (fun x -> { valid = x.valid; maxn = x.maxn; cam = x.cam;
              cam_st = x.cam_st; sto = x.sto; sto_st = x.sto_st; cam_tag =
              x.cam_tag; cam_next = x.cam_next; log = x.log; accepting =
              x.accepting; sink_reg = x.sink_reg; sink_cur = x.sink_cur;
              sink_map = x.sink_map; mon_reg = x.mon_reg; mon_cur =
              x.mon_cur; mon_map = x.mon_map; src_stopping = x.src_stopping;
              abort_win = x.abort_win; sink_stopping = x.sink_stopping;
              filt_stopping = x.filt_stopping; src_running = x.src_running;
              sink_running = x.sink_running; filt_running = x.filt_running;
              s_pc = x.s_pc; k_pc = (k0 x); f_pc = x.f_pc; c_stop = x.c_stop;
              c_start = x.c_start; iframe = x.iframe; base = x.base;
              delivered = x.delivered; stored = x.stored; sto_failed =
              x.sto_failed; seen = x.seen; aborted = x.aborted; cam_failed =
              x.cam_failed; acq_on = x.acq_on; src_on = x.src_on; goal =
              x.goal; mon_fresh = x.mon_fresh; dropped = x.dropped;
              cam_starts = x.cam_starts; cam_stops = x.cam_stops;
              sto_starts = x.sto_starts; sto_stops = x.sto_stops }))
              (fun _ -> KErrAccept k)
              (set (fun s0 -> s0.src_stopping) (fun f ->
                let b = fun r -> f r.src_stopping in
                (fun x -> { valid = x.valid; maxn = x.maxn; cam = x.cam;
                cam_st = x.cam_st; sto = x.sto; sto_st = x.sto_st; cam_tag =
                x.cam_tag; cam_next = x.cam_next; log = x.log; accepting =
                x.accepting; sink_reg = x.sink_reg; sink_cur = x.sink_cur;
                sink_map = x.sink_map; mon_reg = x.mon_reg; mon_cur =
                x.mon_cur; mon_map = x.mon_map; src_stopping = (b x);
                abort_win = x.abort_win; sink_stopping = x.sink_stopping;
                filt_stopping = x.filt_stopping; src_running = x.src_running;
                sink_running = x.sink_running; filt_running = x.filt_running;
                s_pc = x.s_pc; k_pc = x.k_pc; f_pc = x.f_pc; c_stop =
                x.c_stop; c_start = x.c_start; iframe = x.iframe; base =
                x.base; delivered = x.delivered; stored = x.stored;
                sto_failed = x.sto_failed; seen = x.seen; aborted =
                x.aborted; cam_failed = x.cam_failed; acq_on = x.acq_on;
                src_on = x.src_on; goal = x.goal; mon_fresh = x.mon_fresh;
                dropped = x.dropped; cam_starts = x.cam_starts; cam_stops =
                x.cam_stops; sto_starts = x.sto_starts; sto_stops =
                x.sto_stops })) (fun _ -> true) s))
        | _ -> None)
     | Exit w ->
       (match w with
        | RSink ->
          guard (match s.k_pc with
                 | KExiting -> true
                 | _ -> false)
            (set (fun s0 -> s0.k_pc) (fun f ->
              let k = fun r -> f r.k_pc in
              (fun x -> { valid = x.valid; maxn = x.maxn; cam = x.cam;
              cam_st = x.cam_st; sto = x.sto; sto_st = x.sto_st; cam_tag =
              x.cam_tag; cam_next = x.cam_next; log = x.log; accepting =
              x.accepting; sink_reg = x.sink_reg; sink_cur = x.sink_cur;
              sink_map = x.sink_map; mon_reg = x.mon_reg; mon_cur =
              x.mon_cur; mon_map = x.mon_map; src_stopping = x.src_stopping;
              abort_win = x.abort_win; sink_stopping = x.sink_stopping;
              filt_stopping = x.filt_stopping; src_running = x.src_running;
              sink_running = x.sink_running; filt_running = x.filt_running;
              s_pc = x.s_pc; k_pc = (k x); f_pc = x.f_pc; c_stop = x.c_stop;
              c_start = x.c_start; iframe = x.iframe; base = x.base;
              delivered = x.delivered; stored = x.stored; sto_failed =
              x.sto_failed; seen = x.seen; aborted = x.aborted; cam_failed =
              x.cam_failed; acq_on = x.acq_on; src_on = x.src_on; goal =
              x.goal; mon_fresh = x.mon_fresh; dropped = x.dropped;
              cam_starts = x.cam_starts; cam_stops = x.cam_stops;
              sto_starts = x.sto_starts; sto_stops = x.sto_stops }))
              (fun _ -> KDone) s)
        | _ -> None)
     | _ -> None)
  | AFilt ->
    (match e with
     | Exit w ->
       (match w with
        | RFilt ->
          guard
            ((&&) (match s.f_pc with
                   | FRun -> true
                   | _ -> false) s.filt_stopping)
            (set (fun s0 -> s0.filt_stopping) (fun f ->
              let b = fun r -> f r.filt_stopping in
              (fun x -> { valid = x.valid; maxn = x.maxn; cam = x.cam;
              cam_st = x.cam_st; sto = x.sto; sto_st = x.sto_st; cam_tag =
              x.cam_tag; cam_next = x.cam_next; log = x.log; accepting =
              x.accepting; sink_reg = x.sink_reg; sink_cur = x.sink_cur;
              sink_map = x.sink_map; mon_reg = x.mon_reg; mon_cur =
              x.mon_cur; mon_map = x.mon_map; src_stopping = x.src_stopping;
              abort_win = x.abort_win; sink_stopping = x.sink_stopping;
              filt_stopping = (b x); src_running = x.src_running;
              sink_running = x.sink_running; filt_running = x.filt_running;
              s_pc = x.s_pc; k_pc = x.k_pc; f_pc = x.f_pc; c_stop = x.c_stop;
              c_start = x.c_start; iframe = x.iframe; base = x.base;
              delivered = x.delivered; stored = x.stored; sto_failed =
              x.sto_failed; seen = x.seen; aborted = x.aborted; cam_failed =
              x.cam_failed; acq_on = x.acq_on; src_on = x.src_on; goal =
              x.goal; mon_fresh = x.mon_fresh; dropped = x.dropped;
              cam_starts = x.cam_starts; cam_stops = x.cam_stops;
              sto_starts = x.sto_starts; sto_stops = x.sto_stops }))
              (fun _ -> false)
              (set (fun s0 -> s0.filt_running) (fun f ->
                let b = fun r -> f r.filt_running in
                (fun x -> { valid = x.valid; maxn = x.maxn; cam = x.cam;
                cam_st = x.cam_st; sto = x.sto; sto_st = x.sto_st; cam_tag =
                x.cam_tag; cam_next = x.cam_next; log = x.log; accepting =
                x.accepting; sink_reg = x.sink_reg; sink_cur = x.sink_cur;
                sink_map = x.sink_map; mon_reg = x.mon_reg; mon_cur =
                x.mon_cur; mon_map = x.mon_map; src_stopping =
                x.src_stopping; abort_win = x.abort_win; sink_stopping =
                x.sink_stopping; filt_stopping = x.filt_stopping;
                src_running = x.src_running; sink_running = x.sink_running;
                filt_running = (b x); s_pc = x.s_pc; k_pc = x.k_pc; f_pc =
                x.f_pc; c_stop = x.c_stop; c_start = x.c_start; iframe =
                x.iframe; base = x.base; delivered = x.delivered; stored =
                x.stored; sto_failed = x.sto_failed; seen = x.seen; aborted =
                x.aborted; cam_failed = x.cam_failed; acq_on = x.acq_on;
                src_on = x.src_on; goal = x.goal; mon_fresh = x.mon_fresh;
                dropped = x.dropped; cam_starts = x.cam_starts; cam_stops =
                x.cam_stops; sto_starts = x.sto_starts; sto_stops =
                x.sto_stops })) (fun _ -> false)
                (set (fun s0 -> s0.f_pc) (fun f ->
                  let f0 = fun r -> f r.f_pc in
                  (fun x -> { valid = x.valid; maxn = x.maxn; cam = x.cam;
                  cam_st = x.cam_st; sto = x.sto; sto_st = x.sto_st;
                  cam_tag = x.cam_tag; cam_next = x.cam_next; log = x.log;
                  accepting = x.accepting; sink_reg = x.sink_reg; sink_cur =
                  x.sink_cur; sink_map = x.sink_map; mon_reg = x.mon_reg;
                  mon_cur = x.mon_cur; mon_map = x.mon_map; src_stopping =
                  x.src_stopping; abort_win = x.abort_win; sink_stopping =
                  x.sink_stopping; filt_stopping = x.filt_stopping;
                  src_running = x.src_running; sink_running = x.sink_running;
                  filt_running = x.filt_running; s_pc = x.s_pc; k_pc =
                  x.k_pc; f_pc = (f0 x); c_stop = x.c_stop; c_start =
                  x.c_start; iframe = x.iframe; base = x.base; delivered =
                  x.delivered; stored = x.stored; sto_failed = x.sto_failed;
                  seen = x.seen; aborted = x.aborted; cam_failed =
                  x.cam_failed; acq_on = x.acq_on; src_on = x.src_on; goal =
                  x.goal; mon_fresh = x.mon_fresh; dropped = x.dropped;
                  cam_starts = x.cam_starts; cam_stops = x.cam_stops;
                  sto_starts = x.sto_starts; sto_stops = x.sto_stops }))
                  (fun _ -> FDone) s)))
        | _ -> None)
     | _ -> None)

type call =
| InIdle
| InStart
| InStartBusy
| InStartFail
| InStop
| InAbort
| InShutdown

type gev =
| GConfigure of bool * bool * n * n
| GStartCall
| GStartRet of bool
| GStartRefused
| GStopCall
| GStopRet
| GAbortCall
| GAbortRet
| GShutdownCall
| GShutdownRet
| GState of hst

type event =
| EvS of bool * actor * sev
| EvG of gev

type sys = { st0 : stream; st1 : stream; api : hst; in_call : call }

(** val init_sys : sys **)

let init_sys =
  { st0 = init_stream; st1 = init_stream; api = HAwait; in_call = InIdle }

(** val any_running : stream -> bool **)

let any_running s =
  (&&) s.valid ((||) ((||) s.src_running s.filt_running) s.sink_running)

(** val stopped_ok : stream -> bool **)

let stopped_ok s =
  (||) (negb s.valid) (match s.c_stop with
                       | CStopped -> true
                       | _ -> false)

(** val begin_stop : bool -> stream -> stream **)

let begin_stop abort s =
  if s.valid
  then set (fun s0 -> s0.aborted) (fun f ->
         let b = fun r -> f r.aborted in
         (fun x -> { valid = x.valid; maxn = x.maxn; cam = x.cam; cam_st =
         x.cam_st; sto = x.sto; sto_st = x.sto_st; cam_tag = x.cam_tag;
         cam_next = x.cam_next; log = x.log; accepting = x.accepting;
         sink_reg = x.sink_reg; sink_cur = x.sink_cur; sink_map = x.sink_map;
         mon_reg = x.mon_reg; mon_cur = x.mon_cur; mon_map = x.mon_map;
         src_stopping = x.src_stopping; abort_win = x.abort_win;
         sink_stopping = x.sink_stopping; filt_stopping = x.filt_stopping;
         src_running = x.src_running; sink_running = x.sink_running;
         filt_running = x.filt_running; s_pc = x.s_pc; k_pc = x.k_pc; f_pc =
         x.f_pc; c_stop = x.c_stop; c_start = x.c_start; iframe = x.iframe;
         base = x.base; delivered = x.delivered; stored = x.stored;
         sto_failed = x.sto_failed; seen = x.seen; aborted = (b x);
         cam_failed = x.cam_failed; acq_on = x.acq_on; src_on = x.src_on;
         goal = x.goal; mon_fresh = x.mon_fresh; dropped = x.dropped;
         cam_starts = x.cam_starts; cam_stops = x.cam_stops; sto_starts =
         x.sto_starts; sto_stops = x.sto_stops })) (fun _ ->
         (||) s.aborted abort)
         (set (fun s0 -> s0.abort_win) (fun f ->
           let b = fun r -> f r.abort_win in
           (fun x -> { valid = x.valid; maxn = x.maxn; cam = x.cam; cam_st =
           x.cam_st; sto = x.sto; sto_st = x.sto_st; cam_tag = x.cam_tag;
           cam_next = x.cam_next; log = x.log; accepting = x.accepting;
           sink_reg = x.sink_reg; sink_cur = x.sink_cur; sink_map =
           x.sink_map; mon_reg = x.mon_reg; mon_cur = x.mon_cur; mon_map =
           x.mon_map; src_stopping = x.src_stopping; abort_win = (b x);
           sink_stopping = x.sink_stopping; filt_stopping = x.filt_stopping;
           src_running = x.src_running; sink_running = x.sink_running;
           filt_running = x.filt_running; s_pc = x.s_pc; k_pc = x.k_pc;
           f_pc = x.f_pc; c_stop = x.c_stop; c_start = x.c_start; iframe =
           x.iframe; base = x.base; delivered = x.delivered; stored =
           x.stored; sto_failed = x.sto_failed; seen = x.seen; aborted =
           x.aborted; cam_failed = x.cam_failed; acq_on = x.acq_on; src_on =
           x.src_on; goal = x.goal; mon_fresh = x.mon_fresh; dropped =
           x.dropped; cam_starts = x.cam_starts; cam_stops = x.cam_stops;
           sto_starts = x.sto_starts; sto_stops = x.sto_stops })) (fun _ ->
           abort)
           (set (fun s0 -> s0.c_stop) (fun f ->
             let c = fun r -> f r.c_stop in
             (fun x -> { valid = x.valid; maxn = x.maxn; cam = x.cam;
             cam_st = x.cam_st; sto = x.sto; sto_st = x.sto_st; cam_tag =
             x.cam_tag; cam_next = x.cam_next; log = x.log; accepting =
             x.accepting; sink_reg = x.sink_reg; sink_cur = x.sink_cur;
             sink_map = x.sink_map; mon_reg = x.mon_reg; mon_cur = x.mon_cur;
             mon_map = x.mon_map; src_stopping = x.src_stopping; abort_win =
             x.abort_win; sink_stopping = x.sink_stopping; filt_stopping =
             x.filt_stopping; src_running = x.src_running; sink_running =
             x.sink_running; filt_running = x.filt_running; s_pc = x.s_pc;
             k_pc = x.k_pc; f_pc = x.f_pc; c_stop = (c x); c_start =
             x.c_start; iframe = x.iframe; base = x.base; delivered =
             x.delivered; stored = x.stored; sto_failed = x.sto_failed;
             seen = x.seen; aborted = x.aborted; cam_failed = x.cam_failed;
             acq_on = x.acq_on; src_on = x.src_on; goal = x.goal; mon_fresh =
             x.mon_fresh; dropped = x.dropped; cam_starts = x.cam_starts;
             cam_stops = x.cam_stops; sto_starts = x.sto_starts; sto_stops =
             x.sto_stops })) (fun _ -> CWaitJoin) s))
  else s

(** val end_stop : stream -> stream **)

let end_stop s =
  set (fun s0 -> s0.c_start) (fun f ->
    let c = fun r -> f r.c_start in
    (fun x -> { valid = x.valid; maxn = x.maxn; cam = x.cam; cam_st =
    x.cam_st; sto = x.sto; sto_st = x.sto_st; cam_tag = x.cam_tag; cam_next =
    x.cam_next; log = x.log; accepting = x.accepting; sink_reg = x.sink_reg;
    sink_cur = x.sink_cur; sink_map = x.sink_map; mon_reg = x.mon_reg;
    mon_cur = x.mon_cur; mon_map = x.mon_map; src_stopping = x.src_stopping;
    abort_win = x.abort_win; sink_stopping = x.sink_stopping; filt_stopping =
    x.filt_stopping; src_running = x.src_running; sink_running =
    x.sink_running; filt_running = x.filt_running; s_pc = x.s_pc; k_pc =
    x.k_pc; f_pc = x.f_pc; c_stop = x.c_stop; c_start = (c x); iframe =
    x.iframe; base = x.base; delivered = x.delivered; stored = x.stored;
    sto_failed = x.sto_failed; seen = x.seen; aborted = x.aborted;
    cam_failed = x.cam_failed; acq_on = x.acq_on; src_on = x.src_on; goal =
    x.goal; mon_fresh = x.mon_fresh; dropped = x.dropped; cam_starts =
    x.cam_starts; cam_stops = x.cam_stops; sto_starts = x.sto_starts;
    sto_stops = x.sto_stops })) (fun _ -> TNone)
    (set (fun s0 -> s0.abort_win) (fun f ->
      let b = fun r -> f r.abort_win in
      (fun x -> { valid = x.valid; maxn = x.maxn; cam = x.cam; cam_st =
      x.cam_st; sto = x.sto; sto_st = x.sto_st; cam_tag = x.cam_tag;
      cam_next = x.cam_next; log = x.log; accepting = x.accepting; sink_reg =
      x.sink_reg; sink_cur = x.sink_cur; sink_map = x.sink_map; mon_reg =
      x.mon_reg; mon_cur = x.mon_cur; mon_map = x.mon_map; src_stopping =
      x.src_stopping; abort_win = (b x); sink_stopping = x.sink_stopping;
      filt_stopping = x.filt_stopping; src_running = x.src_running;
      sink_running = x.sink_running; filt_running = x.filt_running; s_pc =
      x.s_pc; k_pc = x.k_pc; f_pc = x.f_pc; c_stop = x.c_stop; c_start =
      x.c_start; iframe = x.iframe; base = x.base; delivered = x.delivered;
      stored = x.stored; sto_failed = x.sto_failed; seen = x.seen; aborted =
      x.aborted; cam_failed = x.cam_failed; acq_on = x.acq_on; src_on =
      x.src_on; goal = x.goal; mon_fresh = x.mon_fresh; dropped = x.dropped;
      cam_starts = x.cam_starts; cam_stops = x.cam_stops; sto_starts =
      x.sto_starts; sto_stops = x.sto_stops })) (fun _ -> false)
      (set (fun s0 -> s0.c_stop) (fun f ->
        let c = fun r -> f r.c_stop in
        (fun x -> { valid = x.valid; maxn = x.maxn; cam = x.cam; cam_st =
        x.cam_st; sto = x.sto; sto_st = x.sto_st; cam_tag = x.cam_tag;
        cam_next = x.cam_next; log = x.log; accepting = x.accepting;
        sink_reg = x.sink_reg; sink_cur = x.sink_cur; sink_map = x.sink_map;
        mon_reg = x.mon_reg; mon_cur = x.mon_cur; mon_map = x.mon_map;
        src_stopping = x.src_stopping; abort_win = x.abort_win;
        sink_stopping = x.sink_stopping; filt_stopping = x.filt_stopping;
        src_running = x.src_running; sink_running = x.sink_running;
        filt_running = x.filt_running; s_pc = x.s_pc; k_pc = x.k_pc; f_pc =
        x.f_pc; c_stop = (c x); c_start = x.c_start; iframe = x.iframe;
        base = x.base; delivered = x.delivered; stored = x.stored;
        sto_failed = x.sto_failed; seen = x.seen; aborted = x.aborted;
        cam_failed = x.cam_failed; acq_on = x.acq_on; src_on = x.src_on;
        goal = x.goal; mon_fresh = x.mon_fresh; dropped = x.dropped;
        cam_starts = x.cam_starts; cam_stops = x.cam_stops; sto_starts =
        x.sto_starts; sto_stops = x.sto_stops })) (fun _ -> CNone) s))

(** val begin_start : stream -> stream **)

let begin_start s =
  if s.valid
  then set (fun s0 -> s0.c_start) (fun f ->
         let c = fun r -> f r.c_start in
         (fun x -> { valid = x.valid; maxn = x.maxn; cam = x.cam; cam_st =
         x.cam_st; sto = x.sto; sto_st = x.sto_st; cam_tag = x.cam_tag;
         cam_next = x.cam_next; log = x.log; accepting = x.accepting;
         sink_reg = x.sink_reg; sink_cur = x.sink_cur; sink_map = x.sink_map;
         mon_reg = x.mon_reg; mon_cur = x.mon_cur; mon_map = x.mon_map;
         src_stopping = x.src_stopping; abort_win = x.abort_win;
         sink_stopping = x.sink_stopping; filt_stopping = x.filt_stopping;
         src_running = x.src_running; sink_running = x.sink_running;
         filt_running = x.filt_running; s_pc = x.s_pc; k_pc = x.k_pc; f_pc =
         x.f_pc; c_stop = x.c_stop; c_start = (c x); iframe = x.iframe;
         base = x.base; delivered = x.delivered; stored = x.stored;
         sto_failed = x.sto_failed; seen = x.seen; aborted = x.aborted;
         cam_failed = x.cam_failed; acq_on = x.acq_on; src_on = x.src_on;
         goal = x.goal; mon_fresh = x.mon_fresh; dropped = x.dropped;
         cam_starts = x.cam_starts; cam_stops = x.cam_stops; sto_starts =
         x.sto_starts; sto_stops = x.sto_stops })) (fun _ -> TBegin) s
  else s

(** val started_ok : stream -> bool **)

let started_ok s =
  (||) (negb s.valid) (match s.c_start with
                       | TDone -> true
                       | _ -> false)

(** val fail_start : stream -> stream **)

let fail_start s =
  if s.valid
  then begin_stop true
         (set (fun s0 -> s0.c_start) (fun f ->
           let c = fun r -> f r.c_start in
           (fun x -> { valid = x.valid; maxn = x.maxn; cam = x.cam; cam_st =
           x.cam_st; sto = x.sto; sto_st = x.sto_st; cam_tag = x.cam_tag;
           cam_next = x.cam_next; log = x.log; accepting = x.accepting;
           sink_reg = x.sink_reg; sink_cur = x.sink_cur; sink_map =
           x.sink_map; mon_reg = x.mon_reg; mon_cur = x.mon_cur; mon_map =
           x.mon_map; src_stopping = x.src_stopping; abort_win = x.abort_win;
           sink_stopping = x.sink_stopping; filt_stopping = x.filt_stopping;
           src_running = x.src_running; sink_running = x.sink_running;
           filt_running = x.filt_running; s_pc = x.s_pc; k_pc = x.k_pc;
           f_pc = x.f_pc; c_stop = x.c_stop; c_start = (c x); iframe =
           x.iframe; base = x.base; delivered = x.delivered; stored =
           x.stored; sto_failed = x.sto_failed; seen = x.seen; aborted =
           x.aborted; cam_failed = x.cam_failed; acq_on = x.acq_on; src_on =
           x.src_on; goal = x.goal; mon_fresh = x.mon_fresh; dropped =
           x.dropped; cam_starts = x.cam_starts; cam_stops = x.cam_stops;
           sto_starts = x.sto_starts; sto_stops = x.sto_stops })) (fun _ ->
           match s.c_start with
           | TDone -> TDone
           | _ -> TFailed)
           (if s.src_running
            then s
            else set (fun s0 -> s0.sink_stopping) (fun f ->
                   let b = fun r -> f r.sink_stopping in
                   (fun x -> { valid = x.valid; maxn = x.maxn; cam = x.cam;
                   cam_st = x.cam_st; sto = x.sto; sto_st = x.sto_st;
                   cam_tag = x.cam_tag; cam_next = x.cam_next; log = x.log;
                   accepting = x.accepting; sink_reg = x.sink_reg; sink_cur =
                   x.sink_cur; sink_map = x.sink_map; mon_reg = x.mon_reg;
                   mon_cur = x.mon_cur; mon_map = x.mon_map; src_stopping =
                   x.src_stopping; abort_win = x.abort_win; sink_stopping =
                   (b x); filt_stopping = x.filt_stopping; src_running =
                   x.src_running; sink_running = x.sink_running;
                   filt_running = x.filt_running; s_pc = x.s_pc; k_pc =
                   x.k_pc; f_pc = x.f_pc; c_stop = x.c_stop; c_start =
                   x.c_start; iframe = x.iframe; base = x.base; delivered =
                   x.delivered; stored = x.stored; sto_failed = x.sto_failed;
                   seen = x.seen; aborted = x.aborted; cam_failed =
                   x.cam_failed; acq_on = x.acq_on; src_on = x.src_on; goal =
                   x.goal; mon_fresh = x.mon_fresh; dropped = x.dropped;
                   cam_starts = x.cam_starts; cam_stops = x.cam_stops;
                   sto_starts = x.sto_starts; sto_stops = x.sto_stops }))
                   (fun _ -> true)
                   (set (fun s0 -> s0.filt_stopping) (fun f ->
                     let b = fun r -> f r.filt_stopping in
                     (fun x -> { valid = x.valid; maxn = x.maxn; cam = x.cam;
                     cam_st = x.cam_st; sto = x.sto; sto_st = x.sto_st;
                     cam_tag = x.cam_tag; cam_next = x.cam_next; log = x.log;
                     accepting = x.accepting; sink_reg = x.sink_reg;
                     sink_cur = x.sink_cur; sink_map = x.sink_map; mon_reg =
                     x.mon_reg; mon_cur = x.mon_cur; mon_map = x.mon_map;
                     src_stopping = x.src_stopping; abort_win = x.abort_win;
                     sink_stopping = x.sink_stopping; filt_stopping = 
                     (b x); src_running = x.src_running; sink_running =
                     x.sink_running; filt_running = x.filt_running; s_pc =
                     x.s_pc; k_pc = x.k_pc; f_pc = x.f_pc; c_stop = x.c_stop;
                     c_start = x.c_start; iframe = x.iframe; base = x.base;
                     delivered = x.delivered; stored = x.stored; sto_failed =
                     x.sto_failed; seen = x.seen; aborted = x.aborted;
                     cam_failed = x.cam_failed; acq_on = x.acq_on; src_on =
                     x.src_on; goal = x.goal; mon_fresh = x.mon_fresh;
                     dropped = x.dropped; cam_starts = x.cam_starts;
                     cam_stops = x.cam_stops; sto_starts = x.sto_starts;
                     sto_stops = x.sto_stops })) (fun _ -> true) s)))
  else s

(** val is_start_failure : sev -> bool **)

let is_start_failure = function
| DStoStart (_, ok) -> if ok then false else true
| DCamStart (_, ok, _) -> if ok then false else true
| StartRefused _ -> true
| _ -> false

(** val devs_stopped : stream -> bool **)

let devs_stopped s =
  (||) (negb s.valid)
    ((&&) (negb (hst_eqb s.cam_st HRunning))
      (negb (hst_eqb s.sto_st HRunning)))

(** val all_closed : stream -> bool **)

let all_closed s =
  match s.cam with
  | Some _ -> false
  | None -> (match s.sto with
             | Some _ -> false
             | None -> true)

(** val hmax : hst -> hst -> hst **)

let hmax a b =
  match a with
  | HAwait -> b
  | HArmed -> (match b with
               | HAwait -> HArmed
               | x -> x)
  | HRunning -> HRunning

(** val step : sys -> event -> sys option **)

let step y = function
| EvS (i, a, e) ->
  let s = if i then y.st1 else y.st0 in
  if (&&)
       ((&&) i
         (match y.in_call with
          | InStart -> negb (started_ok y.st0)
          | _ -> false))
       (match a with
        | ACli ->
          (match s.c_start with
           | TNone -> false
           | TDone -> false
           | TFailed -> false
           | _ -> true)
        | _ -> false)
  then None
  else (match step_stream s a e with
        | Some s' ->
          let y' =
            if i
            then set (fun s0 -> s0.st1) (fun f ->
                   let s0 = fun r -> f r.st1 in
                   (fun x -> { st0 = x.st0; st1 = (s0 x); api = x.api;
                   in_call = x.in_call })) (fun _ -> s') y
            else set (fun s0 -> s0.st0) (fun f ->
                   let s0 = fun r -> f r.st0 in
                   (fun x -> { st0 = (s0 x); st1 = x.st1; api = x.api;
                   in_call = x.in_call })) (fun _ -> s') y
          in
          Some
          (if is_start_failure e
           then set (fun s0 -> s0.in_call) (fun f ->
                  let c = fun r -> f r.in_call in
                  (fun x -> { st0 = x.st0; st1 = x.st1; api = x.api;
                  in_call = (c x) })) (fun _ -> InStartFail)
                  (set (fun s0 -> s0.st1) (fun f ->
                    let s0 = fun r -> f r.st1 in
                    (fun x -> { st0 = x.st0; st1 = (s0 x); api = x.api;
                    in_call = x.in_call })) fail_start
                    (set (fun s0 -> s0.st0) (fun f ->
                      let s0 = fun r -> f r.st0 in
                      (fun x -> { st0 = (s0 x); st1 = x.st1; api = x.api;
                      in_call = x.in_call })) fail_start y'))
           else y')
        | None -> None)
| EvG g ->
  (match g with
   | GConfigure (v0, v1, n0, n1) ->
     (match y.in_call with
      | InIdle ->
        if (&&) (workers_idle y.st0) (workers_idle y.st1)
        then Some
               (set (fun s -> s.api) (fun f ->
                 let h = fun r -> f r.api in
                 (fun x -> { st0 = x.st0; st1 = x.st1; api = (h x); in_call =
                 x.in_call })) (fun _ ->
                 if (||) v0 v1 then hmax y.api HArmed else HAwait)
                 (set (fun s -> s.st1) (fun f ->
                   let s = fun r -> f r.st1 in
                   (fun x -> { st0 = x.st0; st1 = (s x); api = x.api;
                   in_call = x.in_call })) (fun _ ->
                   set (fun s -> s.maxn) (fun f ->
                     let n2 = fun r -> f r.maxn in
                     (fun x -> { valid = x.valid; maxn = (n2 x); cam = x.cam;
                     cam_st = x.cam_st; sto = x.sto; sto_st = x.sto_st;
                     cam_tag = x.cam_tag; cam_next = x.cam_next; log = x.log;
                     accepting = x.accepting; sink_reg = x.sink_reg;
                     sink_cur = x.sink_cur; sink_map = x.sink_map; mon_reg =
                     x.mon_reg; mon_cur = x.mon_cur; mon_map = x.mon_map;
                     src_stopping = x.src_stopping; abort_win = x.abort_win;
                     sink_stopping = x.sink_stopping; filt_stopping =
                     x.filt_stopping; src_running = x.src_running;
                     sink_running = x.sink_running; filt_running =
                     x.filt_running; s_pc = x.s_pc; k_pc = x.k_pc; f_pc =
                     x.f_pc; c_stop = x.c_stop; c_start = x.c_start; iframe =
                     x.iframe; base = x.base; delivered = x.delivered;
                     stored = x.stored; sto_failed = x.sto_failed; seen =
                     x.seen; aborted = x.aborted; cam_failed = x.cam_failed;
                     acq_on = x.acq_on; src_on = x.src_on; goal = x.goal;
                     mon_fresh = x.mon_fresh; dropped = x.dropped;
                     cam_starts = x.cam_starts; cam_stops = x.cam_stops;
                     sto_starts = x.sto_starts; sto_stops = x.sto_stops }))
                     (fun _ -> n1)
                     (set (fun s -> s.valid) (fun f ->
                       let b = fun r -> f r.valid in
                       (fun x -> { valid = (b x); maxn = x.maxn; cam = x.cam;
                       cam_st = x.cam_st; sto = x.sto; sto_st = x.sto_st;
                       cam_tag = x.cam_tag; cam_next = x.cam_next; log =
                       x.log; accepting = x.accepting; sink_reg = x.sink_reg;
                       sink_cur = x.sink_cur; sink_map = x.sink_map;
                       mon_reg = x.mon_reg; mon_cur = x.mon_cur; mon_map =
                       x.mon_map; src_stopping = x.src_stopping; abort_win =
                       x.abort_win; sink_stopping = x.sink_stopping;
                       filt_stopping = x.filt_stopping; src_running =
                       x.src_running; sink_running = x.sink_running;
                       filt_running = x.filt_running; s_pc = x.s_pc; k_pc =
                       x.k_pc; f_pc = x.f_pc; c_stop = x.c_stop; c_start =
                       x.c_start; iframe = x.iframe; base = x.base;
                       delivered = x.delivered; stored = x.stored;
                       sto_failed = x.sto_failed; seen = x.seen; aborted =
                       x.aborted; cam_failed = x.cam_failed; acq_on =
                       x.acq_on; src_on = x.src_on; goal = x.goal;
                       mon_fresh = x.mon_fresh; dropped = x.dropped;
                       cam_starts = x.cam_starts; cam_stops = x.cam_stops;
                       sto_starts = x.sto_starts; sto_stops = x.sto_stops }))
                       (fun _ -> v1) y.st1))
                   (set (fun s -> s.st0) (fun f ->
                     let s = fun r -> f r.st0 in
                     (fun x -> { st0 = (s x); st1 = x.st1; api = x.api;
                     in_call = x.in_call })) (fun _ ->
                     set (fun s -> s.maxn) (fun f ->
                       let n2 = fun r -> f r.maxn in
                       (fun x -> { valid = x.valid; maxn = (n2 x); cam =
                       x.cam; cam_st = x.cam_st; sto = x.sto; sto_st =
                       x.sto_st; cam_tag = x.cam_tag; cam_next = x.cam_next;
                       log = x.log; accepting = x.accepting; sink_reg =
                       x.sink_reg; sink_cur = x.sink_cur; sink_map =
                       x.sink_map; mon_reg = x.mon_reg; mon_cur = x.mon_cur;
                       mon_map = x.mon_map; src_stopping = x.src_stopping;
                       abort_win = x.abort_win; sink_stopping =
                       x.sink_stopping; filt_stopping = x.filt_stopping;
                       src_running = x.src_running; sink_running =
                       x.sink_running; filt_running = x.filt_running; s_pc =
                       x.s_pc; k_pc = x.k_pc; f_pc = x.f_pc; c_stop =
                       x.c_stop; c_start = x.c_start; iframe = x.iframe;
                       base = x.base; delivered = x.delivered; stored =
                       x.stored; sto_failed = x.sto_failed; seen = x.seen;
                       aborted = x.aborted; cam_failed = x.cam_failed;
                       acq_on = x.acq_on; src_on = x.src_on; goal = x.goal;
                       mon_fresh = x.mon_fresh; dropped = x.dropped;
                       cam_starts = x.cam_starts; cam_stops = x.cam_stops;
                       sto_starts = x.sto_starts; sto_stops = x.sto_stops }))
                       (fun _ -> n0)
                       (set (fun s -> s.valid) (fun f ->
                         let b = fun r -> f r.valid in
                         (fun x -> { valid = (b x); maxn = x.maxn; cam =
                         x.cam; cam_st = x.cam_st; sto = x.sto; sto_st =
                         x.sto_st; cam_tag = x.cam_tag; cam_next =
                         x.cam_next; log = x.log; accepting = x.accepting;
                         sink_reg = x.sink_reg; sink_cur = x.sink_cur;
                         sink_map = x.sink_map; mon_reg = x.mon_reg;
                         mon_cur = x.mon_cur; mon_map = x.mon_map;
                         src_stopping = x.src_stopping; abort_win =
                         x.abort_win; sink_stopping = x.sink_stopping;
                         filt_stopping = x.filt_stopping; src_running =
                         x.src_running; sink_running = x.sink_running;
                         filt_running = x.filt_running; s_pc = x.s_pc; k_pc =
                         x.k_pc; f_pc = x.f_pc; c_stop = x.c_stop; c_start =
                         x.c_start; iframe = x.iframe; base = x.base;
                         delivered = x.delivered; stored = x.stored;
                         sto_failed = x.sto_failed; seen = x.seen; aborted =
                         x.aborted; cam_failed = x.cam_failed; acq_on =
                         x.acq_on; src_on = x.src_on; goal = x.goal;
                         mon_fresh = x.mon_fresh; dropped = x.dropped;
                         cam_starts = x.cam_starts; cam_stops = x.cam_stops;
                         sto_starts = x.sto_starts; sto_stops = x.sto_stops }))
                         (fun _ -> v0) y.st0)) y)))
        else None
      | _ -> None)
   | GStartCall ->
     (match y.in_call with
      | InIdle ->
        if (||) y.st0.valid y.st1.valid
        then if (&&) (workers_idle y.st0) (workers_idle y.st1)
             then Some
                    (set (fun s -> s.st1) (fun f ->
                      let s = fun r -> f r.st1 in
                      (fun x -> { st0 = x.st0; st1 = (s x); api = x.api;
                      in_call = x.in_call })) begin_start
                      (set (fun s -> s.st0) (fun f ->
                        let s = fun r -> f r.st0 in
                        (fun x -> { st0 = (s x); st1 = x.st1; api = x.api;
                        in_call = x.in_call })) begin_start
                        (set (fun s -> s.in_call) (fun f ->
                          let c = fun r -> f r.in_call in
                          (fun x -> { st0 = x.st0; st1 = x.st1; api = x.api;
                          in_call = (c x) })) (fun _ -> InStart) y)))
             else Some
                    (set (fun s -> s.in_call) (fun f ->
                      let c = fun r -> f r.in_call in
                      (fun x -> { st0 = x.st0; st1 = x.st1; api = x.api;
                      in_call = (c x) })) (fun _ -> InStartBusy) y)
        else Some
               (set (fun s -> s.in_call) (fun f ->
                 let c = fun r -> f r.in_call in
                 (fun x -> { st0 = x.st0; st1 = x.st1; api = x.api; in_call =
                 (c x) })) (fun _ -> InStartFail) y)
      | _ -> None)
   | GStartRet ok ->
     (match y.in_call with
      | InStart ->
        if (&&) ((&&) ok (started_ok y.st0)) (started_ok y.st1)
        then Some
               (set (fun s -> s.st1) (fun f ->
                 let s = fun r -> f r.st1 in
                 (fun x -> { st0 = x.st0; st1 = (s x); api = x.api; in_call =
                 x.in_call }))
                 (set (fun s -> s.c_start) (fun f ->
                   let c = fun r -> f r.c_start in
                   (fun x -> { valid = x.valid; maxn = x.maxn; cam = x.cam;
                   cam_st = x.cam_st; sto = x.sto; sto_st = x.sto_st;
                   cam_tag = x.cam_tag; cam_next = x.cam_next; log = x.log;
                   accepting = x.accepting; sink_reg = x.sink_reg; sink_cur =
                   x.sink_cur; sink_map = x.sink_map; mon_reg = x.mon_reg;
                   mon_cur = x.mon_cur; mon_map = x.mon_map; src_stopping =
                   x.src_stopping; abort_win = x.abort_win; sink_stopping =
                   x.sink_stopping; filt_stopping = x.filt_stopping;
                   src_running = x.src_running; sink_running =
                   x.sink_running; filt_running = x.filt_running; s_pc =
                   x.s_pc; k_pc = x.k_pc; f_pc = x.f_pc; c_stop = x.c_stop;
                   c_start = (c x); iframe = x.iframe; base = x.base;
                   delivered = x.delivered; stored = x.stored; sto_failed =
                   x.sto_failed; seen = x.seen; aborted = x.aborted;
                   cam_failed = x.cam_failed; acq_on = x.acq_on; src_on =
                   x.src_on; goal = x.goal; mon_fresh = x.mon_fresh;
                   dropped = x.dropped; cam_starts = x.cam_starts;
                   cam_stops = x.cam_stops; sto_starts = x.sto_starts;
                   sto_stops = x.sto_stops })) (fun _ -> TNone))
                 (set (fun s -> s.st0) (fun f ->
                   let s = fun r -> f r.st0 in
                   (fun x -> { st0 = (s x); st1 = x.st1; api = x.api;
                   in_call = x.in_call }))
                   (set (fun s -> s.c_start) (fun f ->
                     let c = fun r -> f r.c_start in
                     (fun x -> { valid = x.valid; maxn = x.maxn; cam = x.cam;
                     cam_st = x.cam_st; sto = x.sto; sto_st = x.sto_st;
                     cam_tag = x.cam_tag; cam_next = x.cam_next; log = x.log;
                     accepting = x.accepting; sink_reg = x.sink_reg;
                     sink_cur = x.sink_cur; sink_map = x.sink_map; mon_reg =
                     x.mon_reg; mon_cur = x.mon_cur; mon_map = x.mon_map;
                     src_stopping = x.src_stopping; abort_win = x.abort_win;
                     sink_stopping = x.sink_stopping; filt_stopping =
                     x.filt_stopping; src_running = x.src_running;
                     sink_running = x.sink_running; filt_running =
                     x.filt_running; s_pc = x.s_pc; k_pc = x.k_pc; f_pc =
                     x.f_pc; c_stop = x.c_stop; c_start = (c x); iframe =
                     x.iframe; base = x.base; delivered = x.delivered;
                     stored = x.stored; sto_failed = x.sto_failed; seen =
                     x.seen; aborted = x.aborted; cam_failed = x.cam_failed;
                     acq_on = x.acq_on; src_on = x.src_on; goal = x.goal;
                     mon_fresh = x.mon_fresh; dropped = x.dropped;
                     cam_starts = x.cam_starts; cam_stops = x.cam_stops;
                     sto_starts = x.sto_starts; sto_stops = x.sto_stops }))
                     (fun _ -> TNone))
                   (set (fun s -> s.api) (fun f ->
                     let h = fun r -> f r.api in
                     (fun x -> { st0 = x.st0; st1 = x.st1; api = (h x);
                     in_call = x.in_call })) (fun _ -> HRunning)
                     (set (fun s -> s.in_call) (fun f ->
                       let c = fun r -> f r.in_call in
                       (fun x -> { st0 = x.st0; st1 = x.st1; api = x.api;
                       in_call = (c x) })) (fun _ -> InIdle) y))))
        else None
      | InStartFail ->
        if (&&)
             ((&&)
               ((&&) ((&&) (negb ok) (stopped_ok y.st0)) (stopped_ok y.st1))
               (devs_stopped y.st0)) (devs_stopped y.st1)
        then Some
               (set (fun s -> s.st1) (fun f ->
                 let s = fun r -> f r.st1 in
                 (fun x -> { st0 = x.st0; st1 = (s x); api = x.api; in_call =
                 x.in_call })) end_stop
                 (set (fun s -> s.st0) (fun f ->
                   let s = fun r -> f r.st0 in
                   (fun x -> { st0 = (s x); st1 = x.st1; api = x.api;
                   in_call = x.in_call })) end_stop
                   (set (fun s -> s.api) (fun f ->
                     let h = fun r -> f r.api in
                     (fun x -> { st0 = x.st0; st1 = x.st1; api = (h x);
                     in_call = x.in_call })) (fun _ -> HAwait)
                     (set (fun s -> s.in_call) (fun f ->
                       let c = fun r -> f r.in_call in
                       (fun x -> { st0 = x.st0; st1 = x.st1; api = x.api;
                       in_call = (c x) })) (fun _ -> InIdle) y))))
        else None
      | _ -> None)
   | GStartRefused ->
     (match y.in_call with
      | InStartBusy ->
        let s = if y.st0.valid then y.st0 else y.st1 in
        if hst_eqb s.sto_st HRunning
        then Some
               (set (fun s0 -> s0.in_call) (fun f ->
                 let c = fun r -> f r.in_call in
                 (fun x -> { st0 = x.st0; st1 = x.st1; api = x.api; in_call =
                 (c x) })) (fun _ -> InStartFail)
                 (set (fun s0 -> s0.st1) (fun f ->
                   let s0 = fun r -> f r.st1 in
                   (fun x -> { st0 = x.st0; st1 = (s0 x); api = x.api;
                   in_call = x.in_call })) fail_start
                   (set (fun s0 -> s0.st0) (fun f ->
                     let s0 = fun r -> f r.st0 in
                     (fun x -> { st0 = (s0 x); st1 = x.st1; api = x.api;
                     in_call = x.in_call })) fail_start y)))
        else None
      | _ -> None)
   | GStopCall ->
     (match y.in_call with
      | InIdle ->
        Some
          (set (fun s -> s.st1) (fun f ->
            let s = fun r -> f r.st1 in
            (fun x -> { st0 = x.st0; st1 = (s x); api = x.api; in_call =
            x.in_call })) (begin_stop false)
            (set (fun s -> s.st0) (fun f ->
              let s = fun r -> f r.st0 in
              (fun x -> { st0 = (s x); st1 = x.st1; api = x.api; in_call =
              x.in_call })) (begin_stop false)
              (set (fun s -> s.in_call) (fun f ->
                let c = fun r -> f r.in_call in
                (fun x -> { st0 = x.st0; st1 = x.st1; api = x.api; in_call =
                (c x) })) (fun _ -> InStop) y)))
      | _ -> None)
   | GStopRet ->
     (match y.in_call with
      | InStop ->
        if (&&) (stopped_ok y.st0) (stopped_ok y.st1)
        then Some
               (set (fun s -> s.st1) (fun f ->
                 let s = fun r -> f r.st1 in
                 (fun x -> { st0 = x.st0; st1 = (s x); api = x.api; in_call =
                 x.in_call })) end_stop
                 (set (fun s -> s.st0) (fun f ->
                   let s = fun r -> f r.st0 in
                   (fun x -> { st0 = (s x); st1 = x.st1; api = x.api;
                   in_call = x.in_call })) end_stop
                   (set (fun s -> s.api) (fun f ->
                     let h = fun r -> f r.api in
                     (fun x -> { st0 = x.st0; st1 = x.st1; api = (h x);
                     in_call = x.in_call })) (fun _ -> HArmed)
                     (set (fun s -> s.in_call) (fun f ->
                       let c = fun r -> f r.in_call in
                       (fun x -> { st0 = x.st0; st1 = x.st1; api = x.api;
                       in_call = (c x) })) (fun _ -> InIdle) y))))
        else None
      | _ -> None)
   | GAbortCall ->
     (match y.in_call with
      | InIdle ->
        Some
          (set (fun s -> s.st1) (fun f ->
            let s = fun r -> f r.st1 in
            (fun x -> { st0 = x.st0; st1 = (s x); api = x.api; in_call =
            x.in_call })) (begin_stop true)
            (set (fun s -> s.st0) (fun f ->
              let s = fun r -> f r.st0 in
              (fun x -> { st0 = (s x); st1 = x.st1; api = x.api; in_call =
              x.in_call })) (begin_stop true)
              (set (fun s -> s.in_call) (fun f ->
                let c = fun r -> f r.in_call in
                (fun x -> { st0 = x.st0; st1 = x.st1; api = x.api; in_call =
                (c x) })) (fun _ -> InAbort) y)))
      | _ -> None)
   | GAbortRet ->
     (match y.in_call with
      | InAbort ->
        if (&&) (stopped_ok y.st0) (stopped_ok y.st1)
        then Some
               (set (fun s -> s.st1) (fun f ->
                 let s = fun r -> f r.st1 in
                 (fun x -> { st0 = x.st0; st1 = (s x); api = x.api; in_call =
                 x.in_call })) end_stop
                 (set (fun s -> s.st0) (fun f ->
                   let s = fun r -> f r.st0 in
                   (fun x -> { st0 = (s x); st1 = x.st1; api = x.api;
                   in_call = x.in_call })) end_stop
                   (set (fun s -> s.api) (fun f ->
                     let h = fun r -> f r.api in
                     (fun x -> { st0 = x.st0; st1 = x.st1; api = (h x);
                     in_call = x.in_call })) (fun _ -> HArmed)
                     (set (fun s -> s.in_call) (fun f ->
                       let c = fun r -> f r.in_call in
                       (fun x -> { st0 = x.st0; st1 = x.st1; api = x.api;
                       in_call = (c x) })) (fun _ -> InIdle) y))))
        else None
      | _ -> None)
   | GShutdownCall ->
     (match y.in_call with
      | InIdle ->
        Some
          (set (fun s -> s.st1) (fun f ->
            let s = fun r -> f r.st1 in
            (fun x -> { st0 = x.st0; st1 = (s x); api = x.api; in_call =
            x.in_call })) (begin_stop true)
            (set (fun s -> s.st0) (fun f ->
              let s = fun r -> f r.st0 in
              (fun x -> { st0 = (s x); st1 = x.st1; api = x.api; in_call =
              x.in_call })) (begin_stop true)
              (set (fun s -> s.in_call) (fun f ->
                let c = fun r -> f r.in_call in
                (fun x -> { st0 = x.st0; st1 = x.st1; api = x.api; in_call =
                (c x) })) (fun _ -> InShutdown) y)))
      | _ -> None)
   | GShutdownRet ->
     (match y.in_call with
      | InShutdown ->
        if (&&)
             ((&&)
               ((&&)
                 ((&&) ((&&) (stopped_ok y.st0) (stopped_ok y.st1))
                   (workers_idle y.st0)) (workers_idle y.st1))
               (all_closed y.st0)) (all_closed y.st1)
        then Some
               (set (fun s -> s.st1) (fun f ->
                 let s = fun r -> f r.st1 in
                 (fun x -> { st0 = x.st0; st1 = (s x); api = x.api; in_call =
                 x.in_call })) end_stop
                 (set (fun s -> s.st0) (fun f ->
                   let s = fun r -> f r.st0 in
                   (fun x -> { st0 = (s x); st1 = x.st1; api = x.api;
                   in_call = x.in_call })) end_stop
                   (set (fun s -> s.api) (fun f ->
                     let h = fun r -> f r.api in
                     (fun x -> { st0 = x.st0; st1 = x.st1; api = (h x);
                     in_call = x.in_call })) (fun _ -> HAwait)
                     (set (fun s -> s.in_call) (fun f ->
                       let c = fun r -> f r.in_call in
                       (fun x -> { st0 = x.st0; st1 = x.st1; api = x.api;
                       in_call = (c x) })) (fun _ -> InIdle) y))))
        else None
      | _ -> None)
   | GState st ->
     (match y.api with
      | HRunning ->
        let r = (||) (any_running y.st0) (any_running y.st1) in
        let want = if r then HRunning else HArmed in
        if hst_eqb st want
        then Some
               (set (fun s -> s.api) (fun f ->
                 let h = fun r0 -> f r0.api in
                 (fun x -> { st0 = x.st0; st1 = x.st1; api = (h x); in_call =
                 x.in_call })) (fun _ -> want) y)
        else None
      | x -> if hst_eqb st x then Some y else None))

(** val run : sys -> event list -> sys * nat **)

let rec run y = function
| [] -> (y, O)
| e :: tr' ->
  (match step y e with
   | Some y' -> let (z, n0) = run y' tr' in (z, (S n0))
   | None -> (y, O))

(** val accepts : sys -> event list -> sys option **)

let rec accepts y = function
| [] -> Some y
| e :: tr' -> (match step y e with
               | Some y' -> accepts y' tr'
               | None -> None)
