(* Properties_C06.v -- C06: the monitoring client sees a gap-free, duplicate-free, fresh frame sequence.
   Model, reachability and frame identities as in Properties_C04.v.  `seen s` is the list of frames the monitor reader
   has consumed (through acquire_unmap_read at frame boundaries) since the storage of the current acquisition was started;
   `mon_fresh s` records that the monitor reader was registered and drained at that moment -- which is what acquire_stop /
   acquire_abort establish (C06_flushed_at_return).  A monitor reader that registers for the first time in a later
   acquisition joins the ring at offset 0 of the current lap: the model admits that behaviour (mon_fresh = false) and the
   check records it as a known finding. *)
From Coq Require Import List Bool Arith NArith.
From Pipe Require Import PipeModel PipeFacts PipeInvDefs PipeStep PipeSysProps PipeRested PipeExamples.
Import ListNotations.

(* within an acquisition the frames the client has consumed are a run of consecutive frames of THIS acquisition's camera
   run: consecutive frame ids, this run's tag (payload), no gap, no repeat, no reordering, nothing stale *)
Theorem C06_consecutive_fresh : forall y i, reachable y -> let s := stream_of y i in mon_fresh s = true ->
  seen s = seg (delivered s) (mon_cur s - length (seen s) - base s) (length (seen s)) /\
  (forall k f, nth_error (seen s) k = Some f ->
     f_id f = N.of_nat (mon_cur s - length (seen s) - base s + k) /\ f_tag f = cam_tag s).
Proof. exact monitor_sees_run. Qed.
Print Assumptions C06_consecutive_fresh.

(* the client's presence or pace never changes what reaches storage *)
Theorem C06_no_effect_on_storage : forall s e s',
  mon_event e = true -> step_stream s ACli e = Some s' -> non_monitor_part s' = non_monitor_part s.
Proof. exact monitor_independent. Qed.
Print Assumptions C06_no_effect_on_storage.

(* once stop or abort has returned, a registered monitor reader is drained and holds nothing: nothing of that
   acquisition can be delivered later *)
Theorem C06_flushed_at_return : forall y g y' i,
  reachable y -> (g = GStopRet \/ g = GAbortRet) -> step y (EvG g) = Some y' ->
  let s := stream_of y' i in valid s = true -> mon_reg s = true -> mon_cur s = length (log s) /\ mon_map s = None.
Proof. exact monitor_flushed_at_return. Qed.
Print Assumptions C06_flushed_at_return.

(* ... and it is still drained -- hence fresh, `mon_fresh`, so that C06_consecutive_fresh applies -- when the storage of the next
   acquisition is started, whatever the client does in between (any accepted trace tr that does not itself start this stream's
   storage: map / unmap calls, configure, failed starts, further stops and aborts, the other stream's acquisitions): the first
   frame the client sees in the next acquisition is that acquisition's own *)
Theorem C06_fresh_in_next_acquisition : forall y g y1 i tr y2 n y3,
  reachable y -> (g = GStopRet \/ g = GAbortRet) -> step y (EvG g) = Some y1 ->
  valid (stream_of y1 i) = true -> mon_reg (stream_of y1 i) = true ->
  accepts y1 tr = Some y2 -> forallb (fun ev => negb (is_sto_start_of i ev)) tr = true ->
  step y2 (EvS i ACli (DStoStart n true)) = Some y3 ->
  mon_fresh (stream_of y3 i) = true.
Proof. exact fresh_in_next_acquisition. Qed.
Print Assumptions C06_fresh_in_next_acquisition.

(* the map call keeps succeeding: the model has no transition in which acquire_map_read reports an error *)
Theorem C06_map_never_fails : forall s ok s', step_stream s ACli (MonMapRet ok) = Some s' -> ok = true.
Proof. exact monitor_map_never_fails. Qed.
Print Assumptions C06_map_never_fails.

Example C06_example_fresh :
  match after tr_two_acqs before_second_stop with
  | Some y => let s := st0 y in mon_fresh s && Nat.leb 2 (length (seen s)) && mon_reg s
  | None => false
  end = true.
Proof. vm_compute. reflexivity. Qed.
