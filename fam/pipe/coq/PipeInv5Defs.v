(* PipeInv5Defs.v -- invariant group 5: the stop flags against the program counters (who has been told to stop), needed by
   the progress certificate of PipeLive.v.  Statements only. *)
From Coq Require Import List Bool Arith NArith Lia.
From RecordUpdate Require Import RecordSet.
From Pipe Require Import PipeModel PipeFacts PipeInvDefs.
Import ListNotations RecordSetNotations.

(* acquire_start has failed for this stream and the error path has not yet raised the stop flags (the two happen in one
   step of the system, so this is only ever visible between the stream's part and the system's part of that step) *)
Definition fail_pending (s : stream) : Prop := c_start s = TFailed /\ c_stop s = CNone.

(* the sink has been told to stop (or has no reason to go on): it is gone, or its stop flag is up, or its storage is not
   running, or it is already past its main loop *)
Definition sink_told (s : stream) : Prop :=
  kpc_idle (k_pc s) = true \/ sink_stopping s = true \/ sto_st s <> HRunning \/ post_main (k_pc s) = true.

Record Inv5 (s : stream) : Prop := {
  (* a source about to stop its camera still finds it running *)
  n_cam : match s_pc s with SFailStop | SWind2 => true | _ => false end = true -> cam_st s = HRunning;
  (* a source waiting for the filter has told it to stop *)
  n_filt : s_pc s = SWind1 -> f_pc s = FRun -> filt_stopping s = true;
  (* outside acquire_start, once the source is past the point where it tells the sink to stop (or there is no source): a filter
     that is still running has been told to stop, and so has the sink *)
  n_filt2 : src_quiet (s_pc s) = true -> f_pc s = FRun -> start_pre_src (c_start s) = false ->
            fail_pending s \/ (filt_stopping s = true /\ sink_told s);
  n_sink : src_quiet (s_pc s) = true -> fpc_idle (f_pc s) = true -> start_pre_src (c_start s) = false -> fail_pending s \/ sink_told s;
  (* acquire_start fails before the source thread exists *)
  n_fp : fail_pending s -> spc_idle (s_pc s) = true;
  (* an append that succeeded handed over at least one frame *)
  n_pend : match k_pc s with KMainAppended _ j => 1 <= j | KFlushAppended k => 1 <= k | _ => True end;
  (* as long as the sink is in its main loop, its flush or about to stop the storage, the storage is running *)
  n_sto : sink_has_sto (k_pc s) = true -> sto_st s = HRunning;
  (* writes are only ever refused together with a stop request to the source (abort sets both at once; the failing sink tells the
     source to stop before it refuses writes): a source still in its loop does not spin on refused writes *)
  n_acc : accepting s = false -> src_in_loop (s_pc s) = true -> src_stopping s = true;
  n_erracc : match k_pc s with KErrAccept _ => true | _ => false end = true -> src_in_loop (s_pc s) = true -> src_stopping s = true
}.
