(* PipeInv5.v -- preservation of invariant group 5 by every stream event and by the API bookkeeping. *)
From Coq Require Import List Bool Arith NArith Lia.
From RecordUpdate Require Import RecordSet.
From Pipe Require Import PipeModel PipeFacts PipeTac PipeInvDefs PipeInv5Defs.
Import ListNotations RecordSetNotations.

Lemma inv5_init : Inv5 init_stream.
Proof. constructor; unfold fail_pending, sink_told; cbn; auto; try discriminate; try congruence. Qed.

Ltac fin5 := solve [intuition (try discriminate; try congruence; try lia)].

Lemma inv5_step s a e s' : Inv1 s -> Inv2 s -> Inv3 s -> Inv5 s -> step_stream s a e = Some s' -> Inv5 s'.
Proof.
  intros H1 H2 H3 [] H.
  pose proof (i_start_src s H1) as Hss. pose proof (i_start_idle s H1) as Hsi. pose proof (i_cstop s H1) as Hcs. clear H1.
  pose proof (j_mid s H2) as Hjm. pose proof (l_acc s H3) as Hla. pose proof (l_acqon s H3) as Hlq. pose proof (l_noab s H3) as Hln. clear H2 H3.
  unfold fail_pending, sink_told in *.
  step_cases s H; unfold quiet, workers_idle, sink_finish in *; cbn in *; constructor; unfold fail_pending, sink_told; cbn;
    try reflexivity; try assumption; split_goal_ifs; cbn in *; try fin5.
  (* a failing camera start: the stop request is still CNone (the client is inside acquire_start) *)
  all: try (intros _ _ _; left; split; [reflexivity|]; destruct c_stop; try reflexivity; exfalso;
            match goal with J : _ <> CNone -> _ /\ true = false |- _ => destruct J as [_ X]; [discriminate | discriminate X] end).
  (* the filter is created while the source is idle *)
  all: try (intros X; rewrite X in *; specialize (Hss eq_refl); discriminate Hss).
Qed.
