(* PipeSysBeginStart.v -- one client-side bookkeeping step of the API preserves the stream invariant. *)
From Coq Require Import List Bool Arith NArith Lia.
From RecordUpdate Require Import RecordSet.
From Pipe Require Import PipeModel PipeFacts PipeTac PipeInvDefs PipeSysTac.
Import ListNotations RecordSetNotations.

Lemma sinv_begin_start s : SInv s -> workers_idle s = true -> c_stop s = CNone -> c_start s = TNone -> SInv (begin_start s).
Proof. intros Hs Hi Hc Ht. sinv_open Hs s. subst. destruct valid; sinv_tac. Qed.

