(* PipeInv2.v -- preservation of invariant group 2 (storage received the committed log from the base on; drained sink). *)
From Coq Require Import List Bool Arith NArith Lia.
From RecordUpdate Require Import RecordSet.
From Pipe Require Import PipeModel PipeFacts PipeTac PipeInvDefs.
Import ListNotations RecordSetNotations.

Lemma inv2_init : Inv2 init_stream.
Proof. constructor; cbn; auto; try discriminate; try congruence; intuition discriminate. Qed.

Lemma inv2_step s a e s' : Inv1 s -> Inv2 s -> step_stream s a e = Some s' -> Inv2 s'.
Proof.
  intros [] [] H.
  step_cases s H; unfold quiet, workers_idle, sink_finish, mon_k in *; cbn in *; constructor; unfold quiet, workers_idle, mon_k; cbn;
    try reflexivity; try assumption; split_goal_ifs; fin;
    try (apply stored_commit; [assumption | lia]);
    try (intros; eapply stored_app; [eassumption | eassumption | intuition lia]).
  all: try (intros; rewrite app_length; intuition lia).
  all: try match goal with
           | |- ?st ++ ?fs = seg ?l ?b _ =>
               match goal with
               | H1 : st = seg l b (length st), H2 : fs = seg l ?c (length fs) |- _ =>
                   apply (stored_app l st fs b c H1 H2); intuition lia
               end
           end.
  all: try (intros _;
            repeat match goal with J : true = true -> _ |- _ => specialize (J eq_refl) end;
            repeat match goal with J : _ /\ _ |- _ => destruct J end;
            match goal with
            | Hc : ?c = length ?l, H : ?fs = seg ?l ?c _ |- _ => rewrite Hc in H; apply seg_at_end in H; subst fs
            end; cbn; repeat split; auto).
Qed.
