(* PipeInv2.v -- data invariants of a stream: what storage received is the committed log from the acquisition's base on,
   the sink is drained whenever it is not running, commits stop before the sink's final read. *)
From Coq Require Import List Bool Arith NArith Lia.
From RecordUpdate Require Import RecordSet.
From Pipe Require Import PipeModel PipeFacts PipeTac PipeInv1.
Import ListNotations RecordSetNotations.

Definition start_sto_up (c : cstart) : bool :=
  match c with TStoStarted | TAccepted | TRegEnter | TRegMapped | TRegDone => true | _ => false end.

Record Inv2 (s : stream) : Prop := {
  j_unreg : sink_reg s = false -> log s = [] /\ sink_cur s = 0 /\ k_pc s = KOff;
  j_reg : match c_start s with TRegMapped | TRegDone => true | _ => false end = true -> sink_reg s = true;
  j_koff : k_pc s = KOff -> s_pc s = SOff /\ sink_cur s = 0 /\ stored s = [];
  j_soff : s_pc s = SOff -> log s = [];
  j_aftersink : start_pre_src (c_start s) = true -> k_pc s <> KOff;
  j_stored : stored s = seg (log s) (base s) (length (stored s));
  j_pos : sto_failed s = false -> sink_cur s + pending (k_pc s) = base s + length (stored s);
  j_drained : post_read (k_pc s) = true -> sink_cur s = length (log s);
  j_nocommit : post_main (k_pc s) = true -> accepting s = false \/ src_quiet (s_pc s) = true;
  j_stopflag : sink_stopping s = true -> src_quiet (s_pc s) = true;
  j_presink : start_sto_up (c_start s) = true ->
              sto_st s = HRunning /\ sto_failed s = false /\ stored s = [] /\ base s = length (log s) /\ src_on s = false;
  j_mid : start_pre_src (c_start s) = true ->
          sink_stopping s = false /\ sto_st s = HRunning /\ sink_cur s = length (log s) /\ sto_failed s = false /\
          base s = length (log s) /\ src_on s = false /\
          (k_pc s = KTest \/ k_pc s = KMainMapping \/ k_pc s = KMainMapped 0);
  j_main : in_main (k_pc s) = true -> sto_st s = HRunning /\ sto_failed s = false;
  j_err : in_err (k_pc s) = true -> sto_failed s = true;
  j_run : sto_st s = HRunning -> sto_failed s = false
}.

Lemma inv2_init : Inv2 init_stream.
Proof. constructor; cbn; auto; try discriminate; try congruence; intuition discriminate. Qed.

Lemma inv2_step s a e s' : Inv1 s -> Inv2 s -> step_stream s a e = Some s' -> Inv2 s'.
Proof.
  intros [] [] H.
  step_cases s H; unfold quiet, workers_idle, sink_finish, mon_k in *; cbn in *; constructor; unfold quiet, workers_idle, mon_k; cbn;
    try reflexivity; try assumption; split_goal_ifs; fin;
    try (apply stored_commit; [assumption | lia]);
    try (intros; eapply stored_app; [eassumption | eassumption | intuition lia]).
  all: try (intros; rewrite app_length; intuition lia).
  all: try match goal with
           | |- ?st ++ ?fs = seg ?l ?b _ =>
               match goal with
               | H1 : st = seg l b (length st), H2 : fs = seg l ?c (length fs) |- _ =>
                   apply (stored_app l st fs b c H1 H2); intuition lia
               end
           end.
  all: try (intros _;
            repeat match goal with J : true = true -> _ |- _ => specialize (J eq_refl) end;
            repeat match goal with J : _ /\ _ |- _ => destruct J end;
            match goal with
            | Hc : ?c = length ?l, H : ?fs = seg ?l ?c _ |- _ => rewrite Hc in H; apply seg_at_end in H; subst fs
            end; cbn; repeat split; auto).
Qed.
