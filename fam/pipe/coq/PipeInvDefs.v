(* PipeInvDefs.v -- the statements of the stream invariant (groups 1-4) and of the system invariant; no proofs.
   The four preservation proofs (PipeInv1..4) and the API-step lemmas (the PipeSys files) depend only on this file, so they compile in parallel. *)
From Coq Require Import List Bool Arith NArith Lia.
From RecordUpdate Require Import RecordSet.
From Pipe Require Import PipeModel PipeFacts.
Import ListNotations RecordSetNotations.
(* PipeInv1.v -- structural invariants of a stream: program counters vs flags, registration, cursors. *)

Definition mapped_k (p : kpc) : nat :=
  match p with
  | KMainMapped k | KMainAppended k _ | KFlushMapped k | KFlushAppended k | KErrCb k | KErrAccept k | KErrUnmap k
  | KDrainMapped k => k
  | _ => 0
  end.
Definition pending (p : kpc) : nat := match p with KMainAppended _ j => j | KFlushAppended k => k | _ => 0 end.
Definition post_read (p : kpc) : bool :=
  match p with KOff | KStop | KExiting | KDone | KFlushMapped 0 | KDrainMapped 0 => true | _ => false end.
Definition post_main (p : kpc) : bool :=
  match p with
  | KFlushMapping | KFlushMapped _ | KFlushAppended _ | KFlushAgain | KStop | KErrUnmap _ | KDrainAgain | KDrainMapping
  | KDrainMapped _ | KExiting | KDone => true
  | _ => false
  end.
Definition in_main (p : kpc) : bool :=
  match p with KTest | KMainMapping | KMainMapped _ | KMainAppended _ _ | KMainAgain => true | _ => false end.
Definition in_err (p : kpc) : bool :=
  match p with KErrCb _ | KErrAccept _ | KErrUnmap _ | KDrainAgain | KDrainMapping | KDrainMapped _ => true | _ => false end.
Definition src_quiet (p : spc) : bool := match p with SOff | SWind2 | SExiting | SDone => true | _ => false end.
Definition src_gone (p : spc) : bool := match p with SOff | SExiting | SDone => true | _ => false end.
Definition src_in_loop (p : spc) : bool := match p with SLoop | SWMap | SMapped | SGot _ => true | _ => false end.
Definition left_loop (p : spc) : bool := match p with SWind1 | SWind2 | SExiting | SDone => true | _ => false end.
Definition gotbit (p : spc) : nat := match p with SGot _ => 1 | _ => 0 end.
Definition ncommitted (s : stream) : nat := length (log s) - base s.
Definition start_pre_sink (c : cstart) : bool :=
  match c with TBegin | TStoStarted | TAccepted | TRegEnter | TRegMapped | TRegDone => true | _ => false end.
Definition start_pre_src (c : cstart) : bool := match c with TSinkUp | TFiltUp | TCamStarted => true | _ => false end.
Definition start_begun (c : cstart) : bool :=
  match c with TStoStarted | TAccepted | TRegEnter | TRegMapped | TRegDone | TSinkUp | TFiltUp | TCamStarted => true | _ => false end.
Definition mon_k (s : stream) : nat := match mon_map s with Some k => k | None => 0 end.

(* ---- group 1: flags mirror program counters; cursors stay inside the log *)
Record Inv1 (s : stream) : Prop := {
  i_base : base s <= length (log s);
  i_cur : sink_cur s + mapped_k (k_pc s) <= length (log s);
  i_pend : pending (k_pc s) <= mapped_k (k_pc s);
  i_map : sink_map s = if Nat.eqb (mapped_k (k_pc s)) 0 then None else Some (mapped_k (k_pc s));
  i_srun : src_running s = negb (src_gone (s_pc s));
  i_krun : sink_running s = negb (match k_pc s with KOff | KExiting | KDone => true | _ => false end);
  i_frun : filt_running s = match f_pc s with FRun => true | _ => false end;
  i_start_idle : start_pre_sink (c_start s) = true -> workers_idle s = true;
  i_start_src : start_pre_src (c_start s) = true -> spc_idle (s_pc s) = true;
  i_moncur : mon_cur s + mon_k s <= length (log s);
  i_monunreg : mon_reg s = false -> mon_map s = None /\ mon_cur s = 0;
  i_cstop : c_stop s <> CNone -> start_pre_sink (c_start s) = false /\ start_pre_src (c_start s) = false
}.


(* PipeInv2.v -- data invariants of a stream: what storage received is the committed log from the acquisition's base on,
   the sink is drained whenever it is not running, commits stop before the sink's final read. *)

Definition start_sto_up (c : cstart) : bool :=
  match c with TStoStarted | TAccepted | TRegEnter | TRegMapped | TRegDone => true | _ => false end.

Record Inv2 (s : stream) : Prop := {
  j_unreg : sink_reg s = false -> log s = [] /\ sink_cur s = 0 /\ k_pc s = KOff;
  j_reg : match c_start s with TRegMapped | TRegDone => true | _ => false end = true -> sink_reg s = true;
  j_koff : k_pc s = KOff -> s_pc s = SOff /\ sink_cur s = 0 /\ stored s = [];
  j_soff : s_pc s = SOff -> log s = [];
  j_aftersink : start_pre_src (c_start s) = true -> k_pc s <> KOff;
  j_stored : stored s = seg (log s) (base s) (length (stored s));
  j_pos : sto_failed s = false -> sink_cur s + pending (k_pc s) = base s + length (stored s);
  j_drained : post_read (k_pc s) = true -> sink_cur s = length (log s);
  j_nocommit : post_main (k_pc s) = true -> accepting s = false \/ src_quiet (s_pc s) = true;
  j_stopflag : sink_stopping s = true -> src_quiet (s_pc s) = true;
  j_presink : start_sto_up (c_start s) = true ->
              sto_st s = HRunning /\ sto_failed s = false /\ stored s = [] /\ base s = length (log s) /\ src_on s = false;
  j_mid : start_pre_src (c_start s) = true ->
          sink_stopping s = false /\ sto_st s = HRunning /\ sink_cur s = length (log s) /\ sto_failed s = false /\
          base s = length (log s) /\ src_on s = false /\
          (k_pc s = KTest \/ k_pc s = KMainMapping \/ k_pc s = KMainMapped 0);
  j_main : in_main (k_pc s) = true -> sto_st s = HRunning /\ sto_failed s = false;
  j_err : in_err (k_pc s) = true -> sto_failed s = true;
  j_run : sto_st s = HRunning -> sto_failed s = false
}.


(* PipeInv3.v -- the source's side: what is committed is a prefix of what the camera delivered, frame identities,
   the loop-exit cause; the monitor reader; the devices as the HAL sees them. *)

Definition src_has_cam (p : spc) : bool :=
  match p with SLoop | SWMap | SMapped | SGot _ | SFailStop | SWind1 | SWind2 => true | _ => false end.
Definition sink_has_sto (p : kpc) : bool :=
  match p with
  | KTest | KMainMapping | KMainMapped _ | KMainAppended _ _ | KMainAgain
  | KFlushMapping | KFlushMapped _ | KFlushAppended _ | KFlushAgain | KStop => true
  | _ => false
  end.
Definition in_flush_stop (c : cstop) : bool :=
  match c with CFlush0 | CFlush | CFlushMapping | CFlushMapped _ | CStopped => true | _ => false end.

Definition start_accepted (c : cstart) : bool :=
  match c with TAccepted | TRegEnter | TRegMapped | TRegDone | TSinkUp | TFiltUp | TCamStarted => true | _ => false end.

Record Inv3 (s : stream) : Prop := {
  l_next : cam_next s = N.of_nat (length (delivered s));
  l_deliv : forall n f, nth_error (delivered s) n = Some f ->
            f_id f = N.of_nat n /\ f_hw f = N.of_nat n /\ f_tag f = cam_tag s;
  l_iframe : src_on s = true -> iframe s = N.of_nat (length (delivered s));
  l_commit : skipn (base s) (log s) = firstn (ncommitted s) (delivered s);
  l_count : src_on s = true -> dropped s = false -> length (delivered s) = ncommitted s + gotbit (s_pc s);
  l_got : forall f, s_pc s = SGot f -> exists d, delivered s = d ++ [f];
  l_acc : acq_on s = true -> aborted s = false -> sto_failed s = false -> accepting s = true;
  l_drop : src_on s = true -> dropped s = true -> accepting s = false \/ src_in_loop (s_pc s) = false;
  l_dropc : src_on s = true -> dropped s = true -> aborted s = true \/ sto_failed s = true;
  l_camd : c_start s = TCamStarted -> delivered s = [];
  l_srcon : src_on s = true -> acq_on s = true /\ c_start s <> TCamStarted /\ start_sto_up (c_start s) = false /\
                               (c_start s = TFiltUp -> False) /\ (c_start s = TSinkUp -> False);
  l_alive : src_in_loop (s_pc s) = true -> src_on s = true /\ cam_st s = HRunning /\ maxn s = goal s;
  l_goal : src_on s = true -> (iframe s <= goal s)%N;
  l_exit : src_on s = true -> left_loop (s_pc s) = true -> aborted s = false -> sto_failed s = false -> cam_failed s = false ->
           (goal s <= iframe s)%N;
  l_sstop : src_on s = true -> src_stopping s = true -> aborted s = true \/ sto_failed s = true;
  l_win : src_on s = true -> abort_win s = true -> aborted s = true;
  l_leave : match s_pc s with SFailStop | SLeave => true | _ => false end = true -> cam_failed s = true;
  l_acqon : start_accepted (c_start s) = true -> acq_on s = true;
  l_noab : (start_accepted (c_start s) || match c_start s with TStoStarted => true | _ => false end) = true -> aborted s = false;
  l_lt : match s_pc s with SWMap | SMapped => true | _ => false end = true -> (iframe s < goal s)%N;
  l_le : ncommitted s <= length (delivered s);
  l_srcoff : src_on s = true -> s_pc s <> SOff
}.


(* PipeInv4.v -- the monitor reader and the devices as the HAL sees them. *)

Definition flush_idle (c : cstop) : bool :=
  match c with CFlush0 | CFlush | CFlushMapping | CFlushMapped _ | CStopped => true | _ => false end.
Definition start_cam_up (c : cstart) : bool := match c with TCamStarted | TFailed => true | _ => false end.
Definition start_sto_or_failed (c : cstart) : bool :=
  match c with TStoStarted | TAccepted | TRegEnter | TRegMapped | TRegDone | TFailed => true | _ => false end.

Record Inv4 (s : stream) : Prop := {
  m_seen : seen s = seg (log s) (mon_cur s - length (seen s)) (length (seen s)) /\ length (seen s) <= mon_cur s;
  m_unreg : mon_reg s = false -> seen s = [];
  m_fresh : mon_fresh s = true -> base s <= mon_cur s - length (seen s);
  m_idle : flush_idle (c_stop s) = true -> workers_idle s = true;
  m_flushed : match c_stop s with
              | CFlushMapped k => mon_map s = (if Nat.eqb k 0 then None else Some k) /\ (k = 0 -> mon_cur s = length (log s)) /\ mon_reg s = true
              | CStopped => mon_reg s = true -> mon_cur s = length (log s) /\ mon_map s = None
              | CFlush0 | CFlush | CFlushMapping => mon_reg s = true
              | _ => True
              end;
  d_cam : cam_st s = HRunning -> start_cam_up (c_start s) = true \/ src_has_cam (s_pc s) = true;
  d_sto : sto_st s = HRunning -> start_sto_or_failed (c_start s) = true \/ sink_has_sto (k_pc s) = true;
  d_camopen : cam s = None -> cam_st s = HAwait;
  d_stoopen : sto s = None -> sto_st s = HAwait
}.


Definition SInv (s : stream) : Prop := Inv1 s /\ Inv2 s /\ Inv3 s /\ Inv4 s.

(* what the API call in progress implies for a stream's client-side progress counters *)
Definition call_ok (c : call) (s : stream) : Prop :=
  match c with
  | InIdle | InStartBusy => c_stop s = CNone /\ c_start s = TNone
  | InStart => c_stop s = CNone /\ c_start s <> TFailed /\ (valid s = false -> c_start s = TNone)
  | InStartFail => (c_start s = TDone \/ c_start s = TFailed \/ c_start s = TNone) /\
                   (valid s = false -> c_stop s = CNone /\ c_start s = TNone)
  | InStop | InAbort | InShutdown => c_start s = TNone /\ (valid s = false -> c_stop s = CNone)
  end.

Record YInv (y : sys) : Prop := {
  y_s0 : SInv (st0 y);
  y_s1 : SInv (st1 y);
  y_c0 : call_ok (in_call y) (st0 y);
  y_c1 : call_ok (in_call y) (st1 y)
}.
